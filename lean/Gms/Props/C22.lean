import Gms.Model.ShowCreate
import Gms.Generated.C22

/-!
C22 — SHOW CREATE output recreates an identical object.

The model (`Gms/Model/ShowCreate.lean`) transliterates the schema formatter. This file proves the
*lexical* half of "the printed statement reads back as the same object", for all strings:

* `lexIdent_quote`      a back-quoted identifier printed by `QuoteIdentifier` reads back as the
                        identifier (and leaves the rest of the text), whatever characters it holds;
* `escapeSeq_eq`        the six consecutive `strings.ReplaceAll` of `EscapeSpecialCharactersInComment`
                        are one character map (no step re-escapes what an earlier step produced);
* `lexStr_escape`       a comment printed through that function reads back as the comment;
* `lexStr_strLit`       a string default printed by `Literal.String()` reads back as the string;
* `index_comment_round_trip` / `showKey_reads_back`  the comment of a secondary index goes through
                        the same function since the `fix:` commit, so it reads back too, for all
                        strings; `fixed_index_comment_unescaped` keeps the pre-fix printer's
                        behaviour on the old witness (`lexStr_raw_of_safe`: printed *without*
                        escaping, a string read back only when it held no quote and no backslash);
* `coll_round_trip`     the `CHARACTER SET` / `COLLATE` clauses `StringWithTableCollation` prints for a column
                        of collation `c` in a table of collation `t` resolve, given the table default `t`, back
                        to `c` — for every collation universe in which names identify collations;
                        `table_coll_round_trip` the same for `DEFAULT CHARSET=… COLLATE=…`;
                        `lexCollClause_specText` the clause text reads back as the optional names;
                        `collate_clause_needed` dropping `COLLATE` for a character set's default collation
                        without printing `CHARACTER SET` loses the collation (the recreated column inherits
                        the table's); `mysql_clause_round_trip` MySQL's way of dropping it is sound.
-/

set_option linter.unusedSimpArgs false

namespace Gms.ShowCreate

-- ---------------------------------------------------------------------------------------------
-- Identifiers

theorem head_ne {c : Char} {rest : Str} (h : rest.head? ≠ some c) : ∀ r1 : List Char, rest = c :: r1 → False := by
  intro r1 e; subst e; simp at h

theorem lexIdentBody_quote (s rest acc : Str) (h : rest.head? ≠ some '`') :
    lexIdentBody ((s.flatMap fun c => if c = '`' then ['`', '`'] else [c]) ++ '`' :: rest) acc
      = some (acc.reverse ++ s, rest) := by
  induction s generalizing acc with
  | nil =>
    simp only [List.flatMap_nil, List.nil_append, List.append_nil]
    exact lexIdentBody.eq_2 acc rest (head_ne h)
  | cons c s ih =>
    simp only [List.flatMap_cons]
    by_cases hc : c = '`'
    · subst hc
      simp only [if_true, List.cons_append, List.nil_append]
      rw [lexIdentBody.eq_1, ih]
      simp
    · simp only [hc, if_false, List.cons_append, List.nil_append]
      rw [lexIdentBody.eq_3 acc c _ (fun _ e _ => hc e) hc, ih]
      simp

/-- **Identifiers.** Whatever characters an identifier holds (back quotes included), its printed
form reads back as the identifier and hands the rest of the text to what follows. -/
theorem lexIdent_quote (s rest : Str) (h : rest.head? ≠ some '`') :
    lexIdent (quoteIdent s ++ rest) = some (s, rest) := by
  unfold quoteIdent lexIdent
  simp only [List.cons_append, List.append_assoc, List.singleton_append, List.nil_append]
  rw [lexIdentBody_quote s rest [] h]
  simp

theorem quoteIdent_injective {s t : Str} (h : quoteIdent s = quoteIdent t) : s = t := by
  have h1 := lexIdent_quote s [] (by simp)
  have h2 := lexIdent_quote t [] (by simp)
  rw [List.append_nil] at h1 h2
  rw [h, h2] at h1
  simpa using h1.symm

-- ---------------------------------------------------------------------------------------------
-- Comments and string literals

theorem replaceChar_nil (c : Char) (b : Str) : replaceChar c b [] = [] := rfl

theorem replaceChar_cons (c : Char) (b : Str) (x : Char) (s : Str) :
    replaceChar c b (x :: s) = (if x = c then b else [x]) ++ replaceChar c b s := by
  simp [replaceChar, List.flatMap_cons]

theorem replaceChar_append (c : Char) (b : Str) (s t : Str) :
    replaceChar c b (s ++ t) = replaceChar c b s ++ replaceChar c b t := by
  simp [replaceChar, List.flatMap_append]

/-- **`EscapeSpecialCharactersInComment`** is one character map: none of the six replacements
touches a character an earlier one produced. -/
theorem escapeSeq_eq (s : Str) : escapeSeq s = escape s := by
  induction s with
  | nil => rfl
  | cons c s ih =>
    unfold escapeSeq escape at *
    simp only [replaceChar_cons, replaceChar_append, List.flatMap_cons]
    rw [ih]
    congr 1
    unfold escapeChar
    by_cases h1 : c = '\''
    · subst h1; decide
    · by_cases h2 : c = '\\'
      · subst h2; decide
      · by_cases h3 : c = '"'
        · subst h3; decide
        · by_cases h4 : c = '\n'
          · subst h4; decide
          · by_cases h5 : c = '\r'
            · subst h5; decide
            · by_cases h6 : c = Char.ofNat 0
              · rw [h6]; decide
              · simp [h1, h2, h3, h4, h5, h6, replaceChar_cons, replaceChar_nil]

theorem lexStrBody_plain (c : Char) (rest acc : Str) (h1 : c ≠ '\'') (h2 : c ≠ '\\') :
    lexStrBody (c :: rest) acc = lexStrBody rest (c :: acc) :=
  lexStrBody.eq_5 acc c rest (fun _ e _ => h1 e) h1 (fun _ _ e _ => h2 e) (fun e _ => h2 e)

theorem escape_cons (c : Char) (s : Str) : escape (c :: s) = escapeChar c ++ escape s := by
  simp [escape, List.flatMap_cons]

theorem lexStrBody_escape (s rest acc : Str) (h : rest.head? ≠ some '\'') :
    lexStrBody (escape s ++ '\'' :: rest) acc = some (acc.reverse ++ s, rest) := by
  induction s generalizing acc with
  | nil =>
    simp only [escape, List.flatMap_nil, List.nil_append, List.append_nil]
    exact lexStrBody.eq_2 acc rest (head_ne h)
  | cons c s ih =>
    rw [escape_cons]
    by_cases h1 : c = '\''
    · subst h1
      have e : escapeChar '\'' = ['\'', '\''] := by decide
      rw [e]; simp only [List.cons_append, List.nil_append]
      rw [lexStrBody.eq_1, ih]; simp
    · by_cases h2 : c = '\\'
      · subst h2
        have e : escapeChar '\\' = ['\\', '\\'] := by decide
        rw [e]; simp only [List.cons_append, List.nil_append]
        rw [lexStrBody.eq_3, ih]; simp [unescapeChar]
      · by_cases h3 : c = '"'
        · subst h3
          have e : escapeChar '"' = ['\\', '"'] := by decide
          rw [e]; simp only [List.cons_append, List.nil_append]
          rw [lexStrBody.eq_3, ih]; simp [unescapeChar]
        · by_cases h4 : c = '\n'
          · subst h4
            have e : escapeChar '\n' = ['\\', 'n'] := by decide
            rw [e]; simp only [List.cons_append, List.nil_append]
            rw [lexStrBody.eq_3, ih]
            have : unescapeChar 'n' = '\n' := by decide
            simp [this]
          · by_cases h5 : c = '\r'
            · subst h5
              have e : escapeChar '\r' = ['\\', 'r'] := by decide
              rw [e]; simp only [List.cons_append, List.nil_append]
              rw [lexStrBody.eq_3, ih]
              have : unescapeChar 'r' = '\r' := by decide
              simp [this]
            · by_cases h6 : c = Char.ofNat 0
              · rw [h6]
                have e : escapeChar (Char.ofNat 0) = ['\\', '0'] := by decide
                rw [e]; simp only [List.cons_append, List.nil_append]
                rw [lexStrBody.eq_3, ih]
                have : unescapeChar '0' = Char.ofNat 0 := by decide
                simp [this]
              · have e : escapeChar c = [c] := by simp [escapeChar, h1, h2, h3, h4, h5, h6]
                rw [e]; simp only [List.cons_append, List.nil_append]
                rw [lexStrBody_plain c _ acc h1 h2, ih]; simp

/-- **Comments.** A column or table comment printed through `EscapeSpecialCharactersInComment`
reads back as the comment, whatever characters it holds. -/
theorem lexStr_escape (s rest : Str) (h : rest.head? ≠ some '\'') :
    lexStr ('\'' :: escapeSeq s ++ '\'' :: rest) = some (s, rest) := by
  rw [escapeSeq_eq]
  unfold lexStr
  simp only [List.cons_append]
  rw [lexStrBody_escape s rest [] h]
  simp

theorem lexStrBody_strLit (s rest acc : Str) (h : rest.head? ≠ some '\'') :
    lexStrBody ((s.flatMap fun c => if c = '\'' then ['\'', '\''] else if c = '\\' then ['\\', '\\'] else [c]) ++ '\'' :: rest) acc
      = some (acc.reverse ++ s, rest) := by
  induction s generalizing acc with
  | nil =>
    simp only [List.flatMap_nil, List.nil_append, List.append_nil]
    exact lexStrBody.eq_2 acc rest (head_ne h)
  | cons c s ih =>
    simp only [List.flatMap_cons]
    by_cases h1 : c = '\''
    · subst h1
      simp only [if_true, List.cons_append, List.nil_append]
      rw [lexStrBody.eq_1, ih]; simp
    · by_cases h2 : c = '\\'
      · subst h2
        simp only [h1, if_false, if_true, List.cons_append, List.nil_append]
        rw [lexStrBody.eq_3, ih]; simp [unescapeChar]
      · simp only [h1, h2, if_false, List.cons_append, List.nil_append]
        rw [lexStrBody_plain c _ acc h1 h2, ih]; simp

/-- **String defaults.** -/
theorem lexStr_strLit (s rest : Str) (h : rest.head? ≠ some '\'') :
    lexStr (strLit s ++ rest) = some (s, rest) := by
  unfold strLit lexStr
  simp only [List.cons_append, List.append_assoc, List.singleton_append, List.nil_append]
  rw [lexStrBody_strLit s rest [] h]
  simp

theorem lexStrBody_raw (s rest acc : Str) (hs : rawSafe s = true) (h : rest.head? ≠ some '\'') :
    lexStrBody (s ++ '\'' :: rest) acc = some (acc.reverse ++ s, rest) := by
  induction s generalizing acc with
  | nil => simpa using lexStrBody.eq_2 acc rest (head_ne h)
  | cons c s ih =>
    simp only [rawSafe, List.all_cons, Bool.and_eq_true, bne_iff_ne, ne_eq] at hs
    simp only [List.cons_append]
    rw [lexStrBody_plain c _ acc hs.1.1 hs.1.2, ih (c :: acc) (by simpa [rawSafe] using hs.2)]
    simp

/-- **Unescaped printing** (index comments before the `fix:` commit) reads back when the comment
holds neither a quote nor a backslash. -/
theorem lexStr_raw_of_safe (s rest : Str) (hs : rawSafe s = true) (h : rest.head? ≠ some '\'') :
    lexStr ('\'' :: s ++ '\'' :: rest) = some (s, rest) := by
  unfold lexStr
  simp only [List.cons_append]
  rw [lexStrBody_raw s rest [] hs h]
  simp


-- ---------------------------------------------------------------------------------------------
-- Character set / collation clauses

theorem findColl_name {env : List Coll} {n : Str} {c : Coll} (h : findColl env n = some c) : c.name = n := by
  unfold findColl at h
  have := List.find?_some h
  simpa using this

/-- The reader applied to what `StringWithTableCollation` prints gives the column's collation back. -/
theorem resolveColl_collSpecOf (env : List Coll) (t c : Coll)
    (hc : findColl env c.name = some c) (ht : findColl env t.name = some t) :
    resolveColl env t (collSpecOf t c) = some c := by
  by_cases hn : c.name = t.name
  · have hct : c = t := by
      rw [hn, ht] at hc
      exact (Option.some.inj hc).symm
    subst hct
    simp [resolveColl, collSpecOf]
  · by_cases hcs : c.cs = t.cs
    · simp [resolveColl, collSpecOf, hn, hcs, hc]
    · simp [resolveColl, collSpecOf, hn, hcs, hc]

theorem resolveColl_mysql (env : List Coll) (t c : Coll)
    (hc : findColl env c.name = some c) (ht : findColl env t.name = some t)
    (hd : c.isDflt = true → dfltColl env c.cs = some c) :
    resolveColl env t (collSpecMysql t c) = some c := by
  by_cases hn : c.name = t.name
  · have hct : c = t := by
      rw [hn, ht] at hc
      exact (Option.some.inj hc).symm
    subst hct
    simp [resolveColl, collSpecMysql]
  · by_cases hdf : c.isDflt = true
    · simp [resolveColl, collSpecMysql, hn, hdf, hd hdf]
    · simp [resolveColl, collSpecMysql, hn, hdf, hc]

-- the clause text

theorem dropPrefix_append (p s : Str) : dropPrefix p (p ++ s) = some s := by
  induction p with
  | nil => cases s <;> rfl
  | cons c p ih => simp [dropPrefix, ih]

theorem spanWord_append (w rest : Str) (hw : w.all isWordChar = true)
    (hr : ∀ c r, rest = c :: r → isWordChar c = false) : spanWord (w ++ rest) = (w, rest) := by
  induction w with
  | nil =>
    cases rest with
    | nil => rfl
    | cons c r => simp [spanWord, hr c r rfl]
  | cons c w ih =>
    simp only [List.all_cons, Bool.and_eq_true] at hw
    simp [spanWord, hw.1, ih hw.2]

/-- What may follow the clauses in a column definition: not a word character (the name must end) and
not one of the two clause keywords. -/
def ClauseEnd (rest : Str) : Prop :=
  (∀ c r, rest = c :: r → isWordChar c = false) ∧
  dropPrefix " CHARACTER SET ".toList rest = none ∧ dropPrefix " COLLATE ".toList rest = none

theorem lexKw_hit (kw w rest : Str) (hw : w.all isWordChar = true)
    (hr : ∀ c r, rest = c :: r → isWordChar c = false) : lexKw kw (kw ++ (w ++ rest)) = (some w, rest) := by
  unfold lexKw
  rw [dropPrefix_append]
  simp only []
  rw [spanWord_append w rest hw hr]

theorem lexKw_miss (kw s : Str) (h : dropPrefix kw s = none) : lexKw kw s = (none, s) := by
  unfold lexKw
  rw [h]

theorem dropPrefix_cs_collate (x : Str) : dropPrefix " CHARACTER SET ".toList (" COLLATE ".toList ++ x) = none := by
  simp [dropPrefix]

theorem space_not_word (x : Str) : ∀ c r, (" COLLATE ".toList ++ x : Str) = c :: r → isWordChar c = false := by
  intro c r h
  have h1 : (" COLLATE ".toList ++ x : Str) = ' ' :: ("COLLATE ".toList ++ x) := by simp
  rw [h1] at h
  injection h with h2 _
  rw [← h2]; decide

/-- **The clause text reads back**: ` CHARACTER SET <cs>` / ` COLLATE <name>` in any of the four
combinations, followed by anything that may follow a type in a column definition. -/
theorem lexCollClause_specText' (s : CollSpec) (rest : Str)
    (hcs : ∀ n, s.cs = some n → n.all isWordChar = true)
    (hco : ∀ n, s.coll = some n → n.all isWordChar = true)
    (hr : ClauseEnd rest) :
    lexCollClause (specText s ++ rest) = (s, rest) := by
  obtain ⟨cs, co⟩ := s
  obtain ⟨hr1, hr2, hr3⟩ := hr
  cases cs with
  | none =>
    cases co with
    | none =>
      simp only [lexCollClause, specText, List.nil_append, List.append_nil]
      rw [lexKw_miss _ _ hr2]
      simp only []
      rw [lexKw_miss _ _ hr3]
    | some n =>
      have hn := hco n rfl
      simp only [lexCollClause, specText, List.nil_append, List.append_assoc]
      rw [lexKw_miss _ _ (dropPrefix_cs_collate _)]
      simp only []
      rw [lexKw_hit _ n rest hn hr1]
  | some m =>
    have hm := hcs m rfl
    cases co with
    | none =>
      simp only [lexCollClause, specText, List.append_nil, List.append_assoc]
      rw [lexKw_hit _ m rest hm hr1]
      simp only []
      rw [lexKw_miss _ _ hr3]
    | some n =>
      have hn := hco n rfl
      simp only [lexCollClause, specText, List.append_assoc]
      rw [lexKw_hit _ m _ hm (space_not_word _)]
      simp only []
      rw [lexKw_hit _ n rest hn hr1]

end Gms.ShowCreate

-- =============================================================================================
-- The property theorems

namespace Gms.C22
open Gms.ShowCreate

/-- **Identifiers read back** (`QuoteIdentifier`), for all strings. -/
theorem ident_round_trip (s rest : Str) (h : rest.head? ≠ some '`') :
    lexIdent (quoteIdent s ++ rest) = some (s, rest) := lexIdent_quote s rest h

/-- **Column and table comments read back** (`EscapeSpecialCharactersInComment`), for all strings. -/
theorem comment_round_trip (s rest : Str) (h : rest.head? ≠ some '\'') :
    lexStr ('\'' :: escapeSeq s ++ '\'' :: rest) = some (s, rest) := lexStr_escape s rest h

/-- **String defaults read back** (`Literal.String()`), for all strings. -/
theorem default_round_trip (s rest : Str) (h : rest.head? ≠ some '\'') :
    lexStr (strLit s ++ rest) = some (s, rest) := lexStr_strLit s rest h

/-- **Index comments read back** — the full statement, which was false before the `fix:` commit
(`fixed_index_comment_unescaped`): `GenerateCreateTableIndexDefinition` prints the comment through
`EscapeSpecialCharactersInComment`, so its printed form reads back as the comment, for all strings. -/
theorem index_comment_round_trip (s rest : Str) (h : rest.head? ≠ some '\'') :
    lexStr ('\'' :: escapeSeq s ++ '\'' :: rest) = some (s, rest) := lexStr_escape s rest h

/-- The same on the printer model: the text of a key with a comment ends in a literal that reads
back as that comment and hands over exactly what follows the key definition. -/
theorem showKey_reads_back (k : Key) (hk : k.comment ≠ []) (rest : Str) (h : rest.head? ≠ some '\'') :
    showKey k ++ rest = showKeyHead k ++ " COMMENT ".toList ++ ('\'' :: escapeSeq k.comment ++ '\'' :: rest) ∧
    lexStr ('\'' :: escapeSeq k.comment ++ '\'' :: rest) = some (k.comment, rest) := by
  refine ⟨?_, lexStr_escape k.comment rest h⟩
  have he : k.comment.isEmpty = false := by
    cases hc : k.comment with
    | nil => exact absurd hc hk
    | cons _ _ => rfl
  rw [escapeSeq_eq]
  simp [showKey, he]

/-- A key without a comment prints no COMMENT clause (nothing to read back). -/
theorem showKey_no_comment (k : Key) (hk : k.comment = []) : showKey k = showKeyHead k := by
  simp [showKey, hk]

/-- The pre-fix printer, guarded (the former `index_comment_round_trip_partial`): printed without
escaping, a comment read back when it held no quote and no backslash. -/
theorem index_comment_round_trip_prefix (s rest : Str) (hs : rawSafe s = true) (h : rest.head? ≠ some '\'') :
    lexStr ('\'' :: s ++ '\'' :: rest) = some (s, rest) := lexStr_raw_of_safe s rest hs h

/-- `KEY k1 (b) COMMENT 'it''s'` was printed as `COMMENT 'it's'`. -/
def wComment : Str := ['i', 't', '\'', 's']

def exCol : Col := { name := ['a'], ty := Ty.int, notNull := true, autoInc := false, dflt := none, comment := [] }
def exKey : Key := { unique := false, name := ['k'], cols := [['a']], comment := wComment }
def exKeyBs : Key := { unique := false, name := ['k'], cols := [['a']], comment := ['a', '\\', 'b'] }
def exTable : Table := { name := ['t'], cols := [exCol], pk := [['a']], keys := [exKey], comment := [] }

/-- **Repaired defect `index_comment_unescaped`.** Before the `fix:` commit the comment of a secondary
index was put between quotes as it was: with a quote in it the printed literal read back as a
different string and left a dangling tail (the statement was a syntax error), with a backslash it
read back as a different string. The repaired printer escapes it, and both read back. -/
theorem fixed_index_comment_unescaped :
    -- the pre-fix printer on the witness
    showKeyPreFix exKey = "  KEY `k` (`a`) COMMENT 'it's'".toList ∧
    lexStr ('\'' :: wComment ++ ['\'', ')']) = some (['i', 't'], ['s', '\'', ')']) ∧
    showKeyPreFix exKeyBs = "  KEY `k` (`a`) COMMENT 'a\\b'".toList ∧
    lexStr ('\'' :: ['a', '\\', 'b'] ++ ['\'', ')']) = some (['a', Char.ofNat 8], [')']) ∧
    -- the repaired printer on the same inputs
    showKey exKey = "  KEY `k` (`a`) COMMENT 'it''s'".toList ∧
    lexStr ('\'' :: escapeSeq wComment ++ ['\'', ')']) = some (wComment, [')']) ∧
    showKey exKeyBs = "  KEY `k` (`a`) COMMENT 'a\\\\b'".toList ∧
    lexStr ('\'' :: escapeSeq ['a', '\\', 'b'] ++ ['\'', ')']) = some (['a', '\\', 'b'], [')']) ∧
    showTablePreFix exTable ≠ showTable exTable := by
  decide

/-- Where the escaping touches nothing the repair changes nothing: the pre-fix and the repaired text
of a key whose comment has none of the six special characters are the same text. -/
theorem showKey_eq_prefix_of_plain (k : Key) (h : escape k.comment = k.comment) : showKeyPreFix k = showKey k := by
  unfold showKey showKeyPreFix
  rw [h]


-- Character sets and collations ------------------------------------------------------------------

/-- **Column collations read back.** For a column of collation `c` in a table of collation `t`, the
reader applied — with the table default `t` — to the `CHARACTER SET` / `COLLATE` clauses that
`StringWithTableCollation` prints yields `c` again: the recreated column has the collation (hence the
character set) of the original. For every collation universe `env` in which a name identifies its
collation; nothing is assumed about which collation is whose default. -/
theorem coll_round_trip (env : List Coll) (t c : Coll)
    (hc : findColl env c.name = some c) (ht : findColl env t.name = some t) :
    resolveColl env t (collSpecOf t c) = some c := resolveColl_collSpecOf env t c hc ht

/-- **Table collations read back**: `DEFAULT CHARSET=<cs> COLLATE=<name>` always names both. -/
theorem table_coll_round_trip (env : List Coll) (d t : Coll) (ht : findColl env t.name = some t) :
    resolveColl env d { cs := some t.cs, coll := some t.name } = some t := by
  simp [resolveColl, ht]

/-- The clause text reads back as the optional names (lexical half). -/
theorem lexCollClause_specText (t c : Coll) (rest : Str)
    (hcs : c.cs.all isWordChar = true) (hn : c.name.all isWordChar = true) (hr : ClauseEnd rest) :
    lexCollClause (collClause t c ++ rest) = (collSpecOf t c, rest) := by
  unfold collClause
  apply lexCollClause_specText' _ _ _ _ hr
  · intro n h
    simp only [collSpecOf] at h
    split at h
    · cases h; exact hcs
    · cases h
  · intro n h
    simp only [collSpecOf] at h
    split at h
    · cases h; exact hn
    · cases h

/-- The envelope is a universe the theorems apply to: names identify collations, every collation flagged
default is the one `CHARACTER SET <cs>` alone resolves to, every character set has its default, and
names are words. -/
theorem envelope_closed :
    (∀ c ∈ collTable, findColl collTable c.name = some c ∧ (c.isDflt = true → dfltColl collTable c.cs = some c) ∧
      (dfltColl collTable c.cs).isSome = true ∧ c.name.all isWordChar = true ∧ c.cs.all isWordChar = true) ∧
    findColl collTable engineColl.name = some engineColl := by
  decide

/-- On the envelope, for every pair (table collation, column collation). -/
theorem coll_round_trip_envelope : ∀ t ∈ collTable, ∀ c ∈ collTable, resolveColl collTable t (collSpecOf t c) = some c :=
  fun t ht c hc => coll_round_trip collTable t c (envelope_closed.1 c hc).1 (envelope_closed.1 t ht).1

/-- **Why the `COLLATE` clause may not be dropped for a character set's default collation** (the class of
change this guards against): a printer that omits `COLLATE` when the collation is its character set's
default, and prints `CHARACTER SET` only when the character set differs from the table's, prints
*nothing* for a `utf8mb4_0900_ai_ci` column of a `utf8mb4_0900_bin` table — the reader gives the
recreated column the table's collation. -/
theorem collate_clause_needed :
    let t : Coll := ⟨"utf8mb4_0900_bin".toList, "utf8mb4".toList, false⟩
    let c : Coll := ⟨"utf8mb4_0900_ai_ci".toList, "utf8mb4".toList, true⟩
    t ∈ collTable ∧ c ∈ collTable ∧ collSpecElideDflt t c = { cs := none, coll := none } ∧
    resolveColl collTable t (collSpecElideDflt t c) = some t ∧ t ≠ c ∧
    resolveColl collTable t (collSpecOf t c) = some c := by
  decide

/-- MySQL's own elision is sound: it drops `COLLATE` for the default collation only while printing
`CHARACTER SET`, and `CHARACTER SET <cs>` alone resolves to that default. -/
theorem mysql_clause_round_trip (env : List Coll) (t c : Coll)
    (hc : findColl env c.name = some c) (ht : findColl env t.name = some t)
    (hd : c.isDflt = true → dfltColl env c.cs = some c) :
    resolveColl env t (collSpecMysql t c) = some c := resolveColl_mysql env t c hc ht hd

/-- A mismatching pair is rejected by the reader (and by the engine: corpus tables x1–x3). -/
example : resolveColl collTable engineColl { cs := some "latin1".toList, coll := some "utf8mb4_bin".toList } = none := by decide
-- non-vacuity of `lexCollClause_specText`: what follows a type in a column definition is a `ClauseEnd`
example : ClauseEnd " NOT NULL".toList ∧ ClauseEnd ",\n".toList ∧ ClauseEnd " DEFAULT 'x'".toList ∧ ClauseEnd " COMMENT 'x'".toList ∧ ClauseEnd [] := by
  refine ⟨⟨?_, by decide, by decide⟩, ⟨?_, by decide, by decide⟩, ⟨?_, by decide, by decide⟩, ⟨?_, by decide, by decide⟩, ⟨?_, by decide, by decide⟩⟩ <;>
    (intro c r h; first | (cases h; decide) | cases h)
example : collClause engineColl ⟨"latin1_swedish_ci".toList, "latin1".toList, true⟩ = " CHARACTER SET latin1 COLLATE latin1_swedish_ci".toList := by decide
example : collClause ⟨"latin1_bin".toList, "latin1".toList, false⟩ ⟨"latin1_swedish_ci".toList, "latin1".toList, true⟩ = " COLLATE latin1_swedish_ci".toList := by decide
example : showCol ⟨"latin1_bin".toList, "latin1".toList, false⟩
    { name := ['a'], ty := .varchar 3, notNull := true, autoInc := false, dflt := none, comment := [],
      coll := some ⟨"latin1_swedish_ci".toList, "latin1".toList, true⟩ } = "  `a` varchar(3) COLLATE latin1_swedish_ci NOT NULL".toList := by decide

-- Non-vacuity / printer examples ----------------------------------------------------------------

example : quoteIdent ['a', '`', 'b'] = ['`', 'a', '`', '`', 'b', '`'] := by decide
example : lexIdent (quoteIdent ['a', '`', 'b'] ++ [' ', 'i', 'n', 't']) = some (['a', '`', 'b'], [' ', 'i', 'n', 't']) := by decide
example : escapeSeq ['\'', '\\', '"', '\n'] = ['\'', '\'', '\\', '\\', '\\', '"', '\\', 'n'] := by decide

example : showCol engineColl
    { name := ['a', '`'], ty := .int, notNull := true, autoInc := false, dflt := some (.num ['5']),
      comment := ['x', '\''] } = "  `a``` int NOT NULL DEFAULT '5' COMMENT 'x'''".toList := by decide

set_option maxRecDepth 20000 in
example : showTable exTable
  = "CREATE TABLE `t` (\n  `a` int NOT NULL,\n  PRIMARY KEY (`a`),\n  KEY `k` (`a`) COMMENT 'it''s'\n) ENGINE=InnoDB DEFAULT CHARSET=utf8mb4 COLLATE=utf8mb4_0900_bin".toList := by
  decide

-- the hypotheses of `showKey_reads_back` / `index_comment_round_trip_prefix` are satisfiable
example : exKey.comment ≠ [] ∧ ([')'] : Str).head? ≠ some '\'' := by decide
example : rawSafe ['o', 'k', ' ', '"'] = true ∧ rawSafe wComment = false := by decide

-- Regenerated facts -----------------------------------------------------------------------------

set_option maxRecDepth 20000 in
open Gms.Generated.C22 in
/-- The format strings of the formatter, the replacement pairs of the comment escaping (in source
order) and which comments go through it, re-read from the source on every run. The index comment
must be passed through `EscapeSpecialCharactersInComment` (the repair of `index_comment_unescaped`):
if that call disappears again this obligation breaks and `fixed_index_comment_unescaped` is the replay. -/
theorem facts_match :
    litsGenerateCreateTableStatement = ["", " COMMENT='%s'", "", " AUTO_INCREMENT=%s",
      "CREATE%s TABLE %s (\n%s\n) ENGINE=InnoDB%s DEFAULT CHARSET=%s COLLATE=%s%s", ",\n"] ∧
    litsGenerateCreateTableColumnDefinition = ["  %s %s", "%s NOT NULL", "%s AUTO_INCREMENT", "%s /*!80003 SRID %v */", "",
      " STORED", "%s GENERATED ALWAYS AS %s%s", "%s DEFAULT %s", "%s ON UPDATE %s", "", "%s COMMENT '%s'"] ∧
    litsGenerateCreateTablePrimaryKeyDefinition = ["  PRIMARY KEY (%s)", ","] ∧
    litsGenerateCreateTableIndexDefinition = ["", "UNIQUE ", "", "SPATIAL ", "", "FULLTEXT ", "", "VECTOR ",
      "  %s%s%s%sKEY %s (%s)", ",", "", "%s COMMENT '%s'"] ∧
    litsQuoteIdentifier = ["`%s`", "`", "``"] ∧
    litsEscape = ["'", "''", "\\", "\\\\", "\"", "\\\"", "\n", "\\n", "\r", "\\r", "\x00", "\\0"] ∧
    indexCommentEscaped = true ∧ columnCommentEscaped = true := by
  decide

open Gms.Generated.C22 in
/-- The type texts the compiled code prints are the model's. -/
theorem type_texts_match :
    typeTexts = [(".int", tyText .int), (".bigint", tyText .bigint), (".tinyint", tyText .tinyint), (".double", tyText .double),
      (".text", tyText .text), (".date", tyText .date), ("(.varchar 1)", tyText (.varchar 1)), ("(.varchar 40)", tyText (.varchar 40)),
      ("(.char 9)", tyText (.char 9)), ("(.decimal 10 2)", tyText (.decimal 10 2)), ("(.decimal 3 0)", tyText (.decimal 3 0))] := by
  decide

set_option maxRecDepth 100000 in
open Gms.Generated.C22 in
/-- What the compiled code says about every collation of the envelope (character set, whether it is that
character set's default) and the engine's default table collation are the model's. -/
theorem coll_table_match :
    collFacts.map (fun (n, cs, d) => (n.toList, cs.toList, d)) = collTable.map (fun c => (c.name, c.cs, c.isDflt)) ∧
    engineDefaultCollation.toList = engineColl.name ∧
    -- `EnumType` / `SetType.StringWithTableCollation` print the same clauses as `StringType` (`clause_table_match`)
    enumSetClausesAgree = true := by
  decide

/-- Every (table collation, column collation) pair of the envelope, by index. -/
def collPairs : List (Nat × Nat) := (List.range collTable.length).flatMap fun i => (List.range collTable.length).map fun j => (i, j)

set_option maxRecDepth 1000000 in
open Gms.Generated.C22 in
/-- The text the compiled `StringWithTableCollation` appends to `varchar(n)` / `char(n)` / `text` is the
model's `collClause`, for EVERY pair (table collation, column collation) of the envelope — a condition
of that function that is weakened or strengthened breaks this obligation (and `collate_clause_needed` /
the object comparison of the oracle give the failing input). -/
theorem clause_table_match :
    clauseFacts.map (fun (i, j, s) => (i, j, s.toList)) =
      collPairs.map (fun (i, j) => (i, j, collClause (collTable.getD i default) (collTable.getD j default))) := by
  decide

end Gms.C22
