/-
C15 — A failed data-modifying statement has no effect.

Model: `Gms/Model/MemIndex.lean` (partitions, secondary index storage with shared index rows, the
`TableEditorIter` / `tableEditor` statement protocol, `IndexedAccess` = early `ApplyEdits`).

Property theorems (namespace `Gms.C15`), for ALL tables, states, call sequences, fault positions:

* `fail_restores_data`     a failed statement restores partitions and the index-storage slices
                           (`discard_restores_indexes` is its index part) — unconditionally;
* `stmt_atomic_partial`    a failed statement that did not go through `IndexedAccess` leaves the
                           whole state (index rows included) exactly as before;
* `stmt_atomic`            fault enumeration: an injected error after ANY prefix `ops.take k` of
                           ANY call sequence without `IndexedAccess` yields the state before;
* `natural_failure_atomic` the same for a failure raised by an editor call (duplicate key);
* `stmt_atomic_view`       …hence rows and every index-driven read are unchanged;
* `stmt_all_or_nothing`    a statement either fails and restores the data, or applies `ApplyEdits`
                           to everything its calls accumulated;
* `ignorable_keeps_prefix` the documented exception: an ignorable error completes the prefix;
* `index_keys_stable`      whatever a statement does, index rows that existed before keep their
                           key values (only locations are ever overwritten) — this is why the
                           finding's region speaks about locations only.

Row aliasing (model `Gms/Model/RowAlias.lean`: rows as Go slices over backing arrays, the
`INSERT … ON DUPLICATE KEY UPDATE` path `append(oldRow, newRow...)` → `SetField.Eval`* →
`updateAcc[:len(oldRow)]` → `updater.Update`), for ALL memories, capacities, allocator slack,
tables and statements:

* `stored_cells_never_written`   a statement (failed or not) leaves the first `n` cells and the
                                 length of every backing array that existed before untouched
                                 (`Frame`), although `append` may run in place on a stored row;
* `readers_unaffected`           …so every row anybody still holds (the statement snapshot, another
                                 session's copy of the table, an earlier result set) reads the same;
* `odku_refines_spec`            the memory-level Impl model computes exactly the value-level Spec
                                 (all-or-nothing, assignments left to right against old ++ VALUES);
* `odku_failed_stmt_invisible`   a failed statement leaves the visible table as it was;
* `odku_history_refines`         the same along every history of statements;
* `spare_capacity_arises`        non-vacuity: a row stored by the path has spare capacity, the next
                                 accumulator built on it IS the stored array;
* `inplace_assignment_breaks_atomicity`  the variant of `SetField` that assigns into the accumulator
                                 in place (not in the source) violates all of the above.

The full statement `stmt_atomic_full` (no guard) is FALSE on the unchanged tree:
* `finding_index_rows_shared_with_snapshot` — witness: rows 5,7 stored, a statement inserts key 1,
  reads through `IndexedAccess` (early `ApplyEdits`: rows re-sorted, index rows relocated *in
  place*), then fails: the restored snapshot shares those index rows, so afterwards the index
  entry of key 50 points at row 7 and the entry of key 70 dangles.
-/
import Gms.Model.MemIndex
import Gms.Lemmas.MemTable
import Gms.Lemmas.RowAlias
import Gms.Generated.C15

namespace Gms.MemIndex
open Gms.MemTable

/-! ## Frame lemmas: what editor calls other than `IndexedAccess` cannot touch -/

theorem stepOp_snap (env : Env) (s s' : EdSt) (o : Op) (h : stepOp env s o = some s') : s'.snap = s.snap := by
  cases o with
  | ins r =>
    simp only [stepOp] at h
    split at h <;> simp at h
    subst h; rfl
  | del r => simp only [stepOp, Option.some.injEq] at h; subst h; rfl
  | upd a b =>
    simp only [stepOp] at h
    split at h <;> simp at h
    subst h; rfl
  | idx => simp only [stepOp, Option.some.injEq] at h; subst h; rfl

theorem stepOp_frame (env : Env) (s s' : EdSt) (o : Op) (hi : o.isIdx = false) (h : stepOp env s o = some s') :
    s'.heap = s.heap ∧ s'.data = s.data := by
  cases o with
  | ins r =>
    simp only [stepOp] at h
    split at h <;> simp at h
    subst h; exact ⟨rfl, rfl⟩
  | del r => simp only [stepOp, Option.some.injEq] at h; subst h; exact ⟨rfl, rfl⟩
  | upd a b =>
    simp only [stepOp] at h
    split at h <;> simp at h
    subst h; exact ⟨rfl, rfl⟩
  | idx => simp [Op.isIdx] at hi

theorem runOps_snap (env : Env) (ops : List Op) (s : EdSt) : (runOps env s ops).1.snap = s.snap := by
  induction ops generalizing s with
  | nil => rfl
  | cons o os ih =>
    simp only [runOps]
    split
    · rename_i s' h
      rw [ih s', stepOp_snap env s s' o h]
    · rfl

theorem runOps_frame (env : Env) (ops : List Op) (s : EdSt) (h : midApplied env s ops = false) :
    (runOps env s ops).1.heap = s.heap ∧ (runOps env s ops).1.data = s.data := by
  induction ops generalizing s with
  | nil => exact ⟨rfl, rfl⟩
  | cons o os ih =>
    simp only [runOps]
    simp only [midApplied] at h
    split
    · rename_i s' hs
      rw [hs] at h
      simp only [Bool.or_eq_false_iff] at h
      have hf := stepOp_frame env s s' o h.1 hs
      have := ih s' h.2
      exact ⟨this.1.trans hf.1, this.2.trans hf.2⟩
    · exact ⟨rfl, rfl⟩

theorem midApplied_of_noIdx (env : Env) (ops : List Op) (s : EdSt) (h : ∀ o ∈ ops, o.isIdx = false) :
    midApplied env s ops = false := by
  induction ops generalizing s with
  | nil => rfl
  | cons o os ih =>
    simp only [midApplied]
    split
    · rename_i s' _
      rw [h o (List.mem_cons_self), ih s' (fun o' ho' => h o' (List.mem_cons_of_mem _ ho'))]
      rfl
    · rfl

/-! ## Index rows keep their key values -/

theorem getE_modifyAt_vals (f : Entry → Entry) (hf : ∀ e, (f e).vals = e.vals) (h : Heap) (n id : Nat) :
    (getE (modifyAt f n h) id).vals = (getE h id).vals := by
  induction h generalizing n id with
  | nil => cases n <;> rfl
  | cons a as ih =>
    cases n with
    | zero =>
      cases id with
      | zero => simp [modifyAt, getE, hf]
      | succ k => simp [modifyAt, getE]
    | succ m =>
      cases id with
      | zero => simp [modifyAt, getE]
      | succ k =>
        have := ih m k
        simpa [modifyAt, getE] using this

theorem length_modifyAt {α : Type} (f : α → α) (n : Nat) (l : List α) : (modifyAt f n l).length = l.length := by
  induction l generalizing n with
  | nil => cases n <;> rfl
  | cons a as ih => cases n <;> simp [modifyAt, ih]

theorem setLoc_vals (h : Heap) (n : Nat) (l : Loc) (id : Nat) : (getE (setLoc h n l) id).vals = (getE h id).vals :=
  getE_modifyAt_vals (fun e => { e with loc := l }) (fun _ => rfl) h n id

theorem setLoc_length (h : Heap) (n : Nat) (l : Loc) : (setLoc h n l).length = h.length := length_modifyAt _ n h

/-- `KeysKept h h'`: every index row of `h` is still there in `h'` with the same key values. -/
def KeysKept (h h' : Heap) : Prop := h.length ≤ h'.length ∧ ∀ id, id < h.length → (getE h' id).vals = (getE h id).vals

theorem KeysKept.refl (h : Heap) : KeysKept h h := ⟨Nat.le_refl _, fun _ _ => rfl⟩

theorem KeysKept.trans {a b c : Heap} (h1 : KeysKept a b) (h2 : KeysKept b c) : KeysKept a c :=
  ⟨Nat.le_trans h1.1 h2.1, fun id hid => (h2.2 id (Nat.lt_of_lt_of_le hid h1.1)).trans (h1.2 id hid)⟩

theorem keysKept_setLoc (h : Heap) (n : Nat) (l : Loc) : KeysKept h (setLoc h n l) :=
  ⟨by rw [setLoc_length]; exact Nat.le_refl _, fun id _ => setLoc_vals h n l id⟩

theorem keysKept_append (h : Heap) (e : Entry) : KeysKept h (h ++ [e]) := by
  refine ⟨by simp, fun id hid => ?_⟩
  simp [getE, List.getD_eq_getElem?_getD, List.getElem?_append_left hid]

theorem keysKept_foldl {α : Type} (f : Heap → α → Heap) (hf : ∀ h a, KeysKept h (f h a)) (l : List α) (h : Heap) :
    KeysKept h (l.foldl f h) := by
  induction l generalizing h with
  | nil => exact KeysKept.refl h
  | cons a as ih => exact (hf h a).trans (ih (f h a))

theorem keysKept_addRow (env : Env) (row : Row) (loc : Loc) (ds : List IdxDef) (h : Heap) (idx : List (List Nat)) :
    KeysKept h (addRowToIndexes env row loc ds h idx).1 := by
  induction ds generalizing h idx with
  | nil => simp [addRowToIndexes]; exact KeysKept.refl h
  | cons d ds ih =>
    cases idx with
    | nil => simp [addRowToIndexes]; exact KeysKept.refl h
    | cons ids rest =>
      simp only [addRowToIndexes]
      exact (keysKept_append h _).trans (ih _ rest)

theorem keysKept_delFromIndex (h : Heap) (ids : List Nat) (p i : Nat) : KeysKept h (delFromIndex h ids p i).1 := by
  simp only [delFromIndex]
  apply keysKept_foldl
  intro h' id
  split
  · exact keysKept_setLoc _ _ _
  · exact KeysKept.refl _

theorem keysKept_deleteRow (h : Heap) (idx : List (List Nat)) (p i : Nat) :
    KeysKept h (deleteRowFromIndexes h idx p i).1 := by
  induction idx generalizing h with
  | nil => exact KeysKept.refl h
  | cons ids rest ih =>
    simp only [deleteRowFromIndexes]
    exact (keysKept_delFromIndex h ids p i).trans (ih _)

theorem keysKept_deleteHelper (env : Env) (hd : Heap × TData) (row : Row) :
    KeysKept hd.1 (deleteHelperP env hd row).1 := by
  simp only [deleteHelperP]
  split
  · exact KeysKept.refl _
  · exact keysKept_deleteRow _ _ _ _

theorem keysKept_insertHelper (env : Env) (hd : Heap × TData) (row : Row) :
    KeysKept hd.1 (insertHelperP env hd row).1 := by
  simp only [insertHelperP]
  split <;> exact keysKept_addRow _ _ _ _ _ _

theorem keysKept_relocate (la lb : Loc) (h : Heap) (ids : List Nat) :
    KeysKept h (relocate la lb h ids) := by
  simp only [relocate]
  apply keysKept_foldl
  intro h' id
  exact keysKept_setLoc _ _ _

theorem keysKept_swapStep (la lb : Loc) (hd : Heap × TData) : KeysKept hd.1 (swapStep la lb hd).1 := by
  simp only [swapStep]
  split
  · exact keysKept_foldl _ (fun h ids => keysKept_relocate la lb h ids) _ _
  · exact KeysKept.refl _

theorem keysKept_sortRows (env : Env) (hd : Heap × TData) : KeysKept hd.1 (sortRowsP env hd).1 := by
  simp only [sortRowsP]
  generalize selSwaps _ _ _ _ = swaps
  generalize List.map List.length hd.2.parts = sizes
  induction swaps generalizing hd with
  | nil => exact KeysKept.refl _
  | cons ab rest ih =>
    simp only [List.foldl_cons]
    exact (keysKept_swapStep _ _ hd).trans (ih _)

theorem keysKept_foldl_pair (f : Heap × TData → Row → Heap × TData) (hf : ∀ hd r, KeysKept hd.1 (f hd r).1)
    (l : List Row) (hd : Heap × TData) : KeysKept hd.1 (l.foldl f hd).1 := by
  induction l generalizing hd with
  | nil => exact KeysKept.refl _
  | cons a as ih => exact (hf hd a).trans (ih (f hd a))

theorem keysKept_applyEdits (env : Env) (hd : Heap × TData) (acc : Ed) : KeysKept hd.1 (applyEditsP env hd acc).1 := by
  simp only [applyEditsP]
  split
  · exact (keysKept_foldl_pair _ (keysKept_deleteHelper env) _ hd).trans
      (keysKept_foldl_pair _ (keysKept_insertHelper env) _ _)
  · exact ((keysKept_foldl_pair _ (keysKept_deleteHelper env) _ hd).trans
      (keysKept_foldl_pair _ (keysKept_insertHelper env) _ _)).trans (keysKept_sortRows env _)

theorem keysKept_stepOp (env : Env) (s s' : EdSt) (o : Op) (h : stepOp env s o = some s') : KeysKept s.heap s'.heap := by
  cases o with
  | idx =>
    simp only [stepOp, Option.some.injEq] at h
    subst h
    exact keysKept_applyEdits env (s.heap, s.data) s.acc
  | ins r =>
    simp only [stepOp] at h
    split at h <;> simp at h
    subst h; exact KeysKept.refl _
  | del r => simp only [stepOp, Option.some.injEq] at h; subst h; exact KeysKept.refl _
  | upd a b =>
    simp only [stepOp] at h
    split at h <;> simp at h
    subst h; exact KeysKept.refl _

theorem keysKept_runOps (env : Env) (ops : List Op) (s : EdSt) : KeysKept s.heap (runOps env s ops).1.heap := by
  induction ops generalizing s with
  | nil => exact KeysKept.refl _
  | cons o os ih =>
    simp only [runOps]
    split
    · rename_i s' h
      exact (keysKept_stepOp env s s' o h).trans (ih s')
    · exact KeysKept.refl _

end Gms.MemIndex

namespace Gms.C15
open Gms.MemTable Gms.MemIndex

/-! ## Regenerated facts: the statement protocol the model transliterates -/

/-- `TableEditorIter.Close` discards exactly when a non-ignorable error was recorded, completes
otherwise; `Next` begins the statement once and records every error but `io.EOF`; the editor's
`StatementBegin` snapshots by `copy()`, `DiscardChanges` clears and restores the snapshot (unless
the error is ignorable), `StatementComplete` applies, clears and publishes, `IndexedAccess`
applies and clears early, `Close` publishes the snapshot after a discard; `TableData.copy`
re-allocates partitions and index-storage slices but shares the index rows; both in-place
writers of index-row locations are present. -/
theorem facts_match :
    Generated.C15.closeCond = "err != nil && !ignoreError" ∧
    Generated.C15.closeThen = ["openerCloser.DiscardChanges"] ∧
    Generated.C15.closeElse = ["openerCloser.StatementComplete"] ∧
    Generated.C15.closeDefs = ["err := s.errorEncountered", "_, ignoreError := err.(sql.IgnorableError)"] ∧
    Generated.C15.nextCalls = ["once.Do", "openerCloser.StatementBegin", "inner.Next"] ∧
    Generated.C15.nextRecordsErrorWhen = ["err != nil && err != io.EOF"] ∧
    Generated.C15.edBegin = ["initialTable = editedTable.copy()"] ∧
    Generated.C15.edDiscard = ["ea.Clear", "editedTable.replaceData(initialTable.data)", "discardChanges = true"] ∧
    Generated.C15.edDiscardGuard = "_, ignore := errorEncountered.(sql.IgnorableError); !ignore" ∧
    Generated.C15.edComplete = ["ea.ApplyEdits", "ea.Clear", "sess.putTable(editedTable.data)"] ∧
    Generated.C15.edIndexedAccess = ["ea.ApplyEdits", "ea.Clear", "editedTable.copy"] ∧
    Generated.C15.edCloseDiscard = ["sess.putTable(t.initialTable.data)", "t.editedTable.replaceData(t.initialTable.data)"] ∧
    Generated.C15.copyFreshFields = ["checks", "partitionKeys", "partitions", "schema", "secondaryIndexStorage"] ∧
    Generated.C15.copyIndexStorage = "slice-of-shared-rows" ∧
    Generated.C15.delIdxOps = ["== rowIdx", "> rowIdx", "- 1"] ∧
    Generated.C15.delRenumbersInPlace = true ∧
    Generated.C15.swapRelocatesInPlace = 2 ∧
    Generated.C15.pkApplyEdits = ["deleteHelper", "insertHelper", "tableData.sortRows", "table.replaceData"] ∧
    Generated.C15.klApplyEdits = ["deleteHelper", "insertHelper", "tableData.sortSecondaryIndexes", "table.replaceData"] := by
  decide

/-- Who writes into the cells of a row on the ON DUPLICATE KEY UPDATE path (the shape
`Gms/Model/RowAlias.lean` transliterates): `SetField` has a single entry point that is handed a
row, `Eval`; its only element write goes into `updatedRow`, which is `row.Copy()`; `Row.Copy` is
`NewRow` = `make` + `copy` (a fresh array); `applyUpdates` calls nothing but `Eval` on the
accumulator (plus the IGNORE helpers), re-binds the accumulator to the returned row and writes no
element; `handleOnDuplicateKeyUpdate` builds the accumulator by `append(oldRow, newRow...)`, cuts
the updated row out as `updateAcc[:len(oldRow)]`, hands it to `updater.Update` and writes no
element; `insertIter.Next` writes elements of the incoming row / the REPLACE result only, and the
`Existing` row of a unique-key error is only read (`Delete`, `copy(toReturn, …)`) or passed on. -/
theorem facts_match_alias :
    Generated.C15.setFieldTakesRow = ["Eval"] ∧
    Generated.C15.setFieldElementWrites = ["Eval:updatedRow"] ∧
    Generated.C15.setFieldCopies = ["Eval:updatedRow := row.Copy()"] ∧
    Generated.C15.rowCopyBody = ["return NewRow(r...)"] ∧
    Generated.C15.newRowAllocs = ["make(Row, len(values))", "copy(row, values)"] ∧
    Generated.C15.applyUpdatesCalls = ["convertDataAndWarn", "getFieldIndexFromUpdateExpr", "updateExpr.Eval"] ∧
    Generated.C15.applyUpdatesAccAssigns = ["val.(sql.Row)"] ∧
    Generated.C15.applyUpdatesElementWrites = [] ∧
    Generated.C15.odkuAccumulators = ["append(oldRow, newRow...)", "updateAcc"] ∧
    Generated.C15.odkuEvalRow = ["updateAcc[:len(oldRow)]", "updateAcc[:len(oldRow)]"] ∧
    Generated.C15.odkuStores = ["i.updater.Update(ctx, oldRow, evalRow)"] ∧
    Generated.C15.odkuElementWrites = [] ∧
    Generated.C15.insertNextElementWrites = ["origRow", "row", "toReturn"] ∧
    Generated.C15.insertExistingUses = ["i.replacer.Delete(ctx, ue.Existing)", "copy(toReturn, ue.Existing)",
      "i.handleOnDuplicateKeyUpdate(ctx, uniqueKeyError.Existing, row)"] := by
  decide

/-! ## The property -/

/-- A failed statement restores the table data by value: partitions and, per index, the
storage slice (which index rows it holds, in which order) — for every table, state, call
sequence (with or without `IndexedAccess`), and every way of failing. -/
theorem fail_restores_data (env : Env) (st : St) (stmt : MemIndex.Stmt) (hf : (runStmt env st stmt).2 = true) :
    (runStmt env st stmt).1.data = st.data := by
  simp only [runStmt] at hf ⊢
  split
  · simpa [begin] using runOps_snap env stmt.ops (begin st)
  · rename_i hc
    simp [hc] at hf

/-- Index part of `fail_restores_data`: the snapshot includes `secondaryIndexStorage`. -/
theorem discard_restores_indexes (env : Env) (st : St) (stmt : MemIndex.Stmt) (hf : (runStmt env st stmt).2 = true) :
    (runStmt env st stmt).1.data.idx = st.data.idx := by
  rw [fail_restores_data env st stmt hf]

/-- **Statement atomicity** (guarded): a failed statement that did not go through
`IndexedAccess` leaves the whole state — rows, index-storage slices *and* index rows — exactly as
it was. The unguarded statement is false: `finding_index_rows_shared_with_snapshot`. -/
theorem stmt_atomic_partial (env : Env) (st : St) (stmt : MemIndex.Stmt) (hf : (runStmt env st stmt).2 = true)
    (hm : midApplied env (begin st) stmt.ops = false) : (runStmt env st stmt).1 = st := by
  have hfr := runOps_frame env stmt.ops (begin st) hm
  have hsn := runOps_snap env stmt.ops (begin st)
  simp only [runStmt] at hf ⊢
  split
  · cases st with
    | mk heap data =>
      simp only [begin] at hfr hsn ⊢
      simp only [St.mk.injEq]
      exact ⟨hfr.1, hsn⟩
  · rename_i hc
    simp [hc] at hf

/-- **Fault enumeration**: an injected storage error after ANY prefix of ANY sequence of
`Insert` / `Update` / `Delete` calls leaves the state as it was, and the statement is reported
as failed. -/
theorem stmt_atomic (env : Env) (st : St) (ops : List Op) (k : Nat) (h : ∀ o ∈ ops, o.isIdx = false) :
    runStmt env st ⟨ops.take k, .err⟩ = (st, true) := by
  have hfail : (runStmt env st ⟨ops.take k, .err⟩).2 = true := by
    simp [runStmt]
  have hm := midApplied_of_noIdx env (ops.take k) (begin st) (fun o ho => h o (List.mem_of_mem_take ho))
  have := stmt_atomic_partial env st ⟨ops.take k, .err⟩ hfail hm
  exact Prod.ext this hfail

/-- The same for a failure raised by an editor call itself (duplicate primary / unique key) at any
position, whatever the iterator would have returned afterwards. -/
theorem natural_failure_atomic (env : Env) (st : St) (ops : List Op) (fin : Fin) (h : ∀ o ∈ ops, o.isIdx = false)
    (hn : (runOps env (begin st) ops).2 = true) : runStmt env st ⟨ops, fin⟩ = (st, true) := by
  have hfail : (runStmt env st ⟨ops, fin⟩).2 = true := by
    simp [runStmt, hn]
  have hm := midApplied_of_noIdx env ops (begin st) h
  exact Prod.ext (stmt_atomic_partial env st ⟨ops, fin⟩ hfail hm) hfail

/-- What a reader sees (rows by scan, rows through every index) is unchanged. -/
theorem stmt_atomic_view (env : Env) (st : St) (stmt : MemIndex.Stmt) (hf : (runStmt env st stmt).2 = true)
    (hm : midApplied env (begin st) stmt.ops = false) :
    rowsOf (runStmt env st stmt).1 = rowsOf st ∧ indexView (runStmt env st stmt).1 = indexView st := by
  rw [stmt_atomic_partial env st stmt hf hm]
  exact ⟨rfl, rfl⟩

/-- All or nothing: a statement either fails and publishes the snapshot, or succeeds and publishes
`ApplyEdits` of everything its calls accumulated. -/
theorem stmt_all_or_nothing (env : Env) (st : St) (stmt : MemIndex.Stmt) :
    ((runStmt env st stmt).2 = true ∧ (runStmt env st stmt).1.data = st.data) ∨
    ((runStmt env st stmt).2 = false ∧ (runOps env (begin st) stmt.ops).2 = false ∧
      (runStmt env st stmt).1 =
        { heap := (applyNow env (runOps env (begin st) stmt.ops).1).heap,
          data := (applyNow env (runOps env (begin st) stmt.ops).1).data }) := by
  cases hf : (runStmt env st stmt).2 with
  | true => exact Or.inl ⟨rfl, fail_restores_data env st stmt hf⟩
  | false =>
    refine Or.inr ⟨rfl, ?_⟩
    simp only [runStmt] at hf ⊢
    split
    · rename_i hc
      simp [hc] at hf
    · rename_i hc
      simp only [Bool.or_eq_true, not_or, Bool.not_eq_true] at hc
      exact ⟨hc.1, rfl⟩

/-- The documented exception: an ignorable error (INSERT IGNORE paths) completes what was done so far. -/
theorem ignorable_keeps_prefix (env : Env) (st : St) (ops : List Op) :
    runStmt env st ⟨ops, .errIgn⟩ = runStmt env st ⟨ops, .eof⟩ := by
  simp [runStmt]

/-- Whatever a statement does (early `ApplyEdits`, failure, success), every index row that existed
before still exists with the same key values: only locations are ever overwritten in place. -/
theorem index_keys_stable (env : Env) (st : St) (stmt : MemIndex.Stmt) : KeysKept st.heap (runStmt env st stmt).1.heap := by
  have h1 := keysKept_runOps env stmt.ops (begin st)
  simp only [runStmt]
  split
  · exact h1
  · exact KeysKept.trans h1 (keysKept_applyEdits env ((runOps env (begin st) stmt.ops).1.heap, (runOps env (begin st) stmt.ops).1.data) (runOps env (begin st) stmt.ops).1.acc)


/-! ## Row aliasing: nobody writes into the cells of a stored row -/

section Alias
open Gms.RowAlias

/-- Go's `TableEditorIter` bracket keeps the stored rows on failure and publishes the
accumulated ones on success; either way the memory is what the statement left behind. -/
theorem runStmt_mem (cfg : Cfg) (st : RowAlias.St) (s : RowAlias.Stmt) :
    (RowAlias.runStmt cfg st s).1.mem = (runRows setField cfg s.asg ⟨st.mem, st.rows⟩ s.rows).1.mem := by
  simp only [RowAlias.runStmt, runStmtG]
  generalize runRows setField cfg s.asg ⟨st.mem, st.rows⟩ s.rows = rr
  obtain ⟨w, f⟩ := rr
  cases f <;> rfl

/-- **Frame**: whatever a statement does — `append` in place on a stored row included — and
however it ends, every backing array that existed before keeps its length and its first `n`
cells. For every memory, every capacity of every stored row, every allocator slack. -/
theorem stored_cells_never_written (cfg : Cfg) (st : RowAlias.St) (s : RowAlias.Stmt)
    (hw : WF cfg.n st.mem st.rows) (hr : ∀ r ∈ s.rows, r.length = cfg.n) :
    Frame cfg.n st.mem (RowAlias.runStmt cfg st s).1.mem := by
  rw [runStmt_mem]
  exact (runRows_spec cfg s.asg s.rows ⟨st.mem, st.rows⟩ hw hr).1

/-- Hence every row of at most `n` cells that anybody still holds — the statement snapshot,
another session's copy of the table (both share the slices with the stored rows), an earlier
result — reads the same after the statement as before: results are independent of later statements. -/
theorem readers_unaffected (cfg : Cfg) (st : RowAlias.St) (s : RowAlias.Stmt)
    (hw : WF cfg.n st.mem st.rows) (hr : ∀ r ∈ s.rows, r.length = cfg.n)
    (sl : Slice) (hv : Valid st.mem sl) (hl : sl.len ≤ cfg.n) :
    view (RowAlias.runStmt cfg st s).1.mem sl = view st.mem sl :=
  view_of_frame (stored_cells_never_written cfg st s hw hr) hv hl

/-- **Refinement**: the memory-level Impl model (slices, in-place `append`, copying `SetField`)
computes exactly the value-level Spec: same verdict, same visible table; and the table stays
well-formed. -/
theorem odku_refines_spec (cfg : Cfg) (st : RowAlias.St) (s : RowAlias.Stmt)
    (hw : WF cfg.n st.mem st.rows) (hr : ∀ r ∈ s.rows, r.length = cfg.n) :
    visible (RowAlias.runStmt cfg st s).1 = (RowAlias.specStmt cfg (visible st) s).1 ∧
    (RowAlias.runStmt cfg st s).2 = (RowAlias.specStmt cfg (visible st) s).2 ∧
    WF cfg.n (RowAlias.runStmt cfg st s).1.mem (RowAlias.runStmt cfg st s).1.rows := by
  have h := runRows_spec cfg s.asg s.rows ⟨st.mem, st.rows⟩ hw hr
  simp only [RowAlias.runStmt, runStmtG, visible] at h ⊢
  generalize runRows setField cfg s.asg ⟨st.mem, st.rows⟩ s.rows = rr at h
  obtain ⟨w, f⟩ := rr
  obtain ⟨hf, h⟩ := h
  rcases h with ⟨hs, hfail⟩ | ⟨t', hs, hok, hw', hv'⟩
  · simp only at hfail hf
    subst hfail
    simp only [RowAlias.specStmt, hs]
    exact ⟨visibleOf_frame hf hw, trivial, wf_of_frame hf hw⟩
  · simp only at hok hw' hv'
    subst hok
    simp only [RowAlias.specStmt, hs]
    exact ⟨hv', trivial, hw'⟩

/-- **Atomicity on this path**: a failed INSERT / INSERT … ON DUPLICATE KEY UPDATE leaves the
visible table exactly as it was, at whichever row and for whichever reason it fails (NOT NULL,
CHECK on the incoming or on the updated row, conversion, duplicate key), whatever rows it had
updated before — including rows whose array the accumulator shared. -/
theorem odku_failed_stmt_invisible (cfg : Cfg) (st : RowAlias.St) (s : RowAlias.Stmt)
    (hw : WF cfg.n st.mem st.rows) (hr : ∀ r ∈ s.rows, r.length = cfg.n)
    (hf : (RowAlias.runStmt cfg st s).2 = true) : visible (RowAlias.runStmt cfg st s).1 = visible st := by
  have h := odku_refines_spec cfg st s hw hr
  rw [h.1]
  rw [h.2.1] at hf
  simp only [RowAlias.specStmt] at hf ⊢
  split
  · rfl
  · rename_i heq
    rw [heq] at hf
    simp at hf

/-- the Spec along a history. -/
def specHistory (cfg : Cfg) : List Row → List RowAlias.Stmt → List Row
  | t, [] => t
  | t, s :: ss => specHistory cfg (RowAlias.specStmt cfg t s).1 ss

/-- …and along every history of statements (each failed one is a no-op, each successful one
applies the Spec), starting from any well-formed table. -/
theorem odku_history_refines (cfg : Cfg) (ss : List RowAlias.Stmt) (st : RowAlias.St)
    (hw : WF cfg.n st.mem st.rows) (hr : ∀ s ∈ ss, ∀ r ∈ s.rows, r.length = cfg.n) :
    visible (RowAlias.runHistory cfg st ss) = specHistory cfg (visible st) ss := by
  induction ss generalizing st with
  | nil => rfl
  | cons s ss ih =>
    have h := odku_refines_spec cfg st s hw (hr s List.mem_cons_self)
    simp only [RowAlias.runHistory, specHistory]
    rw [ih _ h.2.2 (fun x hx => hr x (List.mem_cons_of_mem _ hx)), h.1]

/-! ### Non-vacuity, and what the theorems exclude -/

def cfgA : Cfg := { n := 2, nn := [1], ck := some (1, 100) }

/-- a table whose row 1 has been rewritten once by ON DUPLICATE KEY UPDATE. -/
def stA : RowAlias.St :=
  RowAlias.runHistory cfgA ⟨[], []⟩ [.ins [[.int 1, .int 9], [.int 2, .int 20]], .odku [[.int 1, .int 0]] [.add 1 1]]

/-- updates row 1 again, then fails on its second row (CHECK). -/
def stmtA : RowAlias.Stmt := .odku [[.int 1, .int 0], [.int 3, .int 150]] [.add 1 1]

example : visible stA = [[.int 1, .int 10], [.int 2, .int 20]] ∧ WF cfgA.n stA.mem stA.rows := by
  refine ⟨by decide, ?_⟩
  intro s hs
  have : s = ⟨3, 2⟩ ∨ s = ⟨1, 2⟩ := by
    have h : stA.rows = [⟨3, 2⟩, ⟨1, 2⟩] := by decide
    rw [h] at hs
    simpa using hs
  rcases this with h | h <;> subst h <;> decide

/-- A row stored by the ON DUPLICATE KEY UPDATE path has spare capacity (2 cells here, the
length of the VALUES row), and the accumulator the next such statement builds on it is the stored
array itself: the premise "the scratch row is private" is false, the theorems above do not rely on it. -/
theorem spare_capacity_arises :
    stA.rows.head? = some ⟨3, 2⟩ ∧ capOf stA.mem ⟨3, 2⟩ = 4 ∧
    (appendS stA.mem ⟨3, 2⟩ [.int 1, .int 0] 0).2.arr = 3 := by
  decide

/-- the failing statement on the Impl model: failed, nothing visible changed (an instance of
`odku_failed_stmt_invisible` whose accumulator aliased the stored row). -/
example : (RowAlias.runStmt cfgA stA stmtA).2 = true ∧ visible (RowAlias.runStmt cfgA stA stmtA).1 = visible stA := by
  decide

/-- a successful statement does change the table. -/
example : visible (RowAlias.runStmt cfgA stA (.odku [[.int 1, .int 0], [.int 3, .int 50]] [.add 1 1])).1 =
    [[.int 1, .int 11], [.int 2, .int 20], [.int 3, .int 50]] := by
  decide

/-- **What the frame theorem excludes.** With a `SetField` that assigns into the accumulator in
place (`setFieldInPlace`, not in the source: an allocation "optimisation" of `applyUpdates`) the
same failing statement changes the stored row 1 behind the accumulator's back: the statement
reports a failure and the table reads (1, 11). Copying in `SetField.Eval` is what atomicity of
this path rests on. -/
theorem inplace_assignment_breaks_atomicity :
    (runStmtG setFieldInPlace cfgA stA stmtA).2 = true ∧
    visible (runStmtG setFieldInPlace cfgA stA stmtA).1 = [[.int 1, .int 11], [.int 2, .int 20]] ∧
    visible stA = [[.int 1, .int 10], [.int 2, .int 20]] := by
  decide

end Alias

/-! ## Non-vacuity and the finding -/

def envW : Env :=
  { sch := { cols := [{ nullable := false }, {}, {}], pk := [0], uniques := [] },
    idxs := [{ cols := [2] }], nparts := 1, pmap := [] }

def r5 : Row := [.int 5, .null, .int 50]
def r7 : Row := [.int 7, .null, .int 70]
def r1 : Row := [.int 1, .null, .int 10]

/-- rows 5 and 7 stored, index on column 2 consistent. -/
def stW : St := (runStmt envW (initSt envW) ⟨[.ins r5, .ins r7], .eof⟩).1

example : rowsOf stW = [r5, r7] ∧ indexView stW = [[([.int 50, .int 5], some r5), ([.int 70, .int 7], some r7)]] := by
  decide

/-- `stmt_atomic` is not vacuous: a two-call prefix with pending edits is discarded. -/
example : runStmt envW stW ⟨([Op.ins r1, Op.del r5, Op.ins r7] : List Op).take 2, .err⟩ = (stW, true) :=
  stmt_atomic envW stW [Op.ins r1, Op.del r5, Op.ins r7] 2 (by decide)

/-- `natural_failure_atomic` is not vacuous: the third call hits a duplicate key after two pending edits. -/
example : (runOps envW (begin stW) [Op.ins r1, Op.del r5, Op.ins r7]).2 = true := by decide

/-- a successful statement does change the table (so "unchanged" above is not a property of every run). -/
example : rowsOf (runStmt envW stW ⟨[.ins r1, .del r5], .eof⟩).1 = [r1, r7] := by decide

/-- The full statement, without the `IndexedAccess` guard (FALSE on the unchanged tree):
`∀ env st stmt, (runStmt env st stmt).2 = true → indexView (runStmt env st stmt).1 = indexView st`. -/
def StmtAtomicFull : Prop :=
  ∀ (env : Env) (st : St) (stmt : MemIndex.Stmt), (runStmt env st stmt).2 = true →
    rowsOf (runStmt env st stmt).1 = rowsOf st ∧ indexView (runStmt env st stmt).1 = indexView st

/-- Witness of region `index_rows_shared_with_snapshot` (replayed on the real code: corpus case 1
of harness/cmd/c15 and the SQL script in known_findings/C15.jsonl): the failed statement leaves
the rows alone but the index entry of key 50 now resolves to row 7 and the entry of key 70 dangles. -/
theorem finding_index_rows_shared_with_snapshot :
    (runStmt envW stW ⟨[.ins r1, .idx], .err⟩).2 = true ∧
    rowsOf (runStmt envW stW ⟨[.ins r1, .idx], .err⟩).1 = rowsOf stW ∧
    indexView (runStmt envW stW ⟨[.ins r1, .idx], .err⟩).1 =
      [[([.int 50, .int 5], some r7), ([.int 70, .int 7], none)]] ∧
    regionMidApply envW stW ⟨[.ins r1, .idx], .err⟩ = true := by
  decide

theorem stmtAtomicFull_false : ¬ StmtAtomicFull := by
  intro h
  have := (h envW stW ⟨[.ins r1, .idx], .err⟩ (by decide)).2
  revert this
  decide

/-- Outside the region the Impl model meets the Spec (restating `stmt_atomic_view` with the
region predicate the driver evaluates). -/
theorem stmt_atomic_outside_region (env : Env) (st : St) (stmt : MemIndex.Stmt) (hf : (runStmt env st stmt).2 = true)
    (hr : midApplied env (begin st) stmt.ops = false) :
    rowsOf (runStmt env st stmt).1 = rowsOf st ∧ indexView (runStmt env st stmt).1 = indexView st :=
  stmt_atomic_view env st stmt hf hr

end Gms.C15
