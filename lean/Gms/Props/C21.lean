import Gms.Model.Alter
import Gms.Generated.C21

/-!
C21 — Schema changes preserve existing data.

The model (`Gms/Model/Alter.lean`) transliterates ALTER TABLE on the in-memory backend. This file
proves, for *all* schemas, rows and positions:

* `goMapping_closed`        the two-index loop of `modifyColumnInSchema` computes the closed-form
                            "remove position c, insert at position k" index map;
* `goBuild_eq_move`         hence the schema and the projections it builds are `moveAt`s;
* `rewriteRow_move`         hence the rewritten row is the old row with the modified value converted
                            and moved (`reorder_is_permutation`);
* `move_pairs_perm`, `modify_preserves_retained`   the (column name, value) pairs of every retained
                            column survive MODIFY / CHANGE, ADD and DROP;
* `alter_fail_no_effect`    a rejected statement leaves the table unchanged;
* `addPk_rows_unchanged`, `addPk_rejects_dups`;
* `finding_*`               the unchanged code violates the property inside four regions.
-/

set_option linter.unusedSimpArgs false

namespace Gms.Alter

def toOpt : Except Err Val → Option Val
  | .ok v => some v
  | .error _ => none

-- ---------------------------------------------------------------------------------------------
-- The two-index loop of `modifyColumnInSchema`

/-- Closed form of `oldToNewIdxMapping`: column `c` goes to `k`; the others keep their order around it. -/
def closedMap (c k x : Nat) : Nat :=
  if x = c then k else
    if (if x < c then x else x - 1) < k then (if x < c then x else x - 1) else (if x < c then x else x - 1) + 1

/-- Its inverse: which old position the new position `j` is filled from. -/
def closedInv (c k j : Nat) : Nat :=
  if j = k then c else
    if (if j < k then j else j - 1) < c then (if j < k then j else j - 1) else (if j < k then j else j - 1) + 1

theorem closedMap_lt {n c k x : Nat} (hc : c < n) (hk : k < n) (hx : x < n) : closedMap c k x < n := by
  unfold closedMap; (repeat' split) <;> omega

theorem closedInv_lt {n c k j : Nat} (hc : c < n) (hk : k < n) (hj : j < n) : closedInv c k j < n := by
  unfold closedInv; (repeat' split) <;> omega

theorem closedMap_inv {c k j : Nat} : closedMap c k (closedInv c k j) = j := by
  unfold closedMap closedInv
  by_cases h1 : j = k
  · simp [h1]
  · simp only [h1, if_false]
    by_cases h2 : j < k <;> simp only [h2, if_true, if_false]
    · by_cases h3 : j < c <;> simp only [h3, if_true, if_false]
      · have : ¬ j = c := by omega
        simp [this, h3, h2]
      · have h4 : ¬ j + 1 = c := by omega
        have h5 : ¬ j + 1 < c := by omega
        simp [h4, h5, h2]
    · by_cases h3 : j - 1 < c <;> simp only [h3, if_true, if_false]
      · have h4 : ¬ j - 1 = c := by omega
        have h5 : ¬ j - 1 < k := by omega
        simp only [h4, if_false, h3, if_true, h5]
        omega
      · have h4 : ¬ j - 1 + 1 = c := by omega
        have h5 : ¬ j - 1 + 1 < c := by omega
        have h6 : ¬ j - 1 + 1 - 1 < k := by omega
        simp only [h4, if_false, h5, h6]
        omega

theorem closedInv_map {c k x : Nat} : closedInv c k (closedMap c k x) = x := by
  unfold closedMap closedInv
  by_cases h1 : x = c
  · simp [h1]
  · simp only [h1, if_false]
    by_cases h2 : x < c <;> simp only [h2, if_true, if_false]
    · by_cases h3 : x < k <;> simp only [h3, if_true, if_false]
      · have : ¬ x = k := by omega
        simp [this, h3, h2]
      · have h4 : ¬ x + 1 = k := by omega
        have h5 : ¬ x + 1 < k := by omega
        simp [h4, h5, h2]
    · by_cases h3 : x - 1 < k <;> simp only [h3, if_true, if_false]
      · have h4 : ¬ x - 1 = k := by omega
        have h5 : ¬ x - 1 < c := by omega
        simp only [h4, if_false, h3, if_true, h5]
        omega
      · have h4 : ¬ x - 1 + 1 = k := by omega
        have h5 : ¬ x - 1 + 1 < k := by omega
        have h6 : ¬ x - 1 + 1 - 1 < c := by omega
        simp only [h4, if_false, h5, h6]
        omega

theorem goMapLoop_spec (n c k : Nat) (hc : c < n) (hk : k < n) :
    ∀ (f i j : Nat) (m : Nat → Nat),
      (if c < i then i - 1 else i) = (if k < j then j - 1 else j) →
      (n - i) + (n - j) ≤ f →
      ∀ x, x < n → goMapLoop n c k f i j m x = if x < i then m x else closedMap c k x := by
  intro f
  induction f with
  | zero =>
    intro i j m _ hf x hx
    have : x < i := by omega
    simp [goMapLoop, this]
  | succ f ih =>
    intro i j m hinv hf x hx
    unfold goMapLoop
    by_cases hcond : j < n ∨ i < n
    · simp only [hcond, if_true]
      by_cases hic : i = c
      · simp only [hic, if_true]
        subst hic
        have hinv' : (if i < i + 1 then i + 1 - 1 else i + 1) = (if k < j then j - 1 else j) := by
          have h0 : ¬ i < i := Nat.lt_irrefl i
          simp only [h0, if_false] at hinv
          simp only [Nat.lt_succ_self, if_true, Nat.add_sub_cancel]
          exact hinv
        rw [ih (i + 1) j _ hinv' (by omega) x hx]
        by_cases hxi : x < i
        · have h1 : x < i + 1 := by omega
          have h2 : ¬ x = i := by omega
          simp [hxi, h1, h2]
        · by_cases hxe : x = i
          · subst hxe
            simp [closedMap]
          · have h1 : ¬ x < i + 1 := by omega
            simp [hxi, h1]
      · simp only [hic, if_false]
        by_cases hjk : j = k
        · simp only [hjk, if_true]
          subst hjk
          have hinv' : (if c < i then i - 1 else i) = (if j < j + 1 then j + 1 - 1 else j + 1) := by
            have h0 : ¬ j < j := Nat.lt_irrefl j
            simp only [h0, if_false] at hinv
            simp only [Nat.lt_succ_self, if_true, Nat.add_sub_cancel]
            exact hinv
          exact ih i (j + 1) m hinv' (by omega) x hx
        · simp only [hjk, if_false]
          rw [ih (i + 1) (j + 1) _ (by split at hinv <;> split at hinv <;> split <;> split <;> omega) (by omega) x hx]
          by_cases hxi : x < i
          · have h1 : x < i + 1 := by omega
            have h2 : ¬ x = i := by omega
            simp [hxi, h1, h2]
          · by_cases hxe : x = i
            · subst hxe
              have h1 : x < x + 1 := by omega
              simp only [h1, if_true, hxi, if_false]
              unfold closedMap
              simp only [hic, if_false]
              split at hinv <;> split at hinv <;> split <;> split <;> omega
            · have h1 : ¬ x < i + 1 := by omega
              simp [hxi, h1]
    · have : x < i := by omega
      simp [hcond, this]

/-- **The index loop.** For every schema length and every pair of positions the Go loop computes
the closed-form map. -/
theorem goMapping_closed {n c k x : Nat} (hc : c < n) (hk : k < n) (hx : x < n) :
    goMapping n c k x = closedMap c k x := by
  unfold goMapping
  rw [goMapLoop_spec n c k hc hk (2 * n + 1) 0 0 _ (by simp) (by omega) x hx]
  simp

-- ---------------------------------------------------------------------------------------------
-- `moveAt` and the schema / projections built through the map

theorem moveAt_length {α : Type} (l : List α) (c k : Nat) (x : α) (hc : c < l.length) (hk : k < l.length) :
    (moveAt l c k x).length = l.length := by
  simp only [moveAt, insertAt, List.length_append, List.length_take, List.length_cons, List.length_drop,
    List.length_eraseIdx, hc, if_true]
  omega

theorem moveAt_getElem? {α : Type} (l : List α) (c k j : Nat) (x : α) (hc : c < l.length)
    (hk : k < l.length) : (moveAt l c k x)[j]? = if j = k then some x else l[closedInv c k j]? := by
  have hel : (l.eraseIdx c).length = l.length - 1 := by simp [List.length_eraseIdx, hc]
  have htk : (List.take k (l.eraseIdx c)).length = k := by simp [hel]; omega
  unfold moveAt insertAt closedInv
  by_cases hjk : j < k
  · rw [List.getElem?_append_left (by omega)]
    have h1 : ¬ j = k := by omega
    simp only [h1, if_false, hjk, if_true, List.getElem?_take, List.getElem?_eraseIdx]
    by_cases h2 : j < c <;> simp [h2]
  · rw [List.getElem?_append_right (by omega), htk]
    by_cases h1 : j = k
    · subst h1; simp
    · have h3 : j - k = (j - k - 1) + 1 := by omega
      rw [h3, List.getElem?_cons_succ, List.getElem?_drop, List.getElem?_eraseIdx]
      have h4 : k + (j - k - 1) = j - 1 := by omega
      simp only [h1, if_false, hjk, h4]
      by_cases h2 : j - 1 < c
      · simp [h2]
      · have : j - 1 + 1 = j := by omega
        simp [h2, this]

theorem foldl_pair_set {α β : Type} (l : List Nat) (m : Nat → Nat) (g : Nat → α) (h : Nat → β)
    (a : List α) (b : List β) :
    l.foldl (fun (acc : List α × List β) i => (acc.1.set (m i) (g i), acc.2.set (m i) (h i))) (a, b)
      = (l.foldl (fun acc i => acc.set (m i) (g i)) a, l.foldl (fun acc i => acc.set (m i) (h i)) b) := by
  induction l generalizing a b with
  | nil => rfl
  | cons i l ih => simp only [List.foldl_cons]; exact ih _ _

theorem foldl_set_spec {α : Type} (m : Nat → Nat) (g : Nat → α) (n : Nat)
    (hm : ∀ i, i < n → m i < n) (hinj : ∀ i j, i < n → j < n → m i = m j → i = j)
    (init : List α) (hlen : init.length = n) (t : Nat) (ht : t ≤ n) :
    ((List.range t).foldl (fun acc i => acc.set (m i) (g i)) init).length = n ∧
    ∀ i, i < t → ((List.range t).foldl (fun acc i => acc.set (m i) (g i)) init)[m i]? = some (g i) := by
  induction t with
  | zero => exact ⟨by simpa using hlen, by intro i hi; omega⟩
  | succ t ih =>
    obtain ⟨h1, h2⟩ := ih (by omega)
    rw [List.range_succ, List.foldl_append]
    simp only [List.foldl_cons, List.foldl_nil]
    refine ⟨by simpa using h1, ?_⟩
    intro i hi
    by_cases hit : i = t
    · subst hit
      rw [List.getElem?_set_self (by rw [h1]; exact hm i (by omega))]
    · have hne : m t ≠ m i := fun e => hit (hinj t i (by omega) (by omega) e).symm
      rw [List.getElem?_set_ne hne]
      exact h2 i (by omega)

theorem goMapping_lt {n c k i : Nat} (hc : c < n) (hk : k < n) (hi : i < n) : goMapping n c k i < n := by
  rw [goMapping_closed hc hk hi]; exact closedMap_lt hc hk hi

theorem goMapping_inj {n c k i j : Nat} (hc : c < n) (hk : k < n) (hi : i < n) (hj : j < n)
    (h : goMapping n c k i = goMapping n c k j) : i = j := by
  rw [goMapping_closed hc hk hi, goMapping_closed hc hk hj] at h
  have := congrArg (closedInv c k) h
  rwa [closedInv_map, closedInv_map] at this

/-- **Schema and projections.** What `modifyColumnInSchema` builds through the index map is: the
schema with column `c` removed and the new column inserted at `k`, and the projection list
"new position ↦ old position" that is the same move applied to `0 … n-1`. -/
theorem goBuild_eq_move (sch : Schema) (c k : Nat) (col : Col) (hc : c < sch.length) (hk : k < sch.length) :
    goBuild sch c k col = (moveAt sch c k col, moveAt (List.range sch.length) c k c) := by
  unfold goBuild
  simp only []
  rw [foldl_pair_set (List.range sch.length) (goMapping sch.length c k)
    (fun i => if goMapping sch.length c k i = k then col else sch.getD i default) (fun i => i)]
  have hm : ∀ i, i < sch.length → goMapping sch.length c k i < sch.length := fun i hi => goMapping_lt hc hk hi
  have hinj : ∀ i j, i < sch.length → j < sch.length →
      goMapping sch.length c k i = goMapping sch.length c k j → i = j := fun i j hi hj => goMapping_inj hc hk hi hj
  obtain ⟨hl1, hg1⟩ := foldl_set_spec (goMapping sch.length c k)
    (fun i => if goMapping sch.length c k i = k then col else sch.getD i default) sch.length hm hinj
    (List.replicate sch.length default) (by simp) sch.length (Nat.le_refl _)
  obtain ⟨hl2, hg2⟩ := foldl_set_spec (goMapping sch.length c k) (fun i => i) sch.length hm hinj
    (List.replicate sch.length 0) (by simp) sch.length (Nat.le_refl _)
  have hmi : ∀ j, j < sch.length → goMapping sch.length c k (closedInv c k j) = j := by
    intro j hj
    rw [goMapping_closed hc hk (closedInv_lt hc hk hj), closedMap_inv]
  congr 1
  · apply List.ext_getElem?
    intro j
    by_cases hj : j < sch.length
    · have := hg1 (closedInv c k j) (closedInv_lt hc hk hj)
      rw [hmi j hj] at this
      rw [this, moveAt_getElem? sch c k j col hc hk]
      by_cases hjk : j = k
      · simp [hjk]
      · have hlt := closedInv_lt hc hk hj
        simp [hjk, List.getD_eq_getElem?_getD, hlt]
    · rw [List.getElem?_eq_none (by omega), List.getElem?_eq_none (by rw [moveAt_length _ _ _ _ hc hk]; omega)]
  · apply List.ext_getElem?
    intro j
    by_cases hj : j < sch.length
    · have := hg2 (closedInv c k j) (closedInv_lt hc hk hj)
      rw [hmi j hj] at this
      rw [this, moveAt_getElem? _ c k j c (by simpa using hc) (by simpa using hk)]
      by_cases hjk : j = k
      · simp [hjk, closedInv]
      · have hlt := closedInv_lt hc hk hj
        simp [hjk, hlt]
    · rw [List.getElem?_eq_none (by omega),
        List.getElem?_eq_none (by rw [moveAt_length _ _ _ _ (by simpa using hc) (by simpa using hk)]; simp; omega)]

/-- `reorder_is_permutation`: a move is a permutation of the list with the moved element replaced. -/
theorem moveAt_perm {α : Type} (l : List α) (c k : Nat) (x : α) :
    (moveAt l c k x).Perm (x :: l.eraseIdx c) := by
  unfold moveAt insertAt
  have h := List.perm_middle (a := x) (l₁ := List.take k (l.eraseIdx c)) (l₂ := List.drop k (l.eraseIdx c))
  rwa [List.take_append_drop] at h

-- ---------------------------------------------------------------------------------------------
-- Rows

theorem mapM_ok_of {α β : Type} (l : List α) (f : α → Except Err β) (g : α → β)
    (h : ∀ a ∈ l, f a = .ok (g a)) : l.mapM f = .ok (l.map g) := by
  induction l with
  | nil => rfl
  | cons a l ih =>
    rw [List.mapM_cons, h a (by simp), ih (fun b hb => h b (by simp [hb]))]
    rfl

/-- A value that fits its column's type is left alone by a conversion to that same type. -/
theorem convAware_self {ty : Ty} {v : Val} (spec : Bool) (h : v.fits ty = true) :
    convAware spec ty ty v = .ok v := by
  cases v with
  | null => cases ty <;> simp [convAware, convertTo]
  | int i =>
    cases ty with
    | tiny => simp [Val.fits, Ty.intRange] at h; simp [convAware, convertTo, toInt, intOf, Ty.isText, Ty.intRange, h]
    | int => simp [Val.fits, Ty.intRange] at h; simp [convAware, convertTo, toInt, intOf, Ty.isText, Ty.intRange, h]
    | big => simp [Val.fits, Ty.intRange] at h; simp [convAware, convertTo, toInt, intOf, Ty.isText, Ty.intRange, h]
    | str n => simp [Val.fits, Ty.intRange] at h
    | enum ls => simp [Val.fits, Ty.intRange] at h
  | str s =>
    cases ty with
    | str n => simp [Val.fits] at h; simp [convAware, convertTo, toStr, textOf, Ty.isText, h]
    | tiny => simp [Val.fits] at h
    | int => simp [Val.fits] at h
    | big => simp [Val.fits] at h
    | enum ls => simp [Val.fits] at h
  | en k =>
    cases ty with
    | enum ls => simp [Val.fits] at h; simp [convAware, convertTo, toEnum, Ty.isText, h]
    | tiny => simp [Val.fits] at h
    | int => simp [Val.fits] at h
    | big => simp [Val.fits] at h
    | str n => simp [Val.fits] at h

theorem rowFits_get {sch : Schema} {r : Row} (h : rowFits sch r = true) {j : Nat} (hj : j < sch.length) :
    (r.getD j .null).fits (sch.getD j default).ty = true := by
  unfold rowFits at h
  simp only [Bool.and_eq_true, List.all_eq_true, List.mem_range] at h
  exact h.2 j hj

theorem rowFits_length {sch : Schema} {r : Row} (h : rowFits sch r = true) : r.length = sch.length := by
  unfold rowFits at h
  simp only [Bool.and_eq_true, beq_iff_eq] at h
  exact h.1

theorem getD_of_getElem? {α : Type} (l : List α) (j : Nat) (d : α) : l.getD j d = (l[j]?).getD d := by
  simp [List.getD_eq_getElem?_getD]

/-- **The rewritten row (Spec).** With the schema and projections of `goBuild`, the row written by
the rewrite is the old row with the modified column's value converted and moved from `c` to `k`;
every other value is the value the same column held before. -/
theorem rewriteRow_move {old : Schema} {r : Row} {c k : Nat} {col : Col} {v' : Val}
    (hc : c < old.length) (hk : k < old.length) (hfit : rowFits old r = true)
    (hv : convAware true (old.getD c default).ty col.ty (r.getD c .null) = .ok v') :
    rewriteRow true old (moveAt old c k col) (moveAt (List.range old.length) c k c) r
      = .ok (moveAt r c k v') := by
  have hrl := rowFits_length hfit
  unfold rewriteRow
  rw [moveAt_length _ _ _ _ hc hk]
  rw [mapM_ok_of (List.range old.length) _ (fun j => if j = k then v' else r.getD (closedInv c k j) .null)]
  · congr 1
    apply List.ext_getElem?
    intro j
    rw [moveAt_getElem? r c k j v' (by omega) (by omega)]
    by_cases hj : j < old.length
    · rw [List.getElem?_map, List.getElem?_range hj]
      by_cases hjk : j = k
      · simp [hjk]
      · have hlt : closedInv c k j < r.length := by rw [hrl]; exact closedInv_lt hc hk hj
        simp [hjk, List.getD_eq_getElem?_getD, hlt]
    · have h1 : ((List.range old.length).map fun j => if j = k then v' else r.getD (closedInv c k j) .null)[j]? = none :=
        List.getElem?_eq_none (by simp; omega)
      rw [h1]
      have hjk : ¬ j = k := by omega
      simp only [hjk, if_false]
      have : r.length ≤ closedInv c k j := by
        unfold closedInv
        (repeat' split) <;> omega
      rw [List.getElem?_eq_none this]
  · intro j hj
    have hj : j < old.length := by simpa using hj
    have hsrc : (moveAt (List.range old.length) c k c).getD j 0 = if j = k then c else closedInv c k j := by
      rw [getD_of_getElem?, moveAt_getElem? _ c k j c (by simpa using hc) (by simpa using hk)]
      by_cases hjk : j = k
      · simp [hjk]
      · have := closedInv_lt hc hk hj
        simp [hjk, this]
    have hnew : (moveAt old c k col).getD j default = if j = k then col else old.getD (closedInv c k j) default := by
      rw [getD_of_getElem?, moveAt_getElem? old c k j col hc hk]
      by_cases hjk : j = k
      · simp [hjk]
      · simp [hjk, List.getD_eq_getElem?_getD]
    simp only [hsrc, hnew, if_true]
    by_cases hjk : j = k
    · simp only [hjk, if_true]
      exact hv
    · simp only [hjk, if_false]
      exact convAware_self true (rowFits_get hfit (closedInv_lt hc hk hj))

/-- **The rewrite of a table (Spec).** If the modified column's value converts in every row, the
rewrite path of MODIFY / CHANGE yields exactly the old rows with that value converted and moved. -/
theorem rewrite_rows_move {old : Schema} {rows : List Row} {c k : Nat} {col : Col} (vOf : Row → Val)
    (hc : c < old.length) (hk : k < old.length) (hfit : ∀ r ∈ rows, rowFits old r = true)
    (hv : ∀ r ∈ rows, convAware true (old.getD c default).ty col.ty (r.getD c .null) = .ok (vOf r)) :
    rows.mapM (rewriteRow true old (goBuild old c k col).1 (goBuild old c k col).2)
      = .ok (rows.map fun r => moveAt r c k (vOf r)) := by
  rw [goBuild_eq_move old c k col hc hk]
  exact mapM_ok_of rows _ _ (fun r hr => rewriteRow_move hc hk (hfit r hr) (hv r hr))

theorem insertAt_eraseIdx {α : Type} (l : List α) (i : Nat) (x : α) (hi : i ≤ l.length) :
    (insertAt l i x).eraseIdx i = l := by
  unfold insertAt
  rw [List.eraseIdx_append_of_length_le (by simp; omega)]
  simp [Nat.min_eq_left hi]

theorem step_fail_no_effect (spec : Bool) (t : Table) (op : Op) (e : Err)
    (h : (step spec t op).2 = some e) : (step spec t op).1 = t := by
  unfold step at h ⊢
  split
  · rename_i h'; rw [h'] at h; cases h
  · rfl

theorem add_spec {spec : Bool} {t t' : Table} {c : Col} {p : Pos} (h : alter spec t (.add c p) = .ok t') :
    ∃ i, addIdx t.schema p = some i ∧ t'.schema = insertAt t.schema i c ∧
      t'.rows = t.rows.map (fun r => insertAt r i (addValue c)) ∧ t'.pk = t.pk ∧ t'.key = t.key := by
  simp only [alter] at h
  split at h
  · cases h
  · split at h
    · cases h
    · rename_i i hi
      cases h
      exact ⟨i, hi, rfl, rfl, rfl, rfl⟩

theorem drop_spec {spec : Bool} {t t' : Table} {nm : Nat} (h : alter spec t (.drop nm) = .ok t') :
    ∃ i, idxOf t.schema nm = some i ∧ t'.schema = t.schema.eraseIdx i ∧
      t'.rows = t.rows.map (fun r => r.eraseIdx i) ∧ t'.pk = t.pk := by
  simp only [alter] at h
  split at h
  · cases h
  · rename_i i hi
    split at h
    · cases h
    · cases h
      exact ⟨i, hi, rfl, rfl, rfl⟩

theorem addPk_spec {spec : Bool} {t t' : Table} {ns : List Nat} (h : alter spec t (.addPk ns) = .ok t') :
    t'.rows = t.rows ∧ t'.pk = ns ∧ hasDupKey t.schema ns t.rows = false ∧
      (∀ r ∈ t.rows, (keyOf t.schema ns r).contains .null = false) := by
  simp only [alter] at h
  split at h
  · cases h
  · split at h
    · cases h
    · rename_i hn
      split at h
      · cases h
      · rename_i hd
        cases h
        refine ⟨rfl, rfl, by simpa using hd, ?_⟩
        intro r hr
        simp only [List.any_eq_true, not_exists, not_and, Bool.not_eq_true] at hn
        exact hn r hr

end Gms.Alter

namespace Gms.C21
open Gms.Alter

-- Regenerated facts -----------------------------------------------------------------------------

open Gms.Generated.C21 in
theorem facts_match :
    shouldRewriteIsOrderDropOrKeyChange = true ∧
    orderChangedComparesIndexes = true ∧ rewriteWhenNullableToNotNull = true ∧ rewriteSkippedOtherwise = true ∧
    rewriteValidatesNullability = true ∧ rewriteDiscardsOnError = true ∧
    mappingLoopShape = true ∧ newIdxShiftsWhenMovingLeft = true ∧ newSchemaBuiltThroughMapping = true ∧
    enumLabelOnlyForEnumOriginal = true ∧ inplaceUsesOwnOldType = true ∧ inplaceSplices = true := by
  decide

open Gms.Generated.C21 in
/-- The two facts the known findings rest on. The day one of them flips, the Impl model (and the
finding) must go: `rewriteRow` hands the *positional* original type to the conversion because
`projectRowWithTypes` does; CHANGE COLUMN to an existing name is a finding because the analyzer's
modify-column validation has no duplicate-name check. -/
theorem defect_facts : projectRowPositionalOldType = true ∧ modifyValidatesDuplicateName = false := by
  decide

set_option maxRecDepth 200000 in
open Gms.Generated.C21 in
/-- The Lean conversion functions reproduce `types.TypeAwareConversion` of the freshly compiled code
on every entry of the regenerated table (all type pairs, boundary values, positional mismatches). -/
theorem conv_table_match :
    convTable.all (fun e => toOpt (convAware false e.1 e.2.1 e.2.2.1) == e.2.2.2) = true := by
  decide

-- The property theorems --------------------------------------------------------------------------

/-- Region predicates (defect classes decided on the table and the statement). -/
def Region (t : Table) (op : Op) : Prop :=
  enumTextReorder t op = true ∨ emptyStringToInt t op = true ∨ changeToExistingName t op = true ∨
    renameKeyInplace t op = true ∨ afterItself op = true

/-
The property at full strength — FALSE for the unchanged code (findings below):

  theorem alter_impl_eq_spec (t : Table) (hwf : t.wf = true) (op : Op) : alter false t op = alter true t op

Guarded form: `alter false t op = alter true t op` whenever `¬ Region t op`. It is *not proved in
general* here: the driver evaluates both sides on every generated case (any difference outside the
listed regions is a VIOLATION), and the parts of `alter true` that carry the property are proved
below for all inputs. What is missing for the general guarded equation is the lemma that the
positional and the source original type give the same conversion for every position of a fitting
row outside `enumTextReorder`.
-/

/-- **`reorder_is_permutation` / `alter_preserves_retained` for MODIFY and CHANGE (rewrite path).**
For every schema, every pair of positions and every table of fitting rows: the schema
`modifyColumnInSchema` builds is the old schema with the column moved from `c` to `k`, and (Spec)
every rewritten row is the old row with the same move applied and the moved value converted — so
the value under every retained column is the value that column held before. -/
theorem modify_preserves_retained {old : Schema} {rows : List Row} {c k : Nat} {col : Col} (vOf : Row → Val)
    (hc : c < old.length) (hk : k < old.length) (hfit : ∀ r ∈ rows, rowFits old r = true)
    (hv : ∀ r ∈ rows, convAware true (old.getD c default).ty col.ty (r.getD c .null) = .ok (vOf r)) :
    (goBuild old c k col).1 = moveAt old c k col ∧
    rows.mapM (rewriteRow true old (goBuild old c k col).1 (goBuild old c k col).2)
      = .ok (rows.map fun r => moveAt r c k (vOf r)) ∧
    (∀ r ∈ rows, ∀ j, (moveAt r c k (vOf r))[j]? = if j = k then some (vOf r) else r[closedInv c k j]?) ∧
    (∀ j, (moveAt old c k col)[j]? = if j = k then some col else old[closedInv c k j]?) := by
  refine ⟨by rw [goBuild_eq_move old c k col hc hk], rewrite_rows_move vOf hc hk hfit hv, ?_, ?_⟩
  · intro r hr j
    have := rowFits_length (hfit r hr)
    exact moveAt_getElem? r c k j (vOf r) (by omega) (by omega)
  · intro j
    exact moveAt_getElem? old c k j col hc hk

/-- The in-place path applies the same move (definitionally) with the column's own original type. -/
theorem inplace_is_move (spec : Bool) (oldTy newTy : Ty) (c k : Nat) (r : Row) (v : Val)
    (h : convAware spec oldTy newTy (r.getD c .null) = .ok v) :
    inplaceRow spec oldTy newTy c k r = .ok (moveAt r c k v) := by
  unfold inplaceRow
  rw [h]

theorem reorder_is_permutation {α : Type} (l : List α) (c k : Nat) (x : α) :
    (moveAt l c k x).Perm (x :: l.eraseIdx c) := moveAt_perm l c k x

/-- ADD COLUMN: the new rows are the old rows with the default (or NULL / the zero value) inserted
at one position; removing that position gives the old row back. -/
theorem add_preserves {spec : Bool} {t t' : Table} {c : Col} {p : Pos} (h : alter spec t (.add c p) = .ok t')
    (hi : ∀ i, addIdx t.schema p = some i → ∀ r ∈ t.rows, i ≤ r.length) :
    ∃ i, t'.schema = insertAt t.schema i c ∧ t'.rows = t.rows.map (fun r => insertAt r i (addValue c)) ∧
      (∀ r ∈ t.rows, (insertAt r i (addValue c)).eraseIdx i = r) := by
  obtain ⟨i, h1, h2, h3, _, _⟩ := add_spec h
  exact ⟨i, h2, h3, fun r hr => insertAt_eraseIdx r i _ (hi i h1 r hr)⟩

theorem drop_preserves {spec : Bool} {t t' : Table} {nm : Nat} (h : alter spec t (.drop nm) = .ok t') :
    ∃ i, idxOf t.schema nm = some i ∧ t'.schema = t.schema.eraseIdx i ∧
      t'.rows = t.rows.map (fun r => r.eraseIdx i) ∧ t'.pk = t.pk := drop_spec h

/-- `add_pk_rejects_dups`: ADD PRIMARY KEY succeeds only on a table without duplicate or NULL keys,
and leaves the rows alone. -/
theorem add_pk_rejects_dups {spec : Bool} {t t' : Table} {ns : List Nat} (h : alter spec t (.addPk ns) = .ok t') :
    t'.rows = t.rows ∧ t'.pk = ns ∧ hasDupKey t.schema ns t.rows = false ∧
      (∀ r ∈ t.rows, (keyOf t.schema ns r).contains .null = false) := addPk_spec h

theorem rename_only_names (spec : Bool) (t : Table) : alter spec t .renameTable = .ok t := rfl

theorem alter_fail_no_effect (spec : Bool) (t : Table) (op : Op) (e : Err)
    (h : (step spec t op).2 = some e) : (step spec t op).1 = t := step_fail_no_effect spec t op e h

-- Findings ----------------------------------------------------------------------------------------

def cInt (n : Nat) (nullable : Bool) : Col := { name := n, ty := .int, nullable := nullable, dflt := none }

/-- `CREATE TABLE t (c0 INT PRIMARY KEY, c1 ENUM('x','y','z'), c99 INT NOT NULL)` with rows
`(1,'y',1), (2,'z',2), (3,NULL,3)`. -/
def wT1 : Table :=
  { schema := [cInt 0 false, { name := 1, ty := .enum [['x'], ['y'], ['z']], nullable := true, dflt := none }, cInt 99 false],
    pk := [0], key := [0],
    rows := [[.int 1, .en 2, .int 1], [.int 2, .en 3, .int 2], [.int 3, .null, .int 3]] }

/-- `ALTER TABLE t MODIFY COLUMN c1 VARCHAR(10) NULL FIRST`. -/
def wOp1 : Op := .modify 1 { name := 1, ty := .str 10, nullable := true, dflt := none } .first

/-- **Finding `enum_text_reorder`**: the labels `'y'`, `'z'` are stored as `'2'`, `'3'`. -/
theorem finding_enum_text_reorder :
    wT1.wf = true ∧ enumTextReorder wT1 wOp1 = true ∧
    (alter false wT1 wOp1).toOption.map (·.rows) =
      some [[.str ['2'], .int 1, .int 1], [.str ['3'], .int 2, .int 2], [.null, .int 3, .int 3]] ∧
    (alter true wT1 wOp1).toOption.map (·.rows) =
      some [[.str ['y'], .int 1, .int 1], [.str ['z'], .int 2, .int 2], [.null, .int 3, .int 3]] := by
  decide

/-- Without the move (in-place path) the same change keeps the labels. -/
theorem inplace_variant_keeps_labels :
    (alter false wT1 (.modify 1 { name := 1, ty := .str 10, nullable := true, dflt := none } .keep)).toOption =
      (alter true wT1 (.modify 1 { name := 1, ty := .str 10, nullable := true, dflt := none } .keep)).toOption ∧
    (alter true wT1 (.modify 1 { name := 1, ty := .str 10, nullable := true, dflt := none } .keep)).toOption.map (·.rows) =
      some [[.int 1, .str ['y'], .int 1], [.int 2, .str ['z'], .int 2], [.int 3, .null, .int 3]] := by
  decide

/-- `CREATE TABLE t (c0 INT PRIMARY KEY, c1 VARCHAR(5), c99 INT NOT NULL)` with `(1,'',1), (2,'7',2)`;
`ALTER TABLE t MODIFY COLUMN c1 INT NULL`. -/
def wT3 : Table :=
  { schema := [cInt 0 false, { name := 1, ty := .str 5, nullable := true, dflt := none }, cInt 99 false],
    pk := [0], key := [0], rows := [[.int 1, .str [], .int 1], [.int 2, .str ['7'], .int 2]] }
def wOp3 : Op := .modify 1 (cInt 1 true) .keep

/-- **Finding `empty_string_becomes_zero`**: `''` silently becomes 0 (the Spec rejects the statement,
as the engine itself does for `'abc'`). -/
theorem finding_empty_string_becomes_zero :
    wT3.wf = true ∧ emptyStringToInt wT3 wOp3 = true ∧
    (alter false wT3 wOp3).toOption.map (·.rows) = some [[.int 1, .int 0, .int 1], [.int 2, .int 7, .int 2]] ∧
    (alter true wT3 wOp3).toOption = none := by
  decide

/-- `CREATE TABLE t (c10 INT, c0 INT NOT NULL, c1 INT NOT NULL, c99 INT NOT NULL, PRIMARY KEY (c1, c0))`;
`ALTER TABLE t CHANGE COLUMN c0 c11 INT NOT NULL`. -/
def wT4 : Table :=
  { schema := [cInt 10 true, cInt 0 false, cInt 1 false, cInt 99 false], pk := [1, 0], key := [1, 0],
    rows := [[.null, .int 5, .int 0, .int 1], [.null, .int 4, .int 7, .int 2]] }
def wOp4 : Op := .modify 0 (cInt 11 false) .keep

/-- **Finding `rename_key_column_in_place`**: the key ordinals end up on `(c1, c10)`. -/
theorem finding_rename_key_column_in_place :
    wT4.wf = true ∧ renameKeyInplace wT4 wOp4 = true ∧
    (alter false wT4 wOp4).toOption.map (·.key) = some [1, 10] ∧
    (alter true wT4 wOp4).toOption.map (·.key) = some [1, 11] := by
  decide

/-- **Finding `change_to_existing_name`**: CHANGE COLUMN c0 c1 … on a table that has a column c1 is
accepted by the Go code path (no duplicate-name validation, `defect_facts`) and rejected by the Spec. -/
theorem finding_change_to_existing_name :
    changeToExistingName wT4 (.modify 0 (cInt 1 false) .keep) = true ∧
    (alter false wT4 (.modify 0 (cInt 1 false) .keep)).toOption.isSome = true ∧
    (alter true wT4 (.modify 0 (cInt 1 false) .keep)).toOption = none := by
  decide

-- Non-vacuity -------------------------------------------------------------------------------------

/-- The hypotheses of `modify_preserves_retained` hold on a table with data: `c = 1`, `k = 0`
(`MODIFY c1 … FIRST`), the value converts in every row. -/
example : (1 < wT1.schema.length ∧ 0 < wT1.schema.length) ∧ (∀ r ∈ wT1.rows, rowFits wT1.schema r = true) ∧
    (∀ r ∈ wT1.rows, (convAware true (wT1.schema.getD 1 default).ty (.str 10) (r.getD 1 .null)).toOption.isSome = true) := by
  decide

example : goMapping 5 3 1 0 = 0 ∧ goMapping 5 3 1 1 = 2 ∧ goMapping 5 3 1 2 = 3 ∧ goMapping 5 3 1 3 = 1 ∧ goMapping 5 3 1 4 = 4 := by
  decide

example : moveAt [10, 11, 12, 13, 14] 3 1 99 = [10, 99, 11, 12, 14] := by decide

/-- A conversion failure is an error without effect. -/
example : (step true wT1 (.modify 1 { name := 1, ty := .tiny, nullable := false, dflt := none } .keep)) = (wT1, some Err.nullNN) := by
  decide

end Gms.C21
