/-
C51 — Full-text search matches the indexed words and stays in sync.

Model: Gms/Model/Fulltext.lean. Helper lemmas first (namespace Gms.Fulltext), property theorems
at the end (namespace Gms.C51).
-/
import Gms.Model.Fulltext
import Gms.Lemmas.FulltextEditor
import Gms.Generated.C51

namespace Gms.Fulltext

/-- `cur` (reversed building word) starts and ends with a non-apostrophe. -/
def GoodWord (cur : Word) : Prop :=
  (∃ f, cur.getLast? = some f ∧ isApos f = false) ∧ (∃ h, cur.head? = some h ∧ isApos h = false)

def fstWords (W : List (Word × Nat)) : List Word := W.reverse.map (·.1)

def okw (minLen : Nat) (w : Word) : Bool := decide (bytes w ≥ minLen)

theorem dropWhile_head_false (l : Word) (h : R) (hh : l.head? = some h) (hn : isApos h = false) :
    l.dropWhile isApos = l := by
  cases l with
  | nil => rfl
  | cons x xs => simp at hh; subst hh; simp [List.dropWhile, hn]

theorem emit_nil (minLen : Nat) (hm : 0 < minLen) (pos : Nat) (W : List (Word × Nat)) :
    emit minLen [] pos W = W := by
  simp [emit, trimLeft, trimRight, bytes]
  omega

theorem emit_good (minLen : Nat) (cur : Word) (g : GoodWord cur) (pos : Nat) (W : List (Word × Nat)) :
    fstWords (emit minLen cur pos W) = fstWords W ++ (if okw minLen cur.reverse then [cur.reverse] else []) := by
  obtain ⟨⟨f, hf, hfa⟩, ⟨h, hh, hha⟩⟩ := g
  have h1 : trimLeft cur.reverse = cur.reverse :=
    dropWhile_head_false cur.reverse f (by simpa using hf) hfa
  have h2 : trimRight cur.reverse = cur.reverse := by
    simp [trimRight, dropWhile_head_false cur h hh hha]
  unfold emit
  simp only [h1, h2, okw]
  split <;> simp_all [fstWords]

theorem emit_apos (minLen : Nat) (a : R) (cur : Word) (g : GoodWord cur) (ha : isApos a = true) (pos : Nat)
    (W : List (Word × Nat)) :
    fstWords (emit minLen (a :: cur) pos W) = fstWords W ++ (if okw minLen cur.reverse then [cur.reverse] else []) := by
  obtain ⟨⟨f, hf, hfa⟩, ⟨h, hh, hha⟩⟩ := g
  have hne : cur ≠ [] := by intro e; simp [e] at hh
  have h1 : trimLeft (a :: cur).reverse = (a :: cur).reverse := by
    apply dropWhile_head_false _ f _ hfa
    simp [List.head?_append, hf]
  have h2 : trimRight (a :: cur).reverse = cur.reverse := by
    simp [trimRight, ha, dropWhile_head_false cur h hh hha]
  unfold emit
  simp only [h1, h2, okw]
  split <;> simp_all [fstWords]

/-- Words finally delivered when the loop continues from `ts` at byte index `i` over `rest`. -/
def out (minLen : Nat) (ts : TS) (i : Nat) (rest : List R) : List Word :=
  let t := run minLen ts i rest
  fstWords (emit minLen t.bw t.pos t.words)

def filt (minLen : Nat) (l : List Word) : List Word := l.filter (okw minLen)

theorem goodWord_single (r : R) (h : isApos r = false) : GoodWord [r] :=
  ⟨⟨r, rfl, h⟩, ⟨r, rfl, h⟩⟩

theorem goodWord_cons (r : R) (cur : Word) (g : GoodWord cur) (h : isApos r = false) : GoodWord (r :: cur) := by
  obtain ⟨⟨f, hf, hfa⟩, _⟩ := g
  refine ⟨⟨f, ?_, hfa⟩, ⟨r, rfl, h⟩⟩
  cases cur with
  | nil => simp at hf
  | cons c cs => simpa [List.getLast?_cons_cons] using hf

theorem goodWord_cons2 (r a : R) (cur : Word) (g : GoodWord cur) (h : isApos r = false) : GoodWord (r :: a :: cur) := by
  obtain ⟨⟨f, hf, hfa⟩, _⟩ := g
  refine ⟨⟨f, ?_, hfa⟩, ⟨r, rfl, h⟩⟩
  cases cur with
  | nil => simp at hf
  | cons c cs => simpa [List.getLast?_cons_cons] using hf

theorem okw_nil (minLen : Nat) (hm : 0 < minLen) : okw minLen [] = false := by
  simp [okw, bytes]; omega

/-- The loop invariant: in each of the three parser states the words still to be delivered are
the Spec pieces of the remaining input (in the apostrophe state the Spec is one rune behind). -/
theorem run_pieces (minLen : Nat) (hm : 0 < minLen) (rest : List R)
    (hdoc : ∀ r ∈ rest, r.ch = true → isApos r = false) :
    (∀ pos W i, out minLen { st := .ws, bw := [], pos := pos, words := W } i rest
        = fstWords W ++ filt minLen (pieces false rest [])) ∧
    (∀ cur pos W i, GoodWord cur → out minLen { st := .word, bw := cur, pos := pos, words := W } i rest
        = fstWords W ++ filt minLen (pieces true rest cur)) ∧
    (∀ a cur pos W i, GoodWord cur → isApos a = true → a.ch = false →
        out minLen { st := .apos, bw := a :: cur, pos := pos, words := W } i rest
        = fstWords W ++ filt minLen (pieces true (a :: rest) cur)) := by
  induction rest with
  | nil =>
    refine ⟨?_, ?_, ?_⟩
    · intro pos W i
      simp [out, run, emit_nil minLen hm, pieces, filt, okw_nil minLen hm]
    · intro cur pos W i g
      simp only [out, run, emit_good minLen cur g, pieces, filt, List.filter]
      split <;> simp_all
    · intro a cur pos W i g ha hac
      simp only [out, run, emit_apos minLen a cur g ha, pieces, filt, hac, ha, nextIsCh]
      simp [List.filter, okw_nil minLen hm]
      split <;> simp_all
  | cons r rest ih =>
    have hdoc' : ∀ x ∈ rest, x.ch = true → isApos x = false := fun x hx => hdoc x (by simp [hx])
    obtain ⟨ihA, ihB, ihC⟩ := ih hdoc'
    have hr := hdoc r (by simp)
    refine ⟨?_, ?_, ?_⟩
    · intro pos W i
      cases hch : r.ch with
      | true =>
        have := ihB [r] pos W (i + r.len) (goodWord_single r (hr hch))
        simp only [out, run, step, hch, pieces, if_true, Bool.true_or] at this ⊢
        exact this
      | false =>
        have := ihA (pos + 1) W (i + r.len)
        simp only [out, run, step, hch, pieces, Bool.false_or, Bool.and_false, Bool.false_and, Bool.false_eq_true, if_false,
          List.reverse_nil, filt, List.filter, okw_nil minLen hm] at this ⊢
        exact this
    · intro cur pos W i g
      cases hch : r.ch with
      | true =>
        have := ihB (r :: cur) pos W (i + r.len) (goodWord_cons r cur g (hr hch))
        simp only [out, run, step, hch, pieces, Bool.true_or, if_true, Bool.not_true, Bool.false_eq_true, if_false] at this ⊢
        exact this
      | false =>
        cases ha : isApos r with
        | true =>
          have := ihC r cur pos W (i + r.len) g ha hch
          simp only [out, run, step, hch, ha, Bool.not_false, if_true] at this ⊢
          exact this
        | false =>
          have := ihA i (emit minLen cur pos W) (i + r.len)
          simp only [out, run, step, hch, ha, Bool.not_false, if_true, Bool.false_eq_true, if_false, pieces,
            Bool.false_or, Bool.false_and, filt, List.filter] at this ⊢
          rw [this, emit_good minLen cur g]
          split <;> simp_all
    · intro a cur pos W i g ha hac
      cases hch : r.ch with
      | true =>
        have := ihB (r :: a :: cur) pos W (i + r.len) (goodWord_cons2 r a cur g (hr hch))
        simp only [out, run, step, hch, pieces, hac, ha, nextIsCh, Bool.true_or, Bool.false_or, Bool.and_self,
          if_true, Bool.not_true, Bool.false_eq_true, if_false] at this ⊢
        exact this
      | false =>
        have := ihA i (emit minLen (a :: cur) pos W) (i + r.len)
        simp only [out, run, step, hch, pieces, hac, ha, nextIsCh, Bool.false_or, Bool.and_false, Bool.false_and,
          Bool.false_eq_true, if_false, Bool.not_false, if_true, filt, List.filter, List.reverse_nil,
          okw_nil minLen hm] at this ⊢
        rw [this, emit_apos minLen a cur g ha]
        split <;> simp_all

/-! ### Unique words -/

section uniq
variable {κ : Type} [DecidableEq κ]

/-- Count recorded for key `k` (0 when absent). -/
def cnt (k : κ) : List (Word × κ × Nat) → Nat
  | [] => 0
  | (_, k', n) :: rest => if k' = k then n else cnt k rest

theorem cnt_bump (k k' : κ) (w : Word) (acc : List (Word × κ × Nat)) :
    cnt k' (bump k w acc) = cnt k' acc + (if k' = k then 1 else 0) := by
  induction acc with
  | nil =>
    by_cases h : k' = k
    · subst h; simp [bump, cnt]
    · have h' : ¬ k = k' := fun e => h e.symm
      simp [bump, cnt, h, h']
  | cons e rest ih =>
    obtain ⟨w0, k0, n0⟩ := e
    by_cases h0 : k0 = k
    · subst h0
      by_cases h : k0 = k'
      · subst h; simp [bump, cnt]
      · have h' : ¬ k' = k0 := fun e => h e.symm
        simp [bump, cnt, h, h']
    · by_cases h : k0 = k'
      · subst h
        simp [bump, cnt, h0]
      · simp [bump, cnt, h0, h, ih]

theorem keys_bump (k : κ) (w : Word) (acc : List (Word × κ × Nat)) :
    (bump k w acc).map (·.2.1) = if k ∈ acc.map (·.2.1) then acc.map (·.2.1) else acc.map (·.2.1) ++ [k] := by
  induction acc with
  | nil => simp [bump]
  | cons e rest ih =>
    obtain ⟨w0, k0, n0⟩ := e
    by_cases h0 : k0 = k
    · subst h0; simp [bump]
    · have h0' : ¬ k = k0 := fun e => h0 e.symm
      simp only [bump, h0, if_false, List.map_cons, ih, List.mem_cons, h0', false_or]
      split <;> simp

theorem nodup_bump (k : κ) (w : Word) (acc : List (Word × κ × Nat)) (h : (acc.map (·.2.1)).Nodup) :
    ((bump k w acc).map (·.2.1)).Nodup := by
  rw [keys_bump]
  split
  · exact h
  · rename_i hk
    rw [List.nodup_append]
    exact ⟨h, by simp, by intro a ha b hb; simp at hb; subst hb; intro e; subst e; exact hk ha⟩

theorem foldl_inv (key : Word → κ) (ws : List Word) (acc : List (Word × κ × Nat)) (h : (acc.map (·.2.1)).Nodup) (k : κ) :
    ((ws.foldl (fun a w => bump (key w) w a) acc).map (·.2.1)).Nodup ∧
    cnt k (ws.foldl (fun a w => bump (key w) w a) acc) = cnt k acc + (ws.filter (fun w => decide (key w = k))).length := by
  induction ws generalizing acc with
  | nil => simp [h]
  | cons w ws ih =>
    have := ih (bump (key w) w acc) (nodup_bump _ _ _ h)
    simp only [List.foldl_cons]
    refine ⟨this.1, ?_⟩
    rw [this.2, cnt_bump]
    by_cases hk : key w = k
    · subst hk
      simp [List.filter]; omega
    · have hk' : ¬ k = key w := fun e => hk e.symm
      simp [List.filter, hk, hk']

theorem mem_keys_foldl (key : Word → κ) (ws : List Word) (acc : List (Word × κ × Nat)) (k : κ) :
    k ∈ (ws.foldl (fun a w => bump (key w) w a) acc).map (·.2.1) ↔ k ∈ acc.map (·.2.1) ∨ ∃ w ∈ ws, key w = k := by
  induction ws generalizing acc with
  | nil => simp
  | cons w ws ih =>
    simp only [List.foldl_cons]
    rw [ih, keys_bump]
    constructor
    · rintro (h | ⟨w', hw', e⟩)
      · split at h
        · exact Or.inl h
        · rcases List.mem_append.mp h with h | h
          · exact Or.inl h
          · simp at h; exact Or.inr ⟨w, by simp, h.symm⟩
      · exact Or.inr ⟨w', by simp [hw'], e⟩
    · rintro (h | ⟨w', hw', e⟩)
      · left; split
        · exact h
        · exact List.mem_append.mpr (Or.inl h)
      · rcases List.mem_cons.mp hw' with rfl | hw''
        · left; split
          · rename_i hk; rw [← e]; exact hk
          · rw [← e]; simp
        · exact Or.inr ⟨w', hw'', e⟩

/-- MATCH is true exactly when at least one unique word of the search string is counted. -/
theorem ftMatch_iff_count (key : Word → κ) (minLen maxLen : Nat) (q doc : List R) :
    ftMatch key minLen maxLen q doc = true ↔ 0 < matchCount key minLen maxLen q doc := by
  unfold ftMatch matchCount
  rw [List.any_eq_true, List.length_pos_iff_exists_mem]
  constructor
  · rintro ⟨w, hw, hp⟩
    have hk : key w ∈ (uniqueWords key ((tokenize minLen q).map (·.1))).map (·.2.1) := by
      unfold uniqueWords
      rw [mem_keys_foldl]; exact Or.inr ⟨w, hw, rfl⟩
    obtain ⟨e, he, hek⟩ := List.mem_map.mp hk
    exact ⟨e, List.mem_filter.mpr ⟨he, by rw [hek]; exact hp⟩⟩
  · rintro ⟨e, he⟩
    obtain ⟨he1, he2⟩ := List.mem_filter.mp he
    have hk : e.2.1 ∈ (uniqueWords key ((tokenize minLen q).map (·.1))).map (·.2.1) :=
      List.mem_map.mpr ⟨e, he1, rfl⟩
    unfold uniqueWords at hk
    rw [mem_keys_foldl] at hk
    rcases hk with hk | ⟨w, hw, hwk⟩
    · simp at hk
    · exact ⟨w, hw, by rw [hwk]; exact he2⟩

end uniq

theorem tokens_spec (minLen : Nat) (hm : 0 < minLen) (doc : List R)
    (hdoc : ∀ r ∈ doc, r.ch = true → isApos r = false) :
    (tokenize minLen doc).map (·.1) = specWords minLen doc := by
  have := (run_pieces minLen hm doc hdoc).1 0 [] 0
  have e : okw minLen = fun w => decide (bytes w ≥ minLen) := rfl
  simpa [out, fstWords, tokenize, specWords, filt, e, init] using this

section where_form
variable {κ : Type} [DecidableEq κ]

theorem implMatchWhere_eq (key : Word → κ) (minLen maxLen : Nat) (rows : List Row) (q : List R)
    (h : ∀ r ∈ rows, matchCount key minLen maxLen q (docOf r) < 2) :
    (rows.flatMap fun r => List.replicate (matchCount key minLen maxLen q (docOf r)) r)
      = rows.filter fun r => ftMatch key minLen maxLen q (docOf r) := by
  induction rows with
  | nil => rfl
  | cons r rs ih =>
    have hr := h r (by simp)
    have ih' := ih (fun x hx => h x (by simp [hx]))
    simp only [List.flatMap_cons, List.filter_cons, ih']
    have hiff := ftMatch_iff_count key minLen maxLen q (docOf r)
    cases hc : matchCount key minLen maxLen q (docOf r) with
    | zero =>
      have : ftMatch key minLen maxLen q (docOf r) = false := by
        cases hm : ftMatch key minLen maxLen q (docOf r) with
        | false => rfl
        | true => have := hiff.mp hm; omega
      simp [this]
    | succ n =>
      have hn : n = 0 := by omega
      subst hn
      have : ftMatch key minLen maxLen q (docOf r) = true := hiff.mpr (by omega)
      simp [this]

theorem foldl_applyOpImpl (minLen maxLen : Nat) (keyed : Bool) (ops : List Op) (rows : List Row)
    (h : rStuck minLen maxLen keyed rows ops = false) :
    ops.foldl (applyOpImpl minLen maxLen keyed) rows = ops.foldl (applyOp keyed) rows := by
  induction ops generalizing rows with
  | nil => rfl
  | cons op ops ih =>
    simp only [rStuck, Bool.or_eq_false_iff] at h
    obtain ⟨h1, h2⟩ := h
    have e : applyOpImpl minLen maxLen keyed rows op = applyOp keyed rows op := by
      cases op <;> simp_all [applyOpImpl]
    simp only [List.foldl_cons]
    rw [← e]
    exact ih _ h2

end where_form

end Gms.Fulltext

/-! ## Property theorems -/
namespace Gms.C51
open Gms.Fulltext

/-- Facts regenerated from the source on this run: every minimum-length test of the parser is
`len(word.Word) >= 3`, the three parser states, the `isCharacter` / `isApostrophe` predicates the
harness classifies runes with, the apostrophe trims of `newParserWord`, `maxWordLength`, and the
number of `len(word) > maxWordLength` guards in the editor's `Insert` (3) and `Delete` (1 — the
DOC_COUNT loop of `Delete` has none, see `finding_dml_rejected_for_row_with_overlong_word`). -/
theorem facts_match :
    Generated.C51.minWordLenSites = [3, 3, 3] ∧ Generated.C51.minWordLenOps = [">=", ">=", ">="] ∧
    Generated.C51.isCharacterExpr =
      "((unicode.IsLetter(r) || unicode.IsNumber(r) || unicode.IsDigit(r)) && !unicode.IsPunct(r)) || r == '_'" ∧
    Generated.C51.isApostropheExpr = "r == '\\''" ∧
    Generated.C51.parserStateCases = ["parserState_Whitespace", "parserState_Word", "parserState_Apostrophe"] ∧
    Generated.C51.wordTrims = ["strings.TrimLeft \"'\"", "strings.TrimRight \"'\""] ∧
    Generated.C51.maxWordLength = 84 ∧
    Generated.C51.maxLenGuardsInsert = 3 ∧ Generated.C51.maxLenGuardsDelete = 1 := by
  decide

/-- Tokenizer = Spec, for every document: the state machine of `NewDefaultParser` delivers exactly
the pieces between separators that have at least 3 bytes, where a rune is part of a word iff it is
a word character or an apostrophe directly between two word characters (so `it's` is one word,
`it''s` is two pieces, leading/trailing apostrophes never belong to a word). Hypothesis: the
apostrophe is not itself classified as a word character (true of Go's predicate: `'` is
punctuation; the driver checks it on every case). -/
theorem tokens_spec (doc : List R) (hdoc : ∀ r ∈ doc, r.ch = true → isApos r = false) :
    (tokenize 3 doc).map (·.1) = specWords 3 doc :=
  Gms.Fulltext.tokens_spec 3 (by decide) doc hdoc

/-- Non-vacuity: `it's a''b c'` over ASCII: words `it's` only (`a`, `b`, `c` are too short). -/
example :
    let a (c : Nat) : R := { cp := c, len := 1, ch := true }
    let q : R := { cp := 39, len := 1, ch := false }
    let s : R := { cp := 32, len := 1, ch := false }
    (tokenize 3 [a 105, a 116, q, a 115, s, a 97, q, q, a 98, s, a 99, q]).map (·.1) = [[a 105, a 116, q, a 115]]
    ∧ specWords 3 [a 105, a 116, q, a 115, s, a 97, q, q, a 98, s, a 99, q] = [[a 105, a 116, q, a 115]] := by
  decide

/-- The unique-word list has one entry per class of the collation hash. -/
theorem unique_keys_nodup {κ : Type} [DecidableEq κ] (key : Word → κ) (ws : List Word) :
    ((uniqueWords key ws).map (·.2.1)).Nodup :=
  (foldl_inv key ws [] (by simp) (key [])).1

/-- `DocumentCount(word)`: the count recorded for a class is the number of words of the document
in that class. -/
theorem unique_count {κ : Type} [DecidableEq κ] (key : Word → κ) (ws : List Word) (k : κ) :
    cnt k (uniqueWords key ws) = (ws.filter (fun w => decide (key w = k))).length := by
  have := (foldl_inv key ws [] (by simp) k).2
  simpa [cnt, uniqueWords] using this

/-- Every class of the collation hash that occurs in the document is listed, and nothing else. -/
theorem unique_complete {κ : Type} [DecidableEq κ] (key : Word → κ) (ws : List Word) (k : κ) :
    k ∈ (uniqueWords key ws).map (·.2.1) ↔ ∃ w ∈ ws, key w = k := by
  unfold uniqueWords
  rw [mem_keys_foldl]; simp

/-- MATCH … AGAINST (relevance > 0) ⇔ some word of the search string has the collation key of some
storable word of the row's document ⇔ the per-word lookup loop of `inNaturalLanguageMode` /
`fulltextFilterTableRowIter` (one lookup per unique search word) finds at least one entry. -/
theorem match_iff {κ : Type} [DecidableEq κ] (key : Word → κ) (q doc : List R) :
    (ftMatch key 3 84 q doc = true ↔
      ∃ w ∈ (tokenize 3 q).map (·.1), ∃ w' ∈ indexable 3 84 doc, key w = key w') ∧
    (ftMatch key 3 84 q doc = true ↔ 0 < matchCount key 3 84 q doc) := by
  refine ⟨?_, ftMatch_iff_count key 3 84 q doc⟩
  simp [ftMatch, List.any_eq_true]

/-
Full statement for the WHERE form — FALSE for the code as it is (`finding_where_match_repeats…`):
  ∀ keyed rows q, implMatchWhere key 3 84 keyed rows q = specMatch key 3 84 rows q
-/

/-- WHERE MATCH … returns each matching row exactly once — guarded: unless the table has a
primary key and some row contains two different words of the search string. -/
theorem where_form_partial {κ : Type} [DecidableEq κ] (key : Word → κ) (keyed : Bool) (rows : List Row) (q : List R)
    (h : rRepeats key 3 84 keyed rows q = false) :
    implMatchWhere key 3 84 keyed rows q = specMatch key 3 84 rows q := by
  unfold implMatchWhere specMatch
  cases keyed with
  | false => simp
  | true =>
    simp only [if_true]
    apply implMatchWhere_eq
    intro r hr
    simp only [rRepeats, Bool.true_and] at h
    have := List.any_eq_false.mp h r hr
    simpa using this

def ascii (s : List Nat) : List R := s.map fun c =>
  { cp := c, len := 1, ch := (97 ≤ c && c ≤ 122) || (65 ≤ c && c ≤ 90) }

/-- Finding: a keyed row containing both `sun` and `pie` is returned twice for `AGAINST ('sun pie')`. -/
theorem finding_where_match_repeats_row_per_matched_word :
    ∃ rows q, rRepeats (fun w => w) 3 84 true rows q = true ∧
      implMatchWhere (fun w => w) 3 84 true rows q ≠ specMatch (fun w => w) 3 84 rows q :=
  ⟨[{ id := 1, cols := [some (ascii [115, 117, 110, 32, 112, 105, 101])] }], ascii [115, 117, 110, 32, 112, 105, 101], by decide⟩

/-
Full statement for DML histories — FALSE for the code as it is:
  ∀ keyed ops, ops.foldl (applyOpImpl 3 84 keyed) [] = ops.foldl (applyOp keyed) []
-/

/-- Table contents after a history follow the reference semantics — guarded: unless the history
deletes or updates a row whose document contains a word longer than `maxWordLength` bytes. -/
theorem dml_partial (keyed : Bool) (ops : List Op) (h : rStuck 3 84 keyed [] ops = false) :
    ops.foldl (applyOpImpl 3 84 keyed) [] = ops.foldl (applyOp keyed) [] :=
  foldl_applyOpImpl 3 84 keyed ops [] h

set_option maxRecDepth 100000 in
/-- Finding: a row with an 85-byte word can be inserted but never deleted (the statement fails). -/
theorem finding_dml_rejected_for_row_with_overlong_word :
    ∃ keyed ops, rStuck 3 84 keyed [] ops = true ∧
      ops.foldl (applyOpImpl 3 84 keyed) [] ≠ ops.foldl (applyOp keyed) [] :=
  ⟨true, [.ins { id := 1, cols := [some (ascii (List.replicate 85 119))] }, .del 1], by decide⟩

/-- Non-vacuity of `dml_partial` / `where_form_partial`: a history with insert, update, key change
and delete on short words. -/
example : rStuck 3 84 true [] [.ins { id := 1, cols := [some (ascii [115, 117, 110])] }, .upd 1 [some (ascii [112, 105, 101])],
      .rekey 1 2, .ins { id := 1, cols := [none] }, .del 1] = false
    ∧ ([Op.ins { id := 1, cols := [some (ascii [115, 117, 110])] }, .upd 1 [some (ascii [112, 105, 101])],
      .rekey 1 2, .ins { id := 1, cols := [none] }, .del 1].foldl (applyOp true) []).map (·.id) = [2] := by
  decide

/-! ### The editor keeps the pseudo-index tables in sync (Impl model Gms/Model/FulltextEditor.lean) -/

/-- `TableEditor.Insert` preserves "index tables = F(rows)" — for every table state, row, collation
hash and row-key function (primary key or row hash), duplicates included. -/
theorem editor_insert_sync {κ ρ : Type} [DecidableEq κ] [DecidableEq ρ] (key : Word → κ) (rk : Row → ρ)
    (rows : List Row) (ix : Idx κ ρ) (r : Row) (hs : Sync key rk 3 84 rows ix) (hk : KeysOK rk (r :: rows)) :
    Sync key rk 3 84 (r :: rows) (edInsert key rk 3 84 ix r) :=
  sync_insert key rk 3 84 rows ix r hs hk

/-
Full statement for Delete — FALSE for the code as it is (`finding_editor_delete_fails`):
  ∀ rows ix r, Sync rows ix → r ∈ rows → ∃ ix', edDelete ix r = some ix' ∧ Sync (rows.erase r) ix'
-/

/-- `TableEditor.Delete` succeeds and preserves "index tables = F(rows)" — guarded: the row's
document has no word longer than `maxWordLength`. -/
theorem editor_delete_sync_partial {κ ρ : Type} [DecidableEq κ] [DecidableEq ρ] (key : Word → κ) (rk : Row → ρ)
    (rows : List Row) (ix : Idx κ ρ) (r : Row) (hs : Sync key rk 3 84 rows ix) (hk : KeysOK rk rows) (hr : r ∈ rows)
    (hl : noLong 3 84 r) :
    ∃ ix', edDelete key rk 3 84 ix r = some ix' ∧ Sync key rk 3 84 (rows.erase r) ix' :=
  sync_delete key rk 3 84 rows ix r hs hk hr hl

/-- `Delete` (hence `Update`) fails exactly when it reaches the last copy of a row whose document
contains a unique word of more than 84 bytes — the region `dml_rejected_for_row_with_overlong_word`
derived from the editor model instead of postulated. -/
theorem editor_delete_fails_iff {κ ρ : Type} [DecidableEq κ] [DecidableEq ρ] (key : Word → κ) (rk : Row → ρ)
    (rows : List Row) (ix : Idx κ ρ) (r : Row) (hs : Sync key rk 3 84 rows ix) :
    edDelete key rk 3 84 ix r = none ↔ rows.count r = 1 ∧ (uniq key 3 r).any (fun e => bytes e.1 > 84) = true :=
  delete_fails_iff key rk 3 84 rows ix r hs

/-- **The index stays in sync across any DML history** (`ft_index_inv`): starting from the empty
table, after any sequence of row-level `Insert` / `Delete` / `Update` calls that are admissible on
the table they meet (deleted rows exist, keys stay unique) and delete no row with an over-long word,
no call fails and ROW_COUNT, DOC_COUNT, GLOBAL_COUNT and POSITION are exactly the Spec functions of
the resulting table. -/
theorem ft_index_inv {κ ρ : Type} [DecidableEq κ] [DecidableEq ρ] (key : Word → κ) (rk : Row → ρ)
    (ops : List EdOp) (h : histOK rk 3 84 [] ops) :
    ∃ ix, runEd key rk 3 84 (Idx.empty : Idx κ ρ) ops = some ix ∧ Sync key rk 3 84 (ops.foldl tblStep []) ix :=
  sync_hist key rk 3 84 ops [] Idx.empty (sync_empty key rk 3 84) (fun _ ha => by simp at ha) h

def row1 : Row := { id := 1, cols := [some (ascii [115, 117, 110, 32, 112, 105, 101])] }   -- 'sun pie'
def row2 : Row := { id := 2, cols := [some (ascii [115, 117, 110])] }                       -- 'sun'
def rowLong : Row := { id := 3, cols := [some (ascii (List.replicate 85 119))] }            -- 85 × 'w'

/-- Non-vacuity of `ft_index_inv`: insert, insert, update, delete on a keyed table. -/
example : histOK (fun r => r.id) 3 84 [] [.ins row1, .ins row2, .upd row1 { row1 with cols := [none] }, .del row2] := by
  simp only [histOK, opOK, opNoLong, tblStep, KeysOK, noLong]
  decide

set_option maxRecDepth 100000 in
/-- Finding (same region as `finding_dml_rejected_for_row_with_overlong_word`, on the editor model):
after inserting a row with an 85-byte word, `Delete` of that row fails. -/
theorem finding_editor_delete_fails :
    ∃ ops r, (runEd (fun w => w) (fun r => r.id) 3 84 (Idx.empty : Idx Word Nat) ops).isSome = true ∧
      r ∈ ops.foldl tblStep [] ∧
      (runEd (fun w => w) (fun r => r.id) 3 84 (Idx.empty : Idx Word Nat) (ops ++ [.del r])).isSome = false :=
  ⟨[.ins rowLong], rowLong, by decide⟩


end Gms.C51
