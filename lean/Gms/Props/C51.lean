/-
C51 — Full-text search matches the indexed words and stays in sync.

Model: Gms/Model/Fulltext.lean. Helper lemmas first (namespace Gms.Fulltext), property theorems
at the end (namespace Gms.C51).
-/
import Gms.Model.Fulltext
import Gms.Lemmas.FulltextEditor
import Gms.Lemmas.FulltextKeys
import Gms.Generated.C51

namespace Gms.Fulltext

/-- `cur` (reversed building word) starts and ends with a non-apostrophe. -/
def GoodWord (cur : Word) : Prop :=
  (∃ f, cur.getLast? = some f ∧ isApos f = false) ∧ (∃ h, cur.head? = some h ∧ isApos h = false)

def fstWords (W : List (Word × Nat)) : List Word := W.reverse.map (·.1)

def okw (minLen : Nat) (w : Word) : Bool := decide (bytes w ≥ minLen)

theorem dropWhile_head_false (l : Word) (h : R) (hh : l.head? = some h) (hn : isApos h = false) :
    l.dropWhile isApos = l := by
  cases l with
  | nil => rfl
  | cons x xs => simp at hh; subst hh; simp [List.dropWhile, hn]

theorem emit_nil (minLen : Nat) (hm : 0 < minLen) (pos : Nat) (W : List (Word × Nat)) :
    emit minLen [] pos W = W := by
  simp [emit, trimLeft, trimRight, bytes]
  omega

theorem emit_good (minLen : Nat) (cur : Word) (g : GoodWord cur) (pos : Nat) (W : List (Word × Nat)) :
    fstWords (emit minLen cur pos W) = fstWords W ++ (if okw minLen cur.reverse then [cur.reverse] else []) := by
  obtain ⟨⟨f, hf, hfa⟩, ⟨h, hh, hha⟩⟩ := g
  have h1 : trimLeft cur.reverse = cur.reverse :=
    dropWhile_head_false cur.reverse f (by simpa using hf) hfa
  have h2 : trimRight cur.reverse = cur.reverse := by
    simp [trimRight, dropWhile_head_false cur h hh hha]
  unfold emit
  simp only [h1, h2, okw]
  split <;> simp_all [fstWords]

theorem emit_apos (minLen : Nat) (a : R) (cur : Word) (g : GoodWord cur) (ha : isApos a = true) (pos : Nat)
    (W : List (Word × Nat)) :
    fstWords (emit minLen (a :: cur) pos W) = fstWords W ++ (if okw minLen cur.reverse then [cur.reverse] else []) := by
  obtain ⟨⟨f, hf, hfa⟩, ⟨h, hh, hha⟩⟩ := g
  have hne : cur ≠ [] := by intro e; simp [e] at hh
  have h1 : trimLeft (a :: cur).reverse = (a :: cur).reverse := by
    apply dropWhile_head_false _ f _ hfa
    simp [List.head?_append, hf]
  have h2 : trimRight (a :: cur).reverse = cur.reverse := by
    simp [trimRight, ha, dropWhile_head_false cur h hh hha]
  unfold emit
  simp only [h1, h2, okw]
  split <;> simp_all [fstWords]

/-- Words finally delivered when the loop continues from `ts` at byte index `i` over `rest`. -/
def out (minLen : Nat) (ts : TS) (i : Nat) (rest : List R) : List Word :=
  let t := run minLen ts i rest
  fstWords (emit minLen t.bw t.pos t.words)

def filt (minLen : Nat) (l : List Word) : List Word := l.filter (okw minLen)

theorem goodWord_single (r : R) (h : isApos r = false) : GoodWord [r] :=
  ⟨⟨r, rfl, h⟩, ⟨r, rfl, h⟩⟩

theorem goodWord_cons (r : R) (cur : Word) (g : GoodWord cur) (h : isApos r = false) : GoodWord (r :: cur) := by
  obtain ⟨⟨f, hf, hfa⟩, _⟩ := g
  refine ⟨⟨f, ?_, hfa⟩, ⟨r, rfl, h⟩⟩
  cases cur with
  | nil => simp at hf
  | cons c cs => simpa [List.getLast?_cons_cons] using hf

theorem goodWord_cons2 (r a : R) (cur : Word) (g : GoodWord cur) (h : isApos r = false) : GoodWord (r :: a :: cur) := by
  obtain ⟨⟨f, hf, hfa⟩, _⟩ := g
  refine ⟨⟨f, ?_, hfa⟩, ⟨r, rfl, h⟩⟩
  cases cur with
  | nil => simp at hf
  | cons c cs => simpa [List.getLast?_cons_cons] using hf

theorem okw_nil (minLen : Nat) (hm : 0 < minLen) : okw minLen [] = false := by
  simp [okw, bytes]; omega

/-- The loop invariant: in each of the three parser states the words still to be delivered are
the Spec pieces of the remaining input (in the apostrophe state the Spec is one rune behind). -/
theorem run_pieces (minLen : Nat) (hm : 0 < minLen) (rest : List R)
    (hdoc : ∀ r ∈ rest, r.ch = true → isApos r = false) :
    (∀ pos W i, out minLen { st := .ws, bw := [], pos := pos, words := W } i rest
        = fstWords W ++ filt minLen (pieces false rest [])) ∧
    (∀ cur pos W i, GoodWord cur → out minLen { st := .word, bw := cur, pos := pos, words := W } i rest
        = fstWords W ++ filt minLen (pieces true rest cur)) ∧
    (∀ a cur pos W i, GoodWord cur → isApos a = true → a.ch = false →
        out minLen { st := .apos, bw := a :: cur, pos := pos, words := W } i rest
        = fstWords W ++ filt minLen (pieces true (a :: rest) cur)) := by
  induction rest with
  | nil =>
    refine ⟨?_, ?_, ?_⟩
    · intro pos W i
      simp [out, run, emit_nil minLen hm, pieces, filt, okw_nil minLen hm]
    · intro cur pos W i g
      simp only [out, run, emit_good minLen cur g, pieces, filt, List.filter]
      split <;> simp_all
    · intro a cur pos W i g ha hac
      simp only [out, run, emit_apos minLen a cur g ha, pieces, filt, hac, ha, nextIsCh]
      simp [List.filter, okw_nil minLen hm]
      split <;> simp_all
  | cons r rest ih =>
    have hdoc' : ∀ x ∈ rest, x.ch = true → isApos x = false := fun x hx => hdoc x (by simp [hx])
    obtain ⟨ihA, ihB, ihC⟩ := ih hdoc'
    have hr := hdoc r (by simp)
    refine ⟨?_, ?_, ?_⟩
    · intro pos W i
      cases hch : r.ch with
      | true =>
        have := ihB [r] pos W (i + r.len) (goodWord_single r (hr hch))
        simp only [out, run, step, hch, pieces, if_true, Bool.true_or] at this ⊢
        exact this
      | false =>
        have := ihA (pos + 1) W (i + r.len)
        simp only [out, run, step, hch, pieces, Bool.false_or, Bool.and_false, Bool.false_and, Bool.false_eq_true, if_false,
          List.reverse_nil, filt, List.filter, okw_nil minLen hm] at this ⊢
        exact this
    · intro cur pos W i g
      cases hch : r.ch with
      | true =>
        have := ihB (r :: cur) pos W (i + r.len) (goodWord_cons r cur g (hr hch))
        simp only [out, run, step, hch, pieces, Bool.true_or, if_true, Bool.not_true, Bool.false_eq_true, if_false] at this ⊢
        exact this
      | false =>
        cases ha : isApos r with
        | true =>
          have := ihC r cur pos W (i + r.len) g ha hch
          simp only [out, run, step, hch, ha, Bool.not_false, if_true] at this ⊢
          exact this
        | false =>
          have := ihA i (emit minLen cur pos W) (i + r.len)
          simp only [out, run, step, hch, ha, Bool.not_false, if_true, Bool.false_eq_true, if_false, pieces,
            Bool.false_or, Bool.false_and, filt, List.filter] at this ⊢
          rw [this, emit_good minLen cur g]
          split <;> simp_all
    · intro a cur pos W i g ha hac
      cases hch : r.ch with
      | true =>
        have := ihB (r :: a :: cur) pos W (i + r.len) (goodWord_cons2 r a cur g (hr hch))
        simp only [out, run, step, hch, pieces, hac, ha, nextIsCh, Bool.true_or, Bool.false_or, Bool.and_self,
          if_true, Bool.not_true, Bool.false_eq_true, if_false] at this ⊢
        exact this
      | false =>
        have := ihA i (emit minLen (a :: cur) pos W) (i + r.len)
        simp only [out, run, step, hch, pieces, hac, ha, nextIsCh, Bool.false_or, Bool.and_false, Bool.false_and,
          Bool.false_eq_true, if_false, Bool.not_false, if_true, filt, List.filter, List.reverse_nil,
          okw_nil minLen hm] at this ⊢
        rw [this, emit_apos minLen a cur g ha]
        split <;> simp_all

/-! ### Unique words -/

section uniq
variable {κ : Type} [DecidableEq κ]

/-- Count recorded for key `k` (0 when absent). -/
def cnt (k : κ) : List (Word × κ × Nat) → Nat
  | [] => 0
  | (_, k', n) :: rest => if k' = k then n else cnt k rest

theorem cnt_bump (k k' : κ) (w : Word) (acc : List (Word × κ × Nat)) :
    cnt k' (bump k w acc) = cnt k' acc + (if k' = k then 1 else 0) := by
  induction acc with
  | nil =>
    by_cases h : k' = k
    · subst h; simp [bump, cnt]
    · have h' : ¬ k = k' := fun e => h e.symm
      simp [bump, cnt, h, h']
  | cons e rest ih =>
    obtain ⟨w0, k0, n0⟩ := e
    by_cases h0 : k0 = k
    · subst h0
      by_cases h : k0 = k'
      · subst h; simp [bump, cnt]
      · have h' : ¬ k' = k0 := fun e => h e.symm
        simp [bump, cnt, h, h']
    · by_cases h : k0 = k'
      · subst h
        simp [bump, cnt, h0]
      · simp [bump, cnt, h0, h, ih]

theorem keys_bump (k : κ) (w : Word) (acc : List (Word × κ × Nat)) :
    (bump k w acc).map (·.2.1) = if k ∈ acc.map (·.2.1) then acc.map (·.2.1) else acc.map (·.2.1) ++ [k] := by
  induction acc with
  | nil => simp [bump]
  | cons e rest ih =>
    obtain ⟨w0, k0, n0⟩ := e
    by_cases h0 : k0 = k
    · subst h0; simp [bump]
    · have h0' : ¬ k = k0 := fun e => h0 e.symm
      simp only [bump, h0, if_false, List.map_cons, ih, List.mem_cons, h0', false_or]
      split <;> simp

theorem nodup_bump (k : κ) (w : Word) (acc : List (Word × κ × Nat)) (h : (acc.map (·.2.1)).Nodup) :
    ((bump k w acc).map (·.2.1)).Nodup := by
  rw [keys_bump]
  split
  · exact h
  · rename_i hk
    rw [List.nodup_append]
    exact ⟨h, by simp, by intro a ha b hb; simp at hb; subst hb; intro e; subst e; exact hk ha⟩

theorem foldl_inv (key : Word → κ) (ws : List Word) (acc : List (Word × κ × Nat)) (h : (acc.map (·.2.1)).Nodup) (k : κ) :
    ((ws.foldl (fun a w => bump (key w) w a) acc).map (·.2.1)).Nodup ∧
    cnt k (ws.foldl (fun a w => bump (key w) w a) acc) = cnt k acc + (ws.filter (fun w => decide (key w = k))).length := by
  induction ws generalizing acc with
  | nil => simp [h]
  | cons w ws ih =>
    have := ih (bump (key w) w acc) (nodup_bump _ _ _ h)
    simp only [List.foldl_cons]
    refine ⟨this.1, ?_⟩
    rw [this.2, cnt_bump]
    by_cases hk : key w = k
    · subst hk
      simp [List.filter]; omega
    · have hk' : ¬ k = key w := fun e => hk e.symm
      simp [List.filter, hk, hk']

theorem mem_keys_foldl (key : Word → κ) (ws : List Word) (acc : List (Word × κ × Nat)) (k : κ) :
    k ∈ (ws.foldl (fun a w => bump (key w) w a) acc).map (·.2.1) ↔ k ∈ acc.map (·.2.1) ∨ ∃ w ∈ ws, key w = k := by
  induction ws generalizing acc with
  | nil => simp
  | cons w ws ih =>
    simp only [List.foldl_cons]
    rw [ih, keys_bump]
    constructor
    · rintro (h | ⟨w', hw', e⟩)
      · split at h
        · exact Or.inl h
        · rcases List.mem_append.mp h with h | h
          · exact Or.inl h
          · simp at h; exact Or.inr ⟨w, by simp, h.symm⟩
      · exact Or.inr ⟨w', by simp [hw'], e⟩
    · rintro (h | ⟨w', hw', e⟩)
      · left; split
        · exact h
        · exact List.mem_append.mpr (Or.inl h)
      · rcases List.mem_cons.mp hw' with rfl | hw''
        · left; split
          · rename_i hk; rw [← e]; exact hk
          · rw [← e]; simp
        · exact Or.inr ⟨w', hw'', e⟩

/-- MATCH is true exactly when at least one unique word of the search string is counted. -/
theorem ftMatch_iff_count (key : Word → κ) (minLen maxLen : Nat) (q doc : List R) :
    ftMatch key minLen maxLen q doc = true ↔ 0 < matchCount key minLen maxLen q doc := by
  unfold ftMatch matchCount
  rw [List.any_eq_true, List.length_pos_iff_exists_mem]
  constructor
  · rintro ⟨w, hw, hp⟩
    have hk : key w ∈ (uniqueWords key ((tokenize minLen q).map (·.1))).map (·.2.1) := by
      unfold uniqueWords
      rw [mem_keys_foldl]; exact Or.inr ⟨w, hw, rfl⟩
    obtain ⟨e, he, hek⟩ := List.mem_map.mp hk
    exact ⟨e, List.mem_filter.mpr ⟨he, by rw [hek]; exact hp⟩⟩
  · rintro ⟨e, he⟩
    obtain ⟨he1, he2⟩ := List.mem_filter.mp he
    have hk : e.2.1 ∈ (uniqueWords key ((tokenize minLen q).map (·.1))).map (·.2.1) :=
      List.mem_map.mpr ⟨e, he1, rfl⟩
    unfold uniqueWords at hk
    rw [mem_keys_foldl] at hk
    rcases hk with hk | ⟨w, hw, hwk⟩
    · simp at hk
    · exact ⟨w, hw, by rw [hwk]; exact he2⟩

end uniq

theorem tokens_spec (minLen : Nat) (hm : 0 < minLen) (doc : List R)
    (hdoc : ∀ r ∈ doc, r.ch = true → isApos r = false) :
    (tokenize minLen doc).map (·.1) = specWords minLen doc := by
  have := (run_pieces minLen hm doc hdoc).1 0 [] 0
  have e : okw minLen = fun w => decide (bytes w ≥ minLen) := rfl
  simpa [out, fstWords, tokenize, specWords, filt, e, init] using this

section where_form
variable {κ : Type} [DecidableEq κ]

theorem implMatchWhere_eq (key : Word → κ) (minLen maxLen : Nat) (rows : List Row) (q : List R)
    (h : ∀ r ∈ rows, matchCount key minLen maxLen q (docOf r) < 2) :
    (rows.flatMap fun r => List.replicate (matchCount key minLen maxLen q (docOf r)) r)
      = rows.filter fun r => ftMatch key minLen maxLen q (docOf r) := by
  induction rows with
  | nil => rfl
  | cons r rs ih =>
    have hr := h r (by simp)
    have ih' := ih (fun x hx => h x (by simp [hx]))
    simp only [List.flatMap_cons, List.filter_cons, ih']
    have hiff := ftMatch_iff_count key minLen maxLen q (docOf r)
    cases hc : matchCount key minLen maxLen q (docOf r) with
    | zero =>
      have : ftMatch key minLen maxLen q (docOf r) = false := by
        cases hm : ftMatch key minLen maxLen q (docOf r) with
        | false => rfl
        | true => have := hiff.mp hm; omega
      simp [this]
    | succ n =>
      have hn : n = 0 := by omega
      subst hn
      have : ftMatch key minLen maxLen q (docOf r) = true := hiff.mpr (by omega)
      simp [this]

theorem foldl_applyOpImpl (minLen maxLen : Nat) (lay : Layout) (ops : List Op) (rows : List Row)
    (h : rStuck minLen maxLen lay rows ops = false) :
    ops.foldl (applyOpImpl minLen maxLen lay) rows = ops.foldl (applyOp lay) rows := by
  induction ops generalizing rows with
  | nil => rfl
  | cons op ops ih =>
    simp only [rStuck, Bool.or_eq_false_iff] at h
    obtain ⟨h1, h2⟩ := h
    have e : applyOpImpl minLen maxLen lay rows op = applyOp lay rows op := by
      simp [applyOpImpl, h1]
    simp only [List.foldl_cons]
    rw [← e]
    exact ih _ h2

/-! ### The WHERE form with explicit key-column resolution -/

/-- With the key values stored in the column order of the probed index (`ps = ixCols`) and rows that
are pairwise different on those columns, every DOC_COUNT entry leads back to exactly its own row: the
walk delivers, per unique search word, the rows containing it. -/
theorem filterWalk_resolved (key : Word → κ) (minLen maxLen : Nat) (cs : List Nat) (rows : List Row) (q : List R)
    (hu : UniqueOn cs rows) :
    filterWalk key minLen maxLen cs cs rows q =
      (uniqueWords key ((tokenize minLen q).map (·.1))).flatMap fun e => rows.filter (hasWord key minLen maxLen e.2.1) := by
  unfold filterWalk
  congr 1
  funext e
  apply flatMap_singleton_of
  intro r hr
  exact lookup_own cs rows hu r (List.mem_filter.mp hr).1

theorem count_filterWalk (key : Word → κ) (minLen maxLen : Nat) (cs : List Nat) (rows : List Row) (q : List R)
    (hu : UniqueOn cs rows) (x : Row) :
    (filterWalk key minLen maxLen cs cs rows q).count x = matchCount key minLen maxLen q (docOf x) * rows.count x := by
  rw [filterWalk_resolved key minLen maxLen cs rows q hu]
  exact count_flatMap_filter (fun (e : Word × κ × Nat) r => hasWord key minLen maxLen e.2.1 r) _ rows x

/-- Every row the resolved walk delivers matches (the `Filter` above the access path drops nothing). -/
theorem filterWalk_all_match (key : Word → κ) (minLen maxLen : Nat) (cs : List Nat) (rows : List Row) (q : List R)
    (hu : UniqueOn cs rows) :
    (filterWalk key minLen maxLen cs cs rows q).filter (fun r => ftMatch key minLen maxLen q (docOf r))
      = filterWalk key minLen maxLen cs cs rows q := by
  rw [List.filter_eq_self]
  intro x hx
  rw [ftMatch_iff_count]
  have hc : 0 < (filterWalk key minLen maxLen cs cs rows q).count x := List.count_pos_iff.mpr hx
  rw [count_filterWalk key minLen maxLen cs rows q hu] at hc
  exact Nat.pos_of_mul_pos_right hc

end where_form

end Gms.Fulltext

/-! ## Property theorems -/
namespace Gms.C51
open Gms.Fulltext

/-- Facts regenerated from the source on this run: every minimum-length test of the parser is
`len(word.Word) >= 3`, the three parser states, the `isCharacter` / `isApostrophe` predicates the
harness classifies runes with, the apostrophe trims of `newParserWord`, `maxWordLength`, and the
number of `len(word) > maxWordLength` guards in the editor's `Insert` (3) and `Delete` (1 — the
DOC_COUNT loop of `Delete` has none, see `finding_dml_rejected_for_row_with_overlong_word`). -/
theorem facts_match :
    Generated.C51.minWordLenSites = [3, 3, 3] ∧ Generated.C51.minWordLenOps = [">=", ">=", ">="] ∧
    Generated.C51.isCharacterExpr =
      "((unicode.IsLetter(r) || unicode.IsNumber(r) || unicode.IsDigit(r)) && !unicode.IsPunct(r)) || r == '_'" ∧
    Generated.C51.isApostropheExpr = "r == '\\''" ∧
    Generated.C51.parserStateCases = ["parserState_Whitespace", "parserState_Word", "parserState_Apostrophe"] ∧
    Generated.C51.wordTrims = ["strings.TrimLeft \"'\"", "strings.TrimRight \"'\""] ∧
    Generated.C51.maxWordLength = 84 ∧
    Generated.C51.maxLenGuardsInsert = 3 ∧ Generated.C51.maxLenGuardsDelete = 1 := by
  decide

/-- Tokenizer = Spec, for every document: the state machine of `NewDefaultParser` delivers exactly
the pieces between separators that have at least 3 bytes, where a rune is part of a word iff it is
a word character or an apostrophe directly between two word characters (so `it's` is one word,
`it''s` is two pieces, leading/trailing apostrophes never belong to a word). Hypothesis: the
apostrophe is not itself classified as a word character (true of Go's predicate: `'` is
punctuation; the driver checks it on every case). -/
theorem tokens_spec (doc : List R) (hdoc : ∀ r ∈ doc, r.ch = true → isApos r = false) :
    (tokenize 3 doc).map (·.1) = specWords 3 doc :=
  Gms.Fulltext.tokens_spec 3 (by decide) doc hdoc

/-- Non-vacuity: `it's a''b c'` over ASCII: words `it's` only (`a`, `b`, `c` are too short). -/
example :
    let a (c : Nat) : R := { cp := c, len := 1, ch := true }
    let q : R := { cp := 39, len := 1, ch := false }
    let s : R := { cp := 32, len := 1, ch := false }
    (tokenize 3 [a 105, a 116, q, a 115, s, a 97, q, q, a 98, s, a 99, q]).map (·.1) = [[a 105, a 116, q, a 115]]
    ∧ specWords 3 [a 105, a 116, q, a 115, s, a 97, q, q, a 98, s, a 99, q] = [[a 105, a 116, q, a 115]] := by
  decide

/-- The unique-word list has one entry per class of the collation hash. -/
theorem unique_keys_nodup {κ : Type} [DecidableEq κ] (key : Word → κ) (ws : List Word) :
    ((uniqueWords key ws).map (·.2.1)).Nodup :=
  (foldl_inv key ws [] (by simp) (key [])).1

/-- `DocumentCount(word)`: the count recorded for a class is the number of words of the document
in that class. -/
theorem unique_count {κ : Type} [DecidableEq κ] (key : Word → κ) (ws : List Word) (k : κ) :
    cnt k (uniqueWords key ws) = (ws.filter (fun w => decide (key w = k))).length := by
  have := (foldl_inv key ws [] (by simp) k).2
  simpa [cnt, uniqueWords] using this

/-- Every class of the collation hash that occurs in the document is listed, and nothing else. -/
theorem unique_complete {κ : Type} [DecidableEq κ] (key : Word → κ) (ws : List Word) (k : κ) :
    k ∈ (uniqueWords key ws).map (·.2.1) ↔ ∃ w ∈ ws, key w = k := by
  unfold uniqueWords
  rw [mem_keys_foldl]; simp

/-- MATCH … AGAINST (relevance > 0) ⇔ some word of the search string has the collation key of some
storable word of the row's document ⇔ the per-word lookup loop of `inNaturalLanguageMode` /
`fulltextFilterTableRowIter` (one lookup per unique search word) finds at least one entry. -/
theorem match_iff {κ : Type} [DecidableEq κ] (key : Word → κ) (q doc : List R) :
    (ftMatch key 3 84 q doc = true ↔
      ∃ w ∈ (tokenize 3 q).map (·.1), ∃ w' ∈ indexable 3 84 doc, key w = key w') ∧
    (ftMatch key 3 84 q doc = true ↔ 0 < matchCount key 3 84 q doc) := by
  refine ⟨?_, ftMatch_iff_count key 3 84 q doc⟩
  simp [ftMatch, List.any_eq_true]

/-
Full statement for the WHERE form — FALSE for the code as it is (`finding_where_match_repeats…`):
  ∀ keyed rows q, implMatchWhere key 3 84 keyed rows q = specMatch key 3 84 rows q
-/

/-- WHERE MATCH … returns each matching row exactly once — guarded: unless the table has a
primary key and some row contains two different words of the search string. -/
theorem where_form_partial {κ : Type} [DecidableEq κ] (key : Word → κ) (keyed : Bool) (rows : List Row) (q : List R)
    (h : rRepeats key 3 84 keyed rows q = false) :
    implMatchWhere key 3 84 keyed rows q = specMatch key 3 84 rows q := by
  unfold implMatchWhere specMatch
  cases keyed with
  | false => simp
  | true =>
    simp only [if_true]
    apply implMatchWhere_eq
    intro r hr
    simp only [rRepeats, Bool.true_and] at h
    have := List.any_eq_false.mp h r hr
    simpa using this

/-- `id INT PRIMARY KEY`. -/
def layPk1 : Layout := { pk := [0], uks := [], nn := [] }
/-- `PRIMARY KEY (k2, id)` over the columns `(id, k2, …)`: declared out of column order. -/
def layPkBA : Layout := { pk := [1, 0], uks := [], nn := [] }
/-- `UNIQUE KEY u0 (k2, id)`, both NOT NULL. -/
def layUkBA : Layout := { pk := [], uks := [[1, 0]], nn := [0, 1] }
/-- `UNIQUE KEY u0 (k2, id)` with `id` nullable: unusable as a row key. -/
def layUkNull : Layout := { pk := [], uks := [[1, 0]], nn := [1] }

/-! ### Key layouts: the WHERE access path resolves DOC_COUNT entries back to parent rows -/

/-- Shape facts regenerated from the source: in `GetKeyColumns` the primary-key branch walks
`sch.PkOrdinals` (the *declaration* order of PRIMARY KEY, not the schema order) and copies it into
`positions`; the unique-key branch walks `index.Expressions()` and appends each resolved column; the
three results are tried in the order primary, unique, none. In `fulltextFilterTableRowIter.Next` the key
values `docRow[1 : len(docRow)-1]` become `ranges[i]` positionally, and `PartitionRows` selects the parent
index `PRIMARY` / `KeyCols.Name`. -/
theorem facts_key_shape :
    Generated.C51.keyColsRanges = ["sch.PkOrdinals", "indexes", "index.Expressions()"] ∧
    Generated.C51.keyColsCopies = ["copy(positions, sch.PkOrdinals)"] ∧
    Generated.C51.keyColsPositionAppends = ["parentColPosition"] ∧
    Generated.C51.keyColsTypes = ["KeyType_Primary", "KeyType_Unique", "KeyType_None"] ∧
    Generated.C51.filterKeyRanges = ["docRow[1 : len(docRow)-1]"] ∧
    Generated.C51.filterRangeTargets = ["ranges[i]"] ∧
    Generated.C51.filterParentIndexIDs = ["\"PRIMARY\"", "f.MatchAgainst.KeyCols.Name"] := by
  decide

def ktCode : KeyType → Nat × Nat
  | .primary => (0, 0)
  | .unique i => (1, i)
  | .none => (2, 0)

/-- Run facts: on a freshly created table of every key layout of the envelope (12 layouts × 2 column
placements) the real `fulltext.GetKeyColumns` returned the key type and positions the model
`getKeyColumns` computes, and the parent index the filter selects has the columns `parentIndexCols`. -/
theorem facts_key_columns :
    Generated.C51.keyColsRuns.length = 24 ∧
    ∀ e ∈ Generated.C51.keyColsRuns,
      ktCode (getKeyColumns { pk := e.1.1, uks := e.1.2.1, nn := e.1.2.2 }).type = (e.2.1, e.2.2.1) ∧
      (getKeyColumns { pk := e.1.1, uks := e.1.2.1, nn := e.1.2.2 }).positions = e.2.2.2.1 ∧
      parentIndexCols { pk := e.1.1, uks := e.1.2.1, nn := e.1.2.2 }
        (getKeyColumns { pk := e.1.1, uks := e.1.2.1, nn := e.1.2.2 }).type = e.2.2.2.2 := by
  decide

/-- **Key-column resolution**: for EVERY key layout (any PRIMARY KEY declaration order, any list of
UNIQUE KEYs, any nullability) the key values are stored in DOC_COUNT in exactly the column order of
the parent index they are later used to probe. -/
theorem key_columns_resolve (lay : Layout) :
    (getKeyColumns lay).positions = parentIndexCols lay (getKeyColumns lay).type :=
  key_resolution lay

/-- 'sun pie' under key (id 1, k2 2); 'sun' under (2, 1); 'pie' under (3, 3). -/
def rowsBA : List Row :=
  [{ id := 1, k2 := 2, cols := [some ([115, 117, 110, 32, 112, 105, 101].map fun c => { cp := c, len := 1, ch := c != 32 })] },
   { id := 2, k2 := 1, cols := [some ([115, 117, 110].map fun c => { cp := c, len := 1, ch := true })] },
   { id := 3, k2 := 3, cols := [some ([112, 105, 101].map fun c => { cp := c, len := 1, ch := true })] }]
def qSun : List R := [115, 117, 110].map fun c => { cp := c, len := 1, ch := true }

/-- Non-vacuity: `PRIMARY KEY (k2, id)` resolves to positions `[1, 0]`, a unique key over the same
columns likewise, a unique key with a nullable column falls back to the row hash; on a table with a
transposed pair of keys the WHERE form finds exactly the two rows containing 'sun'. -/
example : (getKeyColumns layPkBA = { type := .primary, positions := [1, 0] }) ∧
    (getKeyColumns layUkBA = { type := .unique 0, positions := [1, 0] }) ∧
    (getKeyColumns layUkNull = { type := .none, positions := [] }) ∧
    UniqueOn (getKeyColumns layPkBA).positions rowsBA ∧
    (implWhere (fun w => w) 3 84 layPkBA rowsBA qSun).map (fun r => (r.id, r.k2)) = [(1, 2), (2, 1)] ∧
    (specMatch (fun w => w) 3 84 rowsBA qSun).map (fun r => (r.id, r.k2)) = [(1, 2), (2, 1)] := by
  unfold UniqueOn
  decide

/-- Why `key_columns_resolve` matters (the hypothesis `ps = ixCols` of the walk lemmas is not
decoration): were the key values of `PRIMARY KEY (k2, id)` stored in *schema* order `[0, 1]` while the
parent index is probed in declaration order `[1, 0]`, the entry of row (1, 2) is resolved to the row
with k2 = 1, id = 2 — rows are lost (and others delivered in their place) although every
pseudo-index table is consistent with itself. -/
theorem schema_order_positions_lose_rows :
    ∃ rows q x, x ∈ specMatch (fun w => w) 3 84 rows q ∧
      x ∉ (filterWalk (fun w => w) 3 84 [0, 1] [1, 0] rows q).filter (fun r => ftMatch (fun w => w) 3 84 q (docOf r)) :=
  ⟨[{ id := 1, k2 := 2, cols := [some qSun] }, { id := 3, k2 := 3, cols := [some qSun] }], qSun,
    { id := 1, k2 := 2, cols := [some qSun] }, by decide⟩

/-- The walk with explicit key resolution is the multiplicity model `implMatchWhere` as a multiset:
for every key layout with a usable key and every table whose rows differ on that key, every row is
delivered exactly `matchCount` times. -/
theorem filter_walk_count {κ : Type} [DecidableEq κ] (key : Word → κ) (lay : Layout) (rows : List Row) (q : List R)
    (hk : keyedIdx lay = true) (hu : UniqueOn (getKeyColumns lay).positions rows) (x : Row) :
    (implWhere key 3 84 lay rows q).count x = (implMatchWhere key 3 84 true rows q).count x := by
  unfold implWhere implMatchWhere
  simp only [hk, if_true]
  rw [← key_resolution lay, filterWalk_all_match key 3 84 _ rows q hu, count_filterWalk key 3 84 _ rows q hu]
  exact (count_flatMap_replicate (fun r => matchCount key 3 84 q (docOf r)) rows x).symm

/-- **MATCH in WHERE returns exactly the rows MATCH in the select list marks, for every key layout**
(as a set of rows — full strength, no defect region: the known repeat defect only concerns how often a
row is returned): primary keys in any declaration order, unique keys, row-hash tables. Hypothesis:
the rows differ on the key the index uses (`where_form_same_rows_hist`: true after any history). -/
theorem where_form_same_rows {κ : Type} [DecidableEq κ] (key : Word → κ) (lay : Layout) (rows : List Row) (q : List R)
    (hu : keyedIdx lay = true → UniqueOn (getKeyColumns lay).positions rows) (x : Row) :
    x ∈ implWhere key 3 84 lay rows q ↔ x ∈ specMatch key 3 84 rows q := by
  cases hk : keyedIdx lay with
  | false => simp [implWhere, hk]
  | true =>
    have hc := filter_walk_count key lay rows q hk (hu hk) x
    unfold implMatchWhere at hc
    simp only [if_true] at hc
    rw [count_flatMap_replicate (fun r => matchCount key 3 84 q (docOf r)) rows x] at hc
    rw [← List.count_pos_iff, hc]
    unfold specMatch
    rw [List.mem_filter, ftMatch_iff_count, ← List.count_pos_iff]
    constructor
    · intro h
      exact ⟨Nat.pos_of_mul_pos_left h, Nat.pos_of_mul_pos_right h⟩
    · intro h
      exact Nat.mul_pos h.2 h.1

/-- Outside the repeat region the WHERE form of every key layout is a permutation of the Spec. -/
theorem where_form_key_layouts_partial {κ : Type} [DecidableEq κ] (key : Word → κ) (lay : Layout) (rows : List Row) (q : List R)
    (hu : keyedIdx lay = true → UniqueOn (getKeyColumns lay).positions rows)
    (h : rRepeats key 3 84 (keyedIdx lay) rows q = false) :
    (implWhere key 3 84 lay rows q).Perm (specMatch key 3 84 rows q) := by
  cases hk : keyedIdx lay with
  | false => simp [implWhere, hk]
  | true =>
    rw [List.perm_iff_count]
    intro x
    rw [filter_walk_count key lay rows q hk (hu hk) x, where_form_partial key true rows q (by rw [← hk]; exact h)]

/-- The reference semantics keeps every declared key unique across any history (so the hypothesis of
the theorems above holds for every reachable table), and so does the Impl model of the statements. -/
theorem keys_stay_unique (lay : Layout) (ops : List Op) :
    KeysUnique lay (ops.foldl (applyOp lay) []) ∧ KeysUnique lay (ops.foldl (applyOpImpl 3 84 lay) []) :=
  ⟨keysUnique_foldl lay ops [] (keysUnique_nil lay), keysUnique_foldl_impl 3 84 lay ops [] (keysUnique_nil lay)⟩

/-- After ANY DML history on ANY key layout, `WHERE MATCH … AGAINST` selects exactly the rows the
select-list form marks. -/
theorem where_form_same_rows_hist {κ : Type} [DecidableEq κ] (key : Word → κ) (lay : Layout) (ops : List Op) (q : List R) (x : Row) :
    x ∈ implWhere key 3 84 lay (ops.foldl (applyOpImpl 3 84 lay) []) q ↔
      x ∈ specMatch key 3 84 (ops.foldl (applyOpImpl 3 84 lay) []) q :=
  where_form_same_rows key lay _ q
    (fun hk => (keys_stay_unique lay ops).2 _ (positions_mem_constraints lay hk)) x

def ascii (s : List Nat) : List R := s.map fun c =>
  { cp := c, len := 1, ch := (97 ≤ c && c ≤ 122) || (65 ≤ c && c ≤ 90) }

/-- Finding: a keyed row containing both `sun` and `pie` is returned twice for `AGAINST ('sun pie')`. -/
theorem finding_where_match_repeats_row_per_matched_word :
    ∃ rows q, rRepeats (fun w => w) 3 84 true rows q = true ∧
      implMatchWhere (fun w => w) 3 84 true rows q ≠ specMatch (fun w => w) 3 84 rows q :=
  ⟨[{ id := 1, cols := [some (ascii [115, 117, 110, 32, 112, 105, 101])] }], ascii [115, 117, 110, 32, 112, 105, 101], by decide⟩

/-
Full statement for DML histories — FALSE for the code as it is:
  ∀ keyed ops, ops.foldl (applyOpImpl 3 84 keyed) [] = ops.foldl (applyOp keyed) []
-/

/-- Table contents after a history follow the reference semantics — guarded: unless the history
deletes or updates a row whose document contains a word longer than `maxWordLength` bytes. -/
theorem dml_partial (lay : Layout) (ops : List Op) (h : rStuck 3 84 lay [] ops = false) :
    ops.foldl (applyOpImpl 3 84 lay) [] = ops.foldl (applyOp lay) [] :=
  foldl_applyOpImpl 3 84 lay ops [] h


set_option maxRecDepth 100000 in
/-- Finding: a row with an 85-byte word can be inserted but never deleted (the statement fails). -/
theorem finding_dml_rejected_for_row_with_overlong_word :
    ∃ lay ops, rStuck 3 84 lay [] ops = true ∧
      ops.foldl (applyOpImpl 3 84 lay) [] ≠ ops.foldl (applyOp lay) [] :=
  ⟨layPk1, [.ins { id := 1, cols := [some (ascii (List.replicate 85 119))] }, .del 1], by decide⟩

/-- Non-vacuity of `dml_partial` / `where_form_partial`: a history with insert, update, key change
and delete on short words. -/
example : rStuck 3 84 layPk1 [] [.ins { id := 1, cols := [some (ascii [115, 117, 110])] }, .upd 1 [some (ascii [112, 105, 101])],
      .rekey 1 2, .ins { id := 1, cols := [none] }, .del 1] = false
    ∧ ([Op.ins { id := 1, cols := [some (ascii [115, 117, 110])] }, .upd 1 [some (ascii [112, 105, 101])],
      .rekey 1 2, .ins { id := 1, cols := [none] }, .del 1].foldl (applyOp layPk1) []).map (·.id) = [2] := by
  decide

/-- Non-vacuity on a composite key declared out of column order: a duplicate key is rejected, each key
component can be changed, a change that would collide is rejected as a whole. -/
example :
    ([Op.ins { id := 1, k2 := 2, cols := [none] }, .ins { id := 2, k2 := 1, cols := [none] }, .ins { id := 1, k2 := 2, cols := [] },
      .rekey2 2 2, .rekey 2 1, .rekey2 1 5].foldl (applyOp layPkBA) []).map (fun r => (r.id, r.k2)) = [(1, 5), (2, 2)] := by
  decide

/-! ### The editor keeps the pseudo-index tables in sync (Impl model Gms/Model/FulltextEditor.lean) -/

/-- `TableEditor.Insert` preserves "index tables = F(rows)" — for every table state, row, collation
hash and row-key function (primary key or row hash), duplicates included. -/
theorem editor_insert_sync {κ ρ : Type} [DecidableEq κ] [DecidableEq ρ] (key : Word → κ) (rk : Row → ρ)
    (rows : List Row) (ix : Idx κ ρ) (r : Row) (hs : Sync key rk 3 84 rows ix) (hk : KeysOK rk (r :: rows)) :
    Sync key rk 3 84 (r :: rows) (edInsert key rk 3 84 ix r) :=
  sync_insert key rk 3 84 rows ix r hs hk

/-
Full statement for Delete — FALSE for the code as it is (`finding_editor_delete_fails`):
  ∀ rows ix r, Sync rows ix → r ∈ rows → ∃ ix', edDelete ix r = some ix' ∧ Sync (rows.erase r) ix'
-/

/-- `TableEditor.Delete` succeeds and preserves "index tables = F(rows)" — guarded: the row's
document has no word longer than `maxWordLength`. -/
theorem editor_delete_sync_partial {κ ρ : Type} [DecidableEq κ] [DecidableEq ρ] (key : Word → κ) (rk : Row → ρ)
    (rows : List Row) (ix : Idx κ ρ) (r : Row) (hs : Sync key rk 3 84 rows ix) (hk : KeysOK rk rows) (hr : r ∈ rows)
    (hl : noLong 3 84 r) :
    ∃ ix', edDelete key rk 3 84 ix r = some ix' ∧ Sync key rk 3 84 (rows.erase r) ix' :=
  sync_delete key rk 3 84 rows ix r hs hk hr hl

/-- `Delete` (hence `Update`) fails exactly when it reaches the last copy of a row whose document
contains a unique word of more than 84 bytes — the region `dml_rejected_for_row_with_overlong_word`
derived from the editor model instead of postulated. -/
theorem editor_delete_fails_iff {κ ρ : Type} [DecidableEq κ] [DecidableEq ρ] (key : Word → κ) (rk : Row → ρ)
    (rows : List Row) (ix : Idx κ ρ) (r : Row) (hs : Sync key rk 3 84 rows ix) :
    edDelete key rk 3 84 ix r = none ↔ rows.count r = 1 ∧ (uniq key 3 r).any (fun e => bytes e.1 > 84) = true :=
  delete_fails_iff key rk 3 84 rows ix r hs

/-- **The index stays in sync across any DML history** (`ft_index_inv`): starting from the empty
table, after any sequence of row-level `Insert` / `Delete` / `Update` calls that are admissible on
the table they meet (deleted rows exist, keys stay unique) and delete no row with an over-long word,
no call fails and ROW_COUNT, DOC_COUNT, GLOBAL_COUNT and POSITION are exactly the Spec functions of
the resulting table. -/
theorem ft_index_inv {κ ρ : Type} [DecidableEq κ] [DecidableEq ρ] (key : Word → κ) (rk : Row → ρ)
    (ops : List EdOp) (h : histOK rk 3 84 [] ops) :
    ∃ ix, runEd key rk 3 84 (Idx.empty : Idx κ ρ) ops = some ix ∧ Sync key rk 3 84 (ops.foldl tblStep []) ix :=
  sync_hist key rk 3 84 ops [] Idx.empty (sync_empty key rk 3 84) (fun _ ha => by simp at ha) h

def row1 : Row := { id := 1, cols := [some (ascii [115, 117, 110, 32, 112, 105, 101])] }   -- 'sun pie'
def row2 : Row := { id := 2, cols := [some (ascii [115, 117, 110])] }                       -- 'sun'
def rowLong : Row := { id := 3, cols := [some (ascii (List.replicate 85 119))] }            -- 85 × 'w'

/-- Non-vacuity of `ft_index_inv`: insert, insert, update, delete on a keyed table. -/
example : histOK (fun r => r.id) 3 84 [] [.ins row1, .ins row2, .upd row1 { row1 with cols := [none] }, .del row2] := by
  simp only [histOK, opOK, opNoLong, tblStep, KeysOK, noLong]
  decide

set_option maxRecDepth 100000 in
/-- Finding (same region as `finding_dml_rejected_for_row_with_overlong_word`, on the editor model):
after inserting a row with an 85-byte word, `Delete` of that row fails. -/
theorem finding_editor_delete_fails :
    ∃ ops r, (runEd (fun w => w) (fun r => r.id) 3 84 (Idx.empty : Idx Word Nat) ops).isSome = true ∧
      r ∈ ops.foldl tblStep [] ∧
      (runEd (fun w => w) (fun r => r.id) 3 84 (Idx.empty : Idx Word Nat) (ops ++ [.del r])).isSome = false :=
  ⟨[.ins rowLong], rowLong, by decide⟩


end Gms.C51
