/-
C29 — Collation comparison is a total preorder coherent with hashing.

Model: Gms/Model/Collation.lean (generic in the weight function `w`, i.e. valid for every
collation). Helper lemmas: Gms/Lemmas/Collation.lean. Regenerated facts: Gms/Generated/C29.lean.
-/
import Gms.Lemmas.Collation
import Gms.Generated.C29

namespace Gms.C29
open Gms.Collation

/-! ### `StringType.Compare` is a total preorder (for every weight function) -/

/-- **Refinement**: the Go loop (byte strings, interleaved decoding, early exits, the tail
comparison of remaining lengths) computes the lexicographic comparison of the rune-weight lists;
in particular it never takes its "malformed string" error exit. -/
theorem compare_refines (w : Nat → Int) (bin : Bool) (a b : List Nat) :
    compare w bin a b = some (compareSpec w bin a b) :=
  compareLoop_spec w bin _ a b (by omega)

theorem compare_range (w : Nat → Int) (bin : Bool) (a b : List Nat) :
    compareSpec w bin a b = -1 ∨ compareSpec w bin a b = 0 ∨ compareSpec w bin a b = 1 :=
  cmpW_range _ _

/-- Reflexive. -/
theorem compare_refl (w : Nat → Int) (bin : Bool) (a : List Nat) : compare w bin a a = some 0 := by
  rw [compare_refines]; simp [compareSpec, cmpW_refl]

/-- Total and antisymmetric up to equivalence: swapping the arguments negates the result. -/
theorem compare_antisymm (w : Nat → Int) (bin : Bool) (a b : List Nat) :
    compareSpec w bin a b = -(compareSpec w bin b a) :=
  cmpW_antisymm _ _

/-- Transitive. -/
theorem compare_trans (w : Nat → Int) (bin : Bool) (a b c : List Nat)
    (h1 : compareSpec w bin a b ≤ 0) (h2 : compareSpec w bin b c ≤ 0) : compareSpec w bin a c ≤ 0 :=
  cmpW_trans _ _ _ h1 h2

/-- Equivalence classes are exactly "same list of rune weights". -/
theorem compare_zero_iff_weights (w : Nat → Int) (bin : Bool) (a b : List Nat) :
    compare w bin a b = some 0 ↔ (runes bin a).map w = (runes bin b).map w := by
  rw [compare_refines]
  simp only [Option.some.injEq, compareSpec]
  exact cmpW_eq_zero_iff _ _

/-- Non-vacuity: "aB" vs "Ab" under a weight function that folds ASCII case, and a strict case. -/
example : compare (fun r => if 97 ≤ r ∧ r ≤ 122 then (r : Int) - 32 else r) false [97, 66] [65, 98] = some 0 ∧
    compare (fun r => (r : Int)) false [97, 66] [65, 98] = some 1 ∧
    compare (fun r => (r : Int)) false [97] [97, 0] = some (-1) := by decide

/-! ### Weight strings and hashes -/

/-- `WriteWeightString` never fails and writes the concatenated 4-byte weights (raw bytes for
`Collation_binary`). -/
theorem writeWeights_eq (w : Nat → Int) (binColl : Bool) (s : List Nat) :
    writeWeights w binColl s = some (if binColl then s else weightsSpec w s) := by
  unfold writeWeights
  cases binColl with
  | true => simp
  | false =>
    have := weightLoop_spec w (s.length + 1) s (by omega)
    simp [this]

/-- **Coherence**: for a non-binary collation whose weights are `int32`s, two strings compare
equal exactly when their weight strings are equal. -/
theorem compare_zero_iff_weightString (w : Nat → Int)
    (hw : ∀ r, -2147483648 ≤ w r ∧ w r < 2147483648) (a b : List Nat) :
    compare w false a b = some 0 ↔ writeWeights w false a = writeWeights w false b := by
  rw [compare_zero_iff_weights, writeWeights_eq, writeWeights_eq]
  simp only [Bool.false_eq_true, if_false, Option.some.injEq, weightsSpec]
  constructor
  · intro h; rw [h]
  · intro h
    apply flatMap_wbytes_inj _ _ _ _ h
    · intro x hx
      obtain ⟨r, _, rfl⟩ := List.mem_map.1 hx
      exact hw r
    · intro x hx
      obtain ⟨r, _, rfl⟩ := List.mem_map.1 hx
      exact hw r

theorem runes_bin : ∀ (s : List Nat), runes true s = s := by
  intro s
  induction s with
  | nil => exact runes_nil true
  | cons b t ih =>
    rw [runes_cons true (b :: t) (by simp)]
    simp [nextRune, ih]

/-- `Collation_binary`: bytes are the runes, the weight is the byte, the weight string is the
string itself — equal comparison ⇔ equal bytes ⇔ equal weight strings. -/
theorem binary_compare_zero_iff (a b : List Nat) :
    (compare (fun r => (r : Int)) true a b = some 0 ↔ a = b) ∧
    (a = b ↔ writeWeights (fun r => (r : Int)) true a = writeWeights (fun r => (r : Int)) true b) := by
  constructor
  · rw [compare_zero_iff_weights, runes_bin, runes_bin]
    constructor
    · intro h
      have := congrArg (List.map Int.toNat) h
      simpa [List.map_map, Function.comp_def] using this
    · intro h; rw [h]
  · simp [writeWeights]

/-- Hash coherence: `HashToUint` hashes the weight string, so equal strings (under the
collation) always hash equally, and for a collision-free hash the converse holds too. -/
theorem compare_zero_iff_hash {H : List Nat → Nat} (w : Nat → Int)
    (hw : ∀ r, -2147483648 ≤ w r ∧ w r < 2147483648) (a b : List Nat) :
    (compare w false a b = some 0 → (writeWeights w false a).map H = (writeWeights w false b).map H) ∧
    ((∀ x y, H x = H y → x = y) →
      ((writeWeights w false a).map H = (writeWeights w false b).map H → compare w false a b = some 0)) := by
  constructor
  · intro h; rw [(compare_zero_iff_weightString w hw a b).1 h]
  · intro hH h
    apply (compare_zero_iff_weightString w hw a b).2
    rw [writeWeights_eq, writeWeights_eq] at h ⊢
    simp only [Option.map_some, Option.some.injEq] at h ⊢
    exact hH _ _ h

/-! ### Case-insensitive and binary collations -/

/-- If the weight function does not distinguish a rune from its case-mapped form, then strings
that differ only by that case mapping compare equal (any mapping `f`: lower, upper, accent removal). -/
theorem ci_equates_case (w : Nat → Int) (f : Nat → Nat) (h : ∀ c, w (f c) = w c) (ra : List Nat) :
    cmpW (ra.map w) ((ra.map f).map w) = 0 := by
  rw [cmpW_eq_zero_iff, List.map_map]
  apply List.map_congr_left
  intro c _
  simp [h c]

/-- Per-rune version with an explicit exception set (what the regenerated `_ci` facts give:
all ASCII letters except the listed ones). -/
theorem ci_equates_case_on (w : Nat → Int) (f : Nat → Nat) (ra : List Nat)
    (h : ∀ c ∈ ra, w (f c) = w c) : cmpW (ra.map w) ((ra.map f).map w) = 0 := by
  rw [cmpW_eq_zero_iff, List.map_map]
  apply List.map_congr_left
  intro c hc
  simp [h c hc]

/-- Code-point order on rune lists. -/
def cmpCodepoints : List Nat → List Nat → Int
  | [], [] => 0
  | [], _ :: _ => -1
  | _ :: _, [] => 1
  | x :: xs, y :: ys => if x < y then -1 else if x > y then 1 else cmpCodepoints xs ys

/-- A collation whose weights are strictly increasing in the code point (what the regenerated
`_bin` facts check) orders strings by code point. -/
theorem bin_orders_by_codepoint (w : Nat → Int) (hmono : ∀ r s, r < s → w r < w s) :
    ∀ (a b : List Nat), cmpW (a.map w) (b.map w) = cmpCodepoints a b
  | [], [] => rfl
  | [], _ :: _ => rfl
  | _ :: _, [] => rfl
  | x :: xs, y :: ys => by
    simp only [List.map_cons, cmpW, cmpCodepoints]
    have ih := bin_orders_by_codepoint w hmono xs ys
    by_cases h1 : x < y
    · simp [h1, hmono x y h1]
    · by_cases h2 : x > y
      · have := hmono y x h2
        have h3 : ¬ w x < w y := by omega
        simp [h1, h2, h3, this]
      · have : x = y := by omega
        subst this
        simp [ih]

example : cmpCodepoints [0x61, 0x10000] [0x61, 0xFFFF] = 1 := by decide

/-! ### LIKE uses the same weights -/

/-- A pattern without `_`, `%`, escape and negative weights is the list of its literal nodes. -/
theorem likeNodes_literal (w : Nat → Int) (esc : Nat) : ∀ (p : List Nat),
    (∀ r ∈ p, r ≠ 95 ∧ r ≠ 37 ∧ r ≠ esc ∧ 0 ≤ w r) →
    likeNodes w esc p = some (p.map fun r => LikeNode.one (some (w r)))
  | [], _ => rfl
  | r :: rest, h => by
    obtain ⟨h1, h2, h3, h4⟩ := h r (by simp)
    have ih := likeNodes_literal w esc rest (fun x hx => h x (by simp [hx]))
    have h5 : ¬ w r < 0 := by omega
    unfold likeNodes
    simp [h1, h2, h3, ih, litNode, h5]

theorem likeRun_literal : ∀ (ks xs : List Int),
    likeRun (ks.map fun k => LikeNode.one (some k)) xs = true ↔ xs = ks
  | [], xs => by cases xs <;> simp [likeRun]
  | k :: ks, [] => by simp [likeRun]
  | k :: ks, x :: xs => by
    simp only [List.map_cons, likeRun, Bool.and_eq_true, decide_eq_true_eq, List.cons.injEq]
    rw [likeRun_literal ks xs]

/-- **LIKE honours the collation**: for a pattern without wildcards, `s LIKE p` holds exactly
when `s = p` under the collation's comparison. -/
theorem like_literal_iff_compare (w : Nat → Int) (bin : Bool) (esc : Nat) (p s : List Nat)
    (hp : ∀ r ∈ runes bin p, r ≠ 95 ∧ r ≠ 37 ∧ r ≠ esc ∧ 0 ≤ w r)
    (hmp : malformed bin p = false) (hms : malformed bin s = false) :
    like w bin esc p s = some true ↔ compare w bin s p = some 0 := by
  unfold like
  rw [hmp, likeNodes_literal w esc _ hp, hms, compare_zero_iff_weights]
  simp only [Bool.false_eq_true, if_false, Bool.not_false, Bool.true_and, Option.some.injEq]
  have := likeRun_literal ((runes bin p).map w) ((runes bin s).map w)
  rw [List.map_map] at this
  exact this

/-- `%` matches everything, `_` exactly one rune (whatever its weight). -/
theorem likeRun_any (xs : List Int) : likeRun [.any] xs = true := by
  induction xs with
  | nil => simp [likeRun, anySuffix]
  | cons x xs ih =>
    simp only [likeRun] at ih ⊢
    simp [anySuffix, ih]

theorem likeRun_one (xs : List Int) : likeRun [.one none] xs = true ↔ xs.length = 1 := by
  cases xs with
  | nil => simp [likeRun]
  | cons x t => cases t <;> simp [likeRun]

example : like (fun r => if 97 ≤ r ∧ r ≤ 122 then (r : Int) - 32 else r) false 92 [97, 37, 95] [65, 120, 121, 122] = some true ∧
    like (fun r => (r : Int)) false 92 [97, 37, 95] [65, 120, 121, 122] = some false ∧
    like (fun r => (r : Int)) false 92 [97, 92] [97] = none := by decide

/-! ### SQL operators on collated columns

Full statement (FALSE on the unchanged tree — `finding_in_literal_list_ignores_collation`):
`∀ w a b, sqlRowImpl w a b = sqlRowSpec w a b`. -/

theorem cmpW_map_ofNat_zero (a b : List Nat) (h : cmpW (a.map wDefault) (b.map wDefault) = 0) : a = b := by
  rw [cmpW_eq_zero_iff] at h
  have := congrArg (List.map Int.toNat) h
  simpa [List.map_map, Function.comp_def, wDefault] using this

/-- Equality under the literal's collation (`utf8mb4_0900_bin`, weight = code point) implies
equality under every collation. -/
theorem default_zero_imp_zero (w : Nat → Int) (a b : List Nat)
    (h : compareSpec wDefault false a b = 0) : compareSpec w false a b = 0 := by
  unfold compareSpec at h ⊢
  rw [cmpW_map_ofNat_zero _ _ h]
  exact cmpW_refl _

/-- Outside the region the operators `=`, `<`, `>`, `LIKE`, `IN (column list)`, `IN (literal
list)`, `<=>`, `STRCMP` all answer according to the column collation. -/
theorem sqlRow_partial (w : Nat → Int) (a b : List Nat) (h : ¬ InLiteralRegion w a b) :
    sqlRowImpl w a b = sqlRowSpec w a b := by
  unfold sqlRowImpl sqlRowSpec
  rw [compare_refines]
  congr 1
  by_cases h0 : compareSpec w false a b = 0
  · have h1 : compareSpec wDefault false a b = 0 := by
      by_cases h1 : compareSpec wDefault false a b = 0
      · exact h1
      · exact absurd ⟨h0, h1⟩ h
    simp [h0, h1]
  · have h1 : compareSpec wDefault false a b ≠ 0 := fun h1 => h0 (default_zero_imp_zero w a b h1)
    have e1 : (compareSpec w false a b == 0) = false := beq_eq_false_iff_ne.2 h0
    have e2 : (some (compareSpec wDefault false a b) == some (0 : Int)) = false := by simp [h1]
    rw [e1, e2]

/-- Witness: column collation folds ASCII case, `a = 'abc'`, `b = 'ABC'`: `a IN ('ABC', …)` is 0
although `a = b`, `a IN (b, b)`, `a <=> b` are 1 and `STRCMP(a, b)` is 0. Replayed on the engine:
table `t_utf8mb4_0900_ai_ci`, row `('abc','ABC')` gives `1,0,0,1,1,0,1,0`. -/
theorem finding_in_literal_list_ignores_collation :
    ∃ (w : Nat → Int) (a b : List Nat), InLiteralRegion w a b ∧ sqlRowImpl w a b ≠ sqlRowSpec w a b :=
  ⟨fun r => if 97 ≤ r ∧ r ≤ 122 then (r : Int) - 32 else r, [97, 98, 99], [65, 66, 67], by decide⟩

/-- The same for the hash-based operators over stored rows: when no row is in the literal-IN
region with the probe, `WHERE a IN ('<y>', …)` counts the rows that compare equal to `y` under the
column collation (GROUP BY always yields the classes of the column collation). -/
theorem sqlHash_partial (w : Nat → Int) (rows : List (List Nat)) (y : List Nat)
    (h : ∀ r ∈ rows, ¬ InLiteralRegion w r y) : sqlHashImpl w rows y = sqlHashSpec w rows y := by
  unfold sqlHashImpl sqlHashSpec
  congr 3
  apply List.filter_congr
  intro r hr
  rw [compare_refines]
  by_cases h0 : compareSpec w false r y = 0
  · have h1 : compareSpec wDefault false r y = 0 := by
      by_cases h1 : compareSpec wDefault false r y = 0
      · exact h1
      · exact absurd ⟨h0, h1⟩ (h r hr)
    simp [h0, h1]
  · have h1 : compareSpec wDefault false r y ≠ 0 := fun h1 => h0 (default_zero_imp_zero w r y h1)
    have e1 : (compareSpec w false r y == 0) = false := beq_eq_false_iff_ne.2 h0
    have e2 : (compareSpec wDefault false r y == 0) = false := beq_eq_false_iff_ne.2 h1
    simp [e1, e2]

/-- Non-vacuity / what the `long` stream expects of three rows that differ only in a two-byte
character behind 63 ASCII bytes (`é`, `ñ`, `É` under a collation that folds `é`/`É`): one row
matches the probe, two groups. -/
example : sqlHashSpec (fun r => if r = 0xC9 then 0xE9 else r)
    [List.replicate 63 120 ++ [0xC3, 0xA9], List.replicate 63 120 ++ [0xC3, 0xB1], List.replicate 63 120 ++ [0xC3, 0x89]]
    (List.replicate 63 120 ++ [0xC3, 0xB1]) = ["1", "2"] := by decide

/-! ### Regenerated facts (Gms/Generated/C29.lean, rewritten on every run)

`facts_match` pins the shape of the Go code the model transliterates (the tests that guard the
"malformed string" exits — note `aRead == utf8.RuneError` compares a *size* with U+FFFD —, the
weight comparison, the little-endian byte writes, the `Collation_binary` special case, the LIKE
matcher's tests). The per-table facts are decided by kernel evaluation over the complete dumped
tables of **every** collation that has a `Sorter` and an encoder. -/

section Facts
open Gms.Generated.C29

theorem facts_match :
    compareMalformedTests = ["aRead == 0", "bRead == 0", "aRead == utf8.RuneError", "bRead == utf8.RuneError"] ∧
    compareTests = ["aWeight < bWeight", "aWeight > bWeight", "len(as) < len(bs)", "len(as) > len(bs)"] ∧
    weightMalformedTests = ["strRead == 0", "strRead == utf8.RuneError"] ∧
    weightByteWrites = ["i * 4 <- byte(runeWeight)", "i*4 + 1 <- byte(runeWeight >> 8)",
      "i*4 + 2 <- byte(runeWeight >> 16)", "i*4 + 3 <- byte(runeWeight >> 24)"] ∧
    weightBinaryCase = "c == Collation_binary" ∧
    -- one loop over the whole remaining string, one decoder call on it, advance by the decoded size: no chunk /
    -- window of the input (the only bounded slice is the 4-byte window of the output buffer)
    weightDecodeSteps = ["for len(str) > 0", "decode utf8.DecodeRuneInString(str)", "window buf[i*4 : i*4+4]",
      "slice str = str[strRead:]"] ∧
    compareDecodeSteps = ["for len(as) > 0 && len(bs) > 0", "decode encoder.NextRune(as)", "decode encoder.NextRune(bs)",
      "slice as = as[aRead:]", "slice bs = bs[bRead:]"] ∧
    likeMalformedTests_ConstructLikeMatcher = ["nextRune == utf8.RuneError && advance <= 1", "nextRune == utf8.RuneError && advance <= 1"] ∧
    likeMalformedTests_Match = ["nextRune == utf8.RuneError && advance <= 1"] ∧
    likeMalformedTests_backtrack = ["nextRune == utf8.RuneError && advance <= 1"] ∧
    likeRuneMatchTest = "l.sortOrder < 0 || collation.Sorter()(r) == l.sortOrder" ∧
    tableSize = 768 := by decide

/-- the raw 32-bit field of rune `r` (what `weightAt` sign-extends) — cheaper for the kernel -/
def rawAt (tbl r : Nat) : Nat := (tbl >>> (32 * r)) % 4294967296

theorem weightAt_of_raw (tbl r : Nat) :
    weightAt tbl r = if rawAt tbl r ≥ 2147483648 then (rawAt tbl r : Int) - 4294967296 else (rawAt tbl r : Int) := rfl

/-- The weight function of a dumped collation. -/
def wOf (k : Coll) : Nat → Int := tableW tableSize k.tbl

theorem wOf_lt (k : Coll) (r : Nat) (h : r < 768) : wOf k r = weightAt k.tbl r := by
  simp [wOf, tableW, tableSize, h]

/-- Hypothesis `hw` of the coherence theorems holds for every dumped table entry (and for the
default weight): the weights are `int32`s. -/
theorem wOf_int32 (k : Coll) (r : Nat) : -2147483648 ≤ wOf k r ∧ wOf k r < 2147483648 := by
  unfold wOf tableW weightAt defaultWeight
  split
  · simp only []
    split <;> omega
  · omega

theorem table_nonempty : (table.length == 183 && (table.filter (·.ci)).length == 140 &&
    (table.filter (·.bin)).length == 15) = true := by decide +kernel

/-- Coherence instantiated: for every dumped non-binary collation, `Compare = 0` ⇔ equal weight
strings (the tables only matter through `wOf_int32`). -/
theorem table_compare_zero_iff_weightString (k : Coll) (a b : List Nat) :
    compare (wOf k) false a b = some 0 ↔ writeWeights (wOf k) false a = writeWeights (wOf k) false b :=
  compare_zero_iff_weightString (wOf k) (wOf_int32 k) a b

/-! #### Case-insensitive collations -/

/-- (collation id, name, upper-case rune) triples whose lower-case partner has a different weight
on the unchanged tree — the regions of the findings `ci_turkish_dotted_i` (I/i, and Ì Í Î Ï in the
0900 tailoring) and `ci_latin7_general_pairs`. (Tests go through the numeric id: string equality is
slow in the kernel; `facts_ci_exceptions_tight` ties ids to names.) -/
def ciExceptions : List (Nat × String × Nat) :=
  [(41, "latin7_general_ci", 84),
   (110, "utf16_turkish_ci", 73), (169, "utf32_turkish_ci", 73), (201, "utf8mb3_turkish_ci", 73),
   (233, "utf8mb4_turkish_ci", 73),
   (265, "utf8mb4_tr_0900_ai_ci", 73), (265, "utf8mb4_tr_0900_ai_ci", 204), (265, "utf8mb4_tr_0900_ai_ci", 205),
   (265, "utf8mb4_tr_0900_ai_ci", 206), (265, "utf8mb4_tr_0900_ai_ci", 207)]

def ciExc (id c : Nat) : Bool := ciExceptions.any fun e => e.1 == id && e.2.2 == c

def CiRegion (k : Coll) (c : Nat) : Prop := ciExc k.id c = true

/-- A–Z -/
def asciiUpper : List Nat := List.range' 65 26
/-- À–Þ without × -/
def latin1Upper : List Nat := (List.range' 192 31).filter (· != 215)

/-- Every `_ci` collation gives every ASCII upper-case letter the weight of its lower-case
partner, except the listed pairs. -/
theorem facts_ci_fold_ascii_b : table.all (fun k => !k.ci || asciiUpper.all fun c =>
    ciExc k.id c || rawAt k.tbl c == rawAt k.tbl (c + 32)) = true := by decide +kernel

theorem facts_ci_fold_ascii : ∀ k ∈ table, k.ci = true → ∀ c ∈ asciiUpper,
    ciExc k.id c = true ∨ weightAt k.tbl c = weightAt k.tbl (c + 32) := by
  intro k hk hci c hc
  have h := List.all_eq_true.1 facts_ci_fold_ascii_b k hk
  simp only [hci, Bool.not_true, Bool.false_or, List.all_eq_true, Bool.or_eq_true, beq_iff_eq] at h
  rcases h c hc with h | h
  · exact Or.inl h
  · exact Or.inr (by rw [weightAt_of_raw, weightAt_of_raw, h])

/-- The same for the Latin-1 letters À–Þ in the `_ci` collations of the Unicode character sets. -/
theorem facts_ci_fold_latin1_b : table.all (fun k => !k.ci || !decide (k.maxLen > 1) || latin1Upper.all fun c =>
    ciExc k.id c || rawAt k.tbl c == rawAt k.tbl (c + 32)) = true := by decide +kernel

theorem facts_ci_fold_latin1 : ∀ k ∈ table, k.ci = true → k.maxLen > 1 → ∀ c ∈ latin1Upper,
    ciExc k.id c = true ∨ weightAt k.tbl c = weightAt k.tbl (c + 32) := by
  intro k hk hci hm c hc
  have h := List.all_eq_true.1 facts_ci_fold_latin1_b k hk
  simp only [hci, hm, decide_true, Bool.not_true, Bool.false_or, List.all_eq_true, Bool.or_eq_true, beq_iff_eq] at h
  rcases h c hc with h | h
  · exact Or.inl h
  · exact Or.inr (by rw [weightAt_of_raw, weightAt_of_raw, h])

/-- The exception list is tight: every listed pair really differs (if a pair gets repaired the
list must shrink). These are the witnesses of the two `ci_*` findings; replayed on the real
code by the harness (`Compare("I","i")` under `utf8mb4_turkish_ci` = -1, `Compare("T","t")`
under `latin7_general_ci` = 1). -/
theorem facts_ci_exceptions_tight : ciExceptions.all (fun e => table.any fun k =>
    k.id == e.1 && k.name == e.2.1 && k.ci && weightAt k.tbl e.2.2 != weightAt k.tbl (e.2.2 + 32)) = true := by
  decide +kernel

/-- ids identify collations -/
theorem facts_ids_distinct : (table.map (·.id)).eraseDups.length = table.length := by decide +kernel

theorem finding_ci_turkish_dotted_i : ∃ k, k ∈ table ∧ k.ci = true ∧ k.name = "utf8mb4_turkish_ci" ∧
    compare (wOf k) false [73] [105] ≠ some 0 := by
  have h : table.any (fun k => k.ci && k.name == "utf8mb4_turkish_ci" &&
      decide (compare (wOf k) false [73] [105] ≠ some 0)) = true := by decide +kernel
  obtain ⟨k, hk, hp⟩ := List.any_eq_true.1 h
  simp only [Bool.and_eq_true, beq_iff_eq, decide_eq_true_eq] at hp
  exact ⟨k, hk, hp.1.1, hp.1.2, hp.2⟩

theorem finding_ci_latin7_general_pairs : ∃ k, k ∈ table ∧ k.ci = true ∧ k.name = "latin7_general_ci" ∧
    compare (wOf k) false [84] [116] ≠ some 0 := by
  have h : table.any (fun k => k.ci && k.name == "latin7_general_ci" &&
      decide (compare (wOf k) false [84] [116] ≠ some 0)) = true := by decide +kernel
  obtain ⟨k, hk, hp⟩ := List.any_eq_true.1 h
  simp only [Bool.and_eq_true, beq_iff_eq, decide_eq_true_eq] at hp
  exact ⟨k, hk, hp.1.1, hp.1.2, hp.2⟩

/-- the case mapping the facts talk about -/
def foldLower (latin1 : Bool) (c : Nat) : Nat :=
  if (65 ≤ c ∧ c ≤ 90) ∨ (latin1 = true ∧ 192 ≤ c ∧ c ≤ 222 ∧ c ≠ 215) then c + 32 else c

theorem mem_asciiUpper (c : Nat) (h : 65 ≤ c ∧ c ≤ 90) : c ∈ asciiUpper := by
  simp only [asciiUpper, List.mem_range'_1]; omega

theorem mem_latin1Upper (c : Nat) (h : 192 ≤ c ∧ c ≤ 222 ∧ c ≠ 215) : c ∈ latin1Upper := by
  simp only [latin1Upper, List.mem_filter, List.mem_range'_1, bne_iff_ne, ne_eq]; omega

/-- Full statement (FALSE on the unchanged tree, see the two `finding_ci_*`): without the guard
`¬ CiRegion`. **Partial**: for every `_ci` collation of the compiled code, a rune string and its
lower-cased form (A–Z, and À–Þ for the Unicode character sets) have equal weight lists, hence
compare equal, have equal weight strings and equal hashes — provided no rune is one of the
listed exception pairs. -/
theorem ci_collations_equate_case_partial : ∀ k ∈ table, k.ci = true → ∀ (s : List Nat),
    (∀ c ∈ s, ¬ CiRegion k c) →
    cmpW (s.map (wOf k)) ((s.map (foldLower (decide (k.maxLen > 1)))).map (wOf k)) = 0 := by
  intro k hk hci s hs
  apply ci_equates_case_on
  intro c hc
  have hex := hs c hc
  unfold foldLower
  split
  · rename_i hcase
    rcases hcase with h | ⟨hl, h⟩
    · rcases facts_ci_fold_ascii k hk hci c (mem_asciiUpper c h) with h1 | h1
      · exact absurd h1 hex
      · rw [wOf_lt k c (by omega), wOf_lt k (c + 32) (by omega), h1]
    · have hm : k.maxLen > 1 := by simpa using hl
      rcases facts_ci_fold_latin1 k hk hci hm c (mem_latin1Upper c h) with h1 | h1
      · exact absurd h1 hex
      · rw [wOf_lt k c (by omega), wOf_lt k (c + 32) (by omega), h1]
  · rfl

/-- ASCII byte strings are their own rune lists. -/
theorem runes_ascii : ∀ (s : List Nat), (∀ c ∈ s, c < 128) → runes false s = s := by
  intro s
  induction s with
  | nil => intro _; exact runes_nil false
  | cons b t ih =>
    intro h
    have hb : b < 128 := h b (by simp)
    rw [runes_cons false (b :: t) (by simp)]
    have hd : nextRune false (b :: t) = (b, 1) := by
      simp only [nextRune, Bool.false_eq_true, if_false, decodeUtf8]
      have hn : Gms.RangeMap.utf8Len (b :: t) = 1 := by
        have : b < 0xC2 := by omega
        simp [Gms.RangeMap.utf8Len, this]
      simp [hn, hb]
    rw [hd]
    simp [ih (fun c hc => h c (by simp [hc]))]

/-! ### Long strings: the position of a character does not matter

`WriteWeightString` / `Compare` decode the whole remaining string at every step (pinned by
`weightDecodeSteps` / `compareDecodeSteps` in `facts_match`); nothing depends on how many bytes
precede a character. A prefix is *aligned* when decoding does not look across its end; for every
aligned prefix of any length the weight string of `p ++ s` is the weight string of `p` followed
by that of `s`, and whether two strings with a common aligned prefix compare equal / have equal
weight strings is decided by the tails alone (so a multi-byte character at byte 63, 127, 4095, …
is told apart from another one exactly as at byte 0). -/

/-- decoding `p ++ s` yields the runes of `p`, then the runes of `s`, whatever follows -/
def Aligned (p : List Nat) : Prop := ∀ s, runes false (p ++ s) = runes false p ++ runes false s

theorem aligned_nil : Aligned [] := by intro s; simp [runes_nil]

theorem aligned_append (p q : List Nat) (hp : Aligned p) (hq : Aligned q) : Aligned (p ++ q) := by
  intro s
  rw [List.append_assoc, hp (q ++ s), hq s, hp q, List.append_assoc]

theorem nextRune_ascii (b : Nat) (t : List Nat) (hb : b < 128) : nextRune false (b :: t) = (b, 1) := by
  simp only [nextRune, Bool.false_eq_true, if_false, decodeUtf8]
  have hn : Gms.RangeMap.utf8Len (b :: t) = 1 := by
    have : b < 0xC2 := by omega
    simp [Gms.RangeMap.utf8Len, this]
  simp [hn, hb]

/-- an ASCII byte is aligned -/
theorem aligned_ascii_byte (b : Nat) (hb : b < 128) : Aligned [b] := by
  intro s
  rw [runes_cons false ([b] ++ s) (by simp), runes_cons false [b] (by simp)]
  have h1 : nextRune false ([b] ++ s) = (b, 1) := nextRune_ascii b s hb
  have h2 : nextRune false [b] = (b, 1) := nextRune_ascii b [] hb
  rw [h1, h2]
  simp [runes_nil]

/-- a well-formed two-byte character (lead `C2..DF`, continuation `80..BF`) is aligned -/
theorem aligned_two_byte (b0 b1 : Nat) (h0 : 0xC2 ≤ b0 ∧ b0 < 0xE0) (h1 : 0x80 ≤ b1 ∧ b1 ≤ 0xBF) :
    Aligned [b0, b1] := by
  intro s
  have hn : ∀ t, Gms.RangeMap.utf8Len (b0 :: b1 :: t) = 2 := by
    intro t
    have a : ¬ b0 < 0xC2 := by omega
    simp [Gms.RangeMap.utf8Len, a, h0.2, h1.1, h1.2]
  have hd : ∀ t, nextRune false (b0 :: b1 :: t) = ((b0 % 32) * 64 + b1 % 64, 2) := by
    intro t
    simp [nextRune, decodeUtf8, hn t]
  rw [runes_cons false ([b0, b1] ++ s) (by simp), runes_cons false [b0, b1] (by simp)]
  have e1 : [b0, b1] ++ s = b0 :: b1 :: s := rfl
  rw [e1, hd s, hd []]
  simp [runes_nil]

/-- every ASCII string is aligned -/
theorem aligned_ascii : ∀ (p : List Nat), (∀ c ∈ p, c < 128) → Aligned p := by
  intro p
  induction p with
  | nil => intro _; exact aligned_nil
  | cons b t ih =>
    intro h
    have : b :: t = [b] ++ t := rfl
    rw [this]
    exact aligned_append _ _ (aligned_ascii_byte b (h b (by simp))) (ih (fun c hc => h c (by simp [hc])))

/-- **Weight strings are position independent**: behind an aligned prefix of any length the
weight string continues exactly as for the tail alone. -/
theorem writeWeights_append (w : Nat → Int) (p s : List Nat) (hp : Aligned p) :
    writeWeights w false (p ++ s) = some (weightsSpec w p ++ weightsSpec w s) := by
  rw [writeWeights_eq]
  simp [weightsSpec, hp s, List.map_append, List.flatMap_append]

/-- **A common aligned prefix cancels**, whatever its length: comparison and weight-string
equality of `p ++ x` and `p ++ y` are those of `x` and `y`. -/
theorem common_prefix_cancels (w : Nat → Int) (hw : ∀ r, -2147483648 ≤ w r ∧ w r < 2147483648)
    (p x y : List Nat) (hp : Aligned p) :
    (compare w false (p ++ x) (p ++ y) = some 0 ↔ compare w false x y = some 0) ∧
    (writeWeights w false (p ++ x) = writeWeights w false (p ++ y) ↔ compare w false x y = some 0) := by
  have h1 : compare w false (p ++ x) (p ++ y) = some 0 ↔ compare w false x y = some 0 := by
    rw [compare_zero_iff_weights, compare_zero_iff_weights, hp x, hp y]
    simp [List.map_append]
  exact ⟨h1, by rw [← compare_zero_iff_weightString w hw]; exact h1⟩

/-- The input class of the `long` stream: `n` ASCII bytes (any `n`: 63, 127, 4095, …), then two
different two-byte characters `é` / `ñ`, then `z` — never equal, never the same weight string,
under any weight function that separates the two characters. -/
theorem straddling_char_distinguishes (w : Nat → Int) (hw : ∀ r, -2147483648 ≤ w r ∧ w r < 2147483648)
    (hne : w 0xE9 ≠ w 0xF1) (n : Nat) :
    compare w false (List.replicate n 120 ++ [0xC3, 0xA9, 122]) (List.replicate n 120 ++ [0xC3, 0xB1, 122]) ≠ some 0 ∧
    writeWeights w false (List.replicate n 120 ++ [0xC3, 0xA9, 122]) ≠
      writeWeights w false (List.replicate n 120 ++ [0xC3, 0xB1, 122]) := by
  have hp : Aligned (List.replicate n 120) := aligned_ascii _ (by
    intro c hc; rw [List.mem_replicate] at hc; omega)
  have hc := common_prefix_cancels w hw (List.replicate n 120) [0xC3, 0xA9, 122] [0xC3, 0xB1, 122] hp
  have hx : ¬ compare w false [0xC3, 0xA9, 122] [0xC3, 0xB1, 122] = some 0 := by
    rw [compare_zero_iff_weights]
    have a1 := aligned_two_byte 0xC3 0xA9 (by omega) (by omega) [122]
    have a2 := aligned_two_byte 0xC3 0xB1 (by omega) (by omega) [122]
    have e1 : ([0xC3, 0xA9, 122] : List Nat) = [0xC3, 0xA9] ++ [122] := rfl
    have e2 : ([0xC3, 0xB1, 122] : List Nat) = [0xC3, 0xB1] ++ [122] := rfl
    have r1 : runes false [0xC3, 0xA9] = [0xE9] := by decide
    have r2 : runes false [0xC3, 0xB1] = [0xF1] := by decide
    rw [e1, e2, a1, a2, r1, r2]
    intro h
    simp only [List.map_cons, List.cons_append, List.nil_append, List.cons.injEq] at h
    exact hne h.1
  exact ⟨fun h => hx (hc.1.1 h), fun h => hx (hc.2.1 h)⟩

/-- Non-vacuity: the code-point weight function at prefix lengths 63 and 127. -/
example : compare (fun r => (r : Int)) false (List.replicate 63 120 ++ [0xC3, 0xA9, 122]) (List.replicate 63 120 ++ [0xC3, 0xB1, 122]) = some (-1) ∧
    Aligned (List.replicate 127 120 ++ [0xC3, 0xA9]) :=
  ⟨by decide, aligned_append _ _ (aligned_ascii _ (by intro c hc; rw [List.mem_replicate] at hc; omega))
    (aligned_two_byte _ _ (by omega) (by omega))⟩

/-- The Go-level corollary: `StringType.Compare` of an ASCII string and its lower-cased form is 0
under every `_ci` collation of the compiled code (outside the exception pairs). -/
theorem ci_compare_ascii_partial : ∀ k ∈ table, k.ci = true → ∀ (s : List Nat),
    (∀ c ∈ s, c < 128) → (∀ c ∈ s, ¬ CiRegion k c) →
    compare (wOf k) false s (s.map (foldLower false)) = some 0 := by
  intro k hk hci s hascii hs
  rw [compare_zero_iff_weights, runes_ascii s hascii, runes_ascii]
  · have h := ci_collations_equate_case_partial k hk hci s hs
    rw [cmpW_eq_zero_iff] at h
    rw [h]
    congr 1
    apply List.map_congr_left
    intro c hc
    have := hascii c hc
    have h192 : ¬ (192 ≤ c) := by omega
    simp [foldLower, h192]
  · intro c hc
    obtain ⟨c0, hc0, rfl⟩ := List.mem_map.1 hc
    have := hascii c0 hc0
    unfold foldLower
    split <;> simp_all <;> omega

example : compare (wOf c_255) false [72, 105, 33] ([72, 105, 33].map (foldLower false)) = some 0 ∧
    [72, 105, 33].map (foldLower false) = [104, 105, 33] := by decide +kernel

/-! #### Binary collations -/

/-- `_bin` collations of the Unicode character sets (and their `0900` variant): weight = code
point on the whole dumped range. -/
theorem facts_bin_identity_b : table.all (fun k => !k.bin || !decide (k.maxLen > 1) || (List.range 768).all fun r =>
    rawAt k.tbl r == r) = true := by decide +kernel

theorem facts_bin_identity : ∀ k ∈ table, k.bin = true → k.maxLen > 1 → ∀ r ∈ List.range 768,
    weightAt k.tbl r = (r : Int) := by
  intro k hk hb hm r hr
  have h := List.all_eq_true.1 facts_bin_identity_b k hk
  simp only [hb, hm, decide_true, Bool.not_true, Bool.false_or, List.all_eq_true, beq_iff_eq] at h
  have hr' : r < 768 := List.mem_range.1 hr
  rw [weightAt_of_raw, h r hr, if_neg (by omega)]

/-- one pass: the `some` entries increase strictly (`p` = the last one seen) -/
def strictInc : Option Int → List (Option Int) → Bool
  | _, [] => true
  | p, none :: t => strictInc p t
  | none, some x :: t => strictInc (some x) t
  | some p, some x :: t => decide (p < x) && strictInc (some x) t

theorem strictInc_spec : ∀ (l : List (Option Int)) (p : Option Int), strictInc p l = true →
    (∀ p0, p = some p0 → ∀ y, some y ∈ l → p0 < y) ∧
    List.Pairwise (fun a b => ∀ x ∈ a, ∀ y ∈ b, x < y) l
  | [], _, _ => by simp
  | none :: t, p, h => by
    simp only [strictInc] at h
    obtain ⟨h1, h2⟩ := strictInc_spec t p h
    refine ⟨fun p0 hp y hy => h1 p0 hp y (by simpa using hy), ?_⟩
    rw [List.pairwise_cons]
    exact ⟨fun b _ x hx => by simp at hx, h2⟩
  | some x :: t, none, h => by
    simp only [strictInc] at h
    obtain ⟨h1, h2⟩ := strictInc_spec t (some x) h
    refine ⟨fun p0 hp => by simp at hp, ?_⟩
    rw [List.pairwise_cons]
    refine ⟨fun b hb x' hx' y hy => ?_, h2⟩
    have hx'' : x' = x := by simpa [eq_comm] using hx'
    subst hx''
    cases b with
    | none => simp at hy
    | some y' =>
      have : y = y' := by simpa [eq_comm] using hy
      subst this
      exact h1 x' rfl y hb
  | some x :: t, some p, h => by
    simp only [strictInc, Bool.and_eq_true, decide_eq_true_eq] at h
    obtain ⟨h1, h2⟩ := strictInc_spec t (some x) h.2
    refine ⟨fun p0 hp y hy => ?_, ?_⟩
    · have hp' : p = p0 := by simpa using hp
      subst hp'
      rcases List.mem_cons.1 hy with hy | hy
      · have : y = x := by simpa using hy
        omega
      · have := h1 x rfl y hy
        omega
    · rw [List.pairwise_cons]
      refine ⟨fun b hb x' hx' y hy => ?_, h2⟩
      have hx'' : x' = x := by simpa [eq_comm] using hx'
      subst hx''
      cases b with
      | none => simp at hy
      | some y' =>
        have : y = y' := by simpa [eq_comm] using hy
        subst this
        exact h1 x' rfl y hb

/-- `binary` and the `_bin` collations of the one-byte character sets: the weights of the
characters increase strictly with the byte that encodes them (all 256 bytes, kernel evaluation). -/
theorem facts_bin_single_byte_strictInc_b : table.all (fun k => !k.bin || !(k.maxLen == 1) ||
    strictInc none ((List.range 256).map (byteWeightAt k.byteW))) = true := by decide +kernel

theorem facts_bin_single_byte_strictInc : ∀ k ∈ table, k.bin = true → k.maxLen = 1 →
    strictInc none ((List.range 256).map (byteWeightAt k.byteW)) = true := by
  intro k hk hb hm
  have h := List.all_eq_true.1 facts_bin_single_byte_strictInc_b k hk
  simpa only [hb, hm, beq_self_eq_true, Bool.not_true, Bool.false_or] using h

theorem facts_bin_single_byte_order (k : Coll) (hk : k ∈ table) (hb : k.bin = true) (hm : k.maxLen = 1)
    (i j : Nat) (hi : i < 256) (hj : j < 256) (hij : i < j) :
    ∀ x ∈ byteWeightAt k.byteW i, ∀ y ∈ byteWeightAt k.byteW j, x < y := by
  have h := (strictInc_spec _ none (facts_bin_single_byte_strictInc k hk hb hm)).2
  rw [List.pairwise_iff_getElem] at h
  have := h i j (by simpa using hi) (by simpa using hj) hij
  simpa using this

/-- `bin_orders_by_codepoint` restricted to a set of runes. -/
theorem bin_orders_by_codepoint_on (w : Nat → Int) (S : Nat → Prop)
    (hmono : ∀ r s, S r → S s → r < s → w r < w s) :
    ∀ (a b : List Nat), (∀ r ∈ a, S r) → (∀ r ∈ b, S r) → cmpW (a.map w) (b.map w) = cmpCodepoints a b
  | [], [], _, _ => rfl
  | [], _ :: _, _, _ => rfl
  | _ :: _, [], _, _ => rfl
  | x :: xs, y :: ys, ha, hb => by
    simp only [List.map_cons, cmpW, cmpCodepoints]
    have ih := bin_orders_by_codepoint_on w S hmono xs ys (fun r hr => ha r (by simp [hr]))
      (fun r hr => hb r (by simp [hr]))
    have sx := ha x (by simp)
    have sy := hb y (by simp)
    by_cases h1 : x < y
    · simp [h1, hmono x y sx sy h1]
    · by_cases h2 : x > y
      · have := hmono y x sy sx h2
        have h3 : ¬ w x < w y := by omega
        simp [h1, h2, h3, this]
      · have : x = y := by omega
        subst this
        simp [ih]

/-- **Binary collations of the Unicode character sets order by code point** (runes of the dumped
range; the harness checks monotonicity of the real `Sorter` over all code points). -/
theorem bin_collations_order_by_codepoint : ∀ k ∈ table, k.bin = true → k.maxLen > 1 →
    ∀ (a b : List Nat), (∀ r ∈ a, r < 768) → (∀ r ∈ b, r < 768) →
    cmpW (a.map (wOf k)) (b.map (wOf k)) = cmpCodepoints a b := by
  intro k hk hb hm
  apply bin_orders_by_codepoint_on (wOf k) (· < 768)
  intro r s hr hs hrs
  rw [wOf_lt k r hr, wOf_lt k s hs,
    facts_bin_identity k hk hb hm r (List.mem_range.2 hr), facts_bin_identity k hk hb hm s (List.mem_range.2 hs)]
  omega

/-- The weight function of a one-byte character set over its *bytes* (character codes). -/
def byteW (k : Coll) (b : Nat) : Int := (byteWeightAt k.byteW b).getD defaultWeight

/-- **Binary collations of the one-byte character sets (and `binary`) order by the character code
in the character set**: strings given as lists of character codes compare like the code lists. -/
theorem bin_single_byte_orders_by_charset_code : ∀ k ∈ table, k.bin = true → k.maxLen = 1 →
    ∀ (a b : List Nat), (∀ c ∈ a, c < 256 ∧ (byteWeightAt k.byteW c).isSome) →
      (∀ c ∈ b, c < 256 ∧ (byteWeightAt k.byteW c).isSome) →
    cmpW (a.map (byteW k)) (b.map (byteW k)) = cmpCodepoints a b := by
  intro k hk hb hm
  apply bin_orders_by_codepoint_on (byteW k) (fun c => c < 256 ∧ (byteWeightAt k.byteW c).isSome)
  intro r s ⟨hr, hr2⟩ ⟨hs, hs2⟩ hrs
  obtain ⟨x, hx⟩ := Option.isSome_iff_exists.1 hr2
  obtain ⟨y, hy⟩ := Option.isSome_iff_exists.1 hs2
  have := facts_bin_single_byte_order k hk hb hm r s hr hs hrs x (by simp [hx]) y (by simp [hy])
  simp [byteW, hx, hy, this]

/-- Full statement of the property's wording "binary collations order by (Unicode) code point":
FALSE for the `_bin` collations of one-byte character sets whose byte order differs from the
code-point order (they order by character code in the set, as MySQL does — theorem above).
Witness: `armscii8_bin`, U+00AB « (byte 0xA7) sorts after U+00BB » (byte 0xA6). -/
theorem finding_bin_single_byte_charset_order : ∃ k, k ∈ table ∧ k.bin = true ∧ k.maxLen = 1 ∧
    k.name = "armscii8_bin" ∧ cmpCodepoints [171] [187] = -1 ∧ compare (wOf k) false [194, 171] [194, 187] = some 1 := by
  have h : table.any (fun k => k.bin && k.maxLen == 1 && k.name == "armscii8_bin" &&
      decide (cmpCodepoints [171] [187] = -1) && decide (compare (wOf k) false [194, 171] [194, 187] = some 1)) = true := by
    decide +kernel
  obtain ⟨k, hk, hp⟩ := List.any_eq_true.1 h
  simp only [Bool.and_eq_true, beq_iff_eq, decide_eq_true_eq] at hp
  exact ⟨k, hk, hp.1.1.1.1, hp.1.1.1.2, hp.1.1.2, hp.1.2, hp.2⟩

end Facts

end Gms.C29
