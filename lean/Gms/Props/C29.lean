/-
C29 — Collation comparison is a total preorder coherent with hashing.

Model: Gms/Model/Collation.lean (generic in the weight function `w`, i.e. valid for every
collation). Helper lemmas: Gms/Lemmas/Collation.lean. Regenerated facts: Gms/Generated/C29.lean.
-/
import Gms.Lemmas.Collation
import Gms.Generated.C29

namespace Gms.C29
open Gms.Collation

/-! ### `StringType.Compare` is a total preorder (for every weight function) -/

/-- **Refinement**: the Go loop (byte strings, interleaved decoding, early exits, the tail
comparison of remaining lengths) computes the lexicographic comparison of the rune-weight lists;
in particular it never takes its "malformed string" error exit. -/
theorem compare_refines (w : Nat → Int) (bin : Bool) (a b : List Nat) :
    compare w bin a b = some (compareSpec w bin a b) :=
  compareLoop_spec w bin _ a b (by omega)

theorem compare_range (w : Nat → Int) (bin : Bool) (a b : List Nat) :
    compareSpec w bin a b = -1 ∨ compareSpec w bin a b = 0 ∨ compareSpec w bin a b = 1 :=
  cmpW_range _ _

/-- Reflexive. -/
theorem compare_refl (w : Nat → Int) (bin : Bool) (a : List Nat) : compare w bin a a = some 0 := by
  rw [compare_refines]; simp [compareSpec, cmpW_refl]

/-- Total and antisymmetric up to equivalence: swapping the arguments negates the result. -/
theorem compare_antisymm (w : Nat → Int) (bin : Bool) (a b : List Nat) :
    compareSpec w bin a b = -(compareSpec w bin b a) :=
  cmpW_antisymm _ _

/-- Transitive. -/
theorem compare_trans (w : Nat → Int) (bin : Bool) (a b c : List Nat)
    (h1 : compareSpec w bin a b ≤ 0) (h2 : compareSpec w bin b c ≤ 0) : compareSpec w bin a c ≤ 0 :=
  cmpW_trans _ _ _ h1 h2

/-- Equivalence classes are exactly "same list of rune weights". -/
theorem compare_zero_iff_weights (w : Nat → Int) (bin : Bool) (a b : List Nat) :
    compare w bin a b = some 0 ↔ (runes bin a).map w = (runes bin b).map w := by
  rw [compare_refines]
  simp only [Option.some.injEq, compareSpec]
  exact cmpW_eq_zero_iff _ _

/-- Non-vacuity: "aB" vs "Ab" under a weight function that folds ASCII case, and a strict case. -/
example : compare (fun r => if 97 ≤ r ∧ r ≤ 122 then (r : Int) - 32 else r) false [97, 66] [65, 98] = some 0 ∧
    compare (fun r => (r : Int)) false [97, 66] [65, 98] = some 1 ∧
    compare (fun r => (r : Int)) false [97] [97, 0] = some (-1) := by decide

/-! ### Weight strings and hashes -/

/-- `WriteWeightString` never fails and writes the concatenated 4-byte weights (raw bytes for
`Collation_binary`). -/
theorem writeWeights_eq (w : Nat → Int) (binColl : Bool) (s : List Nat) :
    writeWeights w binColl s = some (if binColl then s else weightsSpec w s) := by
  unfold writeWeights
  cases binColl with
  | true => simp
  | false =>
    have := weightLoop_spec w (s.length + 1) s (by omega)
    simp [this]

/-- **Coherence**: for a non-binary collation whose weights are `int32`s, two strings compare
equal exactly when their weight strings are equal. -/
theorem compare_zero_iff_weightString (w : Nat → Int)
    (hw : ∀ r, -2147483648 ≤ w r ∧ w r < 2147483648) (a b : List Nat) :
    compare w false a b = some 0 ↔ writeWeights w false a = writeWeights w false b := by
  rw [compare_zero_iff_weights, writeWeights_eq, writeWeights_eq]
  simp only [Bool.false_eq_true, if_false, Option.some.injEq, weightsSpec]
  constructor
  · intro h; rw [h]
  · intro h
    apply flatMap_wbytes_inj _ _ _ _ h
    · intro x hx
      obtain ⟨r, _, rfl⟩ := List.mem_map.1 hx
      exact hw r
    · intro x hx
      obtain ⟨r, _, rfl⟩ := List.mem_map.1 hx
      exact hw r

theorem runes_bin : ∀ (s : List Nat), runes true s = s := by
  intro s
  induction s with
  | nil => exact runes_nil true
  | cons b t ih =>
    rw [runes_cons true (b :: t) (by simp)]
    simp [nextRune, ih]

/-- `Collation_binary`: bytes are the runes, the weight is the byte, the weight string is the
string itself — equal comparison ⇔ equal bytes ⇔ equal weight strings. -/
theorem binary_compare_zero_iff (a b : List Nat) :
    (compare (fun r => (r : Int)) true a b = some 0 ↔ a = b) ∧
    (a = b ↔ writeWeights (fun r => (r : Int)) true a = writeWeights (fun r => (r : Int)) true b) := by
  constructor
  · rw [compare_zero_iff_weights, runes_bin, runes_bin]
    constructor
    · intro h
      have := congrArg (List.map Int.toNat) h
      simpa [List.map_map, Function.comp_def] using this
    · intro h; rw [h]
  · simp [writeWeights]

/-- Hash coherence: `HashToUint` hashes the weight string, so equal strings (under the
collation) always hash equally, and for a collision-free hash the converse holds too. -/
theorem compare_zero_iff_hash {H : List Nat → Nat} (w : Nat → Int)
    (hw : ∀ r, -2147483648 ≤ w r ∧ w r < 2147483648) (a b : List Nat) :
    (compare w false a b = some 0 → (writeWeights w false a).map H = (writeWeights w false b).map H) ∧
    ((∀ x y, H x = H y → x = y) →
      ((writeWeights w false a).map H = (writeWeights w false b).map H → compare w false a b = some 0)) := by
  constructor
  · intro h; rw [(compare_zero_iff_weightString w hw a b).1 h]
  · intro hH h
    apply (compare_zero_iff_weightString w hw a b).2
    rw [writeWeights_eq, writeWeights_eq] at h ⊢
    simp only [Option.map_some, Option.some.injEq] at h ⊢
    exact hH _ _ h

/-! ### Case-insensitive and binary collations -/

/-- If the weight function does not distinguish a rune from its case-mapped form, then strings
that differ only by that case mapping compare equal (any mapping `f`: lower, upper, accent removal). -/
theorem ci_equates_case (w : Nat → Int) (f : Nat → Nat) (h : ∀ c, w (f c) = w c) (ra : List Nat) :
    cmpW (ra.map w) ((ra.map f).map w) = 0 := by
  rw [cmpW_eq_zero_iff, List.map_map]
  apply List.map_congr_left
  intro c _
  simp [h c]

/-- Per-rune version with an explicit exception set (what the regenerated `_ci` facts give:
all ASCII letters except the listed ones). -/
theorem ci_equates_case_on (w : Nat → Int) (f : Nat → Nat) (ra : List Nat)
    (h : ∀ c ∈ ra, w (f c) = w c) : cmpW (ra.map w) ((ra.map f).map w) = 0 := by
  rw [cmpW_eq_zero_iff, List.map_map]
  apply List.map_congr_left
  intro c hc
  simp [h c hc]

/-- Code-point order on rune lists. -/
def cmpCodepoints : List Nat → List Nat → Int
  | [], [] => 0
  | [], _ :: _ => -1
  | _ :: _, [] => 1
  | x :: xs, y :: ys => if x < y then -1 else if x > y then 1 else cmpCodepoints xs ys

/-- A collation whose weights are strictly increasing in the code point (what the regenerated
`_bin` facts check) orders strings by code point. -/
theorem bin_orders_by_codepoint (w : Nat → Int) (hmono : ∀ r s, r < s → w r < w s) :
    ∀ (a b : List Nat), cmpW (a.map w) (b.map w) = cmpCodepoints a b
  | [], [] => rfl
  | [], _ :: _ => rfl
  | _ :: _, [] => rfl
  | x :: xs, y :: ys => by
    simp only [List.map_cons, cmpW, cmpCodepoints]
    have ih := bin_orders_by_codepoint w hmono xs ys
    by_cases h1 : x < y
    · simp [h1, hmono x y h1]
    · by_cases h2 : x > y
      · have := hmono y x h2
        have h3 : ¬ w x < w y := by omega
        simp [h1, h2, h3, this]
      · have : x = y := by omega
        subst this
        simp [ih]

example : cmpCodepoints [0x61, 0x10000] [0x61, 0xFFFF] = 1 := by decide

/-! ### LIKE uses the same weights -/

/-- A pattern without `_`, `%`, escape and negative weights is the list of its literal nodes. -/
theorem likeNodes_literal (w : Nat → Int) (esc : Nat) : ∀ (p : List Nat),
    (∀ r ∈ p, r ≠ 95 ∧ r ≠ 37 ∧ r ≠ esc ∧ 0 ≤ w r) →
    likeNodes w esc p = some (p.map fun r => LikeNode.one (some (w r)))
  | [], _ => rfl
  | r :: rest, h => by
    obtain ⟨h1, h2, h3, h4⟩ := h r (by simp)
    have ih := likeNodes_literal w esc rest (fun x hx => h x (by simp [hx]))
    have h5 : ¬ w r < 0 := by omega
    unfold likeNodes
    simp [h1, h2, h3, ih, litNode, h5]

theorem likeRun_literal : ∀ (ks xs : List Int),
    likeRun (ks.map fun k => LikeNode.one (some k)) xs = true ↔ xs = ks
  | [], xs => by cases xs <;> simp [likeRun]
  | k :: ks, [] => by simp [likeRun]
  | k :: ks, x :: xs => by
    simp only [List.map_cons, likeRun, Bool.and_eq_true, decide_eq_true_eq, List.cons.injEq]
    rw [likeRun_literal ks xs]

/-- **LIKE honours the collation**: for a pattern without wildcards, `s LIKE p` holds exactly
when `s = p` under the collation's comparison. -/
theorem like_literal_iff_compare (w : Nat → Int) (bin : Bool) (esc : Nat) (p s : List Nat)
    (hp : ∀ r ∈ runes bin p, r ≠ 95 ∧ r ≠ 37 ∧ r ≠ esc ∧ 0 ≤ w r)
    (hmp : malformed bin p = false) (hms : malformed bin s = false) :
    like w bin esc p s = some true ↔ compare w bin s p = some 0 := by
  unfold like
  rw [hmp, likeNodes_literal w esc _ hp, hms, compare_zero_iff_weights]
  simp only [Bool.false_eq_true, if_false, Bool.not_false, Bool.true_and, Option.some.injEq]
  have := likeRun_literal ((runes bin p).map w) ((runes bin s).map w)
  rw [List.map_map] at this
  exact this

/-- `%` matches everything, `_` exactly one rune (whatever its weight). -/
theorem likeRun_any (xs : List Int) : likeRun [.any] xs = true := by
  induction xs with
  | nil => simp [likeRun, anySuffix]
  | cons x xs ih =>
    simp only [likeRun] at ih ⊢
    simp [anySuffix, ih]

theorem likeRun_one (xs : List Int) : likeRun [.one none] xs = true ↔ xs.length = 1 := by
  cases xs with
  | nil => simp [likeRun]
  | cons x t => cases t <;> simp [likeRun]

example : like (fun r => if 97 ≤ r ∧ r ≤ 122 then (r : Int) - 32 else r) false 92 [97, 37, 95] [65, 120, 121, 122] = some true ∧
    like (fun r => (r : Int)) false 92 [97, 37, 95] [65, 120, 121, 122] = some false ∧
    like (fun r => (r : Int)) false 92 [97, 92] [97] = none := by decide

end Gms.C29
