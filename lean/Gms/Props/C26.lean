/-
C26 — Comparison of values is a consistent total order per type.

Model: Gms/Model/NumConv.lean (`implCompare` follows `NumberTypeImpl_.Compare`, `DecimalType_.Compare`,
`YearType_.Compare`, `BitType_.Compare` and `CompareNulls` path by path; `specCompare` = NULL first,
then compare after `Convert`). Helper lemmas in `namespace Gms.Conv`, property theorems in `Gms.C26`.

Main results: every modelled `Compare` is a comparison through a key (`implCompare_eq_viaKey`), hence
reflexive, antisymmetric, transitive and total on convertible values FOR ALL values (`cmp_refl`,
`cmp_antisymm`, `cmp_trans`, `cmp_total`) — with NULL as the *greatest* element: the statement
"NULL sorts before every non-NULL value" is false for the unchanged code (`cmp_null_last`,
`finding_null_sorts_last`). "Equals comparing after conversion" holds outside the listed regions
(`cmp_eq_cmp_convert_partial`) and fails inside them (`finding_*`).

Temporal types (DATE, DATETIME(p), TIMESTAMP(p)): model Gms/Model/TimeCmp.lean (`datetimeType.Compare`,
`ConvertToTime`), lemmas Gms/Lemmas/TimeCmp.lean; theorems `dt_*` below: the sort key is the exact instant, whose
order is the calendar order over the whole range 0000..9999 (`dt_str_compare_is_calendar_order`,
`dt_str_compare_exact`); region `time_operand_not_rounded`. Types without an Impl model: order laws plus the
reference order `TimeCmp.refOrder` (`refOrder_determines`, `laws_do_not_imply_refOrder`).
-/
import Gms.Model.NumConv
import Gms.Model.TimeCmp
import Gms.Lemmas.NumConv
import Gms.Lemmas.TimeCmp
import Gms.Generated.C26

namespace Gms.Conv
open Gms.Num


/-! ## Lemmas: three-way comparison through a key -/

theorem cmpInt_refl (a : Int) : cmpInt a a = .eq := by simp [cmpInt]

theorem cmpInt_flip (a b : Int) : cmpInt b a = (cmpInt a b).flip := by
  unfold cmpInt
  by_cases h1 : a = b
  · subst h1; simp [Cmp.flip]
  · have h2 : ¬ b = a := fun h => h1 h.symm
    by_cases h3 : a < b
    · have : ¬ b < a := by omega
      simp [h1, h2, h3, this, Cmp.flip]
    · have : b < a := by omega
      simp [h1, h2, h3, this, Cmp.flip]

theorem cmpInt_lt (a b : Int) : cmpInt a b = .lt ↔ a < b := by
  unfold cmpInt
  by_cases h1 : a = b
  · subst h1; simp
  · by_cases h3 : a < b <;> simp [h1, h3]

theorem cmpInt_eq (a b : Int) : cmpInt a b = .eq ↔ a = b := by
  unfold cmpInt
  by_cases h1 : a = b
  · subst h1; simp
  · by_cases h3 : a < b <;> simp [h1, h3]

theorem cmpInt_ne_err (a b : Int) : cmpInt a b ≠ .err := by
  unfold cmpInt; split <;> (try split) <;> simp

theorem cmpInt_le (a b : Int) : (cmpInt a b).le = true ↔ a ≤ b := by
  unfold Cmp.le cmpInt
  by_cases h1 : a = b
  · subst h1; simp
  · by_cases h3 : a < b
    · simp [h1, h3]; omega
    · simp [h1, h3]; omega

/-- a decimal key `(c, s)` denotes `c / 10^s`; `cmpDec` compares the denoted numbers -/
theorem cmpDec_refl (x : Int × Nat) : cmpDec x x = .eq := by simp [cmpDec, cmpInt_refl]

theorem cmpDec_flip (x y : Int × Nat) : cmpDec y x = (cmpDec x y).flip := by
  unfold cmpDec; exact cmpInt_flip _ _

theorem cmpDec_ne_err (x y : Int × Nat) : cmpDec x y ≠ .err := by
  unfold cmpDec; exact cmpInt_ne_err _ _

/-- `≤` on keys is transitive (cross-multiplication by positive powers of ten) -/
theorem key_le_trans (x y z : Int × Nat)
    (h1 : x.1 * 10 ^ y.2 ≤ y.1 * 10 ^ x.2) (h2 : y.1 * 10 ^ z.2 ≤ z.1 * 10 ^ y.2) :
    x.1 * 10 ^ z.2 ≤ z.1 * 10 ^ x.2 := by
  have hX := pow10_pos x.2
  have hY := pow10_pos y.2
  have hZ := pow10_pos z.2
  have a1 : x.1 * 10 ^ y.2 * 10 ^ z.2 ≤ y.1 * 10 ^ x.2 * 10 ^ z.2 :=
    Int.mul_le_mul_of_nonneg_right h1 (Int.le_of_lt hZ)
  have a2 : y.1 * 10 ^ z.2 * 10 ^ x.2 ≤ z.1 * 10 ^ y.2 * 10 ^ x.2 :=
    Int.mul_le_mul_of_nonneg_right h2 (Int.le_of_lt hX)
  have a3 : x.1 * 10 ^ z.2 * 10 ^ y.2 ≤ z.1 * 10 ^ x.2 * 10 ^ y.2 := by
    have e1 : x.1 * 10 ^ z.2 * 10 ^ y.2 = x.1 * 10 ^ y.2 * 10 ^ z.2 := by grind
    have e2 : z.1 * 10 ^ x.2 * 10 ^ y.2 = z.1 * 10 ^ y.2 * 10 ^ x.2 := by grind
    have e3 : y.1 * 10 ^ x.2 * 10 ^ z.2 = y.1 * 10 ^ z.2 * 10 ^ x.2 := by grind
    rw [e1, e2]
    exact Int.le_trans a1 (e3 ▸ a2)
  exact Int.le_of_mul_le_mul_right a3 hY

theorem key_lt_of_lt_le (x y z : Int × Nat)
    (h1 : x.1 * 10 ^ y.2 < y.1 * 10 ^ x.2) (h2 : y.1 * 10 ^ z.2 ≤ z.1 * 10 ^ y.2) :
    x.1 * 10 ^ z.2 < z.1 * 10 ^ x.2 := by
  have hX := pow10_pos x.2
  have hY := pow10_pos y.2
  have hZ := pow10_pos z.2
  have a1 : x.1 * 10 ^ y.2 * 10 ^ z.2 < y.1 * 10 ^ x.2 * 10 ^ z.2 :=
    Int.mul_lt_mul_of_pos_right h1 hZ
  have a2 : y.1 * 10 ^ z.2 * 10 ^ x.2 ≤ z.1 * 10 ^ y.2 * 10 ^ x.2 :=
    Int.mul_le_mul_of_nonneg_right h2 (Int.le_of_lt hX)
  have a3 : x.1 * 10 ^ z.2 * 10 ^ y.2 < z.1 * 10 ^ x.2 * 10 ^ y.2 := by
    have e1 : x.1 * 10 ^ z.2 * 10 ^ y.2 = x.1 * 10 ^ y.2 * 10 ^ z.2 := by grind
    have e2 : z.1 * 10 ^ x.2 * 10 ^ y.2 = z.1 * 10 ^ y.2 * 10 ^ x.2 := by grind
    have e3 : y.1 * 10 ^ x.2 * 10 ^ z.2 = y.1 * 10 ^ z.2 * 10 ^ x.2 := by grind
    rw [e1, e2]
    exact Int.lt_of_lt_of_le a1 (e3 ▸ a2)
  exact Int.lt_of_mul_lt_mul_right a3 (Int.le_of_lt hY)

theorem key_lt_of_le_lt (x y z : Int × Nat)
    (h1 : x.1 * 10 ^ y.2 ≤ y.1 * 10 ^ x.2) (h2 : y.1 * 10 ^ z.2 < z.1 * 10 ^ y.2) :
    x.1 * 10 ^ z.2 < z.1 * 10 ^ x.2 := by
  have hX := pow10_pos x.2
  have hY := pow10_pos y.2
  have hZ := pow10_pos z.2
  have a1 : x.1 * 10 ^ y.2 * 10 ^ z.2 ≤ y.1 * 10 ^ x.2 * 10 ^ z.2 :=
    Int.mul_le_mul_of_nonneg_right h1 (Int.le_of_lt hZ)
  have a2 : y.1 * 10 ^ z.2 * 10 ^ x.2 < z.1 * 10 ^ y.2 * 10 ^ x.2 :=
    Int.mul_lt_mul_of_pos_right h2 hX
  have a3 : x.1 * 10 ^ z.2 * 10 ^ y.2 < z.1 * 10 ^ x.2 * 10 ^ y.2 := by
    have e1 : x.1 * 10 ^ z.2 * 10 ^ y.2 = x.1 * 10 ^ y.2 * 10 ^ z.2 := by grind
    have e2 : z.1 * 10 ^ x.2 * 10 ^ y.2 = z.1 * 10 ^ y.2 * 10 ^ x.2 := by grind
    have e3 : y.1 * 10 ^ x.2 * 10 ^ z.2 = y.1 * 10 ^ z.2 * 10 ^ x.2 := by grind
    rw [e1, e2]
    exact Int.lt_of_le_of_lt a1 (e3 ▸ a2)
  exact Int.lt_of_mul_lt_mul_right a3 (Int.le_of_lt hY)


/-- comparison through a partial key: NULLs by `compareNulls`, an error when a key is missing -/
def cmpViaKey (k : Val → Option (Int × Nat)) (a b : Val) : Cmp :=
  match compareNulls a b with
  | some r => r
  | none =>
    match k a, k b with
    | some x, some y => cmpDec x y
    | _, _ => .err

/-- the sort key each modelled type's `Compare` orders by (`none`: `Compare` returns an error) -/
def keyOf (t : Ty) (v : Val) : Option (Int × Nat) :=
  match t with
  | .int it =>
    if it.unsigned then
      let c := convertToUint64 v
      if c.err ≠ .none then none else some (c.val, 0)
    else
      let c := convertToInt64 v
      some (if c.err ≠ .none then 0 else c.val, 0)
  | .dec _ s c => toDecimal s c v
  | .year | .bit _ =>
    let c := convert t v
    if c.err ≠ .none then none else storedKey c.val

theorem cmpDec_int (a b : Int) : cmpDec (a, 0) (b, 0) = cmpInt a b := by simp [cmpDec]

/-- `Type.Compare` of every modelled type is a comparison through a key. -/
theorem implCompare_eq_viaKey (t : Ty) (a b : Val) : implCompare t a b = cmpViaKey (keyOf t) a b := by
  unfold implCompare cmpViaKey
  cases hn : compareNulls a b with
  | some r => rfl
  | none =>
    simp only
    cases t with
    | int it =>
      simp only [keyOf]
      by_cases hu : it.unsigned = true
      · simp only [hu, if_true]
        by_cases ha : (convertToUint64 a).err ≠ .none
        · simp [ha]
        · by_cases hb : (convertToUint64 b).err ≠ .none
          · simp [ha, hb]
          · simp [ha, hb, cmpDec_int]
      · simp only [hu, Bool.false_eq_true, if_false, cmpDec_int]
    | dec p s c =>
      simp only [keyOf]
      cases toDecimal s c a <;> cases toDecimal s c b <;> rfl
    | year =>
      simp only [keyOf]
      by_cases ha : (convert .year a).err ≠ .none
      · simp [ha]
      · by_cases hb : (convert .year b).err ≠ .none
        · simp [ha, hb]
        · simp [ha, hb]
          cases storedKey (convert Ty.year a).val <;> cases storedKey (convert Ty.year b).val <;> rfl
    | bit n =>
      simp only [keyOf]
      by_cases ha : (convert (.bit n) a).err ≠ .none
      · simp [ha]
      · by_cases hb : (convert (.bit n) b).err ≠ .none
        · simp [ha, hb]
        · simp [ha, hb]
          cases storedKey (convert (Ty.bit n) a).val <;> cases storedKey (convert (Ty.bit n) b).val <;> rfl



/-! ## Order laws of a comparison through a key (NULL is the greatest element, as coded) -/

theorem compareNulls_of_ne {a b : Val} (ha : a ≠ .null) (hb : b ≠ .null) : compareNulls a b = none := by
  cases a <;> cases b <;> simp_all [compareNulls]

theorem compareNulls_null_left {b : Val} (hb : b ≠ .null) : compareNulls .null b = some .gt := by
  cases b <;> simp_all [compareNulls]

theorem compareNulls_null_right {a : Val} (ha : a ≠ .null) : compareNulls a .null = some .lt := by
  cases a <;> simp_all [compareNulls]

section laws
variable (k : Val → Option (Int × Nat))

theorem viaKey_nonnull {a b : Val} (ha : a ≠ .null) (hb : b ≠ .null) :
    cmpViaKey k a b = match k a, k b with
      | some x, some y => cmpDec x y
      | _, _ => .err := by
  unfold cmpViaKey; rw [compareNulls_of_ne ha hb]

theorem viaKey_refl (a : Val) : cmpViaKey k a a = .eq ∨ cmpViaKey k a a = .err := by
  by_cases ha : a = .null
  · subst ha; left; rfl
  · rw [viaKey_nonnull k ha ha]
    cases k a with
    | none => right; rfl
    | some x => left; exact cmpDec_refl x

theorem viaKey_antisymm (a b : Val) : cmpViaKey k b a = (cmpViaKey k a b).flip := by
  by_cases ha : a = .null
  · subst ha
    by_cases hb : b = .null
    · subst hb; rfl
    · unfold cmpViaKey; rw [compareNulls_null_left hb, compareNulls_null_right hb]; rfl
  · by_cases hb : b = .null
    · subst hb
      unfold cmpViaKey; rw [compareNulls_null_left ha, compareNulls_null_right ha]; rfl
    · rw [viaKey_nonnull k ha hb, viaKey_nonnull k hb ha]
      cases k a <;> cases k b <;> simp only [Cmp.flip]
      exact cmpDec_flip _ _

/-- total: an error arises only from a missing key -/
theorem viaKey_total {a b : Val} (ha : a = .null ∨ (k a).isSome) (hb : b = .null ∨ (k b).isSome) :
    cmpViaKey k a b ≠ .err := by
  by_cases ha' : a = .null
  · subst ha'
    by_cases hb' : b = .null
    · subst hb'; simp [cmpViaKey, compareNulls]
    · unfold cmpViaKey; rw [compareNulls_null_left hb']; simp
  · by_cases hb' : b = .null
    · subst hb'; unfold cmpViaKey; rw [compareNulls_null_right ha']; simp
    · rw [viaKey_nonnull k ha' hb']
      rcases ha with ha | ha
      · exact absurd ha ha'
      · rcases hb with hb | hb
        · exact absurd hb hb'
        · cases hka : k a <;> cases hkb : k b <;> simp_all [cmpDec_ne_err]

/-- transitivity with strictness: from `a ≤ b` and `b ≤ c` (no errors) follows `a ≤ c`, strictly when
one of the premises is strict. -/
theorem viaKey_trans (a b c : Val)
    (hab : (cmpViaKey k a b).le = true) (hbc : (cmpViaKey k b c).le = true) :
    (cmpViaKey k a c).le = true ∧
      ((cmpViaKey k a b = .lt ∨ cmpViaKey k b c = .lt) → cmpViaKey k a c = .lt) := by
  by_cases ha : a = .null
  · -- a = NULL is the greatest element: a ≤ b forces b = NULL, then c = NULL
    subst ha
    by_cases hb : b = .null
    · subst hb
      refine ⟨hbc, fun h => ?_⟩
      rcases h with h | h
      · simp [cmpViaKey, compareNulls] at h
      · exact h
    · unfold cmpViaKey at hab; rw [compareNulls_null_left hb] at hab; simp [Cmp.le] at hab
  · by_cases hc : c = .null
    · subst hc
      by_cases hb : b = .null
      · subst hb
        refine ⟨hab, fun h => ?_⟩
        rcases h with h | h
        · exact h
        · simp [cmpViaKey, compareNulls] at h
      · refine ⟨?_, fun _ => ?_⟩
        · unfold cmpViaKey; rw [compareNulls_null_right ha]; simp [Cmp.le]
        · unfold cmpViaKey; rw [compareNulls_null_right ha]
    · by_cases hb : b = .null
      · subst hb
        unfold cmpViaKey at hbc; rw [compareNulls_null_left hc] at hbc; simp [Cmp.le] at hbc
      · rw [viaKey_nonnull k ha hb] at hab
        rw [viaKey_nonnull k hb hc] at hbc
        rw [viaKey_nonnull k ha hb, viaKey_nonnull k hb hc, viaKey_nonnull k ha hc]
        cases hka : k a with
        | none => simp [hka, Cmp.le] at hab
        | some x =>
          cases hkb : k b with
          | none => simp [hka, hkb, Cmp.le] at hab
          | some y =>
            cases hkc : k c with
            | none => simp [hkb, hkc, Cmp.le] at hbc
            | some z =>
              simp only [hka, hkb] at hab
              simp only [hkb, hkc] at hbc
              simp only
              unfold cmpDec at hab hbc ⊢
              rw [cmpInt_le] at hab hbc ⊢
              refine ⟨key_le_trans x y z hab hbc, ?_⟩
              rintro (h | h)
              · rw [cmpInt_lt] at h ⊢; exact key_lt_of_lt_le x y z h hbc
              · rw [cmpInt_lt] at h ⊢; exact key_lt_of_le_lt x y z hab h

end laws

end Gms.Conv

namespace Gms.C26
open Gms.Num Gms.Conv

/-! ### Obligations over the regenerated facts -/

/-- `CompareNulls`, dumped from the compiled code, is the model's `compareNulls` (NULL last). -/
theorem facts_match_compare_nulls :
    Gms.Generated.C26.compareNullsTable =
      [(true, true, true, 0), (true, false, true, 1), (false, true, true, -1), (false, false, false, 0)] ∧
    compareNulls .null .null = some .eq ∧ compareNulls .null (.i 1) = some .gt ∧
    compareNulls (.i 1) .null = some .lt ∧ compareNulls (.i 1) (.i 2) = none := by decide

/-- `NumberTypeImpl_.Compare`: the unsigned base types go through `convertToUint64` and return the
error; floats are separate; every other base type goes through `convertToInt64` and treats an error
as 0 — the three branches of `implCompare` / `keyOf`. -/
theorem facts_match_compare_branches :
    Gms.Generated.C26.compareBranch_5 = ("Uint8,Uint16,Uint24,Uint32,Uint64", "convertToUint64:ShouldTruncate", "return 0, err") ∧
    Gms.Generated.C26.compareBranch_2 = ("Float32,Float64", "convertToFloat64", "return 0, err") ∧
    Gms.Generated.C26.compareBranch_0 = ("default", "convertToInt64:ShouldTruncate", "ca = 0") := by decide

/-- `DecimalType_.Compare`, `YearType_.Compare`, `BitType_.Compare` (go/ast): NULLs first through
`CompareNulls`, both operands through `ConvertToDecimal` / the type's own `Convert`, a conversion error is
returned, then `CompareDecimals` resp. the `==`/`<` ladder on the converted values — the `.dec` and
`.year | .bit` branches of `implCompare` / `keyOf`. -/
theorem facts_match_compare_shapes :
    Gms.Generated.C26.compareShapes = [
      ("DecimalType_", ["a: t.ConvertToDecimal / on error: return 0, err", "b: t.ConvertToDecimal / on error: return 0, err",
        "if hasNulls, res := CompareNulls(a, b); hasNulls => return res, nil", "return CompareDecimals(ad, bd), nil"]),
      ("YearType_", ["a: t.Convert / on error: return 0, err", "b: t.Convert / on error: return 0, err",
        "if hasNulls, res := CompareNulls(a, b); hasNulls => return res, nil", "if ai == bi => return 0, nil",
        "if ai < bi => return -1, nil", "return 1, nil"]),
      ("BitType_", ["a: t.Convert / on error: return 0, err", "b: t.Convert / on error: return 0, err",
        "if hasNulls, res := CompareNulls(a, b); hasNulls => return res, nil", "if ai < bi => return -1, nil",
        "if ai > bi => return 1, nil", "return 0, nil"])] := by decide

/-- `datetimeType.Compare` (go/ast, every statement): NULLs through `CompareNulls`; an operand that is not a
`time.Time` goes through `ConvertToTime` and its error is returned, a `time.Time` is only truncated by a DATE
type; then `Before` / `After` on the two instants — `TimeCmp.implCompare` / `TimeCmp.operand`. -/
theorem facts_match_datetime_compare :
    Gms.Generated.C26.datetimeCompare = [
      "if hasNulls, res := CompareNulls(a, b); hasNulls",
      "  return res, nil",
      "if at, ok = a.(time.Time); !ok",
      "  at, err = ConvertToTime(ctx, a, t)",
      "  if err != nil",
      "    return 0, err",
      "else",
      "if t.baseType == sqltypes.Date",
      "  at = at.Truncate(24 * time.Hour)",
      "if bt, ok = b.(time.Time); !ok",
      "  bt, err = ConvertToTime(ctx, b, t)",
      "  if err != nil",
      "    return 0, err",
      "else",
      "if t.baseType == sqltypes.Date",
      "  bt = bt.Truncate(24 * time.Hour)",
      "if at.Before(bt)",
      "  return -1, nil",
      "else",
      "if at.After(bt)",
      "  return 1, nil",
      "return 0, nil"] := by decide

/-- constants of `ConvertToTime`: the rounding unit of precision `p` is `time.Second / precisionConversion[p]`
= the model's `TTy.unit`; `ZeroTime`, the TIMESTAMP bounds; `t == DatetimeMaxRange` holds exactly for DATETIME(6). -/
theorem facts_match_datetime_constants :
    (∀ p, p < 7 → Gms.Generated.C26.precisionConversion[p]? = some (10 ^ p)) ∧
    Gms.Generated.C26.precisionConversion.length = 7 ∧
    (∀ p, p < 7 → (TimeCmp.TTy.datetime p).unit * (10 ^ p : Nat) = Cal.nsSec ∧
      (TimeCmp.TTy.timestamp p).unit = (TimeCmp.TTy.datetime p).unit) ∧
    TimeCmp.TTy.date.unit = Cal.nsSec ∧
    Gms.Generated.C26.zeroTimeUnix * Cal.nsSec + Gms.Generated.C26.zeroTimeNanos = TimeCmp.zeroTime ∧
    Gms.Generated.C26.timestampBounds.1.1 * Cal.nsSec + Gms.Generated.C26.timestampBounds.1.2 = TimeCmp.tsMin ∧
    Gms.Generated.C26.timestampBounds.2.1 * Cal.nsSec + Gms.Generated.C26.timestampBounds.2.2 = TimeCmp.tsMax ∧
    Gms.Generated.C26.isMaxRangeType = [false, false, false, false, false, false, true] := by decide

/-! ### Order laws, for all modelled types and ALL values -/

theorem cmp_refl (t : Ty) (a : Val) : implCompare t a a = .eq ∨ implCompare t a a = .err := by
  rw [implCompare_eq_viaKey]; exact viaKey_refl _ a

theorem cmp_antisymm (t : Ty) (a b : Val) : implCompare t b a = (implCompare t a b).flip := by
  rw [implCompare_eq_viaKey, implCompare_eq_viaKey]; exact viaKey_antisymm _ a b

theorem cmp_trans (t : Ty) (a b c : Val)
    (hab : (implCompare t a b).le = true) (hbc : (implCompare t b c).le = true) :
    (implCompare t a c).le = true ∧
      ((implCompare t a b = .lt ∨ implCompare t b c = .lt) → implCompare t a c = .lt) := by
  rw [implCompare_eq_viaKey] at hab hbc ⊢
  rw [implCompare_eq_viaKey, implCompare_eq_viaKey]
  exact viaKey_trans _ a b c hab hbc

/-- an error only arises from a value the type cannot convert -/
theorem cmp_total (t : Ty) (a b : Val) (ha : a = .null ∨ (keyOf t a).isSome) (hb : b = .null ∨ (keyOf t b).isSome) :
    implCompare t a b ≠ .err := by
  rw [implCompare_eq_viaKey]; exact viaKey_total _ ha hb

/-- signed integer types never return an error (a conversion error is treated as the value 0) -/
theorem cmp_signed_total (it : ITy) (hs : it.unsigned = false) (a b : Val) : implCompare (.int it) a b ≠ .err := by
  apply cmp_total <;> (right; simp [keyOf, hs])

/-- What `CompareNulls` does, for every modelled type: NULL is ordered *after* every non-NULL value.
The property's "NULL sorts before every non-NULL value" (`cmp_null_first : implCompare t .null a = .lt`)
is false for the unchanged code. -/
theorem cmp_null_last (t : Ty) (a : Val) (ha : a ≠ .null) :
    implCompare t .null a = .gt ∧ implCompare t a .null = .lt ∧ implCompare t .null .null = .eq := by
  unfold implCompare
  rw [compareNulls_null_left ha, compareNulls_null_right ha]
  exact ⟨rfl, rfl, rfl⟩

theorem finding_null_sorts_last :
    ∃ t a b, null_sorts_last a b ∧ implCompare t a b = .gt ∧ specCompare t a b = some .lt :=
  ⟨.int .i64, .null, .i 1, by decide⟩

/-- inside the region the code is *always* opposite to the property -/
theorem null_sorts_last_always_wrong (t : Ty) (a b : Val) (h : null_sorts_last a b) :
    ∃ r, specCompare t a b = some r ∧ implCompare t a b = r.flip ∧ r ≠ .eq := by
  rcases h with ⟨ha, hb⟩ | ⟨ha, hb⟩
  · subst ha
    refine ⟨.lt, ?_, (cmp_null_last t b hb).1, by simp⟩
    cases b <;> simp_all [specCompare]
  · subst hb
    refine ⟨.gt, ?_, (cmp_null_last t a ha).2.1, by simp⟩
    cases a <;> simp_all [specCompare]

/-! ### The order-law check of stream B can never fail on a key-based comparison -/

def triOf (f : Val → Val → Cmp) (a b c : Val) : Tri :=
  ⟨f a b, f b a, f b c, f c b, f a c, f c a, f a a, f b b, f c c⟩

theorem tri_laws_of_viaKey (k : Val → Option (Int × Nat)) (a b c : Val) :
    (triOf (cmpViaKey k) a b c).refl = true ∧ (triOf (cmpViaKey k) a b c).antisymm = true ∧
    (triOf (cmpViaKey k) a b c).trans = true := by
  refine ⟨?_, ?_, ?_⟩
  · unfold Tri.refl triOf
    rcases viaKey_refl k a with h1 | h1 <;> rcases viaKey_refl k b with h2 | h2 <;>
      rcases viaKey_refl k c with h3 | h3 <;> simp [h1, h2, h3, Cmp.ok]
  · unfold Tri.antisymm triOf
    simp only [viaKey_antisymm k b a, viaKey_antisymm k c b, viaKey_antisymm k c a]
    cases cmpViaKey k b a <;> cases cmpViaKey k c b <;> cases cmpViaKey k c a <;> rfl
  · unfold Tri.trans triOf
    simp only
    split
    · rename_i hok
      simp only [Bool.and_eq_true] at hok
      have e1 := viaKey_antisymm k a b
      have e2 := viaKey_antisymm k b c
      have e3 := viaKey_antisymm k a c
      have t1 := viaKey_trans k a b c
      have t2 := viaKey_trans k c b a
      rw [e1, e2, e3] at t2 ⊢
      revert t1 t2 hok
      cases cmpViaKey k a b <;> cases cmpViaKey k b c <;> cases cmpViaKey k a c <;>
        simp [Cmp.le, Cmp.ok, Cmp.flip]
    · rfl


theorem finding_operand_out_of_type_range :
    ∃ t a b, operand_out_of_type_range t a b ∧ implCompare t a b = .lt ∧ specCompare t a b = some .eq :=
  ⟨.int .i8, .i 200, .i 300, by decide⟩

theorem finding_unsigned_compare_negative_operand :
    ∃ t a b, unsigned_compare_negative_operand t a b ∧ ¬ operand_out_of_type_range t a b ∧
      implCompare t a b = .gt ∧ specCompare t a b = some .lt :=
  ⟨.int .u8, .d (-3) 4, .d 1266 1, by decide⟩

theorem finding_decimal_rounded_by_convert :
    ∃ t a b, decimal_rounded_by_convert t a b ∧ implCompare t a b = .gt ∧ specCompare t a b = some .eq :=
  ⟨.dec 10 0 false, .i 0, .d (-40) 2, by decide⟩

def keyCmp (x y : Option (Int × Nat)) : Option Cmp :=
  match x, y with
  | some x, some y => some (cmpDec x y)
  | _, _ => none

theorem specCompare_nonnull (t : Ty) (a b : Val) (ha : a ≠ .null) (hb : b ≠ .null) :
    specCompare t a b =
      (if (convert t a).err ≠ .none ∨ (convert t b).err ≠ .none then none
       else keyCmp (storedKey (convert t a).val) (storedKey (convert t b).val)) := by
  have key : ∀ a b : Val, a ≠ .null → b ≠ .null → specCompare t a b =
      (let ca := convert t a
       let cb := convert t b
       if ca.err ≠ .none ∨ cb.err ≠ .none then none
       else match storedKey ca.val, storedKey cb.val with
         | some x, some y => some (cmpDec x y)
         | _, _ => none) := by
    intro a b ha hb
    cases a <;> cases b <;> first | exact absurd rfl ha | exact absurd rfl hb | rfl
  rw [key a b ha hb]
  simp only
  by_cases he : (convert t a).err ≠ .none ∨ (convert t b).err ≠ .none
  · rw [if_pos he, if_pos he]
  · rw [if_neg he, if_neg he]
    unfold keyCmp
    cases storedKey (convert t a).val <;> cases storedKey (convert t b).val <;> rfl

/-- YEAR and BIT compare exactly the converted values: compare-after-convert holds without a guard. -/
theorem cmp_eq_cmp_convert_year_bit (t : Ty) (ht : t = .year ∨ ∃ n, t = .bit n) (a b : Val)
    (ha : a ≠ .null) (hb : b ≠ .null) (r : Cmp) (hs : specCompare t a b = some r) :
    implCompare t a b = r := by
  have hspec := specCompare_nonnull t a b ha hb
  rw [hspec] at hs
  by_cases he : (convert t a).err ≠ .none ∨ (convert t b).err ≠ .none
  · rw [if_pos he] at hs; cases hs
  · rw [if_neg he] at hs
    have hea : ¬ (convert t a).err ≠ .none := fun h => he (Or.inl h)
    have heb : ¬ (convert t b).err ≠ .none := fun h => he (Or.inr h)
    unfold implCompare
    rw [compareNulls_of_ne ha hb]
    unfold keyCmp at hs
    rcases ht with rfl | ⟨n, rfl⟩ <;> simp only [hea, heb, if_false] <;>
      (cases h1 : storedKey (convert _ a).val <;> cases h2 : storedKey (convert _ b).val <;>
        simp_all)


theorem key_eq_stored_int (it : ITy) (v : Val) (hn : v ≠ .null)
    (he : (convertInt it v).err = .none) (hf : (convertInt it v).flag = .inRange)
    (hneg : it.unsigned = true → v.negative = false) :
    keyOf (.int it) v = storedKey (convertInt it v).val := by
  by_cases h64 : it = .i64
  · subst h64
    rw [convertInt_i64 v hn] at he ⊢
    simp only at he
    simp [keyOf, ITy.unsigned, he, storedKey]
  · by_cases hu64 : it = .u64
    · subst hu64
      rw [convertInt_u64 v hn] at he ⊢
      simp only at he
      simp [keyOf, ITy.unsigned, he, storedKey]
    · obtain ⟨hv, hen, hlo, hhi⟩ := convertInt_narrow_inRange it ⟨h64, hu64⟩ v hn he hf
      rw [hv]
      by_cases hu : it.unsigned = true
      · have hlo0 : 0 ≤ (convertToInt64 v).val := by
          have : it.lo = 0 := by simp [ITy.lo, hu]
          omega
        have hhi' : (convertToInt64 v).val < maxI64 := by
          have : it.hi < maxI64 := by
            cases it <;> simp [ITy.hi, ITy.unsigned, ITy.bits, maxI64] at hu h64 hu64 ⊢
          omega
        obtain ⟨e1, e2⟩ := toU64_eq_toI64 v hn (hneg hu) hen hlo0 hhi'
        simp [keyOf, hu, e1, e2, storedKey]
      · simp [keyOf, hu, hen, storedKey]

/-- Compare-after-convert for the ten integer types, all value kinds (Go integers of any width,
decimals, strings): outside the listed regions `Compare` equals the comparison of the converted values
whenever the property determines it (both conversions succeed). -/
theorem cmp_eq_cmp_convert_partial (it : ITy) (a b : Val)
    (h1 : ¬ null_sorts_last a b) (h2 : ¬ unsigned_compare_negative_operand (.int it) a b)
    (h3 : ¬ operand_out_of_type_range (.int it) a b)
    (r : Cmp) (hs : specCompare (.int it) a b = some r) : implCompare (.int it) a b = r := by
  by_cases ha : a = .null
  · by_cases hb : b = .null
    · subst ha hb
      simp [specCompare] at hs
      subst hs; rfl
    · exact absurd (Or.inl ⟨ha, hb⟩) h1
  · by_cases hb : b = .null
    · exact absurd (Or.inr ⟨ha, hb⟩) h1
    · rw [specCompare_nonnull _ a b ha hb] at hs
      by_cases he : (convert (.int it) a).err ≠ .none ∨ (convert (.int it) b).err ≠ .none
      · rw [if_pos he] at hs; cases hs
      · rw [if_neg he] at hs
        have hea : (convertInt it a).err = .none := by
          by_cases h : (convertInt it a).err = .none
          · exact h
          · exact absurd (Or.inl h) he
        have heb : (convertInt it b).err = .none := by
          by_cases h : (convertInt it b).err = .none
          · exact h
          · exact absurd (Or.inr h) he
        have hfa : (convertInt it a).flag = .inRange := by
          by_cases h : (convertInt it a).flag = .inRange
          · exact h
          · exact absurd (Or.inl h) h3
        have hfb : (convertInt it b).flag = .inRange := by
          by_cases h : (convertInt it b).flag = .inRange
          · exact h
          · exact absurd (Or.inr h) h3
        have hna : it.unsigned = true → a.negative = false := by
          intro hu
          cases hh : a.negative
          · rfl
          · exact absurd ⟨hu, Or.inl hh⟩ h2
        have hnb : it.unsigned = true → b.negative = false := by
          intro hu
          cases hh : b.negative
          · rfl
          · exact absurd ⟨hu, Or.inr hh⟩ h2
        have ka := key_eq_stored_int it a ha hea hfa hna
        have kb := key_eq_stored_int it b hb heb hfb hnb
        rw [implCompare_eq_viaKey, viaKey_nonnull _ ha hb, ka, kb]
        simp only [convert] at hs
        unfold keyCmp at hs
        cases h1 : storedKey (convertInt it a).val <;> cases h2 : storedKey (convertInt it b).val <;>
          simp_all


/-- the value has no more fractional digits than the type -/
def scaleOK (s : Nat) : Val → Prop
  | .d _ sv => sv ≤ s
  | _ => True

theorem convertDec_shape (p s : Nat) (col : Bool) (v : Val) (hn : v ≠ .null) (c : Int) (sc : Nat)
    (htd : toDecimal s col v = some (c, sc)) (hsc : sc ≤ s) :
    convertDec p s col v =
      if c.natAbs ≥ 10 ^ (p - s) * 10 ^ sc then ⟨.null, .inRange, .fatal⟩ else ⟨.dec c sc, .inRange, .none⟩ := by
  have hns : ¬ sc > s := by omega
  cases v with
  | null => exact absurd rfl hn
  | _ => simp only [convertDec, htd, hns, if_false]

theorem toDecimal_scale_le (s : Nat) (col : Bool) (v : Val)
    (hsc : scaleOK s v) (c : Int) (sc : Nat)
    (htd : toDecimal s col v = some (c, sc)) : sc ≤ s := by
  cases v with
  | null => simp [toDecimal] at htd
  | s bs => simp [toDecimal] at htd
  | i x => simp only [toDecimal] at htd; split at htd <;> simp at htd <;> omega
  | u x => simp only [toDecimal] at htd; split at htd <;> simp at htd <;> omega
  | d c' sv =>
    simp only [scaleOK] at hsc
    simp only [toDecimal] at htd
    split at htd <;> simp at htd <;> omega

theorem key_eq_stored_dec (p s : Nat) (col : Bool) (v : Val) (hn : v ≠ .null)
    (he : (convertDec p s col v).err = .none) (hsc : scaleOK s v) :
    keyOf (.dec p s col) v = storedKey (convertDec p s col v).val := by
  simp only [keyOf]
  cases htd : toDecimal s col v with
  | none =>
    cases v with
    | null => exact absurd rfl hn
    | i x => simp only [toDecimal] at htd; split at htd <;> cases htd
    | u x => simp only [toDecimal] at htd; split at htd <;> cases htd
    | d c sv => simp only [toDecimal] at htd; split at htd <;> cases htd
    | s bs => simp [convertDec, toDecimal] at he
  | some cs =>
    obtain ⟨c, sc⟩ := cs
    have hle := toDecimal_scale_le s col v hsc c sc htd
    rw [convertDec_shape p s col v hn c sc htd hle] at he ⊢
    split at he
    · cases he
    · rename_i h; rw [if_neg h]; rfl

/-- Compare-after-convert for DECIMAL types: holds unless an operand has more fractional digits
than the type (then `Convert` rounds and `Compare` does not). -/
theorem cmp_eq_cmp_convert_dec_partial (p s : Nat) (col : Bool) (a b : Val)
    (h1 : ¬ null_sorts_last a b) (h2 : ¬ decimal_rounded_by_convert (.dec p s col) a b)
    (r : Cmp) (hs : specCompare (.dec p s col) a b = some r) : implCompare (.dec p s col) a b = r := by
  by_cases ha : a = .null
  · by_cases hb : b = .null
    · subst ha hb
      simp [specCompare] at hs
      subst hs; rfl
    · exact absurd (Or.inl ⟨ha, hb⟩) h1
  · by_cases hb : b = .null
    · exact absurd (Or.inr ⟨ha, hb⟩) h1
    · rw [specCompare_nonnull _ a b ha hb] at hs
      by_cases he : (convert (.dec p s col) a).err ≠ .none ∨ (convert (.dec p s col) b).err ≠ .none
      · rw [if_pos he] at hs; cases hs
      · rw [if_neg he] at hs
        have hea : (convertDec p s col a).err = .none := by
          by_cases h : (convertDec p s col a).err = .none
          · exact h
          · exact absurd (Or.inl h) he
        have heb : (convertDec p s col b).err = .none := by
          by_cases h : (convertDec p s col b).err = .none
          · exact h
          · exact absurd (Or.inr h) he
        have hsa : scaleOK s a := by
          cases a <;> simp only [scaleOK]
          rename_i c sv
          by_cases h : sv ≤ s
          · exact h
          · exact absurd (Or.inl (by simp only; omega)) h2
        have hsb : scaleOK s b := by
          cases b <;> simp only [scaleOK]
          rename_i c sv
          by_cases h : sv ≤ s
          · exact h
          · exact absurd (Or.inr (by simp only; omega)) h2
        have ka := key_eq_stored_dec p s col a ha hea hsa
        have kb := key_eq_stored_dec p s col b hb heb hsb
        rw [implCompare_eq_viaKey, viaKey_nonnull _ ha hb, ka, kb]
        simp only [convert] at hs
        unfold keyCmp at hs
        cases h1 : storedKey (convertDec p s col a).val <;> cases h2 : storedKey (convertDec p s col b).val <;>
          simp_all


/-! ### Temporal types: DATE, DATETIME(p), TIMESTAMP(p) (`datetimeType.Compare`, model `Gms.TimeCmp`)

`Compare` is a comparison through the EXACT instant (an unbounded integer of nanoseconds), hence a total
preorder (`dt_cmp_*`); the order of instants is the calendar order of the civil fields over the whole range
0000..9999 (`dt_str_compare_is_calendar_order`, `dt_convert_monotone`); compare-after-convert holds outside
the regions `null_sorts_last` and `time_operand_not_rounded` (`dt_cmp_eq_cmp_convert_partial`). -/

section temporal
open TimeCmp Cal

theorem dt_cmp_refl (ty : TTy) (a : TVal) : TimeCmp.implCompare ty a a = .eq ∨ TimeCmp.implCompare ty a a = .err := by
  rw [TimeCmp.implCompare_eq_viaKey]; exact TimeCmp.viaKey_refl _ a

theorem dt_cmp_antisymm (ty : TTy) (a b : TVal) :
    TimeCmp.implCompare ty b a = (TimeCmp.implCompare ty a b).flip := by
  rw [TimeCmp.implCompare_eq_viaKey, TimeCmp.implCompare_eq_viaKey]; exact TimeCmp.viaKey_antisymm _ a b

theorem dt_cmp_trans (ty : TTy) (a b c : TVal)
    (hab : (TimeCmp.implCompare ty a b).le = true) (hbc : (TimeCmp.implCompare ty b c).le = true) :
    (TimeCmp.implCompare ty a c).le = true ∧
      ((TimeCmp.implCompare ty a b = .lt ∨ TimeCmp.implCompare ty b c = .lt) → TimeCmp.implCompare ty a c = .lt) := by
  rw [TimeCmp.implCompare_eq_viaKey] at hab hbc ⊢
  rw [TimeCmp.implCompare_eq_viaKey, TimeCmp.implCompare_eq_viaKey]
  exact TimeCmp.viaKey_trans _ a b c hab hbc

/-- an error only arises from an operand `ConvertToTime` rejects; a `time.Time` operand never raises one -/
theorem dt_cmp_total (ty : TTy) (a b : TVal) (ha : a = .null ∨ (operand ty a).isSome)
    (hb : b = .null ∨ (operand ty b).isSome) : TimeCmp.implCompare ty a b ≠ .err := by
  rw [TimeCmp.implCompare_eq_viaKey]; exact TimeCmp.viaKey_total _ ha hb

theorem dt_cmp_time_total (ty : TTy) (x y : Int) : TimeCmp.implCompare ty (.t x) (.t y) ≠ .err :=
  dt_cmp_total ty _ _ (Or.inr rfl) (Or.inr rfl)

/-- NULL is ordered last by the temporal types as well (region `null_sorts_last`) -/
theorem dt_cmp_null_last (ty : TTy) (a : TVal) (ha : a ≠ .null) :
    TimeCmp.implCompare ty .null a = .gt ∧ TimeCmp.implCompare ty a .null = .lt ∧
    TimeCmp.implCompare ty .null .null = .eq := by
  unfold TimeCmp.implCompare
  rw [TimeCmp.compareNulls_null_left ha, TimeCmp.compareNulls_null_right ha]
  exact ⟨rfl, rfl, rfl⟩

theorem dt_null_sorts_last_always_wrong (ty : TTy) (a b : TVal) (h : TimeCmp.null_sorts_last a b) :
    ∃ r, TimeCmp.specCompare ty a b = some r ∧ TimeCmp.implCompare ty a b = r.flip ∧ r ≠ .eq := by
  rcases h with ⟨ha, hb⟩ | ⟨ha, hb⟩
  · subst ha
    refine ⟨.lt, ?_, (dt_cmp_null_last ty b hb).1, by simp⟩
    cases b <;> simp_all [TimeCmp.specCompare]
  · subst hb
    refine ⟨.gt, ?_, (dt_cmp_null_last ty a ha).2.1, by simp⟩
    cases a <;> simp_all [TimeCmp.specCompare]

theorem finding_dt_null_sorts_last :
    ∃ ty a b, TimeCmp.null_sorts_last a b ∧ TimeCmp.implCompare ty a b = .gt ∧ TimeCmp.specCompare ty a b = some .lt :=
  ⟨.datetime 0, .null, .t 0, by decide⟩

/-- DATETIME(0): `Compare(12:00:00.6, 12:00:01)` on two `time.Time` operands is `lt`, after `Convert` both are
12:00:01 -/
theorem finding_time_operand_not_rounded :
    ∃ ty a b, time_operand_not_rounded ty a b ∧ ¬ TimeCmp.null_sorts_last a b ∧
      TimeCmp.implCompare ty a b = .lt ∧ TimeCmp.specCompare ty a b = some .eq :=
  ⟨.datetime 0, .t 1577966400600000000, .t 1577966401000000000, by decide⟩

/-- the value `ConvertToTime` returns is the raw value rounded to the type's unit -/
theorem convertToTime_val (ty : TTy) (v : TVal) (x : Int) (h : convertToTime ty v = some x) :
    ∃ res, convertRaw ty v = some res ∧ x = roundTo ty.unit res := by
  unfold convertToTime at h
  cases hr : convertRaw ty v with
  | none => simp [hr] at h
  | some res =>
    simp only [hr] at h
    refine ⟨res, rfl, ?_⟩
    by_cases hz : res = TimeCmp.zeroTime
    · rw [if_pos hz] at h
      rw [hz, roundTo_of_multiple _ _ (unit_pos ty) (zeroTime_unit ty)]
      exact (Option.some.inj h).symm
    · rw [if_neg hz] at h
      split at h
      · exact (Option.some.inj h).symm
      · cases h

/-- an operand that is not a sub-precision `time.Time` is compared by exactly the value `Convert` yields -/
theorem operand_eq_convert (ty : TTy) (v : TVal) (x : Int) (hsub : ¬ subPrecision ty v)
    (h : convertToTime ty v = some x) : operand ty v = some x := by
  cases v with
  | t ns =>
    obtain ⟨res, hr, hx⟩ := convertToTime_val ty _ x h
    simp only [convertRaw, Option.some.injEq] at hr
    simp only [subPrecision, ne_eq, Decidable.not_not] at hsub
    rw [hr] at hsub
    rw [roundTo_of_multiple _ _ (unit_pos ty) hsub] at hx
    simp only [operand, hr, hx]
  | null => exact h
  | c f => exact h
  | zero => exact h
  | i n => exact h
  | bad => exact h

/-- Compare-after-convert for the temporal types, every value kind: outside the listed regions `Compare`
equals the chronological comparison of the converted values whenever the property determines it. -/
theorem dt_cmp_eq_cmp_convert_partial (ty : TTy) (a b : TVal)
    (h1 : ¬ TimeCmp.null_sorts_last a b) (h2 : ¬ time_operand_not_rounded ty a b)
    (r : Cmp) (hs : TimeCmp.specCompare ty a b = some r) : TimeCmp.implCompare ty a b = r := by
  have hsa : ¬ subPrecision ty a := fun h => h2 (Or.inl h)
  have hsb : ¬ subPrecision ty b := fun h => h2 (Or.inr h)
  by_cases ha : a = .null
  · by_cases hb : b = .null
    · subst ha hb
      simp [TimeCmp.specCompare] at hs
      subst hs; rfl
    · exact absurd (Or.inl ⟨ha, hb⟩) h1
  · by_cases hb : b = .null
    · exact absurd (Or.inr ⟨ha, hb⟩) h1
    · have key : TimeCmp.specCompare ty a b =
          match convertToTime ty a, convertToTime ty b with
          | some x, some y => some (cmpInt x y)
          | _, _ => none := by
        cases a <;> cases b <;> first | exact absurd rfl ha | exact absurd rfl hb | rfl
      rw [key] at hs
      cases hca : convertToTime ty a with
      | none => simp [hca] at hs
      | some x =>
        cases hcb : convertToTime ty b with
        | none => simp [hca, hcb] at hs
        | some y =>
          simp only [hca, hcb, Option.some.injEq] at hs
          unfold TimeCmp.implCompare
          rw [TimeCmp.compareNulls_of_ne ha hb, operand_eq_convert ty a x hsa hca, operand_eq_convert ty b y hsb hcb]
          exact hs

/-- the raw value of a string is monotone in the instant it spells -/
theorem convert_str (ty : TTy) (f : Fields) (x : Int) (h : convertToTime ty (.c f) = some x) :
    validFields f ∧ x = roundTo ty.unit (if ty.isDate then truncDay (goDate f) else goDate f) := by
  obtain ⟨res, hr, hx⟩ := convertToTime_val ty _ x h
  simp only [convertRaw] at hr
  by_cases hv : validStr f = true
  · rw [if_pos hv] at hr
    simp only [validStr, Bool.and_eq_true, decide_eq_true_eq] at hv
    exact ⟨hv.1.1, by rw [hx, ← Option.some.inj hr]⟩
  · rw [if_neg hv] at hr; cases hr

/-- **`Convert` never inverts the chronological order** (rounding and DATE truncation are monotone):
for string operands spelling the civil fields `f`, `g` -/
theorem dt_convert_monotone (ty : TTy) (f g : Fields) (x y : Int)
    (hx : convertToTime ty (.c f) = some x) (hy : convertToTime ty (.c g) = some y)
    (hle : goDate f ≤ goDate g) : x ≤ y := by
  obtain ⟨_, ex⟩ := convert_str ty f x hx
  obtain ⟨_, ey⟩ := convert_str ty g y hy
  rw [ex, ey]
  apply roundTo_mono _ _ _ (unit_pos ty)
  cases ty.isDate
  · exact hle
  · exact truncDay_mono _ _ hle

/-- **`Compare` respects the calendar order over the whole range** (any temporal type, any two strings the type
accepts): if `f` is not after `g` in the lexicographic order of (year, month, day, hour, minute, second,
nanosecond) then `Compare` does not say `gt` — in particular for dates beyond any 64-bit nanosecond window. -/
theorem dt_str_compare_is_calendar_order (ty : TTy) (f g : Fields) (x y : Int)
    (hx : convertToTime ty (.c f) = some x) (hy : convertToTime ty (.c g) = some y)
    (hle : (lexCmp f g).le = true) : (TimeCmp.implCompare ty (.c f) (.c g)).le = true := by
  obtain ⟨vf, _⟩ := convert_str ty f x hx
  obtain ⟨vg, _⟩ := convert_str ty g y hy
  rw [← cmpInt_goDate_eq_lexCmp f g vf vg, ci_le] at hle
  have hxy := dt_convert_monotone ty f g x y hx hy hle
  have e : TimeCmp.implCompare ty (.c f) (.c g) = cmpInt x y := by
    simp only [TimeCmp.implCompare, TimeCmp.compareNulls, operand, hx, hy]
  rw [e, ci_le]; exact hxy

/-- DATETIME(6), strings with microsecond resolution spelling any valid date of the years 0..9999: `Compare`
never fails and IS the lexicographic comparison of the civil fields. -/
theorem dt_str_compare_exact (f g : Fields) (hf : validStr f = true) (hg : validStr g = true)
    (hfu : f.ns % 1000 = 0) (hgu : g.ns % 1000 = 0) :
    TimeCmp.implCompare (.datetime 6) (.c f) (.c g) = lexCmp f g := by
  have conv : ∀ h : Fields, validStr h = true → h.ns % 1000 = 0 →
      validFields h ∧ convertToTime (.datetime 6) (.c h) = some (goDate h) := by
    intro h hv hu
    have hv' := hv
    simp only [validStr, Bool.and_eq_true, decide_eq_true_eq] at hv'
    obtain ⟨⟨vh, y0⟩, y1⟩ := hv'
    refine ⟨vh, ?_⟩
    obtain ⟨eh, t0, t1⟩ := goDate_split h vh
    have cv := validFields_civil h vh
    have lo := dfc_le_of_lex 0 1 1 h.y h.mo h.d (by unfold validCivil; decide) cv (by obtain ⟨a, b, c, d⟩ := cv; omega)
    have hi := dfc_le_of_lex h.y h.mo h.d 9999 12 31 cv (by unfold validCivil; decide) (by
      obtain ⟨a, b, c, d⟩ := cv
      have : dim h.y h.mo ≤ 31 := by simp only [dim]; split <;> (try split) <;> omega
      omega)
    have e0 : dfc 0 1 1 = -719528 := by decide
    have e1 : dfc 9999 12 31 = 2932896 := by decide
    have ez : TimeCmp.zeroTime = -62169984000000000000 := by decide
    have em : TimeCmp.maxTime = 253402300799999999000 := by decide
    obtain ⟨_, _, _, _, a5, a6, a7, a8, a9, a10, a11, a12⟩ := vh
    have hmul : goDate h % 1000 = 0 := by
      rw [eh]; simp only [nsDay, nsHour, nsMin, nsSec]; omega
    have hround : roundTo (TTy.datetime 6).unit (goDate h) = goDate h :=
      roundTo_of_multiple _ _ (unit_pos _) (by simpa [TTy.unit, TTy.precision] using hmul)
    have hge : TimeCmp.zeroTime < goDate h := by
      rw [ez, eh]; simp only [nsDay, nsHour, nsMin, nsSec] at *; omega
    have hle : goDate h ≤ TimeCmp.maxTime := by
      rw [em, eh]; simp only [nsDay, nsHour, nsMin, nsSec] at *; omega
    simp only [convertToTime, convertRaw, hv, if_true, TTy.isDate, Bool.false_eq_true, if_false]
    rw [if_neg (by omega), hround]
    simp only [rangeOK, if_true]
    rw [if_pos]
    simp only [Bool.not_eq_true', Bool.or_eq_false_iff, decide_eq_false_iff_not]
    omega
  obtain ⟨vf, cf⟩ := conv f hf hfu
  obtain ⟨vg, cg⟩ := conv g hg hgu
  rw [← cmpInt_goDate_eq_lexCmp f g vf vg]
  simp only [TimeCmp.implCompare, TimeCmp.compareNulls, operand, cf, cg]

/-- non-vacuity / the instants really leave every 64-bit nanosecond window: 9999-12-31 vs 5000-01-01 vs
1000-01-01, as strings and as `time.Time` -/
example : TimeCmp.implCompare (.datetime 0) (.c ⟨9999, 12, 31, 0, 0, 0, 0⟩) (.c ⟨5000, 1, 1, 0, 0, 0, 0⟩) = .gt ∧
    TimeCmp.implCompare .date (.c ⟨2262, 4, 11, 23, 47, 17, 0⟩) (.c ⟨1000, 1, 1, 0, 0, 0, 0⟩) = .gt ∧
    TimeCmp.implCompare (.datetime 6) (.t 253402214400000000000) (.t (-30610224000000000000)) = .gt ∧
    goDate ⟨9999, 12, 31, 0, 0, 0, 0⟩ - goDate ⟨1000, 1, 1, 0, 0, 0, 0⟩ > 15 * 2 ^ 64 ∧
    TimeCmp.implCompare (.datetime 0) (.c ⟨2020, 1, 2, 12, 0, 0, 600000000⟩) (.t 1577966401000000000) = .eq ∧
    TimeCmp.implCompare (.timestamp 0) (.c ⟨2038, 1, 19, 3, 14, 8, 0⟩) (.c ⟨1970, 1, 1, 0, 0, 1, 0⟩) = .err ∧
    TimeCmp.implCompare .date (.t 1578006000000000000) (.c ⟨2020, 1, 2, 0, 0, 0, 0⟩) = .eq ∧
    TimeCmp.implCompare (.datetime 0) .zero (.c ⟨0, 1, 1, 0, 0, 0, 0⟩) = .lt ∧
    TimeCmp.implCompare (.datetime 0) (.c ⟨2021, 2, 29, 0, 0, 0, 0⟩) (.c ⟨2021, 2, 28, 0, 0, 0, 0⟩) = .err := by decide

example : ¬ TimeCmp.null_sorts_last (.c ⟨2020, 1, 2, 12, 0, 0, 600000000⟩) (.t 1577966401000000000) ∧
    ¬ time_operand_not_rounded (.datetime 0) (.c ⟨2020, 1, 2, 12, 0, 0, 600000000⟩) (.t 1577966401000000000) ∧
    TimeCmp.specCompare (.datetime 0) (.c ⟨2020, 1, 2, 12, 0, 0, 600000000⟩) (.t 1577966401000000000) = some .eq := by
  decide

example : validStr ⟨9999, 12, 31, 23, 59, 59, 999999000⟩ = true ∧ validStr ⟨0, 1, 1, 0, 0, 0, 0⟩ = true ∧
    lexCmp ⟨9999, 12, 31, 23, 59, 59, 999999000⟩ ⟨0, 1, 1, 0, 0, 0, 0⟩ = .gt := by decide

end temporal

/-! ### Reference order (stream B, types without an Impl model: TIME, ENUM, SET, DOUBLE) -/

/-- a comparison that orders by the reference rank passes the check … -/
theorem refOrder_of_rank {α : Type} (r : α → Int) (a b c : α) :
    TimeCmp.refOrder ⟨cmpInt (r a) (r b), cmpInt (r b) (r a), cmpInt (r b) (r c), cmpInt (r c) (r b),
      cmpInt (r a) (r c), cmpInt (r c) (r a), cmpInt (r a) (r a), cmpInt (r b) (r b), cmpInt (r c) (r c)⟩
      (some (r a)) (some (r b)) (some (r c)) = true := by
  simp [TimeCmp.refOrder, TimeCmp.refPair]

/-- … and nothing else does: with all three ranks known, every one of the nine results is determined -/
theorem refOrder_determines (t : Tri) (x y z : Int) (h : TimeCmp.refOrder t (some x) (some y) (some z) = true) :
    t = ⟨cmpInt x y, cmpInt y x, cmpInt y z, cmpInt z y, cmpInt x z, cmpInt z x, cmpInt x x, cmpInt y y, cmpInt z z⟩ := by
  obtain ⟨ab, ba, bc, cb, ac, ca, aa, bb, cc⟩ := t
  simp only [TimeCmp.refOrder, TimeCmp.refPair, Bool.and_eq_true, beq_iff_eq] at h
  obtain ⟨⟨⟨⟨⟨⟨⟨⟨h1, h2⟩, h3⟩, h4⟩, h5⟩, h6⟩, h7⟩, h8⟩, h9⟩ := h
  subst h1 h2 h3 h4 h5 h6 h7 h8 h9; rfl

/-- the order laws alone do not imply it: ordering three values by a key wrapped modulo 2^64 (ranks 0, 2^63,
2^64 ↦ keys 0, -2^63, 0 as an int64) is reflexive, antisymmetric and transitive, yet not the order of the values —
the class of change the law oracle cannot see -/
theorem laws_do_not_imply_refOrder :
    ∃ t : Tri, t.refl = true ∧ t.antisymm = true ∧ t.trans = true ∧
      TimeCmp.refOrder t (some 0) (some (2 ^ 63)) (some (2 ^ 64)) = false :=
  ⟨⟨.gt, .lt, .lt, .gt, .eq, .eq, .eq, .eq, .eq⟩, by decide⟩

/-! ### Non-vacuity -/

example : implCompare (.int .i64) (.s [49, 50, 97, 98, 99]) (.i 5) = .lt ∧     -- truncated string ⇒ treated as 0
    implCompare (.int .u64) (.s [49, 50, 97, 98, 99]) (.i 5) = .err ∧
    implCompare (.int .u64) (.i (-1)) (.u 18446744073709551615) = .eq ∧
    implCompare (.int .i64) (.u 9223372036854775808) (.u 18446744073709551615) = .eq ∧
    implCompare (.dec 10 2 false) (.d 150 2) (.d 15 1) = .eq ∧
    implCompare .year (.i 69) (.i 2069) = .eq ∧ implCompare .year (.i 70) (.i 69) = .lt ∧
    implCompare (.bit 8) (.i 255) (.d 2549 1) = .eq ∧ implCompare (.bit 8) (.i 256) (.i 1) = .err := by decide

example : ¬ null_sorts_last (.i 3) (.d 35 1) ∧ ¬ unsigned_compare_negative_operand (.int .u8) (.i 3) (.d 35 1) ∧
    ¬ operand_out_of_type_range (.int .u8) (.i 3) (.d 35 1) ∧
    specCompare (.int .u8) (.i 3) (.d 35 1) = some .lt ∧ implCompare (.int .u8) (.i 3) (.d 35 1) = .lt := by decide

end Gms.C26
