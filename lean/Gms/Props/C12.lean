/-
C12 — Prepared statements behave like the inlined statement text.

Model: Gms/Model/Prepared.lean. `exec σ st db` = one execution of the cached statement AST with
bindings σ (placeholder lookups while planning, `used` bookkeeping, the two binding errors);
`execInlined σ st db` = the statement text with the values written as literals.
-/
import Gms.Model.Prepared
import Gms.Model.PreparedSchema
import Gms.Generated.C12
open Gms.Sql Gms.Prepared Gms.PreparedSchema

namespace Gms.C12

theorem atom_eval_subst (σ : Bindings) (a : Atom) (h : ∀ i ∈ a.params, (lookup σ i).isSome) :
    a.eval σ = (a.subst σ).eval [] := by
  cases a with
  | lit v => rfl
  | param i =>
    have := h i (by simp [Atom.params])
    cases hl : lookup σ i with
    | none => simp [hl] at this
    | some v => simp [Atom.eval, Atom.subst, hl]

theorem atoms_eval_subst (σ : Bindings) (items : List Atom) (h : ∀ i ∈ items.flatMap Atom.params, (lookup σ i).isSome) :
    items.map (Atom.eval σ) = (items.map (Atom.subst σ)).map (Atom.eval []) := by
  induction items with
  | nil => rfl
  | cons a rest ih =>
    simp only [List.map_cons, List.map_map] at ih ⊢
    rw [atom_eval_subst σ a (fun i hi => h i (by simp [List.flatMap_cons, hi]))]
    congr 1
    have := ih (fun i hi => h i (by simp [List.flatMap_cons] at hi ⊢; exact Or.inr hi))
    simpa [List.map_map] using this

/-- substitution lemma for expressions: evaluating with the bindings looked up at the placeholder
nodes = evaluating the expression in which the values are written as literals -/
theorem pexpr_eval_subst (σ : Bindings) (row : Row) (e : PExpr) (h : ∀ i ∈ e.params, (lookup σ i).isSome) :
    e.eval σ row = (e.subst σ).eval [] row := by
  induction e with
  | atom a => exact atom_eval_subst σ a h
  | col i => rfl
  | neg e ih => simp only [PExpr.eval, PExpr.subst]; rw [ih h]
  | arith op a b iha ihb =>
    simp only [PExpr.eval, PExpr.subst]
    rw [iha (fun i hi => h i (by simp [PExpr.params, hi])), ihb (fun i hi => h i (by simp [PExpr.params, hi]))]
  | cmp op a b iha ihb =>
    simp only [PExpr.eval, PExpr.subst]
    rw [iha (fun i hi => h i (by simp [PExpr.params, hi])), ihb (fun i hi => h i (by simp [PExpr.params, hi]))]
  | and a b iha ihb =>
    simp only [PExpr.eval, PExpr.subst]
    rw [iha (fun i hi => h i (by simp [PExpr.params, hi])), ihb (fun i hi => h i (by simp [PExpr.params, hi]))]
  | or a b iha ihb =>
    simp only [PExpr.eval, PExpr.subst]
    rw [iha (fun i hi => h i (by simp [PExpr.params, hi])), ihb (fun i hi => h i (by simp [PExpr.params, hi]))]
  | not e ih => simp only [PExpr.eval, PExpr.subst]; rw [ih h]
  | isNull e ih => simp only [PExpr.eval, PExpr.subst]; rw [ih h]
  | inList e items ih =>
    simp only [PExpr.eval, PExpr.subst]
    rw [ih (fun i hi => h i (by simp [PExpr.params, hi])),
      atoms_eval_subst σ items (fun i hi => h i (by simp only [PExpr.params, List.mem_append]; exact Or.inr hi))]
  | between e lo hi ihe ihl ihh =>
    simp only [PExpr.eval, PExpr.subst]
    rw [ihe (fun i hi' => h i (by simp [PExpr.params, hi'])), ihl (fun i hi' => h i (by simp [PExpr.params, hi'])),
      ihh (fun i hi' => h i (by simp [PExpr.params, hi']))]


theorem pexprs_eval_subst (σ : Bindings) (row : Row) (es : List PExpr)
    (h : ∀ i ∈ es.flatMap PExpr.params, (lookup σ i).isSome) :
    es.map (PExpr.eval σ row) = (es.map (PExpr.subst σ)).map (PExpr.eval [] row) := by
  induction es with
  | nil => rfl
  | cons e rest ih =>
    simp only [List.map_cons, List.map_map] at ih ⊢
    rw [pexpr_eval_subst σ row e (fun i hi => h i (by simp [List.flatMap_cons, hi]))]
    congr 1
    have := ih (fun i hi => h i (by simp [List.flatMap_cons] at hi ⊢; exact Or.inr hi))
    simpa [List.map_map] using this

/-- substitution lemma for statements (results *and* effects) -/
theorem run_subst (σ : Bindings) (st : Stmt) (db : Table) (h : ∀ i ∈ st.params, (lookup σ i).isSome) :
    run σ st db = run [] (st.subst σ) db := by
  cases st with
  | select proj w lim =>
    have hw : ∀ r, w.eval σ r = (w.subst σ).eval [] r := fun r =>
      pexpr_eval_subst σ r w (fun i hi => h i (by simp [Stmt.params, hi]))
    have hp : ∀ r, proj.map (PExpr.eval σ r) = (proj.map (PExpr.subst σ)).map (PExpr.eval [] r) := fun r =>
      pexprs_eval_subst σ r proj (fun i hi => h i (by simp only [Stmt.params, List.mem_append]; exact Or.inl (Or.inl hi)))
    cases lim with
    | none => simp only [run, Stmt.subst, Option.map_none, hw, hp]
    | some a =>
      have ha : a.eval σ = (a.subst σ).eval [] :=
        atom_eval_subst σ a (fun i hi => h i (by simp only [Stmt.params, List.mem_append]; exact Or.inr hi))
      simp only [run, Stmt.subst, Option.map_some, hw, hp, ha]
  | insert vals =>
    have hv := atoms_eval_subst σ vals (fun i hi => h i (by simpa [Stmt.params] using hi))
    simp only [run, Stmt.subst, hv]
  | update c e w =>
    have hw : ∀ r, w.eval σ r = (w.subst σ).eval [] r := fun r =>
      pexpr_eval_subst σ r w (fun i hi => h i (by simp [Stmt.params, hi]))
    have he : ∀ r, e.eval σ r = (e.subst σ).eval [] r := fun r =>
      pexpr_eval_subst σ r e (fun i hi => h i (by simp [Stmt.params, hi]))
    simp only [run, Stmt.subst, hw, he]
  | delete w =>
    have hw : ∀ r, w.eval σ r = (w.subst σ).eval [] r := fun r =>
      pexpr_eval_subst σ r w (fun i hi => h i (by simp [Stmt.params, hi]))
    simp only [run, Stmt.subst, hw]

/-- **bind = inline**: executing the prepared statement with bindings `σ` returns the same result
and leaves the same table as executing its text with the values written as literals. -/
theorem exec_eq_inlined (σ : Bindings) (st : Stmt) (db : Table) (h : WellBound σ st) :
    exec σ st db = execInlined σ st db := by
  unfold exec execInlined
  have h1 : st.params.any (fun i => (lookup σ i).isNone) = false := by
    rw [List.any_eq_false]
    intro i hi
    have := h.1 i hi
    cases hl : lookup σ i <;> simp_all
  have h2 : (List.range σ.length).any (fun i => (lookup σ i).isSome && !st.params.contains i) = false := by
    rw [List.any_eq_false]
    intro i hi
    have hlt : i < σ.length := by simpa using hi
    cases hl : (lookup σ i).isSome with
    | false => simp
    | true =>
      have := h.2 i hlt hl
      simp [this]
  rw [h1, h2]
  simp only [Bool.false_eq_true, if_false]
  exact run_subst σ st db h.1

/-- a missing binding is reported, never silently read as NULL -/
theorem exec_missing (σ : Bindings) (st : Stmt) (db : Table) (i : Nat) (hi : i ∈ st.params) (hn : lookup σ i = none) :
    exec σ st db = (.errMissing, db) := by
  unfold exec
  have : st.params.any (fun i => (lookup σ i).isNone) = true := by
    rw [List.any_eq_true]; exact ⟨i, hi, by simp [hn]⟩
  rw [this]; rfl

/-- a binding no placeholder refers to is reported (unless a placeholder is missing) -/
theorem exec_unused (σ : Bindings) (st : Stmt) (db : Table) (i : Nat) (hlt : i < σ.length)
    (hs : (lookup σ i).isSome) (hni : i ∉ st.params) (hall : ∀ j ∈ st.params, (lookup σ j).isSome) :
    exec σ st db = (.errUnused, db) := by
  unfold exec
  have h1 : st.params.any (fun i => (lookup σ i).isNone) = false := by
    rw [List.any_eq_false]
    intro j hj
    have := hall j hj
    cases hl : lookup σ j <;> simp_all
  have h2 : (List.range σ.length).any (fun i => (lookup σ i).isSome && !st.params.contains i) = true := by
    rw [List.any_eq_true]
    exact ⟨i, by simpa using hlt, by simp [hs, hni]⟩
  rw [h1, h2]; rfl

/-- errors of the binding step leave the table unchanged -/
theorem exec_error_no_effect (σ : Bindings) (st : Stmt) (db : Table)
    (h : (exec σ st db).1 = .errMissing ∨ (exec σ st db).1 = .errUnused ∨ (exec σ st db).1 = .errDup ∨
      (exec σ st db).1 = .errNullKey ∨ (exec σ st db).1 = .errLimit) : (exec σ st db).2 = db := by
  unfold exec at h ⊢
  split
  · rfl
  · split
    · rfl
    · rename_i h1 h2
      simp only [h1, h2, if_false] at h
      cases st with
      | select proj w lim =>
        cases lim with
        | none => simp [run]
        | some a => simp only [run]; split <;> (try split) <;> rfl
      | insert vals =>
        simp only [run] at h ⊢
        split
        · rfl
        · split
          · rfl
          · rename_i h3 h4; simp [h3, h4] at h
      | update c e w => simp [run] at h
      | delete w => simp [run] at h

/-- histories: every execution of every prepared statement equals the inlined execution, whatever
was executed before (re-execution with other values, DML in between) -/
theorem execAll_eq_inlined (hist : List (Stmt × Bindings)) (db : Table)
    (h : ∀ p ∈ hist, WellBound p.2 p.1) : execAll hist db = execAllInlined hist db := by
  induction hist generalizing db with
  | nil => rfl
  | cons p rest ih =>
    obtain ⟨st, σ⟩ := p
    have hp := h (st, σ) (by simp)
    simp only [execAll, execAllInlined]
    rw [exec_eq_inlined σ st db hp]
    congr 1
    exact ih _ (fun q hq => h q (by simp [hq]))

/-- the inlined text contains no placeholder any more: a second binding cannot change it
(no state of an earlier execution can leak into a later one through the statement) -/
theorem atom_subst_closed (σ τ : Bindings) (a : Atom) (h : ∀ i ∈ a.params, (lookup σ i).isSome) :
    (a.subst σ).subst τ = a.subst σ := by
  cases a with
  | lit v => rfl
  | param i =>
    have := h i (by simp [Atom.params])
    cases hl : lookup σ i with
    | none => simp [hl] at this
    | some v => simp [Atom.subst, hl]

theorem stmt_subst_closed_atoms (σ τ : Bindings) (items : List Atom) (h : ∀ i ∈ items.flatMap Atom.params, (lookup σ i).isSome) :
    (items.map (Atom.subst σ)).map (Atom.subst τ) = items.map (Atom.subst σ) := by
  induction items with
  | nil => rfl
  | cons a rest ih =>
    simp only [List.map_cons]
    rw [atom_subst_closed σ τ a (fun i hi => h i (by simp [List.flatMap_cons, hi]))]
    congr 1
    exact ih (fun i hi => h i (by simp [List.flatMap_cons] at hi ⊢; exact Or.inr hi))

/-! ### non-vacuity: a re-executed UPDATE with placeholders, then a SELECT with LIMIT ? -/

def demoTable : Table := [[.int 1, .int 5, .str [97]], [.int 2, .null, .str [98]], [.int 4, .int 7, .null]]
def demoUpdate : Stmt := .update 1 (.arith .add (.col 1) (.atom (.param 0))) (.cmp .gt (.col 0) (.atom (.param 1)))
def demoSelect : Stmt := .select [.col 1] (.inList (.col 0) [.param 0, .lit (.int 4)]) (some (.param 1))

example : WellBound [some (.int 10), some (.int 1)] demoUpdate := by
  refine ⟨?_, ?_⟩ <;> decide
example : execAll [(demoUpdate, [some (.int 10), some (.int 1)]), (demoUpdate, [some (.int 1), some (.int 3)]),
      (demoSelect, [some (.int 2), some (.int 5)])] demoTable
    = [.ok 1, .ok 1, .rows [[.int 2, .null], [.int 4, .int 18]]] := by decide
example : (exec [some (.int 10)] demoUpdate demoTable).1 = .errMissing := by decide
example : (exec [some (.int 10), some (.int 1), some (.int 7)] demoUpdate demoTable).1 = .errUnused := by decide

/-! ## Prepared statements across schema changes (Gms/Model/PreparedSchema.lean)

The cached statement AST is re-bound against the catalog of the moment at every execution; the implicit
lists (INSERT column list, `*`, NATURAL JOIN's USING list) must therefore be those of the moment, exactly
as for the statement text parsed afresh. -/

/-- the binder leaves every statement but a natural join exactly as it found it (nothing derived from the
catalog or from the bindings of one execution is recorded in the cached AST) -/
theorem bind_eq_self (db : Db) (s : SStmt) (h : s.isNatJoin = false) : bindAst db s = s := by
  cases s <;> simp [bindAst, SStmt.isNatJoin] at h ⊢

theorem effUsing_idem (db : Db) (l : List Nat) : effUsing db (effUsing db l) = effUsing db l := by
  unfold effUsing
  by_cases h : l.isEmpty = true
  · simp only [h, if_true]; split <;> rfl
  · simp [h]

theorem bind_idem (db : Db) (s : SStmt) : bindAst db (bindAst db s) = bindAst db s := by
  cases s <;> simp [bindAst, effUsing_idem]

theorem strip_bind (db : Db) (s : SStmt) : (bindAst db s).strip = s.strip := by
  cases s <;> rfl

theorem params_bind (db : Db) (s : SStmt) : (bindAst db s).params = s.params := by
  cases s <;> rfl

theorem params_strip (s : SStmt) : s.strip.params = s.params := by
  cases s <;> rfl

theorem isNatJoin_strip (s : SStmt) : s.strip.isNatJoin = s.isNatJoin := by
  cases s <;> rfl

theorem strip_strip (s : SStmt) : s.strip.strip = s.strip := by
  cases s <;> rfl

/-- running the re-bound AST is running the AST: the binder's expansion is the one `runS` performs -/
theorem runS_bind (σ : Bindings) (db : Db) (s : SStmt) : runS σ (bindAst db s) db = runS σ s db := by
  cases s <;> simp [bindAst, runS, effUsing_idem]

/-- substitution lemma for the catalog-dependent statements, for every physical column order -/
theorem runS_subst (σ : Bindings) (st : SStmt) (db : Db) (h : ∀ i ∈ st.params, (lookup σ i).isSome) :
    runS σ st db = runS [] (st.subst σ) db := by
  cases st with
  | plain s =>
    have := run_subst σ s db.rows (by simpa [SStmt.params] using h)
    simp only [runS, SStmt.subst, this]
  | insertAll vals =>
    have hv := atoms_eval_subst σ vals (fun i hi => h i (by simpa [SStmt.params] using hi))
    simp only [runS, SStmt.subst, hv]
  | insertCols cols vals =>
    have hv := atoms_eval_subst σ vals (fun i hi => h i (by simpa [SStmt.params] using hi))
    simp only [runS, SStmt.subst, hv]
  | selectStar w =>
    have hw : ∀ r, w.eval σ r = (w.subst σ).eval [] r := fun r =>
      pexpr_eval_subst σ r w (fun i hi => h i (by simpa [SStmt.params] using hi))
    simp only [runS, SStmt.subst, hw]
  | natJoin l w =>
    have hw : ∀ r, w.eval σ r = (w.subst σ).eval [] r := fun r =>
      pexpr_eval_subst σ r w (fun i hi => h i (by simpa [SStmt.params] using hi))
    simp only [runS, SStmt.subst, hw]

/-- a cached AST that is its text up to the recorded USING list, and whose recorded list is the current
one, binds to what the text binds to -/
theorem bind_eq_of_fresh (db : Db) (text cached : SStmt) (hrel : cached.strip = text)
    (hf : stale db cached = false) : bindAst db cached = bindAst db text := by
  subst hrel
  cases cached with
  | natJoin l w =>
    simp only [stale, Bool.and_eq_false_iff, Bool.not_eq_false', bne_eq_false_iff_eq] at hf
    simp only [SStmt.strip, bindAst, effUsing]
    rcases hf with hf | hf
    · simp [hf]
    · subst hf; simp only [List.isEmpty_nil, if_true]; split <;> rfl
  | _ => rfl

theorem execS_ast (σ : Bindings) (cached : SStmt) (db : Db) : (execS σ cached db).2.2 = bindAst db cached := by
  unfold execS execG
  split
  · rfl
  · split
    · rfl
    · split <;> rfl

/-- a catalog error found while planning is the outcome of the reference semantics too -/
theorem runS_of_planErr (σ : Bindings) (db : Db) (s : SStmt) (e : SOutcome) (h : planErr db s = some e) :
    runS σ s db = (e, db) := by
  cases s with
  | plain st => simp [planErr] at h
  | selectStar w => simp [planErr] at h
  | insertAll vals =>
    simp only [planErr] at h
    split at h
    · rename_i hc
      cases h
      have : (db.ord.any fun c => !db.ord.contains c) = false := by
        rw [List.any_eq_false]; intro c hc'; simp [hc']
      simp only [runS, insertRow, this, Bool.false_eq_true, if_false, List.length_map, hc, if_true]
    · cases h
  | insertCols cols vals =>
    simp only [planErr] at h
    split at h
    · rename_i hc
      cases h
      simp only [runS, insertRow, hc, if_true]
    · rename_i hc
      split at h
      · rename_i hl
        cases h
        simp only [runS, insertRow, hc, Bool.false_eq_true, if_false, List.length_map, hl, if_true]
      · cases h
  | natJoin l w =>
    simp only [planErr] at h
    split at h
    · rename_i hc
      cases h
      simp only [runS, hc, if_true]
    · cases h

/-- **bind = inline across schema changes** (one execution): the cached AST, executed with bindings
against the catalog of the moment, gives the result and the table of the statement text with the values
inlined and parsed afresh — provided the AST is not a natural join with a stale USING list. -/
theorem execS_eq_inlined_partial (σ : Bindings) (text cached : SStmt) (db : Db) (hrel : cached.strip = text)
    (hf : stale db cached = false) (hw : WellBoundS σ text) :
    (execS σ cached db).1 = (execSInlined σ text db).1 ∧ (execS σ cached db).2.1 = (execSInlined σ text db).2 := by
  have hp : cached.params = text.params := by rw [← hrel, params_strip]
  have h1 : missing σ cached = false := by
    unfold missing; rw [hp, List.any_eq_false]
    intro i hi
    have := hw.1 i hi
    cases hl : lookup σ i <;> simp_all
  have h2 : unused σ cached = false := by
    unfold unused; rw [hp, List.any_eq_false]
    intro i hi
    have hlt : i < σ.length := by simpa using hi
    cases hl : (lookup σ i).isSome with
    | false => simp
    | true => simp [hw.2 i hlt hl]
  have hb := bind_eq_of_fresh db text cached hrel hf
  have hrun : runS σ (bindAst db cached) db = runS [] (text.subst σ) db := by
    rw [hb, runS_bind, runS_subst σ text db hw.1]
  unfold execS execG execSInlined
  cases hp : planErr db (bindAst db cached) with
  | some e =>
    have := runS_of_planErr σ db (bindAst db cached) e hp
    rw [hrun] at this
    simp only [this, and_self]
  | none => simp only [h1, h2, Bool.false_eq_true, if_false, hrun, and_self]

/-- the full statement (`stale` guard dropped) is false on the unchanged tree:
    `∀ σ text cached db, cached.strip = text → WellBoundS σ text → (execS σ cached db).1 = (execSInlined σ text db).1`
see `finding_natural_join_using_memoised`. -/
theorem execS_eq_inlined_of_not_natJoin (σ : Bindings) (text : SStmt) (db : Db) (hn : text.isNatJoin = false)
    (hw : WellBoundS σ text) :
    (execS σ text db).1 = (execSInlined σ text db).1 ∧ (execS σ text db).2.1 = (execSInlined σ text db).2 := by
  have hs : text.strip = text := by cases text <;> simp [SStmt.isNatJoin] at hn <;> rfl
  have hf : stale db text = false := by cases text <;> simp [SStmt.isNatJoin] at hn <;> rfl
  exact execS_eq_inlined_partial σ text text db hs hf hw

theorem cachedOf_strip (texts : List SStmt) (c : Cache) (i : Nat) (hU : ∀ j, (textOf texts j).strip = textOf texts j)
    (hc : CacheOk texts c) : (cachedOf texts c i).strip = textOf texts i := by
  unfold cachedOf
  cases hl : c.lookup i with
  | none => exact hU i
  | some s => exact hc i s hl

theorem cacheOk_cons (texts : List SStmt) (c : Cache) (i : Nat) (s : SStmt) (hc : CacheOk texts c)
    (hs : s.strip = textOf texts i) : CacheOk texts ((i, s) :: c) := by
  intro j t hj
  rw [List.lookup_cons] at hj
  by_cases hji : (j == i) = true
  · simp only [hji] at hj
    have : j = i := by simpa using hji
    cases hj; rw [this]; exact hs
  · simp only [hji] at hj
    exact hc j t hj

/-- **histories with schema changes**: whatever was executed before — other statements, re-executions with
other values, DML, `ALTER TABLE … MODIFY/ADD/DROP COLUMN` — every execution of every prepared statement
returns what the inlined text returns at that moment, as long as no natural join is run on a stale USING
list (the region of the listed finding, decided along the run). -/
theorem implAll_eq_specAll_partial (texts : List SStmt) (hU : ∀ j, (textOf texts j).strip = textOf texts j)
    (steps : List Step) (db : Db) (c : Cache) (hc : CacheOk texts c) (hw : StepsWellBound texts steps)
    (hs : staleFree texts steps db c = true) : implAll texts steps db c = specAll texts steps db := by
  induction steps generalizing db c with
  | nil => rfl
  | cons st rest ih =>
    cases st with
    | ddl d =>
      simp only [implAll, implAllG, specAll]
      congr 1
      exact ih _ c hc (fun q hq => hw q (by simp [hq])) (by simpa [staleFree] using hs)
    | exec i σ =>
      simp only [staleFree, Bool.and_eq_true, Bool.not_eq_eq_eq_not, Bool.not_true] at hs
      have hrel := cachedOf_strip texts c i hU hc
      have hwb : WellBoundS σ (textOf texts i) := hw (.exec i σ) (by simp)
      have hstep := execS_eq_inlined_partial σ (textOf texts i) (cachedOf texts c i) db hrel hs.1 hwb
      have hstep1 : (execG bindAst σ (cachedOf texts c i) db).1 = (execSInlined σ (textOf texts i) db).1 := hstep.1
      have hstep2 : (execG bindAst σ (cachedOf texts c i) db).2.1 = (execSInlined σ (textOf texts i) db).2 := hstep.2
      simp only [implAll, implAllG, specAll]
      rw [hstep1]
      congr 1
      have hc' : CacheOk texts ((i, (execS σ (cachedOf texts c i) db).2.2) :: c) :=
        cacheOk_cons texts c i _ hc (by rw [execS_ast, strip_bind]; exact hrel)
      have := ih ((execS σ (cachedOf texts c i) db).2.1) _ hc' (fun q hq => hw q (by simp [hq])) hs.2
      rw [← hstep2]
      exact this

theorem staleFree_of_no_natJoin (texts : List SStmt) (hU : ∀ j, (textOf texts j).strip = textOf texts j)
    (hn : ∀ j, (textOf texts j).isNatJoin = false) (steps : List Step) (db : Db) (c : Cache) (hc : CacheOk texts c) :
    staleFree texts steps db c = true := by
  induction steps generalizing db c with
  | nil => rfl
  | cons st rest ih =>
    cases st with
    | ddl d => simpa [staleFree] using ih _ c hc
    | exec i σ =>
      have hrel := cachedOf_strip texts c i hU hc
      have hnj : (cachedOf texts c i).isNatJoin = false := by
        rw [← isNatJoin_strip, hrel]; exact hn i
      have hst : stale db (cachedOf texts c i) = false := by
        cases hco : cachedOf texts c i <;> simp [hco, SStmt.isNatJoin] at hnj <;> rfl
      have hc' : CacheOk texts ((i, (execS σ (cachedOf texts c i) db).2.2) :: c) :=
        cacheOk_cons texts c i _ hc (by rw [execS_ast, strip_bind]; exact hrel)
      simp only [staleFree, hst, Bool.not_false, Bool.true_and]
      exact ih _ _ hc'

theorem textOf_strip_of_no_natJoin (texts : List SStmt) (hn : ∀ j, (textOf texts j).isNatJoin = false) (j : Nat) :
    (textOf texts j).strip = textOf texts j := by
  have := hn j
  cases h : textOf texts j <;> simp [h, SStmt.isNatJoin] at this <;> rfl

/-- **full strength outside natural joins**: for every pool of statements without NATURAL JOIN (implicit
INSERT column lists, `SELECT *`, explicit lists, named SELECT / UPDATE / DELETE), every history of
executions interleaved with arbitrary schema changes, starting from an empty statement cache: the
prepared executions observe exactly what the inlined texts observe. -/
theorem implAll_eq_specAll (texts : List SStmt) (hn : ∀ j, (textOf texts j).isNatJoin = false)
    (steps : List Step) (db : Db) (hw : StepsWellBound texts steps) :
    implAll texts steps db [] = specAll texts steps db := by
  have hU := textOf_strip_of_no_natJoin texts hn
  have hc : CacheOk texts [] := by intro i s h; simp at h
  exact implAll_eq_specAll_partial texts hU steps db [] hc hw (staleFree_of_no_natJoin texts hU hn steps db [] hc)

/-- the statement cache stays "text up to the USING list" along every history -/
theorem cacheOk_final (texts : List SStmt) (hU : ∀ j, (textOf texts j).strip = textOf texts j)
    (steps : List Step) (db : Db) (c : Cache) (hc : CacheOk texts c) :
    CacheOk texts (finalCacheG bindAst texts steps db c) := by
  induction steps generalizing db c with
  | nil => exact hc
  | cons st rest ih =>
    cases st with
    | ddl d => exact ih _ c hc
    | exec i σ =>
      have hrel := cachedOf_strip texts c i hU hc
      exact ih _ _ (cacheOk_cons texts c i _ hc (by
        show ((execS σ (cachedOf texts c i) db).2.2).strip = textOf texts i
        rw [execS_ast, strip_bind]; exact hrel))

/-- **no execution leaves anything behind in the cached AST of a statement that is not a natural join**:
after every history with every schema change, every AST the session holds for a pool without NATURAL JOIN
is still the parse of its text (what the harness observes as `String(cached) = String(parse text)`) -/
theorem no_drift_without_natJoin (texts : List SStmt) (hn : ∀ j, (textOf texts j).isNatJoin = false)
    (steps : List Step) (db : Db) : driftedStmts texts (finalCacheG bindAst texts steps db []) = [] := by
  have hU := textOf_strip_of_no_natJoin texts hn
  have hc : CacheOk texts [] := by intro i s h; simp at h
  have hf := cacheOk_final texts hU steps db [] hc
  unfold driftedStmts
  rw [List.filter_eq_nil_iff]
  intro i _
  cases hl : (finalCacheG bindAst texts steps db []).lookup i with
  | none => simp
  | some s =>
    have h1 : s.strip = textOf texts i := hf i s hl
    have h2 : s.isNatJoin = false := by rw [← isNatJoin_strip, h1]; exact hn i
    cases s <;> simp [SStmt.isNatJoin] at h2 <;> simp [drifted]

/-! ### the finding and the class of the seeded change, on concrete histories -/

def sDb : Db := { ord := [0, 1, 2], rows := [[.int 1, .int 10, .str [97]], [.int 2, .int 20, .str [66]], [.int 3, .int 30, .str [99]]],
                  u := [[.int 10, .int 7, .int 100], [.int 20, .int 8, .int 200], [.int 30, .int 7, .int 300], [.int 10, .int 9, .int 400]] }

def sTexts : List SStmt :=
  [ .natJoin [] (.cmp .gt (.col 0) (.atom (.param 0))),
    .insertAll [.param 0, .param 1, .param 2],
    .selectStar (.cmp .gt (.col 0) (.atom (.param 0))) ]

/-- witness (replayed on the real engine, known_findings/C12.jsonl): prepared
`SELECT * FROM t NATURAL JOIN u WHERE id > ?`, executed, then `ALTER TABLE t ADD COLUMN c INT DEFAULT 7`,
executed again: the cached AST still joins USING (k) — 4 rows of 6 columns — while the text joins on (k, c). -/
theorem finding_natural_join_using_memoised :
    ∃ texts steps db, StepsWellBound texts steps ∧ implAll texts steps db [] ≠ specAll texts steps db :=
  ⟨sTexts, [.exec 0 [some (.int 0)], .ddl (.addCol none), .exec 0 [some (.int 0)]], sDb,
    by intro st hst; simp at hst; rcases hst with rfl | rfl | rfl <;> first | trivial | (constructor <;> decide),
    by decide⟩

example : implAll sTexts [.exec 0 [some (.int 0)], .ddl (.addCol none), .exec 0 [some (.int 0)]] sDb [] =
    [.out (.base (.rows [[.int 10, .int 1, .str [97], .int 7, .int 100], [.int 10, .int 1, .str [97], .int 9, .int 400],
        [.int 20, .int 2, .str [66], .int 8, .int 200], [.int 30, .int 3, .str [99], .int 7, .int 300]])), .ddl,
     .out (.base (.rows [[.int 10, .int 1, .str [97], .int 7, .int 7, .int 100], [.int 10, .int 1, .str [97], .int 7, .int 9, .int 400],
        [.int 20, .int 2, .str [66], .int 7, .int 8, .int 200], [.int 30, .int 3, .str [99], .int 7, .int 7, .int 300]]))] := by decide

example : staleFree sTexts [.exec 0 [some (.int 0)], .ddl (.addCol none), .exec 0 [some (.int 0)]] sDb [] = false := by decide

/-- non-vacuity of `implAll_eq_specAll`: implicit INSERT re-executed across a column re-order and an added
column, observed through `SELECT *` -/
def sHist : List Step :=
  [.exec 1 [some (.int 4), some (.int 40), some (.str [100])], .ddl (.moveFirst 1),
   .exec 1 [some (.int 50), some (.int 5), some (.str [101])], .exec 2 [some (.int 3)],
   .ddl (.addCol (some none)), .exec 1 [some (.int 6), some (.int 60), some (.str [102])], .exec 2 [some (.int 4)]]

example : implAll sTexts sHist sDb [] =
    [.out (.base (.ok 1)), .ddl, .out (.base (.ok 1)), .out (.base (.rows [[.int 40, .int 4, .str [100]], [.int 50, .int 5, .str [101]]])),
     .ddl, .out .errCount, .out (.base (.rows [[.int 7, .int 50, .int 5, .str [101]]]))] := by decide

/-- **the class of the seeded change**: a binder that records the expanded column list of
`INSERT INTO t VALUES (…)` in the cached AST (`bindMemoInsert`) is *not* equivalent to the inlined text on
histories without any natural join — the same history as above tells them apart (second INSERT: the
values go to the columns of the first bind; third INSERT: succeeds where the text is rejected). -/
theorem memo_insert_diverges :
    ∃ texts steps db, (∀ j, (textOf texts j).isNatJoin = false) ∧ StepsWellBound texts steps ∧
      implAllG bindMemoInsert texts steps db [] ≠ specAll texts steps db :=
  ⟨sTexts.drop 1, [.exec 0 [some (.int 4), some (.int 40), some (.str [100])], .ddl (.moveFirst 1),
      .exec 0 [some (.int 50), some (.int 5), some (.str [101])], .exec 1 [some (.int 3)]], sDb,
    by
      intro j
      match j with
      | 0 => rfl
      | 1 => rfl
      | (_ + 2) => rfl,
    by intro st hst; simp at hst; rcases hst with rfl | rfl | rfl | rfl <;> first | trivial | (constructor <;> decide),
    by decide⟩

/-- …and it is invisible as long as the catalog does not change: on a history without schema changes the
recording binder observes what the unchanged binder observes (why ordinary use never shows it) -/
example : implAllG bindMemoInsert sTexts [.exec 1 [some (.int 4), some (.int 40), some (.str [100])],
      .exec 1 [some (.int 5), some (.int 50), some (.str [101])], .exec 2 [some (.int 3)]] sDb [] =
    implAll sTexts [.exec 1 [some (.int 4), some (.int 40), some (.str [100])],
      .exec 1 [some (.int 5), some (.int 50), some (.str [101])], .exec 2 [some (.int 3)]] sDb [] := by decide

/-- conservative extension: on the base schema the implicit INSERT of this layer is the INSERT of
Gms/Model/Prepared.lean -/
theorem insertAll_base (σ : Bindings) (a b c : Atom) (rows u : Table) :
    runS σ (.insertAll [a, b, c]) { ord := [0, 1, 2], rows := rows, u := u } =
      (.base (run σ (.insert [a, b, c]) rows).1, { ord := [0, 1, 2], rows := (run σ (.insert [a, b, c]) rows).2, u := u }) := by
  have hrow : rowOf 3 [0, 1, 2] [a.eval σ, b.eval σ, c.eval σ] = [a.eval σ, b.eval σ, c.eval σ] := by
    simp [rowOf, List.range, List.range.loop, List.idxOf, List.findIdx, List.findIdx.go]
  simp only [runS, insertRow, run, width, List.map]
  simp [hrow]
  split <;> (try split) <;> simp_all

/-! ### literal classes -/

/-- the AST literal built from a bound wire value has the class the parser gives the literal text -/
theorem literal_kind_agrees (c : WireClass) : astKindOfWire c = astKindOfText c := by cases c <;> rfl

def classOfWireType : String → Option WireClass
  | "NULL_TYPE" => some .null
  | "INT8" | "INT16" | "INT24" | "INT32" | "INT64" | "UINT8" | "UINT16" | "UINT24" | "UINT32" | "UINT64" | "YEAR" => some .integral
  | "FLOAT32" | "FLOAT64" => some .float
  | "DECIMAL" => some .decimal
  | "VARCHAR" | "CHAR" | "TEXT" | "VARBINARY" | "BINARY" | "BLOB" | "DATE" | "DATETIME" | "TIMESTAMP" | "TIME" => some .quoted
  | _ => none

def kindName : AstKind → String
  | .nullVal => "NullVal" | .intVal => "IntVal" | .floatVal => "FloatVal" | .strVal => "StrVal"

/-- regenerated on every run: (a) for every wire type the server's `bindingsToExprs` produces the AST
literal class of the model and the parser assigns the same class to the literal text; (b) the
binder's bookkeeping the Impl model `exec` transliterates: `GetSubstitute` marks the name used,
`UnusedBindings` compares the two sets, the two error texts, the prepared-AST cache is keyed by the
statement text and bindings are installed with `SetBindings`. -/
theorem facts_match :
    Gms.Generated.C12.literalKinds.length = 25 ∧
    (Gms.Generated.C12.literalKinds.all fun (ty, wire, text) =>
      match classOfWireType ty with
      | some c => wire == kindName (astKindOfWire c) && text == kindName (astKindOfText c)
      | none => false) = true ∧
    Gms.Generated.C12.getSubstituteMarksUsed = true ∧
    Gms.Generated.C12.unusedBindingsFastPath = "len(bv.used) == len(bv.Bindings)" ∧
    Gms.Generated.C12.normalizeValArgErrors = ["bind variable not provided: '%s'", "bind variable not provided: '%s'"] ∧
    Gms.Generated.C12.queryWithBindingsErrors = ["invalid arguments. expected: %d, found: %d"] ∧
    Gms.Generated.C12.preparedStatementCalls =
      ["ctx.Session.GetPreparedQuery(query)", "ctx.Session.GetPreparedQuery(query)", "binder.SetBindings(bindings)"] := by
  decide

/-- the model statement a corpus entry of the regenerated run-time table `astStable` corresponds to -/
def modelKindOf : String → Option SStmt
  | "insert_implicit_columns" => some (.insertAll [.param 0, .param 1, .param 2])
  | "insert_explicit_columns" => some (.insertCols [0, 1, 2] [.param 0, .param 1, .param 2])
  | "select_star" => some (.selectStar (.cmp .gt (.col 0) (.atom (.param 0))))
  | "natural_join" => some (.natJoin [] (.cmp .gt (.col 0) (.atom (.param 0))))
  | "update_where" => some (.plain (.update 1 (.arith .add (.col 1) (.atom (.param 0))) (.cmp .eq (.col 0) (.atom (.param 1)))))
  | "delete_where" => some (.plain (.delete (.or (.cmp .eq (.col 0) (.atom (.param 0))) (.cmp .gt (.col 1) (.atom (.param 1))))))
  | _ => none

/-- regenerated on every run — **what a bind leaves behind in the prepared statement**.
(a) `astWrites` (go/ast over sql/planbuilder): the complete list of assignments whose left-hand side goes
through a variable holding a node of the parsed statement. The only one that records something computed
from the *catalog* is `buildUsingJoin: te.Condition.Using` (the model's `bindAst`, finding
`natural_join_using_memoised`); the others record something computed from the statement itself (GRANT
auth plumbing, the table qualifier of `VALUES(col)` in ON DUPLICATE KEY UPDATE, the charset-introducer
COLLATE child, an integer `SET sql_mode`/collation literal turned into its name, a column definition's
collation). A new write — e.g. recording the expanded column list of an INSERT — changes this list.
(b) `astStable` (engine run, PrepareQuery + two executions of one statement per kind): the AST the session
holds afterwards is still the parse of the statement text for every kind except the three listed
(natural joins: USING list; ON DUPLICATE KEY UPDATE: `VALUES(k)` → `VALUES(pt.k)`; introducer + COLLATE),
every execution succeeds, and for the kinds that have a model statement the cached AST drifts exactly
when `bindAst` changes that statement (`bind_eq_self`). -/
theorem facts_ast :
    Gms.Generated.C12.astWrites =
      [("buildGrantPrivilege", "n.Auth.Extra"), ("buildGrantProxy", "n.Auth.Extra"), ("buildGrantRole", "n.Auth.Extra"),
       ("buildRevokePrivilege", "n.Auth.Extra"), ("buildRevokeRole", "n.Auth.Extra"),
       ("buildScalar", "v.Name.Name"), ("buildScalar", "v.Name.Qualifier.Name"), ("buildUnaryScalar", "e.Expr"),
       ("buildUsingJoin", "te.Condition.Using"), ("setExprsToExpressions", "setExpr.Expr"),
       ("tableSpecToSchema", "cd.Type.Collate"), ("visible", "auth.TargetType")] ∧
    Gms.Generated.C12.astStable.length = 26 ∧
    ((Gms.Generated.C12.astStable.filter fun e => !e.2.1).map fun e => e.1) =
      ["insert_on_duplicate_key", "natural_join", "natural_left_join", "select_introducer_collate"] ∧
    (Gms.Generated.C12.astStable.all fun e => e.2.2 == "ok") = true ∧
    (Gms.Generated.C12.astStable.all fun e =>
      match modelKindOf e.1 with
      | some s => e.2.1 == !s.isNatJoin
      | none => true) = true ∧
    ((Gms.Generated.C12.astStable.filter fun e => (modelKindOf e.1).isSome).length = 6) := by
  decide

end Gms.C12
