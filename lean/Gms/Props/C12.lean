/-
C12 — Prepared statements behave like the inlined statement text.

Model: Gms/Model/Prepared.lean. `exec σ st db` = one execution of the cached statement AST with
bindings σ (placeholder lookups while planning, `used` bookkeeping, the two binding errors);
`execInlined σ st db` = the statement text with the values written as literals.
-/
import Gms.Model.Prepared
import Gms.Generated.C12
open Gms.Sql Gms.Prepared

namespace Gms.C12

theorem atom_eval_subst (σ : Bindings) (a : Atom) (h : ∀ i ∈ a.params, (lookup σ i).isSome) :
    a.eval σ = (a.subst σ).eval [] := by
  cases a with
  | lit v => rfl
  | param i =>
    have := h i (by simp [Atom.params])
    cases hl : lookup σ i with
    | none => simp [hl] at this
    | some v => simp [Atom.eval, Atom.subst, hl]

theorem atoms_eval_subst (σ : Bindings) (items : List Atom) (h : ∀ i ∈ items.flatMap Atom.params, (lookup σ i).isSome) :
    items.map (Atom.eval σ) = (items.map (Atom.subst σ)).map (Atom.eval []) := by
  induction items with
  | nil => rfl
  | cons a rest ih =>
    simp only [List.map_cons, List.map_map] at ih ⊢
    rw [atom_eval_subst σ a (fun i hi => h i (by simp [List.flatMap_cons, hi]))]
    congr 1
    have := ih (fun i hi => h i (by simp [List.flatMap_cons] at hi ⊢; exact Or.inr hi))
    simpa [List.map_map] using this

/-- substitution lemma for expressions: evaluating with the bindings looked up at the placeholder
nodes = evaluating the expression in which the values are written as literals -/
theorem pexpr_eval_subst (σ : Bindings) (row : Row) (e : PExpr) (h : ∀ i ∈ e.params, (lookup σ i).isSome) :
    e.eval σ row = (e.subst σ).eval [] row := by
  induction e with
  | atom a => exact atom_eval_subst σ a h
  | col i => rfl
  | neg e ih => simp only [PExpr.eval, PExpr.subst]; rw [ih h]
  | arith op a b iha ihb =>
    simp only [PExpr.eval, PExpr.subst]
    rw [iha (fun i hi => h i (by simp [PExpr.params, hi])), ihb (fun i hi => h i (by simp [PExpr.params, hi]))]
  | cmp op a b iha ihb =>
    simp only [PExpr.eval, PExpr.subst]
    rw [iha (fun i hi => h i (by simp [PExpr.params, hi])), ihb (fun i hi => h i (by simp [PExpr.params, hi]))]
  | and a b iha ihb =>
    simp only [PExpr.eval, PExpr.subst]
    rw [iha (fun i hi => h i (by simp [PExpr.params, hi])), ihb (fun i hi => h i (by simp [PExpr.params, hi]))]
  | or a b iha ihb =>
    simp only [PExpr.eval, PExpr.subst]
    rw [iha (fun i hi => h i (by simp [PExpr.params, hi])), ihb (fun i hi => h i (by simp [PExpr.params, hi]))]
  | not e ih => simp only [PExpr.eval, PExpr.subst]; rw [ih h]
  | isNull e ih => simp only [PExpr.eval, PExpr.subst]; rw [ih h]
  | inList e items ih =>
    simp only [PExpr.eval, PExpr.subst]
    rw [ih (fun i hi => h i (by simp [PExpr.params, hi])),
      atoms_eval_subst σ items (fun i hi => h i (by simp only [PExpr.params, List.mem_append]; exact Or.inr hi))]
  | between e lo hi ihe ihl ihh =>
    simp only [PExpr.eval, PExpr.subst]
    rw [ihe (fun i hi' => h i (by simp [PExpr.params, hi'])), ihl (fun i hi' => h i (by simp [PExpr.params, hi'])),
      ihh (fun i hi' => h i (by simp [PExpr.params, hi']))]


theorem pexprs_eval_subst (σ : Bindings) (row : Row) (es : List PExpr)
    (h : ∀ i ∈ es.flatMap PExpr.params, (lookup σ i).isSome) :
    es.map (PExpr.eval σ row) = (es.map (PExpr.subst σ)).map (PExpr.eval [] row) := by
  induction es with
  | nil => rfl
  | cons e rest ih =>
    simp only [List.map_cons, List.map_map] at ih ⊢
    rw [pexpr_eval_subst σ row e (fun i hi => h i (by simp [List.flatMap_cons, hi]))]
    congr 1
    have := ih (fun i hi => h i (by simp [List.flatMap_cons] at hi ⊢; exact Or.inr hi))
    simpa [List.map_map] using this

/-- substitution lemma for statements (results *and* effects) -/
theorem run_subst (σ : Bindings) (st : Stmt) (db : Table) (h : ∀ i ∈ st.params, (lookup σ i).isSome) :
    run σ st db = run [] (st.subst σ) db := by
  cases st with
  | select proj w lim =>
    have hw : ∀ r, w.eval σ r = (w.subst σ).eval [] r := fun r =>
      pexpr_eval_subst σ r w (fun i hi => h i (by simp [Stmt.params, hi]))
    have hp : ∀ r, proj.map (PExpr.eval σ r) = (proj.map (PExpr.subst σ)).map (PExpr.eval [] r) := fun r =>
      pexprs_eval_subst σ r proj (fun i hi => h i (by simp only [Stmt.params, List.mem_append]; exact Or.inl (Or.inl hi)))
    cases lim with
    | none => simp only [run, Stmt.subst, Option.map_none, hw, hp]
    | some a =>
      have ha : a.eval σ = (a.subst σ).eval [] :=
        atom_eval_subst σ a (fun i hi => h i (by simp only [Stmt.params, List.mem_append]; exact Or.inr hi))
      simp only [run, Stmt.subst, Option.map_some, hw, hp, ha]
  | insert vals =>
    have hv := atoms_eval_subst σ vals (fun i hi => h i (by simpa [Stmt.params] using hi))
    simp only [run, Stmt.subst, hv]
  | update c e w =>
    have hw : ∀ r, w.eval σ r = (w.subst σ).eval [] r := fun r =>
      pexpr_eval_subst σ r w (fun i hi => h i (by simp [Stmt.params, hi]))
    have he : ∀ r, e.eval σ r = (e.subst σ).eval [] r := fun r =>
      pexpr_eval_subst σ r e (fun i hi => h i (by simp [Stmt.params, hi]))
    simp only [run, Stmt.subst, hw, he]
  | delete w =>
    have hw : ∀ r, w.eval σ r = (w.subst σ).eval [] r := fun r =>
      pexpr_eval_subst σ r w (fun i hi => h i (by simp [Stmt.params, hi]))
    simp only [run, Stmt.subst, hw]

/-- **bind = inline**: executing the prepared statement with bindings `σ` returns the same result
and leaves the same table as executing its text with the values written as literals. -/
theorem exec_eq_inlined (σ : Bindings) (st : Stmt) (db : Table) (h : WellBound σ st) :
    exec σ st db = execInlined σ st db := by
  unfold exec execInlined
  have h1 : st.params.any (fun i => (lookup σ i).isNone) = false := by
    rw [List.any_eq_false]
    intro i hi
    have := h.1 i hi
    cases hl : lookup σ i <;> simp_all
  have h2 : (List.range σ.length).any (fun i => (lookup σ i).isSome && !st.params.contains i) = false := by
    rw [List.any_eq_false]
    intro i hi
    have hlt : i < σ.length := by simpa using hi
    cases hl : (lookup σ i).isSome with
    | false => simp
    | true =>
      have := h.2 i hlt hl
      simp [this]
  rw [h1, h2]
  simp only [Bool.false_eq_true, if_false]
  exact run_subst σ st db h.1

/-- a missing binding is reported, never silently read as NULL -/
theorem exec_missing (σ : Bindings) (st : Stmt) (db : Table) (i : Nat) (hi : i ∈ st.params) (hn : lookup σ i = none) :
    exec σ st db = (.errMissing, db) := by
  unfold exec
  have : st.params.any (fun i => (lookup σ i).isNone) = true := by
    rw [List.any_eq_true]; exact ⟨i, hi, by simp [hn]⟩
  rw [this]; rfl

/-- a binding no placeholder refers to is reported (unless a placeholder is missing) -/
theorem exec_unused (σ : Bindings) (st : Stmt) (db : Table) (i : Nat) (hlt : i < σ.length)
    (hs : (lookup σ i).isSome) (hni : i ∉ st.params) (hall : ∀ j ∈ st.params, (lookup σ j).isSome) :
    exec σ st db = (.errUnused, db) := by
  unfold exec
  have h1 : st.params.any (fun i => (lookup σ i).isNone) = false := by
    rw [List.any_eq_false]
    intro j hj
    have := hall j hj
    cases hl : lookup σ j <;> simp_all
  have h2 : (List.range σ.length).any (fun i => (lookup σ i).isSome && !st.params.contains i) = true := by
    rw [List.any_eq_true]
    exact ⟨i, by simpa using hlt, by simp [hs, hni]⟩
  rw [h1, h2]; rfl

/-- errors of the binding step leave the table unchanged -/
theorem exec_error_no_effect (σ : Bindings) (st : Stmt) (db : Table)
    (h : (exec σ st db).1 = .errMissing ∨ (exec σ st db).1 = .errUnused ∨ (exec σ st db).1 = .errDup ∨
      (exec σ st db).1 = .errNullKey ∨ (exec σ st db).1 = .errLimit) : (exec σ st db).2 = db := by
  unfold exec at h ⊢
  split
  · rfl
  · split
    · rfl
    · rename_i h1 h2
      simp only [h1, h2, if_false] at h
      cases st with
      | select proj w lim =>
        cases lim with
        | none => simp [run]
        | some a => simp only [run]; split <;> (try split) <;> rfl
      | insert vals =>
        simp only [run] at h ⊢
        split
        · rfl
        · split
          · rfl
          · rename_i h3 h4; simp [h3, h4] at h
      | update c e w => simp [run] at h
      | delete w => simp [run] at h

/-- histories: every execution of every prepared statement equals the inlined execution, whatever
was executed before (re-execution with other values, DML in between) -/
theorem execAll_eq_inlined (hist : List (Stmt × Bindings)) (db : Table)
    (h : ∀ p ∈ hist, WellBound p.2 p.1) : execAll hist db = execAllInlined hist db := by
  induction hist generalizing db with
  | nil => rfl
  | cons p rest ih =>
    obtain ⟨st, σ⟩ := p
    have hp := h (st, σ) (by simp)
    simp only [execAll, execAllInlined]
    rw [exec_eq_inlined σ st db hp]
    congr 1
    exact ih _ (fun q hq => h q (by simp [hq]))

/-- the inlined text contains no placeholder any more: a second binding cannot change it
(no state of an earlier execution can leak into a later one through the statement) -/
theorem atom_subst_closed (σ τ : Bindings) (a : Atom) (h : ∀ i ∈ a.params, (lookup σ i).isSome) :
    (a.subst σ).subst τ = a.subst σ := by
  cases a with
  | lit v => rfl
  | param i =>
    have := h i (by simp [Atom.params])
    cases hl : lookup σ i with
    | none => simp [hl] at this
    | some v => simp [Atom.subst, hl]

theorem stmt_subst_closed_atoms (σ τ : Bindings) (items : List Atom) (h : ∀ i ∈ items.flatMap Atom.params, (lookup σ i).isSome) :
    (items.map (Atom.subst σ)).map (Atom.subst τ) = items.map (Atom.subst σ) := by
  induction items with
  | nil => rfl
  | cons a rest ih =>
    simp only [List.map_cons]
    rw [atom_subst_closed σ τ a (fun i hi => h i (by simp [List.flatMap_cons, hi]))]
    congr 1
    exact ih (fun i hi => h i (by simp [List.flatMap_cons] at hi ⊢; exact Or.inr hi))

/-! ### non-vacuity: a re-executed UPDATE with placeholders, then a SELECT with LIMIT ? -/

def demoTable : Table := [[.int 1, .int 5, .str [97]], [.int 2, .null, .str [98]], [.int 4, .int 7, .null]]
def demoUpdate : Stmt := .update 1 (.arith .add (.col 1) (.atom (.param 0))) (.cmp .gt (.col 0) (.atom (.param 1)))
def demoSelect : Stmt := .select [.col 1] (.inList (.col 0) [.param 0, .lit (.int 4)]) (some (.param 1))

example : WellBound [some (.int 10), some (.int 1)] demoUpdate := by
  refine ⟨?_, ?_⟩ <;> decide
example : execAll [(demoUpdate, [some (.int 10), some (.int 1)]), (demoUpdate, [some (.int 1), some (.int 3)]),
      (demoSelect, [some (.int 2), some (.int 5)])] demoTable
    = [.ok 1, .ok 1, .rows [[.int 2, .null], [.int 4, .int 18]]] := by decide
example : (exec [some (.int 10)] demoUpdate demoTable).1 = .errMissing := by decide
example : (exec [some (.int 10), some (.int 1), some (.int 7)] demoUpdate demoTable).1 = .errUnused := by decide

/-! ### literal classes -/

/-- the AST literal built from a bound wire value has the class the parser gives the literal text -/
theorem literal_kind_agrees (c : WireClass) : astKindOfWire c = astKindOfText c := by cases c <;> rfl

def classOfWireType : String → Option WireClass
  | "NULL_TYPE" => some .null
  | "INT8" | "INT16" | "INT24" | "INT32" | "INT64" | "UINT8" | "UINT16" | "UINT24" | "UINT32" | "UINT64" | "YEAR" => some .integral
  | "FLOAT32" | "FLOAT64" => some .float
  | "DECIMAL" => some .decimal
  | "VARCHAR" | "CHAR" | "TEXT" | "VARBINARY" | "BINARY" | "BLOB" | "DATE" | "DATETIME" | "TIMESTAMP" | "TIME" => some .quoted
  | _ => none

def kindName : AstKind → String
  | .nullVal => "NullVal" | .intVal => "IntVal" | .floatVal => "FloatVal" | .strVal => "StrVal"

/-- regenerated on every run: (a) for every wire type the server's `bindingsToExprs` produces the AST
literal class of the model and the parser assigns the same class to the literal text; (b) the
binder's bookkeeping the Impl model `exec` transliterates: `GetSubstitute` marks the name used,
`UnusedBindings` compares the two sets, the two error texts, the prepared-AST cache is keyed by the
statement text and bindings are installed with `SetBindings`. -/
theorem facts_match :
    Gms.Generated.C12.literalKinds.length = 25 ∧
    (Gms.Generated.C12.literalKinds.all fun (ty, wire, text) =>
      match classOfWireType ty with
      | some c => wire == kindName (astKindOfWire c) && text == kindName (astKindOfText c)
      | none => false) = true ∧
    Gms.Generated.C12.getSubstituteMarksUsed = true ∧
    Gms.Generated.C12.unusedBindingsFastPath = "len(bv.used) == len(bv.Bindings)" ∧
    Gms.Generated.C12.normalizeValArgErrors = ["bind variable not provided: '%s'", "bind variable not provided: '%s'"] ∧
    Gms.Generated.C12.queryWithBindingsErrors = ["invalid arguments. expected: %d, found: %d"] ∧
    Gms.Generated.C12.preparedStatementCalls =
      ["ctx.Session.GetPreparedQuery(query)", "ctx.Session.GetPreparedQuery(query)", "binder.SetBindings(bindings)"] := by
  decide

end Gms.C12
