/-
C37 — Process list and KILL track and cancel exactly the targeted work.

Helper lemmas first (namespace `Gms.ProcList`), the property theorems at the end in `Gms.C37`.
-/
import Gms.Model.ProcList
import Gms.Model.ProcListSql
import Gms.Generated.C37

namespace Gms.ProcList

/-! ## Association-list lemmas -/

section maps
variable {β : Type}

theorem lookup_insert (m : List (Nat × β)) (k k' : Nat) (v : β) :
    lookup (insert m k v) k' = if k = k' then some v else lookup m k' := by
  induction m with
  | nil => simp [insert, lookup]
  | cons x m ih =>
    obtain ⟨a, b⟩ := x
    by_cases h : a = k
    · subst h
      by_cases h' : a = k' <;> simp [insert, lookup, h']
    · by_cases h' : a = k'
      · subst h'
        have : ¬ k = a := fun e => h e.symm
        simp [insert, lookup, h, this]
      · simp [insert, lookup, h, h', ih]

theorem lookup_erase (m : List (Nat × β)) (k k' : Nat) :
    lookup (erase m k) k' = if k = k' then none else lookup m k' := by
  induction m with
  | nil => simp [erase, lookup]
  | cons x m ih =>
    obtain ⟨a, b⟩ := x
    by_cases h : a = k
    · subst h
      by_cases h' : a = k'
      · subst h'; simpa [erase] using ih
      · simp [erase, lookup, h', ih]
    · by_cases h' : a = k'
      · subst h'
        have : ¬ k = a := fun e => h e.symm
        simp [erase, lookup, h, this]
      · simp [erase, lookup, h, h', ih]

theorem lookup_none_iff (m : List (Nat × β)) (k : Nat) : lookup m k = none ↔ k ∉ keys m := by
  induction m with
  | nil => simp [lookup, keys]
  | cons x m ih =>
    obtain ⟨a, b⟩ := x
    by_cases h : a = k
    · subst h; simp [lookup, keys]
    · have h2 : ¬ k = a := fun e => h e.symm
      simp only [lookup, h, if_false, ih, keys, List.map_cons, List.mem_cons, h2, false_or]

theorem keys_insert_of_mem (m : List (Nat × β)) (k : Nat) (v : β) (h : k ∈ keys m) :
    keys (insert m k v) = keys m := by
  induction m with
  | nil => simp [keys] at h
  | cons x m ih =>
    obtain ⟨a, b⟩ := x
    by_cases h1 : a = k
    · subst h1; simp [insert, keys]
    · have : k ∈ keys m := by
        simp only [keys, List.map_cons, List.mem_cons] at h
        rcases h with h | h
        · exact absurd h.symm h1
        · exact h
      have ih' := ih this
      simp only [keys] at ih' ⊢
      simp [insert, h1, ih']

theorem keys_insert_of_not_mem (m : List (Nat × β)) (k : Nat) (v : β) (h : k ∉ keys m) :
    keys (insert m k v) = keys m ++ [k] := by
  induction m with
  | nil => simp [keys, insert]
  | cons x m ih =>
    obtain ⟨a, b⟩ := x
    simp only [keys, List.map_cons, List.mem_cons, not_or] at h
    have h1 : ¬ a = k := fun e => h.1 e.symm
    have ih' := ih h.2
    simp only [keys] at ih' ⊢
    simp [insert, h1, ih']

theorem nodup_insert (m : List (Nat × β)) (k : Nat) (v : β) (h : (keys m).Nodup) :
    (keys (insert m k v)).Nodup := by
  by_cases hk : k ∈ keys m
  · rw [keys_insert_of_mem m k v hk]; exact h
  · rw [keys_insert_of_not_mem m k v hk]
    rw [List.nodup_append]
    refine ⟨h, by simp, ?_⟩
    intro a ha b hb
    simp at hb
    subst hb
    intro e; subst e; exact hk ha

theorem keys_erase_sublist (m : List (Nat × β)) (k : Nat) : (keys (erase m k)).Sublist (keys m) := by
  induction m with
  | nil => simp [erase, keys]
  | cons x m ih =>
    obtain ⟨a, b⟩ := x
    by_cases h : a = k
    · simp only [erase, h, if_true, keys, List.map_cons]
      exact List.Sublist.cons _ ih
    · simp only [erase, h, if_false, keys, List.map_cons]
      exact List.Sublist.cons_cons _ ih

theorem nodup_erase (m : List (Nat × β)) (k : Nat) (h : (keys m).Nodup) : (keys (erase m k)).Nodup :=
  List.Nodup.sublist (keys_erase_sublist m k) h

theorem erase_of_not_mem (m : List (Nat × β)) (k : Nat) (h : k ∉ keys m) : erase m k = m := by
  induction m with
  | nil => rfl
  | cons x m ih =>
    obtain ⟨a, b⟩ := x
    simp only [keys, List.map_cons, List.mem_cons, not_or] at h
    have h1 : ¬ a = k := fun e => h.1 e.symm
    have := ih h.2
    simp [erase, h1, this]

def cntOpt (f : β → Nat) : Option β → Nat
  | none => 0
  | some v => f v

/-- Counting after `m[k] = v` (no subtraction: the old value is added on the left). -/
theorem cnt_insert (f : β → Nat) (m : List (Nat × β)) (k : Nat) (v : β) :
    cnt f (insert m k v) + cntOpt f (lookup m k) = cnt f m + f v := by
  induction m with
  | nil => simp [insert, cnt, lookup, cntOpt]
  | cons x m ih =>
    obtain ⟨a, b⟩ := x
    by_cases h : a = k
    · subst h; simp [insert, cnt, lookup, cntOpt]; omega
    · simp only [insert, h, if_false, cnt, lookup]; omega

/-- Counting after `delete(m, k)` (keys are unique). -/
theorem cnt_erase (f : β → Nat) (m : List (Nat × β)) (k : Nat) (hn : (keys m).Nodup) :
    cnt f (erase m k) + cntOpt f (lookup m k) = cnt f m := by
  induction m with
  | nil => simp [erase, cnt, lookup, cntOpt]
  | cons x m ih =>
    obtain ⟨a, b⟩ := x
    simp only [keys, List.map_cons, List.nodup_cons] at hn
    by_cases h : a = k
    · subst h
      have : erase m a = m := erase_of_not_mem m a hn.1
      simp [erase, cnt, lookup, cntOpt, this]; omega
    · have := ih hn.2
      simp only [erase, h, if_false, cnt, lookup]; omega

theorem cnt_one_eq_length (m : List (Nat × β)) : cnt (fun _ => 1) m = m.length := by
  induction m with
  | nil => rfl
  | cons x m ih => obtain ⟨a, b⟩ := x; simp [cnt, ih]; omega

end maps

/-! ## Ground truth `Owner` and the executable `pidOwner` -/

theorem owner_insert (m : List (Nat × Proc)) (k : Nat) (v : Proc) (pid c : Nat) :
    Owner (insert m k v) pid c ↔ (if k = c then (v.cmd = .query ∧ v.pid = pid) else Owner m pid c) := by
  unfold Owner
  rw [lookup_insert]
  by_cases h : k = c
  · simp only [h, if_true]
    constructor
    · rintro ⟨p, hp, h1, h2⟩; cases hp; exact ⟨h1, h2⟩
    · rintro ⟨h1, h2⟩; exact ⟨v, rfl, h1, h2⟩
  · simp only [h, if_false]

theorem owner_erase (m : List (Nat × Proc)) (k : Nat) (pid c : Nat) :
    Owner (erase m k) pid c ↔ (k ≠ c ∧ Owner m pid c) := by
  unfold Owner
  rw [lookup_erase]
  by_cases h : k = c
  · simp [h]
  · simp [h]

theorem lookup_some_mem_keys {β : Type} (m : List (Nat × β)) (k : Nat) (v : β) (h : lookup m k = some v) :
    k ∈ keys m := by
  by_cases hk : k ∈ keys m
  · exact hk
  · rw [← lookup_none_iff] at hk; rw [hk] at h; cases h

theorem pidOwner_some (m : List (Nat × Proc)) (pid c : Nat) (hn : (keys m).Nodup)
    (h : pidOwner m pid = some c) : Owner m pid c := by
  induction m with
  | nil => simp [pidOwner] at h
  | cons x m ih =>
    obtain ⟨k, p⟩ := x
    simp only [keys, List.map_cons, List.nodup_cons] at hn
    simp only [pidOwner] at h
    split at h
    · rename_i hq
      cases h
      exact ⟨p, by simp [lookup], hq.1, hq.2⟩
    · obtain ⟨p', hl, h1, h2⟩ := ih hn.2 h
      have hc : c ∈ keys m := lookup_some_mem_keys m c p' hl
      have : ¬ k = c := by intro e; subst e; exact hn.1 hc
      exact ⟨p', by simp [lookup, this, hl], h1, h2⟩

theorem pidOwner_none (m : List (Nat × Proc)) (pid : Nat) (h : pidOwner m pid = none) :
    ∀ c, ¬ Owner m pid c := by
  induction m with
  | nil => intro c ⟨p, hp, _⟩; simp [lookup] at hp
  | cons x m ih =>
    obtain ⟨k, p⟩ := x
    simp only [pidOwner] at h
    split at h
    · cases h
    · rename_i hq
      intro c ⟨p', hl, h1, h2⟩
      simp only [lookup] at hl
      split at hl
      · cases hl; exact hq ⟨h1, h2⟩
      · exact ih h c ⟨p', hl, h1, h2⟩

/-! ## Invariant of the Spec state -/

/-- Well-formedness of the session table of the Spec machine. -/
structure PInv (m : List (Nat × Proc)) : Prop where
  nodup : (keys m).Nodup
  wfq : ∀ c p, lookup m c = some p → p.cmd = .query → p.pid ≠ 0 ∧ p.kill ≠ none
  wfn : ∀ c p, lookup m c = some p → p.cmd ≠ .query → p.pid = 0 ∧ p.query = none
  uniq : ∀ pid c c', Owner m pid c → Owner m pid c' → c = c'

def GoodVal (m : List (Nat × Proc)) (c : Nat) (v : Proc) : Prop :=
  (v.cmd = .query → v.pid ≠ 0 ∧ v.kill ≠ none ∧ ∀ c', Owner m v.pid c' → c' = c) ∧
  (v.cmd ≠ .query → v.pid = 0 ∧ v.query = none)

theorem PInv_insert {m : List (Nat × Proc)} {c : Nat} {v : Proc} (h : PInv m) (hv : GoodVal m c v) :
    PInv (insert m c v) := by
  refine ⟨nodup_insert m c v h.nodup, ?_, ?_, ?_⟩
  · intro c' p hl hq
    rw [lookup_insert] at hl
    split at hl
    · cases hl; exact ⟨(hv.1 hq).1, (hv.1 hq).2.1⟩
    · exact h.wfq c' p hl hq
  · intro c' p hl hq
    rw [lookup_insert] at hl
    split at hl
    · cases hl; exact hv.2 hq
    · exact h.wfn c' p hl hq
  · intro pid c1 c2 h1 h2
    rw [owner_insert] at h1 h2
    by_cases e1 : c = c1 <;> by_cases e2 : c = c2
    · rw [← e1, ← e2]
    · simp only [e1, if_true] at h1
      simp only [e2, if_false] at h2
      have := (hv.1 h1.1).2.2 c2 (h1.2 ▸ h2)
      exact absurd this.symm e2
    · simp only [e1, if_false] at h1
      simp only [e2, if_true] at h2
      have := (hv.1 h2.1).2.2 c1 (h2.2 ▸ h1)
      exact absurd this.symm e1
    · simp only [e1, if_false] at h1
      simp only [e2, if_false] at h2
      exact h.uniq pid c1 c2 h1 h2

theorem PInv_erase {m : List (Nat × Proc)} (c : Nat) (h : PInv m) : PInv (erase m c) := by
  refine ⟨nodup_erase m c h.nodup, ?_, ?_, ?_⟩
  · intro c' p hl hq
    rw [lookup_erase] at hl
    split at hl
    · cases hl
    · exact h.wfq c' p hl hq
  · intro c' p hl hq
    rw [lookup_erase] at hl
    split at hl
    · cases hl
    · exact h.wfn c' p hl hq
  · intro pid c1 c2 h1 h2
    rw [owner_erase] at h1 h2
    exact h.uniq pid c1 c2 h1.2 h2.2

/-! ## Counting lemmas in the form the simulation needs -/

theorem len_insert_new {β : Type} (m : List (Nat × β)) (k : Nat) (v : β) (h : lookup m k = none) :
    (insert m k v).length = m.length + 1 := by
  have := cnt_insert (fun _ => 1) m k v
  rw [h] at this
  simp only [cntOpt, cnt_one_eq_length] at this
  omega

theorem len_insert_old {β : Type} (m : List (Nat × β)) (k : Nat) (v p : β) (h : lookup m k = some p) :
    (insert m k v).length = m.length := by
  have := cnt_insert (fun _ => 1) m k v
  rw [h] at this
  simp only [cntOpt, cnt_one_eq_length] at this
  omega

theorem len_erase {β : Type} (m : List (Nat × β)) (k : Nat) (p : β) (hn : (keys m).Nodup)
    (h : lookup m k = some p) : (erase m k).length + 1 = m.length := by
  have := cnt_erase (fun _ => 1) m k hn
  rw [h] at this
  simp only [cntOpt, cnt_one_eq_length] at this
  omega

theorem run_insert_new (m : List (Nat × Proc)) (k : Nat) (v : Proc) (h : lookup m k = none) :
    cnt isQuery (insert m k v) = cnt isQuery m + isQuery v := by
  have := cnt_insert isQuery m k v
  rw [h] at this
  simpa [cntOpt] using this

theorem run_insert_old (m : List (Nat × Proc)) (k : Nat) (v p : Proc) (h : lookup m k = some p) :
    cnt isQuery (insert m k v) + isQuery p = cnt isQuery m + isQuery v := by
  have := cnt_insert isQuery m k v
  rw [h] at this
  simpa [cntOpt] using this

theorem run_erase (m : List (Nat × Proc)) (k : Nat) (p : Proc) (hn : (keys m).Nodup)
    (h : lookup m k = some p) : cnt isQuery (erase m k) + isQuery p = cnt isQuery m := by
  have := cnt_erase isQuery m k hn
  rw [h] at this
  simpa [cntOpt] using this

theorem PInv_nil : PInv [] :=
  ⟨by simp [keys], by intro c p h; simp [lookup] at h, by intro c p h; simp [lookup] at h,
   by intro pid c c' ⟨p, h, _⟩; simp [lookup] at h⟩

/-! ## The forward simulation, one event at a time -/

theorem not_owner_of_nonquery {m : List (Nat × Proc)} {c : Nat} {p : Proc} (hl : lookup m c = some p)
    (hq : p.cmd ≠ .query) (pid : Nat) : ¬ Owner m pid c := by
  rintro ⟨p', hl', h1, _⟩
  rw [hl] at hl'; cases hl'; exact hq h1

theorem goodVal_nonquery (m : List (Nat × Proc)) (c : Nat) (v : Proc) (h : v.cmd ≠ .query)
    (h0 : v.pid = 0) (hq : v.query = none) : GoodVal m c v :=
  ⟨fun e => absurd e h, fun _ => ⟨h0, hq⟩⟩

theorem sim_add {s : St} {a a' : ASt} {c : Nat} {r : Res}
    (hs : Sim s a) (hi : PInv a.procs) (h : astep a (.add c) = some (a', r)) :
    (step s (.add c)).2 = r ∧ Sim (step s (.add c)).1 a' ∧ PInv a'.procs := by
  obtain ⟨hp, hc, hn, hcon, hrun, hby⟩ := hs
  simp only [astep] at h
  split at h
  · cases h
  · rename_i hl
    cases h
    refine ⟨rfl, ⟨?_, hc, hn, ?_, ?_, ?_⟩, ?_⟩
    · simp [step, hp, idleProc]
    · simp only [step, aConnected, hcon, len_insert_new _ c _ hl]; simp
    · simp only [step, aRunning, hrun, run_insert_new _ c _ hl]; simp [isQuery, idleProc]
    · intro pid c'
      simp only [step]
      rw [hby, owner_insert]
      by_cases e : c = c'
      · subst e
        simp only [if_true, idleProc]
        constructor
        · rintro ⟨p, hp', _⟩; rw [hl] at hp'; cases hp'
        · rintro ⟨h1, _⟩; cases h1
      · simp [e]
    · exact PInv_insert hi (goodVal_nonquery _ _ _ (by simp [idleProc]) rfl rfl)

theorem sim_ready {s : St} {a a' : ASt} {c : Nat} {r : Res}
    (hs : Sim s a) (hi : PInv a.procs) (h : astep a (.ready c) = some (a', r))
    (hr : regionReadyDuringOperation a (.ready c) = false) :
    (step s (.ready c)).2 = r ∧ Sim (step s (.ready c)).1 a' ∧ PInv a'.procs := by
  obtain ⟨hp, hc, hn, hcon, hrun, hby⟩ := hs
  simp only [astep] at h
  split at h
  · cases h
  · rename_i p hl
    split at h
    · cases h
    · rename_i hq
      cases h
      simp only [regionReadyDuringOperation, hl] at hr
      have hk : p.kill = none := by
        cases hk : p.kill with
        | none => rfl
        | some t => simp [hq, hk] at hr
      obtain ⟨h0, hqq⟩ := hi.wfn c p hl hq
      have hv : ({ p with cmd := Cmd.sleep } : Proc) = { cmd := .sleep, pid := 0, kill := none, query := none } := by
        cases p; simp_all
      rw [hv]
      refine ⟨rfl, ⟨?_, hc, hn, ?_, ?_, ?_⟩, ?_⟩
      · simp [step, hp]
      · simp only [step, aConnected, hcon, len_insert_old _ c _ p hl]
      · have := run_insert_old a.procs c { cmd := .sleep, pid := 0, kill := none, query := none } p hl
        have hp0 : isQuery p = 0 := by simp [isQuery, hq]
        have hv0 : isQuery { cmd := .sleep, pid := 0, kill := none, query := none } = 0 := by simp [isQuery]
        simp only [step, aRunning, hrun]
        omega
      · intro pid c'
        simp only [step]
        rw [hby, owner_insert]
        by_cases e : c = c'
        · subst e
          simp only [if_true]
          constructor
          · intro ho; exact absurd ho (not_owner_of_nonquery hl hq pid)
          · rintro ⟨h1, _⟩; cases h1
        · simp [e]
      · exact PInv_insert hi (goodVal_nonquery _ _ _ (by simp) rfl rfl)

theorem not_owner_zero {m : List (Nat × Proc)} (hi : PInv m) (c : Nat) : ¬ Owner m 0 c := by
  rintro ⟨p, hl, h1, h2⟩
  exact (hi.wfq c p hl h1).1 h2

theorem sim_remove {s : St} {a a' : ASt} {c : Nat} {r : Res}
    (hs : Sim s a) (hi : PInv a.procs) (h : astep a (.remove c) = some (a', r))
    (hr : regionRemoveDuringQuery a (.remove c) = false) :
    (step s (.remove c)).2 = r ∧ Sim (step s (.remove c)).1 a' ∧ PInv a'.procs := by
  obtain ⟨hp, hc, hn, hcon, hrun, hby⟩ := hs
  simp only [astep] at h
  split at h
  · rename_i hl
    cases h
    have hl' : lookup s.procs c = none := by rw [hp]; exact hl
    simp only [step, hl']
    exact ⟨trivial, ⟨hp, hc, hn, hcon, hrun, hby⟩, hi⟩
  · rename_i p hl
    cases h
    have hl' : lookup s.procs c = some p := by rw [hp]; exact hl
    simp only [regionRemoveDuringQuery, hl, decide_eq_false_iff_not] at hr
    obtain ⟨h0, _⟩ := hi.wfn c p hl hr
    simp only [step, hl']
    refine ⟨trivial, ⟨?_, ?_, hn, ?_, ?_, ?_⟩, PInv_erase c hi⟩
    · simp [hp]
    · simp [hc]
    · have := len_erase a.procs c p hi.nodup hl
      simp only [aConnected, hcon]; omega
    · have := run_erase a.procs c p hi.nodup hl
      have hp0 : isQuery p = 0 := by simp [isQuery, hr]
      simp only [aRunning, hrun]; omega
    · intro pid c'
      simp only []
      rw [lookup_erase, owner_erase, h0]
      by_cases e : 0 = pid
      · subst e
        simp only [if_true]
        constructor
        · intro x; cases x
        · rintro ⟨_, ho⟩; exact absurd ho (not_owner_zero hi c')
      · simp only [e, if_false, hby]
        constructor
        · intro ho
          refine ⟨?_, ho⟩
          intro ecc; subst ecc
          exact not_owner_of_nonquery hl hr pid ho
        · exact fun x => x.2

/-- `BeginQuery`, every call inside the protocol — the two error returns included (no region guard
since the repair of F-C37-a: an error return leaves the whole state, `Threads_running` too, as it was). -/
theorem sim_beginQ {s : St} {a a' : ASt} {c pid : Nat} {r : Res}
    (hs : Sim s a) (hi : PInv a.procs) (h : astep a (.beginQ c pid) = some (a', r)) :
    (step s (.beginQ c pid)).2 = r ∧ Sim (step s (.beginQ c pid)).1 a' ∧ PInv a'.procs := by
  obtain ⟨hp, hc, hn, hcon, hrun, hby⟩ := hs
  simp only [astep] at h
  split at h
  · cases h
  · rename_i hpid
    split at h
    · -- error return 1: connection not registered; nothing changes
      rename_i hl
      cases h
      have hl' : lookup s.procs c = none := by rw [hp]; exact hl
      simp only [step, hl']
      exact ⟨trivial, ⟨hp, hc, hn, hcon, hrun, hby⟩, hi⟩
    · rename_i p hl
      split at h
      · -- error return 2: the query id is in use; nothing changes
        rename_i c' ho
        cases h
        have hl' : lookup s.procs c = some p := by rw [hp]; exact hl
        have hb : lookup s.byPid pid = some c' :=
          (hby pid c').2 (pidOwner_some a.procs pid c' hi.nodup ho)
        simp only [step, hl', hb]
        exact ⟨trivial, ⟨hp, hc, hn, hcon, hrun, hby⟩, hi⟩
      · rename_i ho
        split at h
        · cases h
        · rename_i hidle
          cases h
          have hsleep : p.cmd = .sleep := by
            cases hcmd : p.cmd <;> simp_all
          have hkill : p.kill = none := by
            cases hk : p.kill <;> simp_all
          have hq : p.cmd ≠ .query := by rw [hsleep]; simp
          have hno := pidOwner_none a.procs pid ho
          have hl' : lookup s.procs c = some p := by rw [hp]; exact hl
          have hb : lookup s.byPid pid = none := by
            cases hb : lookup s.byPid pid with
            | none => rfl
            | some c' => exact absurd ((hby pid c').1 hb) (hno c')
          simp only [step, hl', hb]
          refine ⟨by rw [hn], ⟨?_, hc, ?_, ?_, ?_, ?_⟩, ?_⟩
          · simp [hp, hn]
          · simp [hn]
          · simp only [aConnected, hcon, len_insert_old _ c _ p hl]
          · have := run_insert_old a.procs c { cmd := .query, pid := pid, kill := some a.nextTok, query := some pid } p hl
            have hp0 : isQuery p = 0 := by simp [isQuery, hq]
            have hv1 : isQuery { cmd := .query, pid := pid, kill := some a.nextTok, query := some pid } = 1 := by
              simp [isQuery]
            simp only [aRunning, hrun]
            omega
          · intro pid' c'
            simp only []
            rw [lookup_insert, owner_insert]
            by_cases e : pid = pid'
            · subst e
              by_cases e2 : c = c'
              · simp [e2]
              · simp only [e2, if_false, if_true]
                constructor
                · intro x; cases x; exact absurd rfl e2
                · intro x; exact absurd x (hno c')
            · simp only [e, if_false, hby]
              by_cases e2 : c = c'
              · subst e2
                simp only [if_true]
                constructor
                · intro x; exact absurd x (not_owner_of_nonquery hl hq pid')
                · intro x; exact x.2.elim
              · simp [e2]
          · refine PInv_insert hi ⟨?_, ?_⟩
            · intro _
              refine ⟨hpid, by simp, ?_⟩
              intro c' hc'; exact absurd hc' (hno c')
            · intro x; exact absurd rfl x

theorem sim_endQ {s : St} {a a' : ASt} {c pid : Nat} {r : Res}
    (hs : Sim s a) (hi : PInv a.procs) (h : astep a (.endQ c pid) = some (a', r)) :
    (step s (.endQ c pid)).2 = r ∧ Sim (step s (.endQ c pid)).1 a' ∧ PInv a'.procs := by
  obtain ⟨hp, hc, hn, hcon, hrun, hby⟩ := hs
  simp only [astep] at h
  split at h
  · cases h
  · rename_i hpid
    split at h
    · rename_i c' ho
      split at h
      · cases h
      · rename_i hcc
        have hcc : c' = c := Classical.not_not.mp hcc
        subst hcc
        split at h
        · cases h
        · rename_i p hl
          cases h
          obtain ⟨p0, hl0, hq, hpp⟩ := pidOwner_some a.procs pid c' hi.nodup ho
          rw [hl] at hl0; cases hl0
          obtain ⟨_, hk⟩ := hi.wfq c' p hl hq
          have hl' : lookup s.procs c' = some p := by rw [hp]; exact hl
          cases hkk : p.kill with
          | none => exact absurd hkk hk
          | some t =>
            simp only [step, hl', hpp, if_true, hkk]
            refine ⟨trivial, ⟨?_, ?_, hn, ?_, ?_, ?_⟩, ?_⟩
            · simp [hp, idleProc]
            · simp [hc, cancelOpt]
            · simp only [aConnected, hcon, len_insert_old _ c' _ p hl]
            · have := run_insert_old a.procs c' (idleProc .sleep) p hl
              have hp1 : isQuery p = 1 := by simp [isQuery, hq]
              have hv0 : isQuery (idleProc .sleep) = 0 := by simp [isQuery, idleProc]
              simp only [aRunning, hrun]
              omega
            · intro pid' c''
              simp only []
              rw [lookup_erase, owner_insert]
              by_cases e : pid = pid'
              · subst e
                simp only [if_true]
                constructor
                · intro x; cases x
                · intro x
                  by_cases e2 : c' = c''
                  · simp [e2, idleProc] at x
                  · simp only [e2, if_false] at x
                    exact absurd (hi.uniq pid c' c'' ⟨p, hl, hq, hpp⟩ x) e2
              · simp only [e, if_false, hby]
                by_cases e2 : c' = c''
                · subst e2
                  simp only [if_true, idleProc]
                  constructor
                  · rintro ⟨p1, hl1, _, hpp1⟩
                    rw [hl] at hl1; cases hl1
                    exact absurd (hpp.symm.trans hpp1) e
                  · intro x; cases x.1
                · simp [e2]
            · exact PInv_insert hi (goodVal_nonquery _ _ _ (by simp [idleProc]) rfl rfl)
    · rename_i ho
      cases h
      have hno := pidOwner_none a.procs pid ho
      have hby' : ∀ pid' c'', lookup (erase s.byPid pid) pid' = some c'' ↔ Owner a.procs pid' c'' := by
        intro pid' c''
        rw [lookup_erase]
        by_cases e : pid = pid'
        · subst e
          simp only [if_true]
          constructor
          · intro x; cases x
          · intro x; exact absurd x (hno c'')
        · simp only [e, if_false, hby]
      cases hl : lookup a.procs c with
      | none =>
        have hl' : lookup s.procs c = none := by rw [hp]; exact hl
        simp only [step, hl']
        exact ⟨trivial, ⟨hp, hc, hn, hcon, hrun, hby'⟩, hi⟩
      | some p =>
        have hl' : lookup s.procs c = some p := by rw [hp]; exact hl
        have hne : ¬ p.pid = pid := by
          intro e
          by_cases hq : p.cmd = .query
          · exact hno c ⟨p, hl, hq, e⟩
          · exact hpid ((hi.wfn c p hl hq).1.symm.trans e).symm
        simp only [step, hl', hne, if_false]
        exact ⟨trivial, ⟨hp, hc, hn, hcon, hrun, hby'⟩, hi⟩

theorem insert_self {β : Type} (m : List (Nat × β)) (k : Nat) (v : β) (h : lookup m k = some v) :
    insert m k v = m := by
  induction m with
  | nil => simp [lookup] at h
  | cons x m ih =>
    obtain ⟨a, b⟩ := x
    by_cases e : a = k
    · subst e; simp [lookup] at h; simp [insert, h]
    · simp [lookup, e] at h; simp [insert, e, ih h]

/-- Replacing a non-query entry by a non-query entry keeps counters and the pid index. -/
theorem sim_replace_nonquery {s : St} {a : ASt} {c : Nat} {p v : Proc} {cs ca : List Nat} {ns na : Nat}
    (hs : Sim s a) (hi : PInv a.procs) (hl : lookup a.procs c = some p) (hq : p.cmd ≠ .query)
    (hv : v.cmd ≠ .query) (hv0 : v.pid = 0) (hvq : v.query = none) (hcs : cs = ca) (hns : ns = na) :
    Sim { s with cancelled := cs, nextTok := ns, procs := insert s.procs c v }
        { a with cancelled := ca, nextTok := na, procs := insert a.procs c v } ∧
    PInv (insert a.procs c v) := by
  obtain ⟨hp, hc, hn, hcon, hrun, hby⟩ := hs
  refine ⟨⟨?_, hcs, hns, ?_, ?_, ?_⟩, PInv_insert hi (goodVal_nonquery _ _ _ hv hv0 hvq)⟩
  · simp [hp]
  · simp only [aConnected, hcon, len_insert_old _ c _ p hl]
  · have := run_insert_old a.procs c v p hl
    have hp0 : isQuery p = 0 := by simp [isQuery, hq]
    have hv0 : isQuery v = 0 := by simp [isQuery, hv]
    simp only [aRunning, hrun]
    omega
  · intro pid' c''
    simp only []
    rw [hby, owner_insert]
    by_cases e2 : c = c''
    · subst e2
      simp only [if_true]
      constructor
      · intro x; exact absurd x (not_owner_of_nonquery hl hq pid')
      · intro x; exact absurd x.1 hv
    · simp [e2]

theorem sim_beginOp {s : St} {a a' : ASt} {c : Nat} {r : Res}
    (hs : Sim s a) (hi : PInv a.procs) (h : astep a (.beginOp c) = some (a', r)) :
    (step s (.beginOp c)).2 = r ∧ Sim (step s (.beginOp c)).1 a' ∧ PInv a'.procs := by
  have hp := hs.procs
  have hn := hs.nextTok
  simp only [astep] at h
  split at h
  · rename_i hl
    cases h
    have hl' : lookup s.procs c = none := by rw [hp]; exact hl
    simp only [step, hl']
    exact ⟨trivial, hs, hi⟩
  · rename_i p hl
    have hl' : lookup s.procs c = some p := by rw [hp]; exact hl
    split at h
    · rename_i hbusy
      cases h
      have hk : p.kill ≠ none := by
        rcases hbusy with hq | hk
        · exact (hi.wfq c p hl hq).2
        · exact hk
      cases hkk : p.kill with
      | none => exact absurd hkk hk
      | some t =>
        simp only [step, hl', hkk]
        exact ⟨trivial, hs, hi⟩
    · rename_i hfree
      cases h
      have hq : p.cmd ≠ .query := fun e => hfree (Or.inl e)
      have hk : p.kill = none := by
        cases hkk : p.kill with
        | none => rfl
        | some t => exact absurd (Or.inr (by simp [hkk])) hfree
      obtain ⟨h0, hqq⟩ := hi.wfn c p hl hq
      simp only [step, hl', hk]
      have := sim_replace_nonquery (cs := s.cancelled) (ca := a.cancelled) (ns := s.nextTok + 1)
        (na := a.nextTok + 1) (v := { p with kill := some s.nextTok }) hs hi hl hq hq h0 hqq
        hs.cancelled (by rw [hn])
      rw [hn] at this ⊢
      exact ⟨rfl, this.1, this.2⟩

theorem sim_endOp {s : St} {a a' : ASt} {c : Nat} {r : Res}
    (hs : Sim s a) (hi : PInv a.procs) (h : astep a (.endOp c) = some (a', r)) :
    (step s (.endOp c)).2 = r ∧ Sim (step s (.endOp c)).1 a' ∧ PInv a'.procs := by
  have hp := hs.procs
  simp only [astep] at h
  split at h
  · rename_i hl
    cases h
    have hl' : lookup s.procs c = none := by rw [hp]; exact hl
    simp only [step, hl']
    exact ⟨trivial, hs, hi⟩
  · rename_i p hl
    have hl' : lookup s.procs c = some p := by rw [hp]; exact hl
    split at h
    · cases h
    · rename_i hq
      cases h
      obtain ⟨h0, hqq⟩ := hi.wfn c p hl hq
      cases hkk : p.kill with
      | none =>
        simp only [step, hl', hkk, cancelOpt]
        have e : ({ p with kill := none } : Proc) = p := by cases p; simp_all
        rw [e, insert_self _ _ _ hl]
        exact ⟨trivial, hs, hi⟩
      | some t =>
        simp only [step, hl', hkk, cancelOpt]
        have := sim_replace_nonquery (cs := cancel s.cancelled t) (ca := cancel a.cancelled t)
          (ns := s.nextTok) (na := a.nextTok) (v := { p with kill := none }) hs hi hl hq hq h0 hqq
          (by rw [hs.cancelled]) hs.nextTok
        exact ⟨trivial, this.1, this.2⟩

theorem sim_kill {s : St} {a a' : ASt} {c : Nat} {r : Res}
    (hs : Sim s a) (hi : PInv a.procs) (h : astep a (.kill c) = some (a', r)) :
    (step s (.kill c)).2 = r ∧ Sim (step s (.kill c)).1 a' ∧ PInv a'.procs := by
  obtain ⟨hp, hc, hn, hcon, hrun, hby⟩ := hs
  simp only [astep] at h
  split at h
  · rename_i hl
    cases h
    have hl' : lookup s.procs c = none := by rw [hp]; exact hl
    simp only [step, hl']
    exact ⟨trivial, ⟨hp, hc, hn, hcon, hrun, hby⟩, hi⟩
  · rename_i p hl
    cases h
    have hl' : lookup s.procs c = some p := by rw [hp]; exact hl
    simp only [step, hl']
    exact ⟨trivial, ⟨hp, by simp [hc], hn, hcon, hrun, hby⟩, hi⟩

/-- One event, any kind: inside the protocol and outside the regions the Impl model makes exactly
the Spec's move and re-establishes the refinement relation. -/
theorem sim_step {s : St} {a a' : ASt} {e : Ev} {r : Res}
    (hs : Sim s a) (hi : PInv a.procs) (h : astep a e = some (a', r)) (hr : inRegion a e = false) :
    (step s e).2 = r ∧ Sim (step s e).1 a' ∧ PInv a'.procs := by
  simp only [inRegion, Bool.or_eq_false_iff] at hr
  cases e with
  | add c => exact sim_add hs hi h
  | ready c => exact sim_ready hs hi h hr.2
  | remove c => exact sim_remove hs hi h hr.1
  | beginQ c pid => exact sim_beginQ hs hi h
  | endQ c pid => exact sim_endQ hs hi h
  | beginOp c => exact sim_beginOp hs hi h
  | endOp c => exact sim_endOp hs hi h
  | kill c => exact sim_kill hs hi h

/-! ## Histories -/

/-- The Spec's trace of a history; `none` as soon as one call leaves the protocol. -/
def atrace : ASt → List Ev → Option (List (ASt × Res))
  | _, [] => some []
  | a, e :: es =>
    match astep a e with
    | none => none
    | some (a', r) =>
      match atrace a' es with
      | none => none
      | some t => some ((a', r) :: t)

/-- No call of the history falls into a defect region (decided along the Spec's run). -/
def noRegion : ASt → List Ev → Bool
  | _, [] => true
  | a, e :: es =>
    match astep a e with
    | none => true
    | some (a', _) => !inRegion a e && noRegion a' es

/-- Step-by-step agreement of an Impl trace with a Spec trace. -/
def SimTrace : List (St × Res) → List (ASt × Res) → Prop
  | [], [] => True
  | (s, r) :: t, (a, r') :: t' => r = r' ∧ Sim s a ∧ PInv a.procs ∧ SimTrace t t'
  | _, _ => False

theorem refinement_from {s : St} {a : ASt} (es : List Ev) (tr : List (ASt × Res))
    (hs : Sim s a) (hi : PInv a.procs) (ht : atrace a es = some tr) (hr : noRegion a es = true) :
    SimTrace (run s es) tr := by
  induction es generalizing s a tr with
  | nil => simp only [atrace] at ht; cases ht; simp [run, SimTrace]
  | cons e es ih =>
    simp only [atrace] at ht
    split at ht
    · cases ht
    · rename_i a' r hstep
      split at ht
      · cases ht
      · rename_i t htr
        cases ht
        simp only [noRegion, hstep, Bool.and_eq_true, Bool.not_eq_true'] at hr
        obtain ⟨h1, h2, h3⟩ := sim_step hs hi hstep hr.1
        simp only [run, SimTrace]
        exact ⟨h1, h2, h3, ih t h2 h3 htr hr.2⟩

theorem sim_init : Sim St.init ASt.init :=
  ⟨rfl, rfl, rfl, rfl, rfl, by
    intro pid c
    constructor
    · intro h; simp [St.init, lookup] at h
    · rintro ⟨p, h, _⟩; simp [ASt.init, lookup] at h⟩

/-- The invariants the property states, on the Impl state alone. -/
structure Good (s : St) : Prop where
  connected : s.connected = (s.procs.length : Int)
  running : s.running = (cnt isQuery s.procs : Int)
  byPid : ∀ pid c, lookup s.byPid pid = some c ↔ Owner s.procs pid c
  wf : PInv s.procs

theorem good_of_sim {s : St} {a : ASt} (hs : Sim s a) (hi : PInv a.procs) : Good s := by
  obtain ⟨hp, _, _, hcon, hrun, hby⟩ := hs
  exact ⟨by rw [hp]; exact hcon, by rw [hp]; exact hrun, by rw [hp]; exact hby, by rw [hp]; exact hi⟩

theorem good_of_simTrace {t : List (St × Res)} {t' : List (ASt × Res)} (h : SimTrace t t') :
    ∀ x ∈ t, Good x.1 := by
  induction t generalizing t' with
  | nil => intro x hx; cases hx
  | cons y t ih =>
    cases t' with
    | nil => obtain ⟨s, r⟩ := y; simp [SimTrace] at h
    | cons y' t' =>
      obtain ⟨s, r⟩ := y
      obtain ⟨a, r'⟩ := y'
      simp only [SimTrace] at h
      intro x hx
      simp only [List.mem_cons] at hx
      rcases hx with hx | hx
      · subst hx; exact good_of_sim h.2.1 h.2.2.1
      · exact ih h.2.2.2 x hx

/-! ## Cancellation: targeted and never late — for every state and every call -/

theorem held_insert (m : List (Nat × Proc)) (k : Nat) (v : Proc) (c : Nat) :
    held (insert m k v) c = if k = c then v.kill else held m c := by
  unfold held
  rw [lookup_insert]
  by_cases h : k = c <;> simp [h]

theorem held_erase (m : List (Nat × Proc)) (k : Nat) (c : Nat) :
    held (erase m k) c = if k = c then none else held m c := by
  unfold held
  rw [lookup_erase]
  by_cases h : k = c <;> simp [h]

theorem mem_cancel {l : List Nat} {t u : Nat} (h : u ∈ cancel l t) : u ∈ l ∨ u = t := by
  unfold cancel at h
  split at h
  · exact Or.inl h
  · simp only [List.mem_cons] at h
    rcases h with h | h
    · exact Or.inr h
    · exact Or.inl h

theorem mem_cancelOpt {l : List Nat} {o : Option Nat} {u : Nat} (h : u ∈ cancelOpt l o) : u ∈ l ∨ o = some u := by
  cases o with
  | none => exact Or.inl h
  | some t =>
    rcases mem_cancel h with h | h
    · exact Or.inl h
    · exact Or.inr (by rw [h])

theorem mem_cancel_of_mem {l : List Nat} {t u : Nat} (h : u ∈ l) : u ∈ cancel l t := by
  unfold cancel; split
  · exact h
  · exact List.mem_cons_of_mem _ h

theorem mem_cancel_self (l : List Nat) (t : Nat) : t ∈ cancel l t := by
  unfold cancel; split
  · assumption
  · exact List.mem_cons_self

/-- The shape of one call, whatever the state (no protocol assumed): only the called connection's
registration changes, it becomes nil, stays, or becomes the fresh token; only the cancel func that
was registered for *that* connection can have been called. -/
structure StepShape (s : St) (e : Ev) (s' : St) : Prop where
  others : ∀ c', c' ≠ e.conn → held s'.procs c' = held s.procs c'
  own : held s'.procs e.conn = none ∨ held s'.procs e.conn = held s.procs e.conn ∨
        (held s'.procs e.conn = some s.nextTok ∧ s'.nextTok = s.nextTok + 1)
  tok : s'.nextTok = s.nextTok ∨ s'.nextTok = s.nextTok + 1
  cancelled : ∀ t ∈ s'.cancelled, t ∈ s.cancelled ∨ held s.procs e.conn = some t
  mono : ∀ t ∈ s.cancelled, t ∈ s'.cancelled


theorem held_of_lookup {m : List (Nat × Proc)} {c : Nat} {p : Proc} (h : lookup m c = some p) :
    held m c = p.kill := by simp [held, h]

theorem held_of_lookup_none {m : List (Nat × Proc)} {c : Nat} (h : lookup m c = none) :
    held m c = none := by simp [held, h]

theorem shape_refl (s : St) (e : Ev) : StepShape s e s :=
  ⟨fun _ _ => rfl, Or.inr (Or.inl rfl), Or.inl rfl, fun _ h => Or.inl h, fun _ h => h⟩

/-- Generic constructor: the call rewrote `procs[c]` (or deleted it), possibly called the
registered cancel func, possibly drew the next token. -/
theorem shape_of {s s' : St} {e : Ev}
    (hothers : ∀ c', c' ≠ e.conn → held s'.procs c' = held s.procs c')
    (hown : held s'.procs e.conn = none ∨ held s'.procs e.conn = held s.procs e.conn ∨
        (held s'.procs e.conn = some s.nextTok ∧ s'.nextTok = s.nextTok + 1))
    (htok : s'.nextTok = s.nextTok ∨ s'.nextTok = s.nextTok + 1)
    (hc : s'.cancelled = s.cancelled ∨ s'.cancelled = cancelOpt s.cancelled (held s.procs e.conn)) :
    StepShape s e s' := by
  refine ⟨hothers, hown, htok, ?_, ?_⟩
  · intro t ht
    rcases hc with hc | hc
    · rw [hc] at ht; exact Or.inl ht
    · rw [hc] at ht; exact mem_cancelOpt ht
  · intro t ht
    rcases hc with hc | hc
    · rw [hc]; exact ht
    · rw [hc]
      cases held s.procs e.conn with
      | none => exact ht
      | some u => exact mem_cancel_of_mem ht

theorem step_shape (s : St) (e : Ev) : StepShape s e (step s e).1 := by
  cases e with
  | add c =>
    apply shape_of
    · intro c' hc'
      have : ¬ c = c' := fun e => hc' e.symm
      simp [step, held_insert, this]
    · left; simp [step, held_insert, Ev.conn]
    · left; simp [step]
    · left; simp [step]
  | ready c =>
    apply shape_of
    · intro c' hc'
      have : ¬ c = c' := fun e => hc' e.symm
      simp [step, held_insert, this]
    · left; simp [step, held_insert, Ev.conn]
    · left; simp [step]
    · left; simp [step]
  | remove c =>
    cases hl : lookup s.procs c with
    | none => simp only [step, hl]; exact shape_refl _ _
    | some p =>
      simp only [step, hl]
      apply shape_of
      · intro c' hc'
        have : ¬ c = c' := fun e => hc' e.symm
        simp [held_erase, this]
      · left; simp [held_erase, Ev.conn]
      · left; rfl
      · right; simp [Ev.conn, held_of_lookup hl]
  | beginQ c pid =>
    cases hl : lookup s.procs c with
    | none => simp only [step, hl]; exact shape_of (fun _ _ => rfl) (Or.inr (Or.inl rfl)) (Or.inl rfl) (Or.inl rfl)
    | some p =>
      cases hb : lookup s.byPid pid with
      | some x => simp only [step, hl, hb]; exact shape_of (fun _ _ => rfl) (Or.inr (Or.inl rfl)) (Or.inl rfl) (Or.inl rfl)
      | none =>
        simp only [step, hl, hb]
        apply shape_of
        · intro c' hc'
          have : ¬ c = c' := fun e => hc' e.symm
          simp [held_insert, this]
        · right; right; simp [held_insert, Ev.conn]
        · right; rfl
        · left; rfl
  | endQ c pid =>
    cases hl : lookup s.procs c with
    | none => simp only [step, hl]; exact shape_of (fun _ _ => rfl) (Or.inr (Or.inl rfl)) (Or.inl rfl) (Or.inl rfl)
    | some p =>
      by_cases hp : p.pid = pid
      · cases hk : p.kill with
        | none =>
          simp only [step, hl, hp, if_true, hk]
          apply shape_of
          · intro c' hc'
            have : ¬ c = c' := fun e => hc' e.symm
            simp [held_insert, this]
          · left; simp [held_insert, Ev.conn]
          · left; rfl
          · left; rfl
        | some t =>
          simp only [step, hl, hp, if_true, hk]
          apply shape_of
          · intro c' hc'
            have : ¬ c = c' := fun e => hc' e.symm
            simp [held_insert, this]
          · left; simp [held_insert, Ev.conn]
          · left; rfl
          · right; simp [Ev.conn, held_of_lookup hl, hk, cancelOpt]
      · simp only [step, hl, hp, if_false]
        exact shape_of (fun _ _ => rfl) (Or.inr (Or.inl rfl)) (Or.inl rfl) (Or.inl rfl)
  | beginOp c =>
    cases hl : lookup s.procs c with
    | none => simp only [step, hl]; exact shape_refl _ _
    | some p =>
      cases hk : p.kill with
      | some t => simp only [step, hl, hk]; exact shape_refl _ _
      | none =>
        simp only [step, hl, hk]
        apply shape_of
        · intro c' hc'
          have : ¬ c = c' := fun e => hc' e.symm
          simp [held_insert, this]
        · right; right; simp [held_insert, Ev.conn]
        · right; rfl
        · left; rfl
  | endOp c =>
    cases hl : lookup s.procs c with
    | none => simp only [step, hl]; exact shape_refl _ _
    | some p =>
      cases hk : p.kill with
      | none => simp only [step, hl, hk]; exact shape_refl _ _
      | some t =>
        simp only [step, hl, hk]
        apply shape_of
        · intro c' hc'
          have : ¬ c = c' := fun e => hc' e.symm
          simp [held_insert, this]
        · left; simp [held_insert, Ev.conn]
        · left; rfl
        · right; simp [Ev.conn, held_of_lookup hl, hk, cancelOpt]
  | kill c =>
    cases hl : lookup s.procs c with
    | none => simp only [step, hl]; exact shape_refl _ _
    | some p =>
      simp only [step, hl]
      apply shape_of
      · intro c' _; rfl
      · right; left; rfl
      · left; rfl
      · right; simp [Ev.conn, held_of_lookup hl]

/-- Token discipline: every token ever handed out or cancelled is below the supply, and no two
connections hold the same cancel func. -/
structure TokInv (s : St) : Prop where
  cancLt : ∀ t ∈ s.cancelled, t < s.nextTok
  heldLt : ∀ c t, held s.procs c = some t → t < s.nextTok
  heldInj : ∀ c c' t, held s.procs c = some t → held s.procs c' = some t → c = c'

theorem tokInv_init : TokInv St.init :=
  ⟨by intro t h; simp [St.init] at h, by intro c t h; simp [St.init, held, lookup] at h,
   by intro c c' t h; simp [St.init, held, lookup] at h⟩

theorem tokInv_of_shape {s s' : St} {e : Ev} (hi : TokInv s) (hs : StepShape s e s') : TokInv s' := by
  have hle : s.nextTok ≤ s'.nextTok := by rcases hs.tok with h | h <;> omega
  have hheld : ∀ c t, held s'.procs c = some t → t < s'.nextTok := by
    intro c t h
    by_cases hc : c = e.conn
    · subst hc
      rcases hs.own with h1 | h1 | ⟨h1, h2⟩
      · rw [h1] at h; cases h
      · rw [h1] at h; exact Nat.lt_of_lt_of_le (hi.heldLt _ t h) hle
      · rw [h1] at h; cases h; omega
    · rw [hs.others c hc] at h; exact Nat.lt_of_lt_of_le (hi.heldLt c t h) hle
  refine ⟨?_, hheld, ?_⟩
  · intro t ht
    rcases hs.cancelled t ht with h | h
    · exact Nat.lt_of_lt_of_le (hi.cancLt t h) hle
    · exact Nat.lt_of_lt_of_le (hi.heldLt _ t h) hle
  · intro c c' t h h'
    by_cases hc : c = e.conn <;> by_cases hc' : c' = e.conn
    · rw [hc, hc']
    · rw [hs.others c' hc'] at h'
      subst hc
      rcases hs.own with h1 | h1 | ⟨h1, _⟩
      · rw [h1] at h; cases h
      · rw [h1] at h; exact hi.heldInj _ _ t h h'
      · rw [h1] at h; cases h
        exact absurd (hi.heldLt c' _ h') (Nat.lt_irrefl _)
    · rw [hs.others c hc] at h
      subst hc'
      rcases hs.own with h1 | h1 | ⟨h1, _⟩
      · rw [h1] at h'; cases h'
      · rw [h1] at h'; exact hi.heldInj _ _ t h h'
      · rw [h1] at h'; cases h'
        exact absurd (hi.heldLt c _ h) (Nat.lt_irrefl _)
    · rw [hs.others c hc] at h
      rw [hs.others c' hc'] at h'
      exact hi.heldInj c c' t h h'

theorem tokInv_exec (s : St) (es : List Ev) (hi : TokInv s) : TokInv (exec s es) := by
  induction es generalizing s with
  | nil => exact hi
  | cons e es ih => exact ih _ (tokInv_of_shape hi (step_shape s e))

/-- The Spec's final state of a history. -/
def aexec (a : ASt) (es : List Ev) : Option ASt :=
  match atrace a es with
  | none => none
  | some t => some ((t.getLast?.map (·.1)).getD a)

/-! ## The SQL layer (`Gms/Model/ProcListSql.lean`): statements executed through the engine -/

/-- The refinement relation of the SQL layer: `Sim` on the `ProcessList` part, same close requests. -/
structure SSim (s : SSt) (a : SASt) : Prop where
  pl : Sim s.pl a.pl
  closed : s.closed = a.closed

theorem inRegion_kill (a : ASt) (c : Nat) : inRegion a (.kill c) = false := by
  simp [inRegion, regionRemoveDuringQuery, regionReadyDuringOperation]

theorem inRegion_endQ (a : ASt) (c pid : Nat) : inRegion a (.endQ c pid) = false := by
  simp [inRegion, regionRemoveDuringQuery, regionReadyDuringOperation]

/-- The Spec's `EndQuery` never reports anything but completion. -/
theorem astep_endQ_res {a a' : ASt} {c pid : Nat} {r : Res} (h : astep a (.endQ c pid) = some (a', r)) :
    r = .done := by
  simp only [astep] at h
  split at h
  · cases h
  · split at h
    · split at h
      · cases h
      · split at h
        · cases h
        · cases h; rfl
    · cases h; rfl

theorem killStmtBody_pl (kt : KillType) (s : SSt) (c : Nat) :
    (killStmtBody kt s c).pl = (step s.pl (.kill c)).1 := by
  cases kt <;> rfl

theorem killStmtBody_closed (kt : KillType) (s : SSt) (c : Nat) :
    (killStmtBody kt s c).closed = match kt with
      | .connection => s.closed ++ [c]
      | .query => s.closed := by
  cases kt <;> rfl

/-- The `ProcessList` effect of any SQL-layer call is that of the direct calls it stands for. -/
theorem sstep_pl (s : SSt) (e : SqlEv) : (sstep s e).1.pl = exec s.pl (lower e) := by
  cases e with
  | call e => simp [sstep, lower, exec]
  | killStmt kt i pid c => simp [sstep, closeStmt, killStmtBody_pl, lower, exec]
  | «show» i pid => simp [sstep, closeStmt, lower, exec]

theorem exec_append (s : St) (es fs : List Ev) : exec s (es ++ fs) = exec (exec s es) fs := by
  simp [exec, List.foldl_append]

theorem sexec_pl (s : SSt) (es : List SqlEv) : (sexec s es).pl = exec s.pl (lowerAll es) := by
  induction es generalizing s with
  | nil => rfl
  | cons e es ih =>
    have h1 : sexec s (e :: es) = sexec (sstep s e).1 es := rfl
    have h2 : lowerAll (e :: es) = lower e ++ lowerAll es := by simp [lowerAll]
    rw [h1, h2, ih, sstep_pl, exec_append]

theorem sstep_closed (s : SSt) (e : SqlEv) : (sstep s e).1.closed = s.closed ++ closeRequests [e] := by
  cases e with
  | call e => simp [sstep, closeRequests]
  | killStmt kt i pid c => cases kt <;> simp [sstep, closeStmt, killStmtBody, closeRequests]
  | «show» i pid => simp [sstep, closeStmt, closeRequests]

theorem closeRequests_cons (e : SqlEv) (es : List SqlEv) :
    closeRequests (e :: es) = closeRequests [e] ++ closeRequests es := by
  cases e with
  | call e => simp [closeRequests]
  | killStmt kt i pid c => cases kt <;> simp [closeRequests]
  | «show» i pid => simp [closeRequests]

theorem sexec_closed (s : SSt) (es : List SqlEv) : (sexec s es).closed = s.closed ++ closeRequests es := by
  induction es generalizing s with
  | nil => simp [sexec, closeRequests]
  | cons e es ih =>
    have h1 : sexec s (e :: es) = sexec (sstep s e).1 es := rfl
    rw [h1, ih, sstep_closed, closeRequests_cons e es, List.append_assoc]

/-- One SQL-layer call: inside the protocol and outside the regions (no statement is in a region) the
Impl model makes exactly the Spec's move — same result (for SHOW PROCESSLIST: same rows), same close
requests — and re-establishes the refinement relation. -/
theorem sim_sql_step {s : SSt} {a a' : SASt} {e : SqlEv} {r : SRes}
    (hs : SSim s a) (hi : PInv a.pl.procs) (h : sastep a e = some (a', r)) (hr : sInRegion a e = false) :
    (sstep s e).2 = r ∧ SSim (sstep s e).1 a' ∧ PInv a'.pl.procs := by
  cases e with
  | call e =>
    simp only [sastep] at h
    split at h
    · cases h
    · rename_i p r' hst
      cases h
      obtain ⟨h1, h2, h3⟩ := sim_step hs.pl hi hst hr
      exact ⟨by simp [sstep, h1], ⟨h2, hs.closed⟩, h3⟩
  | killStmt kt i pid c =>
    simp only [sastep] at h
    split at h
    · cases h
    · rename_i p r1 hk
      split at h
      · cases h
      · rename_i p' r2 he
        cases h
        obtain ⟨_, k2, k3⟩ := sim_step hs.pl hi hk (inRegion_kill _ _)
        obtain ⟨e1, e2, e3⟩ := sim_step k2 k3 he (inRegion_endQ _ _ _)
        have hd := astep_endQ_res he
        subst hd
        refine ⟨?_, ⟨?_, ?_⟩, e3⟩
        · simp [sstep, closeStmt, killStmtBody_pl, e1]
        · simpa [sstep, closeStmt, killStmtBody_pl] using e2
        · cases kt <;> simp [sstep, closeStmt, killStmtBody, hs.closed]
  | «show» i pid =>
    simp only [sastep] at h
    split at h
    · cases h
    · rename_i p' r2 he
      cases h
      obtain ⟨e1, e2, e3⟩ := sim_step hs.pl hi he (inRegion_endQ _ _ _)
      have hd := astep_endQ_res he
      subst hd
      refine ⟨?_, ⟨?_, ?_⟩, e3⟩
      · simp [sstep, closeStmt, e1, hs.pl.procs]
      · simpa [sstep, closeStmt] using e2
      · simp [sstep, closeStmt, hs.closed]

/-- The Spec's trace of an SQL-layer history; `none` as soon as one call leaves the protocol. -/
def satrace : SASt → List SqlEv → Option (List (SASt × SRes))
  | _, [] => some []
  | a, e :: es =>
    match sastep a e with
    | none => none
    | some (a', r) =>
      match satrace a' es with
      | none => none
      | some t => some ((a', r) :: t)

def sNoRegion : SASt → List SqlEv → Bool
  | _, [] => true
  | a, e :: es =>
    match sastep a e with
    | none => true
    | some (a', _) => !sInRegion a e && sNoRegion a' es

def SSimTrace : List (SSt × SRes) → List (SASt × SRes) → Prop
  | [], [] => True
  | (s, r) :: t, (a, r') :: t' => r = r' ∧ SSim s a ∧ PInv a.pl.procs ∧ SSimTrace t t'
  | _, _ => False

theorem sql_refinement_from {s : SSt} {a : SASt} (es : List SqlEv) (tr : List (SASt × SRes))
    (hs : SSim s a) (hi : PInv a.pl.procs) (ht : satrace a es = some tr) (hr : sNoRegion a es = true) :
    SSimTrace (srun s es) tr := by
  induction es generalizing s a tr with
  | nil => simp only [satrace] at ht; cases ht; simp [srun, SSimTrace]
  | cons e es ih =>
    simp only [satrace] at ht
    split at ht
    · cases ht
    · rename_i a' r hstep
      split at ht
      · cases ht
      · rename_i t htr
        cases ht
        simp only [sNoRegion, hstep, Bool.and_eq_true, Bool.not_eq_true'] at hr
        obtain ⟨h1, h2, h3⟩ := sim_sql_step hs hi hstep hr.1
        simp only [srun, SSimTrace]
        exact ⟨h1, h2, h3, ih t h2 h3 htr hr.2⟩

theorem ssim_init : SSim SSt.init SASt.init := ⟨sim_init, rfl⟩

theorem good_of_ssimTrace {t : List (SSt × SRes)} {t' : List (SASt × SRes)} (h : SSimTrace t t') :
    ∀ x ∈ t, Good x.1.pl := by
  induction t generalizing t' with
  | nil => intro x hx; cases hx
  | cons y t ih =>
    cases t' with
    | nil => obtain ⟨s, r⟩ := y; simp [SSimTrace] at h
    | cons y' t' =>
      obtain ⟨s, r⟩ := y
      obtain ⟨a, r'⟩ := y'
      simp only [SSimTrace] at h
      intro x hx
      simp only [List.mem_cons] at hx
      rcases hx with hx | hx
      · subst hx; exact good_of_sim h.2.1.pl h.2.2.1
      · exact ih h.2.2.2 x hx

end Gms.ProcList

/-! # C37 — the property theorems -/

namespace Gms.C37
open Gms.ProcList

/-- **Refinement (guarded: `refinement_partial`).** For *every* history of calls that stays inside
the protocol of `sql.ProcessList` (the Spec machine `astep` answers every call) and avoids the two
listed defect regions (`remove_during_query`, `ready_during_operation`; the error returns of
`BeginQuery` are covered since the repair of F-C37-a, see `beginQuery_refines`), the Impl model of `ProcessList` returns the Spec's result at every call and
after every call its state is the Spec state plus exact redundant data: same session table
(`Processes()` shows exactly the connected sessions, each with the query it is running), same set
of cancelled contexts, `Threads_connected`/`Threads_running` equal to the derived counts, and
`byQueryPid` exactly the ground-truth owner relation.

The unguarded statement (without `noRegion`) is false for the code that exists — see
`finding_remove_during_query`, `finding_ready_during_operation`:

    theorem refinement (es tr) (ht : atrace ASt.init es = some tr) : SimTrace (run St.init es) tr -/
theorem refinement_partial (es : List Ev) (tr : List (ASt × Res))
    (ht : atrace ASt.init es = some tr) (hr : noRegion ASt.init es = true) :
    SimTrace (run St.init es) tr :=
  refinement_from es tr sim_init PInv_nil ht hr

/-- `Threads_connected` = number of sessions in the list, `Threads_running` = number of sessions
whose command is `Query`, `byQueryPid` = the owner relation, after every call of every covered
history. -/
theorem invariants_hold (es : List Ev) (tr : List (ASt × Res))
    (ht : atrace ASt.init es = some tr) (hr : noRegion ASt.init es = true) :
    ∀ x ∈ run St.init es, Good x.1 :=
  good_of_simTrace (refinement_partial es tr ht hr)

theorem inv_connected (es : List Ev) (tr : List (ASt × Res))
    (ht : atrace ASt.init es = some tr) (hr : noRegion ASt.init es = true) :
    ∀ x ∈ run St.init es, x.1.connected = (x.1.procs.length : Int) :=
  fun x hx => (invariants_hold es tr ht hr x hx).connected

theorem inv_running (es : List Ev) (tr : List (ASt × Res))
    (ht : atrace ASt.init es = some tr) (hr : noRegion ASt.init es = true) :
    ∀ x ∈ run St.init es, x.1.running = (cnt isQuery x.1.procs : Int) :=
  fun x hx => (invariants_hold es tr ht hr x hx).running

theorem inv_byPid (es : List Ev) (tr : List (ASt × Res))
    (ht : atrace ASt.init es = some tr) (hr : noRegion ASt.init es = true) :
    ∀ x ∈ run St.init es, ∀ pid c, lookup x.1.byPid pid = some c ↔ Owner x.1.procs pid c :=
  fun x hx => (invariants_hold es tr ht hr x hx).byPid

/-- Non-vacuity: a two-connection history with a double `EndQuery`, a `KILL` of a running query, a
`KILL` of an unknown id, an operation, an error return of `BeginOperation` and a disconnect is
covered (inside the protocol, outside the regions). -/
def sampleHistory : List Ev :=
  [.add 1, .ready 1, .add 2, .ready 2, .beginQ 1 1, .kill 1, .beginOp 1, .endQ 1 1, .endQ 1 1,
   .beginOp 2, .kill 7, .endOp 2, .beginQ 2 2, .beginQ 1 3, .kill 2, .endQ 2 2, .remove 2, .endQ 1 3, .remove 1]

/-- Non-vacuity for the error returns of `BeginQuery` (covered since the repair of F-C37-a): an
unregistered connection, a query id in use by another connection, the same after the query ended. -/
def sampleHistoryErr : List Ev :=
  [.beginQ 1 1, .add 1, .ready 1, .add 2, .ready 2, .beginQ 1 1, .beginQ 2 1, .beginQ 3 2, .endQ 1 1,
   .beginQ 2 1, .beginQ 2 1, .endQ 2 1, .remove 1, .beginQ 1 4, .remove 2]

example : (atrace ASt.init sampleHistoryErr).isSome = true ∧ noRegion ASt.init sampleHistoryErr = true := by decide
example : (run St.init sampleHistoryErr).map (·.2) =
    [.errNotRegistered, .done, .done, .done, .done, .ok 0, .errPidUsed, .errNotRegistered, .done,
     .ok 1, .errPidUsed, .done, .done, .errNotRegistered, .done] ∧
    (run St.init sampleHistoryErr).map (·.1.running) = [0, 0, 0, 0, 0, 1, 1, 1, 0, 1, 1, 0, 0, 0, 0] := by decide

example : (atrace ASt.init sampleHistory).isSome = true ∧ noRegion ASt.init sampleHistory = true := by decide
example : (exec St.init sampleHistory).cancelled = [3, 2, 1, 0] ∧ (exec St.init sampleHistory).running = 0 := by decide

/-- **KILL (and every other call) cancels only the targeted work — all states, all calls, no
protocol assumption.** A context that is cancelled after a call was cancelled before it, or its
cancel func was the one registered for the connection the call names. -/
theorem kill_targets_only (s : St) (e : Ev) (t : Nat) (h : t ∈ (step s e).1.cancelled) :
    t ∈ s.cancelled ∨ held s.procs e.conn = some t :=
  (step_shape s e).cancelled t h

/-- `Kill c` itself: exactly the registered cancel func of `c` is called, nothing else changes. -/
theorem kill_exact (s : St) (c : Nat) :
    (step s (.kill c)).1 = { s with cancelled := cancelOpt s.cancelled (held s.procs c) } := by
  cases hl : lookup s.procs c with
  | none => simp [step, hl, held, cancelOpt]
  | some p => simp [step, hl, held]

example : (step (exec St.init [.add 1, .ready 1, .add 2, .ready 2, .beginQ 1 5, .beginQ 2 6]) (.kill 2)).1.cancelled = [1] := by
  decide

/-- A call on one connection never changes what is registered for another connection. -/
theorem other_connections_untouched (s : St) (e : Ev) (c : Nat) (h : c ≠ e.conn) :
    held (step s e).1.procs c = held s.procs c :=
  (step_shape s e).others c h

/-- Token discipline holds after *every* history whatsoever (also outside the protocol). -/
theorem tokens_disciplined (es : List Ev) : TokInv (exec St.init es) :=
  tokInv_exec St.init es tokInv_init

/-- **A cancellation never affects a later query on the same connection — all histories.** The
context handed out by a successful `BeginQuery`/`BeginOperation` after any history is not cancelled
at that moment and is not the context of any other connection; by `kill_targets_only` it can from
then on only be cancelled by a call that names its own connection while it is still registered. -/
theorem no_late_cancel (es : List Ev) (e : Ev) (tok : Nat)
    (h : (step (exec St.init es) e).2 = .ok tok) :
    tok ∉ (step (exec St.init es) e).1.cancelled ∧
    held (step (exec St.init es) e).1.procs e.conn = some tok ∧
    ∀ c, c ≠ e.conn → held (step (exec St.init es) e).1.procs c ≠ some tok := by
  have hi := tokens_disciplined es
  have hi' := tokInv_of_shape hi (step_shape (exec St.init es) e)
  generalize exec St.init es = s at *
  have hs := step_shape s e
  -- a successful Begin returns the supply value and registers it
  have key : tok = s.nextTok ∧ held (step s e).1.procs e.conn = some tok := by
    cases e with
    | beginQ c pid =>
      cases hl : lookup s.procs c with
      | none => simp [step, hl] at h
      | some p =>
        cases hb : lookup s.byPid pid with
        | some x => simp [step, hl, hb] at h
        | none =>
          simp only [step, hl, hb] at h ⊢
          cases h
          exact ⟨rfl, by simp [held_insert, Ev.conn]⟩
    | beginOp c =>
      cases hl : lookup s.procs c with
      | none => simp [step, hl] at h
      | some p =>
        cases hk : p.kill with
        | some x => simp [step, hl, hk] at h
        | none =>
          simp only [step, hl, hk] at h ⊢
          cases h
          exact ⟨rfl, by simp [held_insert, Ev.conn]⟩
    | add c => simp [step] at h
    | ready c => simp [step] at h
    | remove c => cases hl : lookup s.procs c <;> simp [step, hl] at h
    | endQ c pid =>
      cases hl : lookup s.procs c with
      | none => simp [step, hl] at h
      | some p =>
        by_cases hp : p.pid = pid
        · cases hk : p.kill <;> simp [step, hl, hp, hk] at h
        · simp [step, hl, hp] at h
    | endOp c =>
      cases hl : lookup s.procs c with
      | none => simp [step, hl] at h
      | some p => cases hk : p.kill <;> simp [step, hl, hk] at h
    | kill c => cases hl : lookup s.procs c <;> simp [step, hl] at h
  obtain ⟨htok, hheld⟩ := key
  refine ⟨?_, hheld, ?_⟩
  · intro hmem
    rcases hs.cancelled tok hmem with h1 | h1
    · exact absurd (hi.cancLt tok h1) (by rw [htok]; exact Nat.lt_irrefl _)
    · exact absurd (hi.heldLt _ tok h1) (by rw [htok]; exact Nat.lt_irrefl _)
  · intro c hc hh
    exact hc (hi'.heldInj c e.conn tok hh hheld)

example : (step (exec St.init [.add 1, .ready 1, .beginQ 1 1, .kill 1, .endQ 1 1]) (.beginQ 1 2)).2 = .ok 1 := by decide

/-! ## The SQL layer: KILL / SHOW PROCESSLIST statements executed through the engine -/

/-- **Refinement at the SQL layer (guarded by the same two regions; no statement is in a region).**
For every history of direct `ProcessList` calls *and* statements `KILL QUERY n` / `KILL CONNECTION n` /
`KILL n` / `SHOW PROCESSLIST` executed through the engine that stays inside the protocol and whose
direct calls avoid the two listed regions, the model of the engine path (rowexec `buildKill`,
`buildShowProcessList`, the tracked iterator's `EndQuery`) returns the Spec's result at every call —
for `SHOW PROCESSLIST` the rows are exactly the Spec's sessions with their running queries — makes
exactly the Spec's close requests, and keeps the `ProcessList` state in the relation `Sim`. -/
theorem sql_refinement_partial (es : List SqlEv) (tr : List (SASt × SRes))
    (ht : satrace SASt.init es = some tr) (hr : sNoRegion SASt.init es = true) :
    SSimTrace (srun SSt.init es) tr :=
  sql_refinement_from es tr ssim_init PInv_nil ht hr

/-- Counters = counts and pid index = owners after every call of every covered SQL-layer history. -/
theorem sql_invariants_hold (es : List SqlEv) (tr : List (SASt × SRes))
    (ht : satrace SASt.init es = some tr) (hr : sNoRegion SASt.init es = true) :
    ∀ x ∈ srun SSt.init es, Good x.1.pl :=
  good_of_ssimTrace (sql_refinement_partial es tr ht hr)

/-- **Lowering — all histories, no protocol assumed.** The `ProcessList` state after a history with
statements is the state after the history in which every statement is replaced by the direct calls it
stands for (`KILL … c` by `Kill c; EndQuery`, `SHOW PROCESSLIST` by `EndQuery`). Everything proved
about all histories of direct calls therefore holds with statements in them. -/
theorem sql_lowering (es : List SqlEv) : (sexec SSt.init es).pl = exec St.init (lowerAll es) :=
  sexec_pl SSt.init es

/-- Token discipline after every SQL-layer history whatsoever. -/
theorem sql_tokens_disciplined (es : List SqlEv) : TokInv (sexec SSt.init es).pl := by
  rw [sql_lowering]; exact tokens_disciplined (lowerAll es)

/-- A cancellation by a KILL statement never affects a later query: the context handed out by a
successful `BeginQuery`/`BeginOperation` after any SQL-layer history is fresh and registered for its
own connection only. -/
theorem sql_no_late_cancel (es : List SqlEv) (e : Ev) (tok : Nat)
    (h : (step (sexec SSt.init es).pl e).2 = .ok tok) :
    tok ∉ (step (sexec SSt.init es).pl e).1.cancelled ∧
    held (step (sexec SSt.init es).pl e).1.procs e.conn = some tok ∧
    ∀ c, c ≠ e.conn → held (step (sexec SSt.init es).pl e).1.procs c ≠ some tok := by
  rw [sql_lowering] at h ⊢
  exact no_late_cancel (lowerAll es) e tok h

/-- **A KILL statement of either type cancels what the target is doing — every state, every issuer,
no protocol assumed.** If a cancel func is registered for connection `c` (a running query or an
operation), it has been called when `KILL QUERY c` / `KILL CONNECTION c` / `KILL c` returns. -/
theorem kill_stmt_cancels_target (s : SSt) (kt : KillType) (i pid c t : Nat)
    (h : held s.pl.procs c = some t) :
    t ∈ (sstep s (.killStmt kt i pid c)).1.pl.cancelled := by
  have h1 : t ∈ (step s.pl (.kill c)).1.cancelled := by
    rw [kill_exact, h]; exact mem_cancel_self _ _
  have h2 := (step_shape (step s.pl (.kill c)).1 (.endQ i pid)).mono t h1
  simpa [sstep, closeStmt, killStmtBody_pl] using h2

/-- **… and nothing else**: a context that is cancelled after a KILL statement was cancelled before,
or it was registered for the target, or it is the issuing statement's own (ended by the engine's
`EndQuery`). -/
theorem kill_stmt_targets_only (s : SSt) (kt : KillType) (i pid c t : Nat)
    (h : t ∈ (sstep s (.killStmt kt i pid c)).1.pl.cancelled) :
    t ∈ s.pl.cancelled ∨ held s.pl.procs c = some t ∨ held s.pl.procs i = some t := by
  have h' : t ∈ (step (step s.pl (.kill c)).1 (.endQ i pid)).1.cancelled := by
    simpa [sstep, closeStmt, killStmtBody_pl] using h
  rcases kill_targets_only _ _ t h' with h1 | h1
  · rcases kill_targets_only _ _ t h1 with h2 | h2
    · exact Or.inl h2
    · exact Or.inr (Or.inl h2)
  · right; right
    rw [kill_exact] at h1
    exact h1

/-- The two kill types differ in the close request only: on the `ProcessList` they do the same. -/
theorem kill_stmt_types_agree (s : SSt) (i pid c : Nat) :
    (sstep s (.killStmt .connection i pid c)).1.pl = (sstep s (.killStmt .query i pid c)).1.pl := by
  simp [sstep, closeStmt, killStmtBody_pl]

/-- **Close requests — all histories.** The connections the server is asked to close are exactly the
targets of the `KILL CONNECTION` / `KILL` statements, in order: `KILL QUERY`, `SHOW PROCESSLIST` and
the direct calls request nothing. -/
theorem close_requests_exact (es : List SqlEv) : (sexec SSt.init es).closed = closeRequests es := by
  rw [sexec_closed]; rfl

/-- Non-vacuity: `KILL CONNECTION 2` issued by connection 1 while connection 2 runs a query — covered
(inside the protocol, outside the regions); connection 2's context (token 1) is cancelled, the issuer's
own query (token 0) is ended, connection 2 is still listed in command Query with its `Threads_running`
count (the server removes it when its handler unwinds) and exactly connection 2 is asked to close. -/
def sampleSqlKillConn : List SqlEv :=
  [.call (.add 1), .call (.ready 1), .call (.add 2), .call (.ready 2), .call (.beginQ 1 1), .call (.beginQ 2 2),
   .killStmt .connection 1 1 2, .call (.endQ 1 1)]

example : (satrace SASt.init sampleSqlKillConn).isSome = true ∧ sNoRegion SASt.init sampleSqlKillConn = true := by decide
example : (sexec SSt.init sampleSqlKillConn).pl.cancelled = [0, 1] ∧ (sexec SSt.init sampleSqlKillConn).closed = [2] ∧
    (sexec SSt.init sampleSqlKillConn).pl.running = 1 := by decide
example : held (sexec SSt.init (sampleSqlKillConn.take 6)).pl.procs 2 = some 1 := by decide

/-- Non-vacuity: `KILL QUERY`, `KILL CONNECTION` of a busy and of an idle connection, `SHOW PROCESSLIST`
and a `KILL` of an unknown id on four connections (harness corpus case 9). -/
def sampleSqlHistory : List SqlEv :=
  [.call (.add 1), .call (.ready 1), .call (.add 2), .call (.ready 2), .call (.add 3), .call (.ready 3), .call (.add 4), .call (.ready 4),
   .call (.beginQ 2 1), .call (.beginQ 3 2), .call (.beginQ 4 3),
   .call (.beginQ 1 4), .killStmt .query 1 4 2, .call (.endQ 1 4),
   .call (.beginQ 1 5), .killStmt .connection 1 5 3, .call (.endQ 1 5),
   .call (.endQ 2 1),
   .call (.beginQ 1 6), .killStmt .connection 1 6 2, .call (.endQ 1 6),
   .call (.beginQ 1 7), .show 1 7, .call (.endQ 1 7),
   .call (.beginQ 1 8), .killStmt .connection 1 8 77, .call (.endQ 1 8),
   .call (.endQ 3 2), .call (.remove 3), .call (.endQ 4 3)]

example : (satrace SASt.init sampleSqlHistory).isSome = true ∧ sNoRegion SASt.init sampleSqlHistory = true := by decide
example : (sexec SSt.init sampleSqlHistory).closed = [3, 2, 77] ∧ (sexec SSt.init sampleSqlHistory).pl.running = 0 ∧
    2 ∉ (sexec SSt.init (sampleSqlHistory.take 17)).pl.cancelled ∧ 1 ∈ (sexec SSt.init (sampleSqlHistory.take 17)).pl.cancelled := by decide

/-! ## The repaired defect F-C37-a (`begin_query_error_path`) -/

/-- **Full statement for `BeginQuery` (holds since the `fix:` commit; it was false before).** Every
`BeginQuery` call inside the protocol — success *and* both error returns, no region guard — returns the
Spec's result and re-establishes the refinement relation, in particular `Threads_running` = number
of sessions in command Query. -/
theorem beginQuery_refines {s : St} {a a' : ASt} {c pid : Nat} {r : Res}
    (hs : Sim s a) (hi : PInv a.procs) (h : astep a (.beginQ c pid) = some (a', r)) :
    (step s (.beginQ c pid)).2 = r ∧ Sim (step s (.beginQ c pid)).1 a' ∧ PInv a'.procs :=
  sim_beginQ hs hi h

/-- **A failed `BeginQuery` has no effect — every state, every argument, no protocol assumed.** If the
call does not hand out a context, the whole `ProcessList` state (the two counters, the process list,
the pid index, the cancelled contexts) is what it was. -/
theorem beginQuery_error_no_effect (s : St) (c pid : Nat)
    (h : ∀ tok, (step s (.beginQ c pid)).2 ≠ .ok tok) : (step s (.beginQ c pid)).1 = s := by
  cases hl : lookup s.procs c with
  | none => simp [step, hl]
  | some p =>
    cases hb : lookup s.byPid pid with
    | some x => simp [step, hl, hb]
    | none => exact absurd (by simp [step, hl, hb]) (h s.nextTok)

/-- `Threads_running` moves in `BeginQuery` exactly when a context is handed out. -/
theorem beginQuery_running (s : St) (c pid : Nat) :
    (step s (.beginQ c pid)).1.running =
      s.running + (match (step s (.beginQ c pid)).2 with | .ok _ => 1 | _ => 0) := by
  cases hl : lookup s.procs c with
  | none => simp [step, hl]
  | some p =>
    cases hb : lookup s.byPid pid with
    | some x => simp [step, hl, hb]
    | none => simp [step, hl, hb]

example : (step St.init (.beginQ 1 1)).2 = .errNotRegistered ∧ (step St.init (.beginQ 1 1)).1.running = 0 := by decide
example : (step (exec St.init [.add 1, .ready 1]) (.beginQ 1 1)).2 = .ok 0 ∧
    (step (exec St.init [.add 1, .ready 1]) (.beginQ 1 1)).1.running = 1 := by decide

/-- Witness of the repaired defect, first error return: before the `fix:` commit `BeginQuery` on an
unregistered connection returned its error *after* counting the query (`Threads_running` = 1 with no
session at all); the repaired `BeginQuery` leaves the counter at 0. If the increment moves back above
the error returns, `facts_match` breaks and this history is the replay. -/
theorem fixed_begin_query_error_path :
    ∃ es, (atrace ASt.init es).isSome = true ∧
      (execPreFix St.init es).running ≠ (cnt isQuery (execPreFix St.init es).procs : Int) ∧
      (exec St.init es).running = (cnt isQuery (exec St.init es).procs : Int) :=
  ⟨[.beginQ 1 1], by decide⟩

/-- Witness of the repaired defect, second error return: the query id is already in use. -/
theorem fixed_begin_query_error_path_dup_pid :
    ∃ es, (atrace ASt.init es).isSome = true ∧
      (execPreFix St.init es).running ≠ (cnt isQuery (execPreFix St.init es).procs : Int) ∧
      (exec St.init es).running = (cnt isQuery (exec St.init es).procs : Int) :=
  ⟨[.add 1, .ready 1, .add 2, .ready 2, .beginQ 1 1, .beginQ 2 1], by decide⟩

/-- Both old witnesses are inside the protocol and outside every remaining region, i.e. they are now
covered by `refinement_partial` / `invariants_hold`. -/
theorem fixed_witnesses_covered :
    noRegion ASt.init [.beginQ 1 1] = true ∧
    noRegion ASt.init [.add 1, .ready 1, .add 2, .ready 2, .beginQ 1 1, .beginQ 2 1] = true ∧
    beginQueryErrorCall ASt.init (.beginQ 1 1) = true := by decide

/-! ## Findings on the unchanged tree -/

/-- F-C37-b. `RemoveConnection` while the connection's query is registered never gives the
`Threads_running` increment back (the later `EndQuery` finds no process). -/
theorem finding_remove_during_query :
    ∃ es, (atrace ASt.init es).isSome = true ∧
      (exec St.init es).running ≠ (cnt isQuery (exec St.init es).procs : Int) :=
  ⟨[.add 1, .ready 1, .beginQ 1 1, .remove 1, .endQ 1 1], by decide⟩

/-- `ConnectionReady` inside a registered operation (the order of calls in
`SessionManager.SetDB`) replaces the `Process` struct and with it the operation's cancel func:
a `KILL` that the Spec delivers to the operation is lost, and `EndOperation` no longer cancels the
sub-context. -/
theorem finding_ready_during_operation :
    ∃ es a, aexec ASt.init es = some a ∧ (exec St.init es).cancelled ≠ a.cancelled :=
  ⟨[.add 1, .beginOp 1, .ready 1, .kill 1, .endOp 1], _, rfl, by decide⟩

/-- Every witness above lies in its region (so the guard of `refinement_partial` is exactly what
excludes it). -/
theorem findings_in_regions :
    noRegion ASt.init [.add 1, .ready 1, .beginQ 1 1, .remove 1, .endQ 1 1] = false ∧
    noRegion ASt.init [.add 1, .beginOp 1, .ready 1, .kill 1, .endOp 1] = false := by decide

/-! ## Regenerated facts -/

/-- The code read back from /repo's working tree still has the shape the model transliterates:
the four counter updates sit in the four methods with these deltas, the `Threads_running` increment
of `BeginQuery` comes after both of its error returns (the repair of F-C37-a: none of the two error
returns follows the increment — if the increment moves back up, this obligation breaks and
`fixed_begin_query_error_path` is the replay), `RemoveConnection` does not touch
`Threads_running`, every event method holds `pl.mu` (atomic steps), `EndQuery`/`EndOperation`/`Kill`
guard (or not) the `Kill` func exactly as modelled, and the command names are the three MySQL
ones. SQL layer: the iterator body of rowexec `buildKill` calls `ProcessList.Kill` for *both* kill types
and `KillConnection` in addition for type Connection only (`killStmtBody`; the calls are evaluated per
kill type from the if/switch structure, so a `KILL CONNECTION` that no longer calls `Kill` breaks this
obligation and `sampleSqlKillConn` is the replay), planbuilder maps `Kill.Connection` to the two types as
modelled, and every statement's iterator is still wrapped by the tracked iterator whose `done` calls
`ProcessList.EndQuery` (`closeStmt`). -/
theorem facts_match :
    Generated.C37.counterEffects = counterEffects ∧
    Generated.C37.beginQueryIncrementBeforeErrorReturns = false ∧
    Generated.C37.beginQueryErrorReturns = 2 ∧
    Generated.C37.beginQueryErrorReturnsAfterIncrement = 0 ∧
    Generated.C37.methodsUnderMutex =
      ["AddConnection", "BeginOperation", "BeginQuery", "ConnectionReady", "EndOperation", "EndQuery", "Kill",
       "Processes", "RemoveConnection"] ∧
    Generated.C37.killNilGuards = [("EndOperation", true), ("EndQuery", false), ("Kill", true), ("RemoveConnection", true)] ∧
    Generated.C37.commandNames = [("ProcessCommandConnect", "Connect"), ("ProcessCommandQuery", "Query"), ("ProcessCommandSleep", "Sleep")] ∧
    Generated.C37.killStmtCalls = killStmtCalls ∧
    Generated.C37.killPlanTypes = killPlanTypes ∧
    Generated.C37.trackedIterDoneCalls = ["ProcessList.EndQuery"] ∧
    Generated.C37.finalizeItersAddsTrackedIter = true := by
  decide

end Gms.C37
