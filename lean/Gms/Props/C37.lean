/-
C37 — Process list and KILL track and cancel exactly the targeted work.

Helper lemmas first (namespace `Gms.ProcList`), the property theorems at the end in `Gms.C37`.
-/
import Gms.Model.ProcList
import Gms.Generated.C37

namespace Gms.ProcList

/-! ## Association-list lemmas -/

section maps
variable {β : Type}

theorem lookup_insert (m : List (Nat × β)) (k k' : Nat) (v : β) :
    lookup (insert m k v) k' = if k = k' then some v else lookup m k' := by
  induction m with
  | nil => simp [insert, lookup]
  | cons x m ih =>
    obtain ⟨a, b⟩ := x
    by_cases h : a = k
    · subst h
      by_cases h' : a = k' <;> simp [insert, lookup, h']
    · by_cases h' : a = k'
      · subst h'
        have : ¬ k = a := fun e => h e.symm
        simp [insert, lookup, h, this]
      · simp [insert, lookup, h, h', ih]

theorem lookup_erase (m : List (Nat × β)) (k k' : Nat) :
    lookup (erase m k) k' = if k = k' then none else lookup m k' := by
  induction m with
  | nil => simp [erase, lookup]
  | cons x m ih =>
    obtain ⟨a, b⟩ := x
    by_cases h : a = k
    · subst h
      by_cases h' : a = k'
      · subst h'; simpa [erase] using ih
      · simp [erase, lookup, h', ih]
    · by_cases h' : a = k'
      · subst h'
        have : ¬ k = a := fun e => h e.symm
        simp [erase, lookup, h, this]
      · simp [erase, lookup, h, h', ih]

theorem lookup_none_iff (m : List (Nat × β)) (k : Nat) : lookup m k = none ↔ k ∉ keys m := by
  induction m with
  | nil => simp [lookup, keys]
  | cons x m ih =>
    obtain ⟨a, b⟩ := x
    by_cases h : a = k
    · subst h; simp [lookup, keys]
    · have h2 : ¬ k = a := fun e => h e.symm
      simp only [lookup, h, if_false, ih, keys, List.map_cons, List.mem_cons, h2, false_or]

theorem keys_insert_of_mem (m : List (Nat × β)) (k : Nat) (v : β) (h : k ∈ keys m) :
    keys (insert m k v) = keys m := by
  induction m with
  | nil => simp [keys] at h
  | cons x m ih =>
    obtain ⟨a, b⟩ := x
    by_cases h1 : a = k
    · subst h1; simp [insert, keys]
    · have : k ∈ keys m := by
        simp only [keys, List.map_cons, List.mem_cons] at h
        rcases h with h | h
        · exact absurd h.symm h1
        · exact h
      have ih' := ih this
      simp only [keys] at ih' ⊢
      simp [insert, h1, ih']

theorem keys_insert_of_not_mem (m : List (Nat × β)) (k : Nat) (v : β) (h : k ∉ keys m) :
    keys (insert m k v) = keys m ++ [k] := by
  induction m with
  | nil => simp [keys, insert]
  | cons x m ih =>
    obtain ⟨a, b⟩ := x
    simp only [keys, List.map_cons, List.mem_cons, not_or] at h
    have h1 : ¬ a = k := fun e => h.1 e.symm
    have ih' := ih h.2
    simp only [keys] at ih' ⊢
    simp [insert, h1, ih']

theorem nodup_insert (m : List (Nat × β)) (k : Nat) (v : β) (h : (keys m).Nodup) :
    (keys (insert m k v)).Nodup := by
  by_cases hk : k ∈ keys m
  · rw [keys_insert_of_mem m k v hk]; exact h
  · rw [keys_insert_of_not_mem m k v hk]
    rw [List.nodup_append]
    refine ⟨h, by simp, ?_⟩
    intro a ha b hb
    simp at hb
    subst hb
    intro e; subst e; exact hk ha

theorem keys_erase_sublist (m : List (Nat × β)) (k : Nat) : (keys (erase m k)).Sublist (keys m) := by
  induction m with
  | nil => simp [erase, keys]
  | cons x m ih =>
    obtain ⟨a, b⟩ := x
    by_cases h : a = k
    · simp only [erase, h, if_true, keys, List.map_cons]
      exact List.Sublist.cons _ ih
    · simp only [erase, h, if_false, keys, List.map_cons]
      exact List.Sublist.cons_cons _ ih

theorem nodup_erase (m : List (Nat × β)) (k : Nat) (h : (keys m).Nodup) : (keys (erase m k)).Nodup :=
  List.Nodup.sublist (keys_erase_sublist m k) h

theorem erase_of_not_mem (m : List (Nat × β)) (k : Nat) (h : k ∉ keys m) : erase m k = m := by
  induction m with
  | nil => rfl
  | cons x m ih =>
    obtain ⟨a, b⟩ := x
    simp only [keys, List.map_cons, List.mem_cons, not_or] at h
    have h1 : ¬ a = k := fun e => h.1 e.symm
    have := ih h.2
    simp [erase, h1, this]

def cntOpt (f : β → Nat) : Option β → Nat
  | none => 0
  | some v => f v

/-- Counting after `m[k] = v` (no subtraction: the old value is added on the left). -/
theorem cnt_insert (f : β → Nat) (m : List (Nat × β)) (k : Nat) (v : β) :
    cnt f (insert m k v) + cntOpt f (lookup m k) = cnt f m + f v := by
  induction m with
  | nil => simp [insert, cnt, lookup, cntOpt]
  | cons x m ih =>
    obtain ⟨a, b⟩ := x
    by_cases h : a = k
    · subst h; simp [insert, cnt, lookup, cntOpt]; omega
    · simp only [insert, h, if_false, cnt, lookup]; omega

/-- Counting after `delete(m, k)` (keys are unique). -/
theorem cnt_erase (f : β → Nat) (m : List (Nat × β)) (k : Nat) (hn : (keys m).Nodup) :
    cnt f (erase m k) + cntOpt f (lookup m k) = cnt f m := by
  induction m with
  | nil => simp [erase, cnt, lookup, cntOpt]
  | cons x m ih =>
    obtain ⟨a, b⟩ := x
    simp only [keys, List.map_cons, List.nodup_cons] at hn
    by_cases h : a = k
    · subst h
      have : erase m a = m := erase_of_not_mem m a hn.1
      simp [erase, cnt, lookup, cntOpt, this]; omega
    · have := ih hn.2
      simp only [erase, h, if_false, cnt, lookup]; omega

theorem cnt_one_eq_length (m : List (Nat × β)) : cnt (fun _ => 1) m = m.length := by
  induction m with
  | nil => rfl
  | cons x m ih => obtain ⟨a, b⟩ := x; simp [cnt, ih]; omega

end maps

/-! ## Ground truth `Owner` and the executable `pidOwner` -/

theorem owner_insert (m : List (Nat × Proc)) (k : Nat) (v : Proc) (pid c : Nat) :
    Owner (insert m k v) pid c ↔ (if k = c then (v.cmd = .query ∧ v.pid = pid) else Owner m pid c) := by
  unfold Owner
  rw [lookup_insert]
  by_cases h : k = c
  · simp only [h, if_true]
    constructor
    · rintro ⟨p, hp, h1, h2⟩; cases hp; exact ⟨h1, h2⟩
    · rintro ⟨h1, h2⟩; exact ⟨v, rfl, h1, h2⟩
  · simp only [h, if_false]

theorem owner_erase (m : List (Nat × Proc)) (k : Nat) (pid c : Nat) :
    Owner (erase m k) pid c ↔ (k ≠ c ∧ Owner m pid c) := by
  unfold Owner
  rw [lookup_erase]
  by_cases h : k = c
  · simp [h]
  · simp [h]

theorem lookup_some_mem_keys {β : Type} (m : List (Nat × β)) (k : Nat) (v : β) (h : lookup m k = some v) :
    k ∈ keys m := by
  by_cases hk : k ∈ keys m
  · exact hk
  · rw [← lookup_none_iff] at hk; rw [hk] at h; cases h

theorem pidOwner_some (m : List (Nat × Proc)) (pid c : Nat) (hn : (keys m).Nodup)
    (h : pidOwner m pid = some c) : Owner m pid c := by
  induction m with
  | nil => simp [pidOwner] at h
  | cons x m ih =>
    obtain ⟨k, p⟩ := x
    simp only [keys, List.map_cons, List.nodup_cons] at hn
    simp only [pidOwner] at h
    split at h
    · rename_i hq
      cases h
      exact ⟨p, by simp [lookup], hq.1, hq.2⟩
    · obtain ⟨p', hl, h1, h2⟩ := ih hn.2 h
      have hc : c ∈ keys m := lookup_some_mem_keys m c p' hl
      have : ¬ k = c := by intro e; subst e; exact hn.1 hc
      exact ⟨p', by simp [lookup, this, hl], h1, h2⟩

theorem pidOwner_none (m : List (Nat × Proc)) (pid : Nat) (h : pidOwner m pid = none) :
    ∀ c, ¬ Owner m pid c := by
  induction m with
  | nil => intro c ⟨p, hp, _⟩; simp [lookup] at hp
  | cons x m ih =>
    obtain ⟨k, p⟩ := x
    simp only [pidOwner] at h
    split at h
    · cases h
    · rename_i hq
      intro c ⟨p', hl, h1, h2⟩
      simp only [lookup] at hl
      split at hl
      · cases hl; exact hq ⟨h1, h2⟩
      · exact ih h c ⟨p', hl, h1, h2⟩

/-! ## Invariant of the Spec state -/

/-- Well-formedness of the session table of the Spec machine. -/
structure PInv (m : List (Nat × Proc)) : Prop where
  nodup : (keys m).Nodup
  wfq : ∀ c p, lookup m c = some p → p.cmd = .query → p.pid ≠ 0 ∧ p.kill ≠ none
  wfn : ∀ c p, lookup m c = some p → p.cmd ≠ .query → p.pid = 0 ∧ p.query = none
  uniq : ∀ pid c c', Owner m pid c → Owner m pid c' → c = c'

def GoodVal (m : List (Nat × Proc)) (c : Nat) (v : Proc) : Prop :=
  (v.cmd = .query → v.pid ≠ 0 ∧ v.kill ≠ none ∧ ∀ c', Owner m v.pid c' → c' = c) ∧
  (v.cmd ≠ .query → v.pid = 0 ∧ v.query = none)

theorem PInv_insert {m : List (Nat × Proc)} {c : Nat} {v : Proc} (h : PInv m) (hv : GoodVal m c v) :
    PInv (insert m c v) := by
  refine ⟨nodup_insert m c v h.nodup, ?_, ?_, ?_⟩
  · intro c' p hl hq
    rw [lookup_insert] at hl
    split at hl
    · cases hl; exact ⟨(hv.1 hq).1, (hv.1 hq).2.1⟩
    · exact h.wfq c' p hl hq
  · intro c' p hl hq
    rw [lookup_insert] at hl
    split at hl
    · cases hl; exact hv.2 hq
    · exact h.wfn c' p hl hq
  · intro pid c1 c2 h1 h2
    rw [owner_insert] at h1 h2
    by_cases e1 : c = c1 <;> by_cases e2 : c = c2
    · rw [← e1, ← e2]
    · simp only [e1, if_true] at h1
      simp only [e2, if_false] at h2
      have := (hv.1 h1.1).2.2 c2 (h1.2 ▸ h2)
      exact absurd this.symm e2
    · simp only [e1, if_false] at h1
      simp only [e2, if_true] at h2
      have := (hv.1 h2.1).2.2 c1 (h2.2 ▸ h1)
      exact absurd this.symm e1
    · simp only [e1, if_false] at h1
      simp only [e2, if_false] at h2
      exact h.uniq pid c1 c2 h1 h2

theorem PInv_erase {m : List (Nat × Proc)} (c : Nat) (h : PInv m) : PInv (erase m c) := by
  refine ⟨nodup_erase m c h.nodup, ?_, ?_, ?_⟩
  · intro c' p hl hq
    rw [lookup_erase] at hl
    split at hl
    · cases hl
    · exact h.wfq c' p hl hq
  · intro c' p hl hq
    rw [lookup_erase] at hl
    split at hl
    · cases hl
    · exact h.wfn c' p hl hq
  · intro pid c1 c2 h1 h2
    rw [owner_erase] at h1 h2
    exact h.uniq pid c1 c2 h1.2 h2.2

/-! ## Counting lemmas in the form the simulation needs -/

theorem len_insert_new {β : Type} (m : List (Nat × β)) (k : Nat) (v : β) (h : lookup m k = none) :
    (insert m k v).length = m.length + 1 := by
  have := cnt_insert (fun _ => 1) m k v
  rw [h] at this
  simp only [cntOpt, cnt_one_eq_length] at this
  omega

theorem len_insert_old {β : Type} (m : List (Nat × β)) (k : Nat) (v p : β) (h : lookup m k = some p) :
    (insert m k v).length = m.length := by
  have := cnt_insert (fun _ => 1) m k v
  rw [h] at this
  simp only [cntOpt, cnt_one_eq_length] at this
  omega

theorem len_erase {β : Type} (m : List (Nat × β)) (k : Nat) (p : β) (hn : (keys m).Nodup)
    (h : lookup m k = some p) : (erase m k).length + 1 = m.length := by
  have := cnt_erase (fun _ => 1) m k hn
  rw [h] at this
  simp only [cntOpt, cnt_one_eq_length] at this
  omega

theorem run_insert_new (m : List (Nat × Proc)) (k : Nat) (v : Proc) (h : lookup m k = none) :
    cnt isQuery (insert m k v) = cnt isQuery m + isQuery v := by
  have := cnt_insert isQuery m k v
  rw [h] at this
  simpa [cntOpt] using this

theorem run_insert_old (m : List (Nat × Proc)) (k : Nat) (v p : Proc) (h : lookup m k = some p) :
    cnt isQuery (insert m k v) + isQuery p = cnt isQuery m + isQuery v := by
  have := cnt_insert isQuery m k v
  rw [h] at this
  simpa [cntOpt] using this

theorem run_erase (m : List (Nat × Proc)) (k : Nat) (p : Proc) (hn : (keys m).Nodup)
    (h : lookup m k = some p) : cnt isQuery (erase m k) + isQuery p = cnt isQuery m := by
  have := cnt_erase isQuery m k hn
  rw [h] at this
  simpa [cntOpt] using this

theorem PInv_nil : PInv [] :=
  ⟨by simp [keys], by intro c p h; simp [lookup] at h, by intro c p h; simp [lookup] at h,
   by intro pid c c' ⟨p, h, _⟩; simp [lookup] at h⟩

/-! ## The forward simulation, one event at a time -/

theorem not_owner_of_nonquery {m : List (Nat × Proc)} {c : Nat} {p : Proc} (hl : lookup m c = some p)
    (hq : p.cmd ≠ .query) (pid : Nat) : ¬ Owner m pid c := by
  rintro ⟨p', hl', h1, _⟩
  rw [hl] at hl'; cases hl'; exact hq h1

theorem goodVal_nonquery (m : List (Nat × Proc)) (c : Nat) (v : Proc) (h : v.cmd ≠ .query)
    (h0 : v.pid = 0) (hq : v.query = none) : GoodVal m c v :=
  ⟨fun e => absurd e h, fun _ => ⟨h0, hq⟩⟩

theorem sim_add {s : St} {a a' : ASt} {c : Nat} {r : Res}
    (hs : Sim s a) (hi : PInv a.procs) (h : astep a (.add c) = some (a', r)) :
    (step s (.add c)).2 = r ∧ Sim (step s (.add c)).1 a' ∧ PInv a'.procs := by
  obtain ⟨hp, hc, hn, hcon, hrun, hby⟩ := hs
  simp only [astep] at h
  split at h
  · cases h
  · rename_i hl
    cases h
    refine ⟨rfl, ⟨?_, hc, hn, ?_, ?_, ?_⟩, ?_⟩
    · simp [step, hp, idleProc]
    · simp only [step, aConnected, hcon, len_insert_new _ c _ hl]; simp
    · simp only [step, aRunning, hrun, run_insert_new _ c _ hl]; simp [isQuery, idleProc]
    · intro pid c'
      simp only [step]
      rw [hby, owner_insert]
      by_cases e : c = c'
      · subst e
        simp only [if_true, idleProc]
        constructor
        · rintro ⟨p, hp', _⟩; rw [hl] at hp'; cases hp'
        · rintro ⟨h1, _⟩; cases h1
      · simp [e]
    · exact PInv_insert hi (goodVal_nonquery _ _ _ (by simp [idleProc]) rfl rfl)

theorem sim_ready {s : St} {a a' : ASt} {c : Nat} {r : Res}
    (hs : Sim s a) (hi : PInv a.procs) (h : astep a (.ready c) = some (a', r))
    (hr : regionReadyDuringOperation a (.ready c) = false) :
    (step s (.ready c)).2 = r ∧ Sim (step s (.ready c)).1 a' ∧ PInv a'.procs := by
  obtain ⟨hp, hc, hn, hcon, hrun, hby⟩ := hs
  simp only [astep] at h
  split at h
  · cases h
  · rename_i p hl
    split at h
    · cases h
    · rename_i hq
      cases h
      simp only [regionReadyDuringOperation, hl] at hr
      have hk : p.kill = none := by
        cases hk : p.kill with
        | none => rfl
        | some t => simp [hq, hk] at hr
      obtain ⟨h0, hqq⟩ := hi.wfn c p hl hq
      have hv : ({ p with cmd := Cmd.sleep } : Proc) = { cmd := .sleep, pid := 0, kill := none, query := none } := by
        cases p; simp_all
      rw [hv]
      refine ⟨rfl, ⟨?_, hc, hn, ?_, ?_, ?_⟩, ?_⟩
      · simp [step, hp]
      · simp only [step, aConnected, hcon, len_insert_old _ c _ p hl]
      · have := run_insert_old a.procs c { cmd := .sleep, pid := 0, kill := none, query := none } p hl
        have hp0 : isQuery p = 0 := by simp [isQuery, hq]
        have hv0 : isQuery { cmd := .sleep, pid := 0, kill := none, query := none } = 0 := by simp [isQuery]
        simp only [step, aRunning, hrun]
        omega
      · intro pid c'
        simp only [step]
        rw [hby, owner_insert]
        by_cases e : c = c'
        · subst e
          simp only [if_true]
          constructor
          · intro ho; exact absurd ho (not_owner_of_nonquery hl hq pid)
          · rintro ⟨h1, _⟩; cases h1
        · simp [e]
      · exact PInv_insert hi (goodVal_nonquery _ _ _ (by simp) rfl rfl)

theorem not_owner_zero {m : List (Nat × Proc)} (hi : PInv m) (c : Nat) : ¬ Owner m 0 c := by
  rintro ⟨p, hl, h1, h2⟩
  exact (hi.wfq c p hl h1).1 h2

theorem sim_remove {s : St} {a a' : ASt} {c : Nat} {r : Res}
    (hs : Sim s a) (hi : PInv a.procs) (h : astep a (.remove c) = some (a', r))
    (hr : regionRemoveDuringQuery a (.remove c) = false) :
    (step s (.remove c)).2 = r ∧ Sim (step s (.remove c)).1 a' ∧ PInv a'.procs := by
  obtain ⟨hp, hc, hn, hcon, hrun, hby⟩ := hs
  simp only [astep] at h
  split at h
  · rename_i hl
    cases h
    have hl' : lookup s.procs c = none := by rw [hp]; exact hl
    simp only [step, hl']
    exact ⟨trivial, ⟨hp, hc, hn, hcon, hrun, hby⟩, hi⟩
  · rename_i p hl
    cases h
    have hl' : lookup s.procs c = some p := by rw [hp]; exact hl
    simp only [regionRemoveDuringQuery, hl, decide_eq_false_iff_not] at hr
    obtain ⟨h0, _⟩ := hi.wfn c p hl hr
    simp only [step, hl']
    refine ⟨trivial, ⟨?_, ?_, hn, ?_, ?_, ?_⟩, PInv_erase c hi⟩
    · simp [hp]
    · simp [hc]
    · have := len_erase a.procs c p hi.nodup hl
      simp only [aConnected, hcon]; omega
    · have := run_erase a.procs c p hi.nodup hl
      have hp0 : isQuery p = 0 := by simp [isQuery, hr]
      simp only [aRunning, hrun]; omega
    · intro pid c'
      simp only []
      rw [lookup_erase, owner_erase, h0]
      by_cases e : 0 = pid
      · subst e
        simp only [if_true]
        constructor
        · intro x; cases x
        · rintro ⟨_, ho⟩; exact absurd ho (not_owner_zero hi c')
      · simp only [e, if_false, hby]
        constructor
        · intro ho
          refine ⟨?_, ho⟩
          intro ecc; subst ecc
          exact not_owner_of_nonquery hl hr pid ho
        · exact fun x => x.2

theorem sim_beginQ {s : St} {a a' : ASt} {c pid : Nat} {r : Res}
    (hs : Sim s a) (hi : PInv a.procs) (h : astep a (.beginQ c pid) = some (a', r))
    (hr : regionBeginQueryError a (.beginQ c pid) = false) :
    (step s (.beginQ c pid)).2 = r ∧ Sim (step s (.beginQ c pid)).1 a' ∧ PInv a'.procs := by
  obtain ⟨hp, hc, hn, hcon, hrun, hby⟩ := hs
  simp only [astep] at h
  split at h
  · cases h
  · rename_i hpid
    split at h
    · rename_i hl
      simp [regionBeginQueryError, hl, hpid] at hr
    · rename_i p hl
      split at h
      · rename_i c' ho
        simp [regionBeginQueryError, ho, hpid] at hr
      · rename_i ho
        split at h
        · cases h
        · rename_i hidle
          cases h
          have hsleep : p.cmd = .sleep := by
            cases hcmd : p.cmd <;> simp_all
          have hkill : p.kill = none := by
            cases hk : p.kill <;> simp_all
          have hq : p.cmd ≠ .query := by rw [hsleep]; simp
          have hno := pidOwner_none a.procs pid ho
          have hl' : lookup s.procs c = some p := by rw [hp]; exact hl
          have hb : lookup s.byPid pid = none := by
            cases hb : lookup s.byPid pid with
            | none => rfl
            | some c' => exact absurd ((hby pid c').1 hb) (hno c')
          simp only [step, hl', hb]
          refine ⟨by rw [hn], ⟨?_, hc, ?_, ?_, ?_, ?_⟩, ?_⟩
          · simp [hp, hn]
          · simp [hn]
          · simp only [aConnected, hcon, len_insert_old _ c _ p hl]
          · have := run_insert_old a.procs c { cmd := .query, pid := pid, kill := some a.nextTok, query := some pid } p hl
            have hp0 : isQuery p = 0 := by simp [isQuery, hq]
            have hv1 : isQuery { cmd := .query, pid := pid, kill := some a.nextTok, query := some pid } = 1 := by
              simp [isQuery]
            simp only [aRunning, hrun]
            omega
          · intro pid' c'
            simp only []
            rw [lookup_insert, owner_insert]
            by_cases e : pid = pid'
            · subst e
              by_cases e2 : c = c'
              · simp [e2]
              · simp only [e2, if_false, if_true]
                constructor
                · intro x; cases x; exact absurd rfl e2
                · intro x; exact absurd x (hno c')
            · simp only [e, if_false, hby]
              by_cases e2 : c = c'
              · subst e2
                simp only [if_true]
                constructor
                · intro x; exact absurd x (not_owner_of_nonquery hl hq pid')
                · intro x; exact absurd x.2 e
              · simp [e2]
          · refine PInv_insert hi ⟨?_, ?_⟩
            · intro _
              refine ⟨hpid, by simp, ?_⟩
              intro c' hc'; exact absurd hc' (hno c')
            · intro x; exact absurd rfl x

end Gms.ProcList
