/-
C07 — Grouping and de-duplication use the same equality as '='.

Model: Gms/Model/HashEq.lean. Facts regenerated from /repo: Gms/Generated/C07.lean.

Contents
* text forms are injective (`natText_inj`, `intText_inj`, `decText_inj`)
* per value class, "same key" ⇔ `=` (`int_key_iff_eq`, `dec_key_iff_eq_partial`, `str_key_iff_eq`,
  `simple_*`), with the witnesses of the classes where it fails
* every operator only consults the relation on the values it is given (`runWith_congr`), hence
  `op_partial`: on a case whose values are key-faithful the operator returns what `=` demands
* `finding_*`: one witness per (operator, defect class) region of the unchanged tree
* `facts_match`, `sites_match`: the regenerated type switches / call sites are the modelled ones
-/
import Gms.Model.HashEq
import Gms.Lemmas.Collation
import Gms.Generated.C07

namespace Gms.HashEq

/-! ## Decimal texts of naturals and integers are injective -/

/-- Read a digit string back (continuing from `a`). -/
def digitsVal (l : List Nat) (a : Nat) : Nat := l.foldl (fun a d => a * 10 + (d - 48)) a

theorem natDigitsF_val : ∀ (f n : Nat) (acc : List Nat), n < f →
    digitsVal (natDigitsF f n acc) 0 = digitsVal acc n := by
  intro f
  induction f with
  | zero => intro n acc h; omega
  | succ f ih =>
    intro n acc h
    unfold natDigitsF
    split
    · simp [digitsVal]
    · rw [ih _ _ (by omega)]
      simp only [digitsVal, List.foldl_cons]
      congr 1
      omega

theorem natText_val (n : Nat) : digitsVal (natText n) 0 = n := by
  unfold natText
  rw [natDigitsF_val _ _ _ (by omega)]
  rfl

theorem natText_inj {a b : Nat} (h : natText a = natText b) : a = b := by
  have := congrArg (fun l => digitsVal l 0) h
  simpa [natText_val] using this

theorem natDigitsF_digits : ∀ (f n : Nat) (acc : List Nat), (∀ d ∈ acc, 48 ≤ d ∧ d ≤ 57) →
    ∀ d ∈ natDigitsF f n acc, 48 ≤ d ∧ d ≤ 57 := by
  intro f
  induction f with
  | zero => intro n acc h; simpa [natDigitsF] using h
  | succ f ih =>
    intro n acc h
    unfold natDigitsF
    split
    · intro d hd
      rcases List.mem_cons.1 hd with rfl | hd
      · omega
      · exact h d hd
    · apply ih
      intro d hd
      rcases List.mem_cons.1 hd with rfl | hd
      · omega
      · exact h d hd

theorem natText_digits (n : Nat) : ∀ d ∈ natText n, 48 ≤ d ∧ d ≤ 57 :=
  natDigitsF_digits _ _ _ (by simp)

theorem natDigitsF_ne_nil : ∀ (f n : Nat) (acc : List Nat), n < f → natDigitsF f n acc ≠ [] := by
  intro f
  induction f with
  | zero => intro n acc h; omega
  | succ f ih =>
    intro n acc h
    unfold natDigitsF
    split
    · simp
    · exact ih _ _ (by omega)

theorem natText_ne_nil (n : Nat) : natText n ≠ [] := natDigitsF_ne_nil _ _ _ (by omega)

/-- A digit string never starts with `-` or `<`. -/
theorem natText_head (n : Nat) (c : Nat) (r : List Nat) (h : natText n = c :: r) : 48 ≤ c ∧ c ≤ 57 :=
  natText_digits n c (by rw [h]; simp)

theorem intText_inj {a b : Int} (h : intText a = intText b) : a = b := by
  unfold intText at h
  split at h <;> split at h
  · have := natText_inj (List.cons.inj h).2
    omega
  · have := natText_head _ _ _ h.symm
    omega
  · have := natText_head _ _ _ h
    omega
  · have := natText_inj h
    omega

/-! ## `Text('f')` at one scale is injective; across scales it never coincides -/

def decDigits (c : Int) (s : Nat) : List Nat := padLeft (s + 1) (natText c.natAbs)

def decBody (c : Int) (s : Nat) : List Nat :=
  if s = 0 then decDigits c s
  else (decDigits c s).take ((decDigits c s).length - s) ++ 46 :: (decDigits c s).drop ((decDigits c s).length - s)

theorem decText_eq (c : Int) (s : Nat) :
    decText c s = if c < 0 then 45 :: decBody c s else decBody c s := rfl

theorem decDigits_digits (c : Int) (s : Nat) : ∀ d ∈ decDigits c s, 48 ≤ d ∧ d ≤ 57 := by
  intro d hd
  unfold decDigits padLeft at hd
  rcases List.mem_append.1 hd with h | h
  · have := (List.mem_replicate.1 h).2
    omega
  · exact natText_digits _ d h

theorem digitsVal_zeros (k : Nat) (l : List Nat) : digitsVal (List.replicate k 48 ++ l) 0 = digitsVal l 0 := by
  induction k with
  | zero => simp
  | succ k ih =>
    simp only [List.replicate_succ, List.cons_append]
    simpa [digitsVal] using ih

theorem decDigits_val (c : Int) (s : Nat) : digitsVal (decDigits c s) 0 = c.natAbs := by
  unfold decDigits padLeft
  rw [digitsVal_zeros, natText_val]

theorem filter_digits (l : List Nat) (h : ∀ d ∈ l, 48 ≤ d ∧ d ≤ 57) : l.filter (· != 46) = l := by
  apply List.filter_eq_self.2
  intro d hd
  have := h d hd
  simp only [bne_iff_ne, ne_eq]
  omega

theorem decBody_undot (c : Int) (s : Nat) : (decBody c s).filter (· != 46) = decDigits c s := by
  unfold decBody
  split
  · exact filter_digits _ (decDigits_digits c s)
  · have h1 : ∀ d ∈ (decDigits c s).take ((decDigits c s).length - s), 48 ≤ d ∧ d ≤ 57 :=
      fun d hd => decDigits_digits c s d (List.mem_of_mem_take hd)
    have h2 : ∀ d ∈ (decDigits c s).drop ((decDigits c s).length - s), 48 ≤ d ∧ d ≤ 57 :=
      fun d hd => decDigits_digits c s d (List.mem_of_mem_drop hd)
    rw [List.filter_append, List.filter_cons, filter_digits _ h1, filter_digits _ h2]
    simp

theorem decBody_chars (c : Int) (s : Nat) : ∀ d ∈ decBody c s, d ≠ 45 := by
  intro d hd
  unfold decBody at hd
  split at hd
  · have := decDigits_digits c s d hd
    omega
  · rcases List.mem_append.1 hd with h | h
    · have := decDigits_digits c s d (List.mem_of_mem_take h)
      omega
    · rcases List.mem_cons.1 h with rfl | h
      · omega
      · have := decDigits_digits c s d (List.mem_of_mem_drop h)
        omega

theorem decBody_abs {c1 c2 : Int} {s1 s2 : Nat} (h : decBody c1 s1 = decBody c2 s2) :
    c1.natAbs = c2.natAbs := by
  have := congrArg (fun l => digitsVal (l.filter (· != 46)) 0) h
  simpa [decBody_undot, decDigits_val] using this

/-- Number of fraction digits, read back from the text. -/
def fracLen (l : List Nat) : Nat := (l.dropWhile (· != 46)).length - 1

theorem decDigits_length (c : Int) (s : Nat) : s + 1 ≤ (decDigits c s).length := by
  unfold decDigits padLeft
  simp only [List.length_append, List.length_replicate]
  omega

theorem dropWhile_digits (l r : List Nat) (h : ∀ d ∈ l, 48 ≤ d ∧ d ≤ 57) :
    (l ++ 46 :: r).dropWhile (· != 46) = 46 :: r := by
  induction l with
  | nil => simp
  | cons a l ih =>
    have ha := h a (by simp)
    have : (a != 46) = true := by simp only [bne_iff_ne, ne_eq]; omega
    simp only [List.cons_append, List.dropWhile_cons, this, if_true]
    exact ih (fun d hd => h d (by simp [hd]))

theorem dropWhile_digits_all (l : List Nat) (h : ∀ d ∈ l, 48 ≤ d ∧ d ≤ 57) :
    l.dropWhile (· != 46) = [] := by
  induction l with
  | nil => simp
  | cons a l ih =>
    have ha := h a (by simp)
    have : (a != 46) = true := by simp only [bne_iff_ne, ne_eq]; omega
    simp only [List.dropWhile_cons, this, if_true]
    exact ih (fun d hd => h d (by simp [hd]))

theorem decBody_fracLen (c : Int) (s : Nat) : fracLen (decBody c s) = s := by
  unfold fracLen decBody
  split
  · rename_i h
    rw [dropWhile_digits_all _ (decDigits_digits c s)]
    simp [h]
  · rw [dropWhile_digits _ _ (fun d hd => decDigits_digits c s d (List.mem_of_mem_take hd))]
    have := decDigits_length c s
    simp only [List.length_cons, List.length_drop]
    omega

/-- **`Text('f')` is injective in (coefficient, scale)**: two decimals have the same `HashOf` text
only if they are the same representation — so numerically equal decimals of different scale
(1.0 and 1.00) never share a key (F-C07-a). -/
theorem decText_inj {c1 c2 : Int} {s1 s2 : Nat} (h : decText c1 s1 = decText c2 s2) :
    c1 = c2 ∧ s1 = s2 := by
  rw [decText_eq, decText_eq] at h
  have hb : decBody c1 s1 = decBody c2 s2 ∧ (c1 < 0 ↔ c2 < 0) := by
    split at h <;> split at h
    · exact ⟨(List.cons.inj h).2, by omega⟩
    · exfalso
      exact decBody_chars c2 s2 45 (by rw [← h]; simp) rfl
    · exfalso
      exact decBody_chars c1 s1 45 (by rw [h]; simp) rfl
    · exact ⟨h, by omega⟩
  have habs := decBody_abs hb.1
  have hs : s1 = s2 := by
    have := congrArg fracLen hb.1
    simpa [decBody_fracLen] using this
  refine ⟨?_, hs⟩
  have := hb.2
  omega


/-! ## Every operator consults the relation only on the values it is given -/

/-- Two relations agree on the values satisfying `P`. -/
def Agree (P : Val → Prop) (r1 r2 : Val → Val → Bool) : Prop := ∀ a b, P a → P b → r1 a b = r2 a b

section congr
variable {P : Val → Prop} {r1 r2 : Val → Val → Bool}

theorem any_congr (h : Agree P r1 r2) (v : Val) (hv : P v) : ∀ (l : List Val), (∀ x ∈ l, P x) →
    l.any (fun s => r1 s v) = l.any (fun s => r2 s v)
  | [], _ => rfl
  | x :: l, hl => by
    simp only [List.any_cons]
    rw [h x v (hl x (by simp)) hv, any_congr h v hv l (fun y hy => hl y (by simp [hy]))]

theorem firstOccAux_congr (h : Agree P r1 r2) : ∀ (xs : List Val) (i : Nat) (seen : List Val),
    (∀ x ∈ xs, P x) → (∀ x ∈ seen, P x) → firstOccAux r1 xs i seen = firstOccAux r2 xs i seen
  | [], _, _, _, _ => rfl
  | v :: vs, i, seen, hx, hs => by
    have hv := hx v (by simp)
    have hvs : ∀ x ∈ vs, P x := fun y hy => hx y (by simp [hy])
    simp only [firstOccAux]
    rw [any_congr h v hv seen hs]
    split
    · exact firstOccAux_congr h vs _ _ hvs hs
    · rw [firstOccAux_congr h vs _ _ hvs (by
        intro y hy
        rcases List.mem_append.1 hy with hy | hy
        · exact hs y hy
        · simp only [List.mem_singleton] at hy; subst hy; exact hv)]

theorem firstOcc_congr (h : Agree P r1 r2) (xs : List Val) (hx : ∀ x ∈ xs, P x) :
    firstOcc r1 xs = firstOcc r2 xs :=
  firstOccAux_congr h xs 0 [] hx (by simp)

theorem bump_congr (h : Agree P r1 r2) (v : Val) (hv : P v) : ∀ (acc : List (Nat × Val × Nat)),
    (∀ g ∈ acc, P g.2.1) → bump r1 v acc = bump r2 v acc
  | [], _ => rfl
  | g :: gs, hg => by
    simp only [bump]
    rw [h g.2.1 v (hg g (by simp)) hv, bump_congr h v hv gs (fun y hy => hg y (by simp [hy]))]

theorem bump_P (r : Val → Val → Bool) (v : Val) : ∀ (acc : List (Nat × Val × Nat)),
    (∀ g ∈ acc, P g.2.1) → ∀ g ∈ bump r v acc, P g.2.1
  | [], _ => by simp [bump]
  | g :: gs, hg => by
    simp only [bump]
    split
    · intro x hx
      rcases List.mem_cons.1 hx with rfl | hx
      · exact hg g (by simp)
      · exact hg x (by simp [hx])
    · intro x hx
      rcases List.mem_cons.1 hx with rfl | hx
      · exact hg x (by simp)
      · exact bump_P r v gs (fun y hy => hg y (by simp [hy])) x hx

theorem groupsAux_congr (h : Agree P r1 r2) : ∀ (xs : List Val) (i : Nat) (acc : List (Nat × Val × Nat)),
    (∀ x ∈ xs, P x) → (∀ g ∈ acc, P g.2.1) → groupsAux r1 xs i acc = groupsAux r2 xs i acc
  | [], _, _, _, _ => rfl
  | v :: vs, i, acc, hx, hg => by
    have hv := hx v (by simp)
    have hvs : ∀ x ∈ vs, P x := fun y hy => hx y (by simp [hy])
    simp only [groupsAux]
    have hany : acc.any (fun g => r1 g.2.1 v) = acc.any (fun g => r2 g.2.1 v) := by
      clear hx hvs
      induction acc with
      | nil => rfl
      | cons g gs ih =>
        simp only [List.any_cons]
        rw [h g.2.1 v (hg g (by simp)) hv, ih (fun y hy => hg y (by simp [hy]))]
    rw [hany]
    split
    · rw [bump_congr h v hv acc hg]
      exact groupsAux_congr h vs _ _ hvs (bump_P r2 v acc hg)
    · exact groupsAux_congr h vs _ _ hvs (by
        intro g hgm
        rcases List.mem_append.1 hgm with hgm | hgm
        · exact hg g hgm
        · simp only [List.mem_singleton] at hgm; subst hgm; exact hv)

theorem groups_congr (h : Agree P r1 r2) (xs : List Val) (hx : ∀ x ∈ xs, P x) :
    groups r1 xs = groups r2 xs := by
  unfold groups
  rw [groupsAux_congr h xs 0 [] hx (by simp)]

theorem removeFirst_congr (h : Agree P r1 r2) (v : Val) (hv : P v) : ∀ (ys : List Val),
    (∀ y ∈ ys, P y) → removeFirst r1 v ys = removeFirst r2 v ys
  | [], _ => rfl
  | y :: ys, hy => by
    simp only [removeFirst]
    rw [h y v (hy y (by simp)) hv, removeFirst_congr h v hv ys (fun z hz => hy z (by simp [hz]))]

theorem removeFirst_P (r : Val → Val → Bool) (v : Val) : ∀ (ys ys' : List Val),
    (∀ y ∈ ys, P y) → removeFirst r v ys = some ys' → ∀ y ∈ ys', P y
  | [], _, _, h => by simp [removeFirst] at h
  | y :: ys, ys', hy, h => by
    simp only [removeFirst] at h
    split at h
    · cases h
      exact fun z hz => hy z (by simp [hz])
    · cases hr : removeFirst r v ys with
      | none => simp [hr] at h
      | some l =>
        simp only [hr, Option.map_some, Option.some.injEq] at h
        subst h
        intro z hz
        rcases List.mem_cons.1 hz with rfl | hz
        · exact hy z (by simp)
        · exact removeFirst_P r v ys l (fun w hw => hy w (by simp [hw])) hr z hz

theorem interAll_congr (h : Agree P r1 r2) : ∀ (xs : List Val) (i : Nat) (ys : List Val),
    (∀ x ∈ xs, P x) → (∀ y ∈ ys, P y) → interAll r1 xs i ys = interAll r2 xs i ys
  | [], _, _, _, _ => rfl
  | v :: vs, i, ys, hx, hy => by
    have hv := hx v (by simp)
    have hvs : ∀ x ∈ vs, P x := fun y hy => hx y (by simp [hy])
    simp only [interAll]
    rw [removeFirst_congr h v hv ys hy]
    cases hr : removeFirst r2 v ys with
    | none => exact interAll_congr h vs _ _ hvs hy
    | some l =>
      simp only
      rw [interAll_congr h vs _ _ hvs (removeFirst_P r2 v ys l hy hr)]

theorem exceptAll_congr (h : Agree P r1 r2) (ph1 ph2 : Val → Bool) (hph : ∀ v, P v → ph1 v = ph2 v) :
    ∀ (xs : List (Nat × Val)) (ys : List Val) (b : Bool),
    (∀ x ∈ xs, P x.2) → (∀ y ∈ ys, P y) → exceptAll r1 ph1 xs ys b = exceptAll r2 ph2 xs ys b
  | [], _, _, _, _ => rfl
  | (i, v) :: vs, ys, b, hx, hy => by
    have hv : P v := hx (i, v) (by simp)
    have hvs : ∀ x ∈ vs, P x.2 := fun y hy => hx y (by simp [hy])
    simp only [exceptAll]
    rw [removeFirst_congr h v hv ys hy, hph v hv]
    cases hr : removeFirst r2 v ys with
    | some l => exact exceptAll_congr h ph1 ph2 hph vs _ _ hvs (removeFirst_P r2 v ys l hy hr)
    | none =>
      simp only
      split
      · exact exceptAll_congr h ph1 ph2 hph vs _ _ hvs hy
      · rw [exceptAll_congr h ph1 ph2 hph vs _ _ hvs hy]

theorem dedup_congr (h : Agree P r1 r2) (xs : List Val) (hx : ∀ x ∈ xs, P x) :
    dedup r1 xs = dedup r2 xs := by
  unfold dedup
  rw [firstOcc_congr h xs hx]

theorem dedup_P (r : Val → Val → Bool) (xs : List Val) (hx : ∀ x ∈ xs, P x) :
    ∀ p ∈ dedup r xs, P p.2 := by
  intro p hp
  unfold dedup at hp
  obtain ⟨i, _, hi⟩ := List.mem_filterMap.1 hp
  cases hxi : xs[i]? with
  | none => simp [hxi] at hi
  | some v =>
    simp only [hxi, Option.map_some, Option.some.injEq] at hi
    subst hi
    exact hx v (List.mem_of_getElem? hxi)

theorem distinctOf_congr (h : Agree P r1 r2) (rows : List (Nat × Val)) (hx : ∀ p ∈ rows, P p.2) :
    distinctOf r1 rows = distinctOf r2 rows := by
  unfold distinctOf
  rw [firstOcc_congr h (rows.map (·.2)) (by
    intro x hxm
    obtain ⟨p, hp, rfl⟩ := List.mem_map.1 hxm
    exact hx p hp)]

theorem interAll_P (r : Val → Val → Bool) : ∀ (xs : List Val) (i : Nat) (ys : List Val),
    (∀ x ∈ xs, P x) → ∀ p ∈ interAll r xs i ys, P p.2
  | [], _, _, _ => by simp [interAll]
  | v :: vs, i, ys, hx => by
    have hvs : ∀ x ∈ vs, P x := fun y hy => hx y (by simp [hy])
    simp only [interAll]
    cases removeFirst r v ys with
    | none => exact interAll_P r vs _ _ hvs
    | some l =>
      intro p hp
      rcases List.mem_cons.1 hp with rfl | hp
      · exact hx v (by simp)
      · exact interAll_P r vs _ _ hvs p hp

theorem inTuple_congr (h : Agree P r1 r2) (ys : List Val) (hy : ∀ y ∈ ys, P y) (v : Val) (hv : P v) :
    inTuple r1 ys v = inTuple r2 ys v := by
  unfold inTuple
  have : ys.any (fun y => y != .null && r1 y v) = ys.any (fun y => y != .null && r2 y v) := by
    induction ys with
    | nil => rfl
    | cons y ys ih =>
      simp only [List.any_cons]
      rw [h y v (hy y (by simp)) hv, ih (fun z hz => hy z (by simp [hz]))]
  rw [this]

theorem inSub_congr (h : Agree P r1 r2) (m : Val → Val → Bool) (ys : List Val) (hy : ∀ y ∈ ys, P y)
    (v : Val) (hv : P v) : inSub r1 m ys v = inSub r2 m ys v := by
  unfold inSub
  have : ys.filter (fun y => y != .null && r1 y v) = ys.filter (fun y => y != .null && r2 y v) := by
    induction ys with
    | nil => rfl
    | cons y ys ih =>
      simp only [List.filter_cons]
      rw [h y v (hy y (by simp)) hv, ih (fun z hz => hy z (by simp [hz]))]
  rw [this]

theorem flatMap_congr_on {α β : Type} (f g : α → List β) : ∀ (l : List α), (∀ a ∈ l, f a = g a) →
    l.flatMap f = l.flatMap g
  | [], _ => rfl
  | a :: l, h => by
    simp only [List.flatMap_cons]
    rw [h a (by simp), flatMap_congr_on f g l (fun b hb => h b (by simp [hb]))]

theorem filterMap_congr_on {α β : Type} (f g : α → Option β) : ∀ (l : List α), (∀ a ∈ l, f a = g a) →
    l.filterMap f = l.filterMap g
  | [], _ => rfl
  | a :: l, h => by
    simp only [List.filterMap_cons]
    rw [h a (by simp), filterMap_congr_on f g l (fun b hb => h b (by simp [hb]))]

theorem joinPairs_congr (h : Agree P r1 r2) (m : Val → Val → Bool) (xs ys : List Val)
    (hx : ∀ x ∈ xs, P x) (hy : ∀ y ∈ ys, P y) : joinPairs r1 m xs ys = joinPairs r2 m xs ys := by
  unfold joinPairs
  apply flatMap_congr_on
  intro p hp
  have hpx : P p.1 := hx p.1 (by
    have := List.mem_zipIdx hp
    obtain ⟨_, _, he⟩ := this
    rw [he]; exact List.getElem_mem _)
  apply filterMap_congr_on
  intro q hq
  have hqy : P q.1 := hy q.1 (by
    have := List.mem_zipIdx hq
    obtain ⟨_, _, he⟩ := this
    rw [he]; exact List.getElem_mem _)
  obtain ⟨y, j⟩ := q
  simp only
  rw [h p.1 y hpx hqy]


theorem filter_congr_on {α : Type} (f g : α → Bool) : ∀ (l : List α), (∀ a ∈ l, f a = g a) →
    l.filter f = l.filter g
  | [], _ => rfl
  | a :: l, h => by
    simp only [List.filter_cons]
    rw [h a (by simp), filter_congr_on f g l (fun b hb => h b (by simp [hb]))]

theorem map_congr_on {α β : Type} (f g : α → β) : ∀ (l : List α), (∀ a ∈ l, f a = g a) →
    l.map f = l.map g
  | [], _ => rfl
  | a :: l, h => by
    simp only [List.map_cons]
    rw [h a (by simp), map_congr_on f g l (fun b hb => h b (by simp [hb]))]

/-- **Operators are parametric in the key relation**: if two relations agree on the values of a
case (and, for EXCEPT, the two "empty-row key" tests agree), every operator returns the same
observation under both. -/
theorem runWith_congr (h : Agree P r1 r2) (op : Op) (m : Val → Val → Bool) (ph1 ph2 : Val → Bool)
    (hph : op = .except → ∀ v, P v → ph1 v = ph2 v) (xs ys : List Val)
    (hx : ∀ x ∈ xs, P x) (hy : ∀ y ∈ ys, P y) :
    runWith op r1 m ph1 xs ys = runWith op r2 m ph2 xs ys := by
  have hxy : ∀ v ∈ xs ++ ys, P v := by
    intro v hv
    rcases List.mem_append.1 hv with hv | hv
    · exact hx v hv
    · exact hy v hv
  cases op with
  | groupBy => simp only [runWith]; rw [groups_congr h _ hxy]
  | distinct => simp only [runWith]; rw [firstOcc_congr h _ hxy]
  | union => simp only [runWith]; rw [firstOcc_congr h _ hxy]
  | countDistinct =>
    simp only [runWith, countDistinct]
    rw [firstOcc_congr h _ (fun v hv => hxy v (List.mem_filter.1 hv).1)]
  | intersect =>
    simp only [runWith]
    rw [interAll_congr h xs 0 ys hx hy, distinctOf_congr h _ (interAll_P r2 xs 0 ys hx)]
  | except =>
    simp only [runWith]
    rw [dedup_congr h xs hx, dedup_congr h ys hy,
      exceptAll_congr h ph1 ph2 (hph rfl) _ _ true (dedup_P r2 xs hx) (by
        intro y hym
        obtain ⟨p, hp, rfl⟩ := List.mem_map.1 hym
        exact dedup_P r2 ys hy p hp)]
  | inList =>
    simp only [runWith]
    rw [filter_congr_on (fun (p : Val × Nat) => inTuple r1 ys p.1 == 2) (fun p => inTuple r2 ys p.1 == 2) _ (by
      intro p hp
      obtain ⟨_, _, he⟩ := List.mem_zipIdx hp
      have hp1 : P p.1 := hx p.1 (by rw [he]; exact List.getElem_mem _)
      rw [inTuple_congr h ys hy p.1 hp1])]
  | inSub =>
    simp only [runWith]
    rw [map_congr_on _ _ xs (fun v hv => inSub_congr h m ys hy v (hx v hv))]
  | hashJoin =>
    simp only [runWith]
    rw [joinPairs_congr h m xs ys hx hy]

end congr

end Gms.HashEq

/-! # The property theorems -/

namespace Gms.C07
open Gms.HashEq Gms.Collation

/-- A case is **key-faithful** when, on the values that reach the operator, "same key" coincides
with what `=` demands, and (for EXCEPT) no left value has the key of the empty row. -/
def Faithful (e : Env) (op : Op) (lt rt : ColTy) (xs ys : List Val) : Prop :=
  (∀ a ∈ (inputs op lt rt xs ys).1 ++ (inputs op lt rt xs ys).2,
    ∀ b ∈ (inputs op lt rt xs ys).1 ++ (inputs op lt rt xs ys).2,
      (relsOf e op lt rt ys).k a b = (relsOf e op lt rt ys).s a b) ∧
  (op = .except → ∀ a ∈ (inputs op lt rt xs ys).1 ++ (inputs op lt rt xs ys).2, emptyRowKey a = false)

/- Full statement (FALSE on the unchanged tree, see the `finding_*` theorems below):
     ∀ e op lt rt xs ys, implObs e op lt rt xs ys = specObs e op lt rt xs ys -/

/-- **C07, guarded**: on every key-faithful case, each of the nine hashing operators (GROUP BY,
DISTINCT, COUNT(DISTINCT), UNION, INTERSECT, EXCEPT, IN list, IN subquery, hash join) returns
exactly the groups / rows / matches that `=` demands — for all inputs of any size. -/
theorem op_partial (e : Env) (op : Op) (lt rt : ColTy) (xs ys : List Val)
    (h : Faithful e op lt rt xs ys) : implObs e op lt rt xs ys = specObs e op lt rt xs ys := by
  unfold implObs specObs
  apply runWith_congr (P := fun v => v ∈ (inputs op lt rt xs ys).1 ++ (inputs op lt rt xs ys).2)
  · intro a b ha hb
    exact h.1 a ha b hb
  · intro hop v hv
    exact h.2 hop v hv
  · intro x hx; exact List.mem_append_left _ hx
  · intro y hy; exact List.mem_append_right _ hy


/-- Non-vacuity of `op_partial`: a faithful case with duplicates, NULLs and a non-trivial result
(GROUP BY over ints: groups (first row, size) = (0,2) (1,1) (2,2)). -/
example : implObs ⟨⟨false, fun r => r⟩, ⟨false, fun r => r⟩⟩ .groupBy .int .int
    [.int 1, .null, .int 7] [.int 1, .int 7] = .pairs [(0, 2), (1, 1), (2, 2)] := by decide

/-! ## Per value class: "same key" ⇔ `=` -/

def IntLike : Val → Prop
  | .null | .int _ => True
  | _ => False

def DecLike (s : Nat) : Val → Prop
  | .null => True
  | .dec _ s' => s' = s
  | _ => False

def StrLike : Val → Prop
  | .null | .str _ => True
  | _ => False

theorem intText_ne_nilKey (i : Int) : intText i ≠ nilKey := by
  intro h
  unfold intText nilKey at h
  split at h
  · simp at h
  · have := natText_head _ _ _ h
    omega

theorem keyEq_some (a b : List Nat) : keyEq (some a) (some b) = decide (a = b) := by
  by_cases h : a = b
  · subst h; simp [keyEq]
  · simp [keyEq, h]

theorem pow10_pos (s : Nat) : 0 < pow10 s := by
  unfold pow10; exact Nat.pow_pos (by omega)

/-- **Integers** (every width and signedness is written by `FormatInt/FormatUint`): under
`HashOf` — with or without schema — two values have the same key exactly when they are not
distinct; this covers GROUP BY, DISTINCT, UNION, INTERSECT, EXCEPT, IN (subquery) over integer
columns. -/
theorem int_key_iff_eq (c : Coll) : Agree IntLike (hashOfRel none) (same c) := by
  intro a b ha hb
  cases a <;> cases b <;> simp only [IntLike] at ha hb
  · rfl
  · rename_i j
    simp only [hashOfRel, elemKey, goText, keyEq_some, same, eqVal]
    simp [Ne.symm (intText_ne_nilKey j)]
  · rename_i i
    simp only [hashOfRel, elemKey, goText, keyEq_some, same, eqVal]
    simp [intText_ne_nilKey i]
  · rename_i i j
    simp only [hashOfRel, elemKey, goText, keyEq_some, same, eqVal, numOf, eqNum, pow10]
    by_cases h : i = j
    · subst h; simp
    · have : intText i ≠ intText j := fun he => h (intText_inj he)
      simp [this, h]

/-- Integers under `HashOfSimple(·, Int64)` (IN list of integers, hash join on integer columns). -/
theorem int_simple_iff_eq (c : Coll) :
    Agree IntLike (fun a b => keyEq (simpleKey .int64 a) (simpleKey .int64 b)) (mtch c) := by
  intro a b ha hb
  cases a <;> cases b <;> simp only [IntLike] at ha hb
  · simp [simpleKey, keyEq, mtch, eqVal]
  · simp [simpleKey, keyEq, mtch, eqVal]
  · simp [simpleKey, keyEq, mtch, eqVal]
  · rename_i i j
    simp only [simpleKey, numKey, keyEq_some, mtch, eqVal, numOf, eqNum, pow10]
    by_cases h : i = j
    · subst h; simp
    · have : intText i ≠ intText j := fun he => h (intText_inj he)
      simp [this, h]

theorem decText_ne_nilKey (c : Int) (s : Nat) : decText c s ≠ nilKey := by
  intro h
  have h60 : (60 : Nat) ∈ decText c s := by rw [h]; simp [nilKey]
  rw [decText_eq] at h60
  have hb : ∀ d ∈ decBody c s, d ≠ 60 := by
    intro d hd
    unfold decBody at hd
    split at hd
    · have := decDigits_digits c s d hd; omega
    · rcases List.mem_append.1 hd with h | h
      · have := decDigits_digits c s d (List.mem_of_mem_take h); omega
      · rcases List.mem_cons.1 h with rfl | h
        · omega
        · have := decDigits_digits c s d (List.mem_of_mem_drop h); omega
  split at h60
  · rcases List.mem_cons.1 h60 with h | h
    · omega
    · exact hb 60 h rfl
  · exact hb 60 h60 rfl

/- Full statement (FALSE): ∀ c, Agree (fun v => v = .null ∨ ∃ k s, v = .dec k s) (hashOfRel none) (same c);
   `finding_dec_scale` is the witness. -/

/-- **Decimals of one scale** (the values of one DECIMAL(p,s) column): same `HashOf` key ⇔ not
distinct. Guard: `DecLike s` — all values carry the same scale. -/
theorem dec_key_iff_eq_partial (s : Nat) (c : Coll) : Agree (DecLike s) (hashOfRel none) (same c) := by
  intro a b ha hb
  cases a <;> cases b <;> simp only [DecLike] at ha hb
  · rfl
  · rename_i k s'
    simp only [hashOfRel, elemKey, goText, keyEq_some, same, eqVal]
    simp [Ne.symm (decText_ne_nilKey k s')]
  · rename_i k s'
    simp only [hashOfRel, elemKey, goText, keyEq_some, same, eqVal]
    simp [decText_ne_nilKey k s']
  · rename_i k1 s1 k2 s2
    have e1 : s1 = s := ha
    have e2 : s2 = s := hb
    rw [e1, e2]
    simp only [hashOfRel, elemKey, goText, keyEq_some, same, eqVal, numOf, eqNum]
    by_cases h : k1 = k2
    · subst h; simp
    · have h1 : decText k1 s ≠ decText k2 s := fun he => h (decText_inj he).1
      have hp := pow10_pos s
      have h2 : ¬ (k1 * ((pow10 s : Nat) : Int) = k2 * ((pow10 s : Nat) : Int)) := by
        intro he
        apply h
        have hpz : ((pow10 s : Nat) : Int) ≠ 0 := by omega
        exact Int.eq_of_mul_eq_mul_right hpz he
      simp [h1, h2]

/-- **F-C07-a, for all values**: decimals written at different scales never share a `HashOf` key,
whatever their values — so `1.0` and `1.00` are two groups / two DISTINCT rows / two UNION rows. -/
theorem dec_diff_scale_never_same_key (c1 c2 : Int) (s1 s2 : Nat) (h : s1 ≠ s2) :
    hashOfRel none (.dec c1 s1) (.dec c2 s2) = false := by
  simp only [hashOfRel, elemKey, goText, keyEq_some]
  have : decText c1 s1 ≠ decText c2 s2 := fun he => h (decText_inj he).2
  simp [this]

theorem finding_dec_scale : ∃ a b, hashOfRel none a b ≠ same ⟨false, fun r => r⟩ a b :=
  ⟨.dec 10 1, .dec 100 2, by decide⟩

theorem flatMap_wbytes_length : ∀ (l : List Int), (l.flatMap wbytes).length = 4 * l.length
  | [] => rfl
  | x :: l => by
    simp only [List.flatMap_cons, List.length_append, wbytes_length, List.length_cons,
      flatMap_wbytes_length l]
    omega

theorem writeWeights_weighted (w : Nat → Int) (s : List Nat) :
    writeWeights w false s = some (((runes false s).map w).flatMap wbytes) := by
  unfold writeWeights
  simp only [Bool.false_eq_true, if_false]
  rw [weightLoop_spec w (s.length + 1) s (by omega)]
  rfl

/-- **Strings where the schema is passed** (GROUP BY, IN (subquery); `HashOfSimple` with a text
compare type hashes the same weight string): for every collation whose weights are int32s, two
values have the same key exactly when they are not distinct under the collation — case/accent
variants collapse, and NULL never collides with a string. -/
theorem str_schema_key_iff_eq (c : Coll) (hraw : c.raw = false)
    (hw : ∀ r, -2147483648 ≤ c.w r ∧ c.w r < 2147483648) :
    Agree StrLike (hashOfRel (some c)) (same c) := by
  intro a b ha hb
  cases a <;> cases b <;> simp only [StrLike] at ha hb
  · rfl
  · rename_i t
    simp only [hashOfRel, elemKey, toStr, hraw, writeWeights_weighted, keyEq_some, same, eqVal]
    have : nilKey ≠ ((runes false t).map c.w).flatMap wbytes := by
      intro he
      have := congrArg List.length he
      rw [flatMap_wbytes_length] at this
      simp [nilKey] at this
      omega
    simp [this]
  · rename_i t
    simp only [hashOfRel, elemKey, toStr, hraw, writeWeights_weighted, keyEq_some, same, eqVal]
    have : ((runes false t).map c.w).flatMap wbytes ≠ nilKey := by
      intro he
      have := congrArg List.length he
      rw [flatMap_wbytes_length] at this
      simp [nilKey] at this
      omega
    simp [this]
  · rename_i t u
    simp only [hashOfRel, elemKey, toStr, hraw, writeWeights_weighted, keyEq_some, same, eqVal,
      weights, Bool.false_eq_true, if_false]
    by_cases h : (runes false t).map c.w = (runes false u).map c.w
    · simp [h]
    · have : ((runes false t).map c.w).flatMap wbytes ≠ ((runes false u).map c.w).flatMap wbytes := by
        intro he
        apply h
        apply flatMap_wbytes_inj _ _ _ _ he
        · intro x hx; obtain ⟨r, _, rfl⟩ := List.mem_map.1 hx; exact hw r
        · intro x hx; obtain ⟨r, _, rfl⟩ := List.mem_map.1 hx; exact hw r
      simp [this, h]

/-- Non-vacuity: 'aB' and 'Ab' have the same weight-string key under a case-folding weight
function, 'a' and 'b' do not. -/
example : hashOfRel (some ⟨false, fun r => if 97 ≤ r ∧ r ≤ 122 then (r : Int) - 32 else r⟩) (.str [97, 66]) (.str [65, 98]) = true ∧
    hashOfRel (some ⟨false, fun r => if 97 ≤ r ∧ r ≤ 122 then (r : Int) - 32 else r⟩) (.str [97]) (.str [98]) = false := by decide

/-- **Strings where no schema is passed** (DISTINCT, UNION, INTERSECT, EXCEPT): the key is the
byte string itself … -/
theorem str_noschema_key (a b : List Nat) : hashOfRel none (.str a) (.str b) = decide (a = b) := by
  simp [hashOfRel, elemKey, goText, keyEq_some]

/- Full statement (FALSE): ∀ c a b, hashOfRel none (.str a) (.str b) = same c (.str a) (.str b). -/

/-- … so it agrees with `=` exactly on the pairs the collation does not equate beyond byte
equality (guard), and never for a case/accent variant pair (F-C07-b). -/
theorem str_noschema_iff_partial (c : Coll) (a b : List Nat)
    (h : weights c a = weights c b → a = b) :
    hashOfRel none (.str a) (.str b) = same c (.str a) (.str b) := by
  rw [str_noschema_key]
  simp only [same, eqVal]
  by_cases hab : a = b
  · subst hab; simp
  · have : weights c a ≠ weights c b := fun he => hab (h he)
    simp [hab, this]

/-- The text `<nil>` has the key of NULL when no schema is passed. -/
theorem nil_text_collision : hashOfRel none .null (.str nilKey) = true := by decide

/-- The empty string has the key of the empty row (which EXCEPT inserts at EOF). -/
theorem empty_string_is_empty_row_key : emptyRowKey (.str []) = true := by decide

/-- COUNT(DISTINCT a, b): the key `text(a) , text(b) ,` is not injective. -/
theorem finding_countdistinct_separator :
    countDistinctKey [.str [120, 44], .str []] = countDistinctKey [.str [120], .str [44]] := by decide

/-- IN list: with an integer first element every element is converted to BIGINT, so `2 IN (1, 1.5)`
finds the key of 2. -/
theorem finding_inlist_rounding :
    keyEq (simpleKey .int64 (.int 2)) (simpleKey .int64 (.dec 15 1)) = true ∧
    mtch ⟨false, fun r => r⟩ (.int 2) (.dec 15 1) = false := by decide

/-- `HashOf` writes a Go `bool` as "true"/"false": TRUE and 1 have different keys. -/
theorem finding_bool_int : hashOfRel none (.bool true) (.int 1) = false ∧
    same ⟨false, fun r => r⟩ (.bool true) (.int 1) = true := by decide

/-! ## Whole-operator corollary for integer columns -/

theorem countDistinct_int (c : Coll) :
    Agree IntLike (fun a b => countDistinctKey [a] == countDistinctKey [b]) (same c) := by
  intro a b ha hb
  cases a <;> cases b <;> simp only [IntLike] at ha hb
  · simp [countDistinctKey, toStr, same]
  · rename_i j
    have : natText j.natAbs ≠ [] := natText_ne_nil _
    simp only [countDistinctKey, toStr, same, eqVal]
    unfold intText
    split <;> simp [this]
  · rename_i i
    have : natText i.natAbs ≠ [] := natText_ne_nil _
    simp only [countDistinctKey, toStr, same, eqVal]
    unfold intText
    split <;> simp [this]
  · rename_i i j
    simp only [countDistinctKey, toStr, same, eqVal, numOf, eqNum, pow10]
    by_cases h : i = j
    · subst h; simp
    · have : (intText i ++ [44] == intText j ++ [44]) = false := by
        apply beq_eq_false_iff_ne.2
        intro he
        exact h (intText_inj (List.append_cancel_right he))
      rw [this]
      simp [h]

theorem emptyRowKey_int (v : Val) (h : IntLike v) : emptyRowKey v = false := by
  cases v <;> simp only [IntLike] at h
  · decide
  · rename_i i
    simp only [emptyRowKey, elemKey, goText]
    have : natText i.natAbs ≠ [] := natText_ne_nil _
    unfold intText
    split <;> simp [this]

theorem inputs_int (op : Op) (xs ys : List Val) (hx : ∀ x ∈ xs, IntLike x) (hy : ∀ y ∈ ys, IntLike y) :
    ∀ v ∈ (inputs op .int .int xs ys).1 ++ (inputs op .int .int xs ys).2, IntLike v := by
  have harr : ∀ v, arrive .int .int v = v := by intro v; cases v <;> rfl
  have hconv : ∀ v, IntLike v → convTo .int v = v := by intro v _; cases v <;> rfl
  intro v hv
  cases op <;> simp only [inputs, List.mem_append, List.mem_map] at hv <;>
    first
    | (rcases hv with ⟨w, hw, rfl⟩ | ⟨w, hw, rfl⟩
       · rw [harr]; exact hx w hw
       · rw [harr]; exact hy w hw)
    | (rcases hv with hv | hv
       · exact hx v hv
       · exact hy v hv)
    | (rcases hv with ⟨w, hw, rfl⟩ | hv
       · rw [hconv w (hx w hw)]; exact hx w hw
       · exact hy v hv)

/-- **C07 for INT columns**: over two INT columns holding any integers and NULLs, GROUP BY,
DISTINCT, COUNT(DISTINCT), UNION, INTERSECT, EXCEPT, IN (subquery) and the hash join return
exactly what `=` demands (IN list: when the list holds integers, see `finding_inlist_rounding`
otherwise). -/
theorem int_columns_correct (e : Env) (op : Op) (hop : op ≠ .inList) (xs ys : List Val)
    (hx : ∀ x ∈ xs, IntLike x) (hy : ∀ y ∈ ys, IntLike y) :
    implObs e op .int .int xs ys = specObs e op .int .int xs ys := by
  apply op_partial
  have hin := inputs_int op xs ys hx hy
  refine ⟨?_, ?_⟩
  · intro a ha b hb
    have hA := hin a ha
    have hB := hin b hb
    cases op with
    | inList => exact absurd rfl hop
    | groupBy => exact int_key_iff_eq _ a b hA hB
    | distinct => exact int_key_iff_eq _ a b hA hB
    | union => exact int_key_iff_eq _ a b hA hB
    | intersect => exact int_key_iff_eq _ a b hA hB
    | except => exact int_key_iff_eq _ a b hA hB
    | countDistinct => exact countDistinct_int _ a b hA hB
    | inSub =>
      have hk := int_key_iff_eq (e.cmpColl .int) a b hA hB
      cases a <;> cases b <;> simp only [IntLike] at hA hB
      · simp [relsOf, mtch, eqVal]
      · simp [relsOf, mtch, eqVal]
      · simp [relsOf, mtch, eqVal]
      · simp only [relsOf, Env.collOf]
        rw [hk]
        rfl
    | hashJoin => exact int_simple_iff_eq _ a b hA hB
  · intro _ a ha
    exact emptyRowKey_int a (hin a ha)

/-! ## Whole-operator corollary for collated string columns under GROUP BY -/

theorem arrive_str (v : Val) : arrive .strCi .strCi v = v := by cases v <;> rfl

/-- **C07 for string columns where the schema reaches the hash** (GROUP BY): over two VARCHAR
columns of one case-insensitive collation (any int32 weight function) holding any strings and
NULLs, GROUP BY forms exactly the groups `=` demands — for all inputs. -/
theorem groupBy_collated_strings_correct (e : Env) (hraw : e.ci.raw = false)
    (hw : ∀ r, -2147483648 ≤ e.ci.w r ∧ e.ci.w r < 2147483648) (xs ys : List Val)
    (hx : ∀ x ∈ xs, StrLike x) (hy : ∀ y ∈ ys, StrLike y) :
    implObs e .groupBy .strCi .strCi xs ys = specObs e .groupBy .strCi .strCi xs ys := by
  apply op_partial
  refine ⟨?_, fun h => by cases h⟩
  have hin : ∀ v ∈ (inputs .groupBy .strCi .strCi xs ys).1 ++ (inputs .groupBy .strCi .strCi xs ys).2, StrLike v := by
    intro v hv
    simp only [inputs, List.mem_append, List.mem_map] at hv
    rcases hv with ⟨w, hw', rfl⟩ | ⟨w, hw', rfl⟩
    · rw [arrive_str]; exact hx w hw'
    · rw [arrive_str]; exact hy w hw'
  intro a ha b hb
  exact str_schema_key_iff_eq e.ci hraw hw a b (hin a ha) (hin b hb)

/-! ## Findings of the unchanged tree: one witness per (operator, defect class) region

`envW` folds ASCII case (a stand-in for a `_ci` collation); values: 'a' = [97], 'A' = [65]. -/

def foldW (r : Nat) : Int := if 97 ≤ r ∧ r ≤ 122 then (r : Int) - 32 else r
def envW : Env := ⟨⟨false, foldW⟩, ⟨false, fun r => (r : Int)⟩⟩

/-- A region witness: Impl and Spec differ on the case and the case is classified as `(op, c)`. -/
def Witness (op : Op) (c : Cause) (lt rt : ColTy) (xs ys : List Val) : Prop :=
  implObs envW op lt rt xs ys ≠ specObs envW op lt rt xs ys ∧ region envW op lt rt xs ys = some (op, c)

instance (op : Op) (c : Cause) (lt rt : ColTy) (xs ys : List Val) : Decidable (Witness op c lt rt xs ys) := by
  unfold Witness; infer_instance

def sA : Val := .str [97]
def sUA : Val := .str [65]
def sNil : Val := .str nilKey

theorem finding_distinct_collation : ∃ xs ys, Witness .distinct .collation .strCi .strCi xs ys := ⟨[sA, sUA], [], by decide⟩
theorem finding_countdistinct_collation : ∃ xs ys, Witness .countDistinct .collation .strCi .strCi xs ys := ⟨[sA, sUA], [], by decide⟩
theorem finding_union_collation : ∃ xs ys, Witness .union .collation .strCi .strCi xs ys := ⟨[sA], [sUA], by decide⟩
theorem finding_intersect_collation : ∃ xs ys, Witness .intersect .collation .strCi .strCi xs ys := ⟨[sA], [sUA], by decide⟩
theorem finding_except_collation : ∃ xs ys, Witness .except .collation .strCi .strCi xs ys := ⟨[sA], [sUA], by decide⟩
theorem finding_inlist_collation : ∃ xs ys, Witness .inList .collation .strCi .strCi xs ys := ⟨[sA], [sUA], by decide⟩
theorem finding_groupby_decimal_scale : ∃ xs ys, Witness .groupBy .decimalScale (.dec 1) (.dec 2) xs ys := ⟨[.dec 10 1], [.dec 100 2], by decide⟩
theorem finding_distinct_decimal_scale : ∃ xs ys, Witness .distinct .decimalScale (.dec 1) (.dec 2) xs ys := ⟨[.dec 10 1], [.dec 100 2], by decide⟩
theorem finding_countdistinct_decimal_scale : ∃ xs ys, Witness .countDistinct .decimalScale (.dec 1) (.dec 2) xs ys := ⟨[.dec 10 1], [.dec 100 2], by decide⟩
theorem finding_union_decimal_scale : ∃ xs ys, Witness .union .decimalScale .int (.dec 2) xs ys := ⟨[.int 1], [.dec 100 2], by decide⟩
theorem finding_intersect_decimal_scale : ∃ xs ys, Witness .intersect .decimalScale (.dec 1) (.dec 2) xs ys := ⟨[.dec 10 1], [.dec 100 2], by decide⟩
theorem finding_except_decimal_scale : ∃ xs ys, Witness .except .decimalScale (.dec 1) (.dec 2) xs ys := ⟨[.dec 10 1], [.dec 100 2], by decide⟩
theorem finding_distinct_nil_text : ∃ xs ys, Witness .distinct .nilText .strBin .strBin xs ys := ⟨[sNil, .null], [], by decide⟩
theorem finding_union_nil_text : ∃ xs ys, Witness .union .nilText .strBin .strBin xs ys := ⟨[sNil], [.null], by decide⟩
theorem finding_intersect_nil_text : ∃ xs ys, Witness .intersect .nilText .strBin .strBin xs ys := ⟨[sNil], [.null], by decide⟩
theorem finding_except_nil_text : ∃ xs ys, Witness .except .nilText .strBin .strBin xs ys := ⟨[sNil], [.null], by decide⟩
theorem finding_except_empty_key : ∃ xs ys, Witness .except .emptyKey .strBin .strBin xs ys := ⟨[.str []], [sA], by decide⟩
theorem finding_inlist_elem_rounded : ∃ xs ys, Witness .inList .elemRounded .int .int xs ys := ⟨[.int 2], [.int 1, .dec 15 1], by decide⟩

/-- Operators that pass the schema (GROUP BY, IN subquery) or hash collation weights (hash join on
one string type) are *not* affected: on the collation witnesses they agree with `=`. -/
theorem schema_operators_collapse_case :
    implObs envW .groupBy .strCi .strCi [sA, sUA] [] = specObs envW .groupBy .strCi .strCi [sA, sUA] [] ∧
    implObs envW .inSub .strCi .strCi [sA] [sUA] = specObs envW .inSub .strCi .strCi [sA] [sUA] ∧
    implObs envW .hashJoin .strCi .strCi [sA] [sUA] = specObs envW .hashJoin .strCi .strCi [sA] [sUA] ∧
    specObs envW .hashJoin .strCi .strCi [sA] [sUA] = .pairs [(0, 0)] := by decide

/-! ## Regenerated facts -/

open Gms.Generated.C07 in
/-- The type switches of `HashOf` / `HashOfSimple`, the nil marker, the separator, the schema
switch, the COUNT(DISTINCT) key and the EOF behaviour of EXCEPT/INTERSECT are the modelled ones. -/
theorem facts_match :
    hashOfSwitch = [("int", "strconv.FormatInt"), ("int8", "strconv.FormatInt"), ("int16", "strconv.FormatInt"),
      ("int32", "strconv.FormatInt"), ("int64", "strconv.FormatInt"), ("uint", "strconv.FormatUint"),
      ("uint8", "strconv.FormatUint"), ("uint16", "strconv.FormatUint"), ("uint32", "strconv.FormatUint"),
      ("uint64", "strconv.FormatUint"), ("float32", "FormatFloat('f',-1)"), ("float64", "FormatFloat('f',-1)"),
      ("*apd.Decimal", "Text('f')"), ("string", "raw"), ("[]byte", "raw"), ("default", "Sprintf(\"%v\")")] ∧
    hashOfSimpleSwitch = [("int", "strconv.FormatInt"), ("int8", "strconv.FormatInt"), ("int16", "strconv.FormatInt"),
      ("int32", "strconv.FormatInt"), ("int64", "strconv.FormatInt"), ("uint", "strconv.FormatUint"),
      ("uint8", "strconv.FormatUint"), ("uint16", "strconv.FormatUint"), ("uint32", "strconv.FormatUint"),
      ("uint64", "strconv.FormatUint"), ("float32", "FormatFloat('f',-1)"), ("float64", "FormatFloat('f',-1)"),
      ("*apd.Decimal", "Text('f');strings.IndexByte;strings.TrimRightFunc;strings.TrimRight"),
      ("default", "Sprintf(\"%v\")")] ∧
    hashOfSchemaWeightTypes = ["types.StringType"] ∧
    hashOfLiteralStrings.map (fun s => s.toList.map Char.toNat) = [nilKey] ∧
    hashOfSeparators = ["0"] ∧
    hashOfSimpleTextUsesCollation = true ∧ hashOfSimplePromotes = true ∧ hashOfSimpleTrimsDecimalZeros = true ∧
    countDistinctSeparator = "," ∧ countDistinctUsesTextConvert = true ∧
    exceptIterHashesEofRow = true ∧ intersectIterHashesEofRow = false ∧
    inListUsesHashOfSimple = 2 ∧ hashLookupUsesHashOfSimple = 1 := by decide

/-- The enclosing function of the `hash.HashOf` call each modelled operator makes. -/
def Op.site : Op → Option (String × String)
  | .groupBy => some ("sql/rowexec/agg.go", "groupByGroupingIter.groupingKey")
  | .distinct | .union => some ("sql/plan/distinct.go", "DistinctHasher.HashOf")
  | .intersect => some ("sql/iters/rel_iters.go", "IntersectIter.Next")
  | .except => some ("sql/iters/rel_iters.go", "ExceptIter.Next")
  | .inSub => some ("sql/plan/insubquery.go", "InSubquery.Eval")
  | _ => none

def allOps : List Op := [.groupBy, .distinct, .countDistinct, .union, .intersect, .except, .inList, .inSub, .hashJoin]

open Gms.Generated.C07 in
/-- Does the regenerated call-site table agree with the model for operator `op`: the function
exists, and *every* `hash.HashOf` call in it passes the schema iff `Op.schemaSupplied` says so. -/
def siteOk (op : Op) : Bool :=
  match Op.site op, op.schemaSupplied with
  | some (f, fn), some b =>
    !(hashOfSites.filter (fun s => s.1 == f && s.2.1 == fn)).isEmpty &&
    (hashOfSites.filter (fun s => s.1 == f && s.2.1 == fn)).all (fun s => s.2.2 == b)
  | none, none => true
  | _, _ => false

open Gms.Generated.C07 in
/-- **Call-site facts**: for every modelled operator the schema argument at its `hash.HashOf`
call site(s) is what the model assumes, and the right side of IN (subquery) (`putAllRows`) passes
the schema too. -/
theorem sites_match :
    allOps.all siteOk = true ∧
    hashOfSites.contains ("sql/plan/subquery.go", "putAllRows", true) = true := by decide

/-! ## Floating point values -/

/-- Normal form of `Val.flt` (what the shortest round-trip decimal of a double looks like): integral
values carry scale 0, other coefficients do not end in 0, and -0.0 is `flt 0 0 true`. -/
def FltNorm (c : Int) (s : Nat) (z : Bool) : Prop :=
  (s = 0 ∨ c % 10 ≠ 0) ∧ (z = true → c = 0 ∧ s = 0)

def FltLike : Val → Prop
  | .null => True
  | .flt c s z => FltNorm c s z
  | _ => False

theorem decText_ne_negZero (c : Int) (s : Nat) : decText c s ≠ [45, 48] := by
  intro h
  rw [decText_eq] at h
  split at h
  · rename_i hc
    have hb : decBody c s = decBody 0 0 := by
      have := (List.cons.inj h).2
      rw [this]; decide
    have := decBody_abs hb
    omega
  · exact decBody_chars c s 45 (by rw [h]; simp) rfl

/-- The float arm writes the positional decimal text of the value: all integer digits for an
integral value of ANY magnitude (no saturation at ±2^63), and -0.0 like 0.0. -/
theorem fltText_norm (c : Int) (s : Nat) (z : Bool) (h : FltNorm c s z) : fltText c s z = decText c s := by
  cases z with
  | true =>
    obtain ⟨rfl, rfl⟩ := h.2 rfl
    decide
  | false =>
    have := decText_ne_negZero c s
    simp [fltText, this]

theorem pow10_add (a b : Nat) : pow10 (a + b) = pow10 a * pow10 b := by
  unfold pow10; exact Nat.pow_add 10 a b

theorem eqNum_norm_lt {c1 c2 : Int} {s1 s2 : Nat} (hlt : s1 < s2) (h2 : c2 % 10 ≠ 0)
    (he : c1 * ((pow10 s2 : Nat) : Int) = c2 * ((pow10 s1 : Nat) : Int)) : False := by
  obtain ⟨k, rfl⟩ : ∃ k, s2 = s1 + (k + 1) := ⟨s2 - s1 - 1, by omega⟩
  rw [pow10_add, pow10_add] at he
  have hp := pow10_pos s1
  have hpz : ((pow10 s1 : Nat) : Int) ≠ 0 := by omega
  have h10 : pow10 1 = 10 := by decide
  rw [h10] at he
  have he' : (c1 * ((pow10 k : Nat) : Int) * 10) * ((pow10 s1 : Nat) : Int) = c2 * ((pow10 s1 : Nat) : Int) := by
    rw [← he]; push_cast; ac_rfl
  have := Int.eq_of_mul_eq_mul_right hpz he'
  omega

/-- Two doubles in normal form are numerically equal only if they are the same decimal. -/
theorem eqNum_norm {c1 c2 : Int} {s1 s2 : Nat} (n1 : s1 = 0 ∨ c1 % 10 ≠ 0) (n2 : s2 = 0 ∨ c2 % 10 ≠ 0)
    (he : c1 * ((pow10 s2 : Nat) : Int) = c2 * ((pow10 s1 : Nat) : Int)) : c1 = c2 ∧ s1 = s2 := by
  rcases Nat.lt_trichotomy s1 s2 with hlt | heq | hgt
  · exact (eqNum_norm_lt hlt (n2.resolve_left (by omega)) he).elim
  · subst heq
    have hp := pow10_pos s1
    have hpz : ((pow10 s1 : Nat) : Int) ≠ 0 := by omega
    exact ⟨Int.eq_of_mul_eq_mul_right hpz he, rfl⟩
  · exact (eqNum_norm_lt hgt (n1.resolve_left (by omega)) he.symm).elim

theorem flt_text_iff_eq {c1 c2 : Int} {s1 s2 : Nat} {z1 z2 : Bool} (h1 : FltNorm c1 s1 z1) (h2 : FltNorm c2 s2 z2) :
    decide (fltText c1 s1 z1 = fltText c2 s2 z2) = eqNum (c1, s1) (c2, s2) := by
  rw [fltText_norm _ _ _ h1, fltText_norm _ _ _ h2]
  simp only [eqNum]
  by_cases h : c1 = c2 ∧ s1 = s2
  · obtain ⟨rfl, rfl⟩ := h; simp
  · have ht : decText c1 s1 ≠ decText c2 s2 := fun he => h (decText_inj he)
    have hn : ¬ (c1 * ((pow10 s2 : Nat) : Int) = c2 * ((pow10 s1 : Nat) : Int)) := fun he => h (eqNum_norm h1.1 h2.1 he)
    simp [ht, hn]

/-- **Floating point values** (float32/float64 arms of `HashOf`): same key ⇔ not distinct — for
doubles of every magnitude, in particular whole numbers ≥ 2^63 in magnitude, and -0.0 vs 0.0.
Covers GROUP BY, DISTINCT, UNION, INTERSECT, EXCEPT, IN (subquery) over DOUBLE columns. -/
theorem flt_key_iff_eq (c : Coll) : Agree FltLike (hashOfRel none) (same c) := by
  intro a b ha hb
  cases a <;> cases b <;> simp only [FltLike] at ha hb
  · rfl
  · rename_i k s z
    simp only [hashOfRel, elemKey, goText, keyEq_some, same, eqVal]
    rw [fltText_norm _ _ _ hb]
    simp [Ne.symm (decText_ne_nilKey k s)]
  · rename_i k s z
    simp only [hashOfRel, elemKey, goText, keyEq_some, same, eqVal]
    rw [fltText_norm _ _ _ ha]
    simp [decText_ne_nilKey k s]
  · rename_i k1 s1 z1 k2 s2 z2
    simp only [hashOfRel, elemKey, goText, keyEq_some, same, eqVal, numOf]
    rw [flt_text_iff_eq ha hb]
    simp

/-- Floats under `HashOfSimple(·, Float64)` (IN list of float literals, hash join on DOUBLE columns). -/
theorem flt_simple_iff_eq (c : Coll) :
    Agree FltLike (fun a b => keyEq (simpleKey .float64 a) (simpleKey .float64 b)) (mtch c) := by
  intro a b ha hb
  cases a <;> cases b <;> simp only [FltLike] at ha hb
  · simp [simpleKey, keyEq, mtch, eqVal]
  · simp [simpleKey, keyEq, mtch, eqVal]
  · simp [simpleKey, keyEq, mtch, eqVal]
  · rename_i k1 s1 z1 k2 s2 z2
    simp only [simpleKey, numKey, keyEq_some, mtch, eqVal, numOf]
    rw [flt_text_iff_eq ha hb]
    simp

/-- **Whole-number doubles of any magnitude never collide**: two different integral values —
1e19 and 2e19, 2^63 and 2^64, 3.5e30 and -1e19 — have different keys (no saturation where a
conversion to int64 stops being defined). -/
theorem flt_whole_distinct_keys (c1 c2 : Int) (h : c1 ≠ c2) :
    hashOfRel none (.flt c1 0 false) (.flt c2 0 false) = false := by
  simp only [hashOfRel, elemKey, goText, keyEq_some]
  rw [fltText_norm _ _ _ ⟨Or.inl rfl, by simp⟩, fltText_norm _ _ _ ⟨Or.inl rfl, by simp⟩]
  have : decText c1 0 ≠ decText c2 0 := fun he => h (decText_inj he).1
  simp [this]

example : hashOfRel none (.flt 10000000000000000000 0 false) (.flt 20000000000000000000 0 false) = false ∧
    hashOfRel none (.flt 9223372036854775808 0 false) (.flt (-9223372036854775808) 0 false) = false ∧
    hashOfRel none (.flt 0 0 true) (.flt 0 0 false) = true ∧
    goText (.flt 3500000000000000000000000000000 0 false) = intText 3500000000000000000000000000000 := by decide

/-! ## Whole-operator corollary for DOUBLE columns -/

theorem decText_ne_nil (c : Int) (s : Nat) : decText c s ≠ [] := by
  intro h
  rw [decText_eq] at h
  split at h
  · simp at h
  · have hl := decDigits_length c s
    have hu := decBody_undot c s
    rw [h] at hu
    have : (decDigits c s).length = 0 := by rw [← hu]; rfl
    omega

theorem countDistinct_flt (c : Coll) :
    Agree FltLike (fun a b => countDistinctKey [a] == countDistinctKey [b]) (same c) := by
  intro a b ha hb
  cases a <;> cases b <;> simp only [FltLike] at ha hb
  · simp [countDistinctKey, toStr, same]
  · rename_i k s z
    simp only [countDistinctKey, toStr, same, eqVal]
    rw [fltText_norm _ _ _ hb]
    have := decText_ne_nil k s
    cases hd : decText k s with
    | nil => exact absurd hd this
    | cons x xs => simp
  · rename_i k s z
    simp only [countDistinctKey, toStr, same, eqVal]
    rw [fltText_norm _ _ _ ha]
    have := decText_ne_nil k s
    cases hd : decText k s with
    | nil => exact absurd hd this
    | cons x xs => simp
  · rename_i k1 s1 z1 k2 s2 z2
    simp only [countDistinctKey, toStr, same, eqVal, numOf]
    rw [← flt_text_iff_eq ha hb]
    by_cases h : fltText k1 s1 z1 = fltText k2 s2 z2
    · rw [h]; simp
    · have : (fltText k1 s1 z1 ++ [44] == fltText k2 s2 z2 ++ [44]) = false := by
        apply beq_eq_false_iff_ne.2
        intro he
        exact h (List.append_cancel_right he)
      rw [this]
      simp [h]

theorem emptyRowKey_flt (v : Val) (h : FltLike v) : emptyRowKey v = false := by
  cases v <;> simp only [FltLike] at h
  · decide
  · rename_i k s z
    simp only [emptyRowKey, elemKey, goText]
    rw [fltText_norm _ _ _ h]
    simp [decText_ne_nil k s]

theorem inputs_flt (op : Op) (xs ys : List Val) (hx : ∀ x ∈ xs, FltLike x) (hy : ∀ y ∈ ys, FltLike y) :
    ∀ v ∈ (inputs op .dbl .dbl xs ys).1 ++ (inputs op .dbl .dbl xs ys).2, FltLike v := by
  have harr : ∀ v, arrive .dbl .dbl v = v := by intro v; cases v <;> rfl
  have hconv : ∀ v, convTo .dbl v = v := by intro v; cases v <;> rfl
  intro v hv
  cases op <;> simp only [inputs, List.mem_append, List.mem_map] at hv <;>
    first
    | (rcases hv with ⟨w, hw, rfl⟩ | ⟨w, hw, rfl⟩
       · rw [harr]; exact hx w hw
       · rw [harr]; exact hy w hw)
    | (rcases hv with hv | hv
       · exact hx v hv
       · exact hy v hv)
    | (rcases hv with ⟨w, hw, rfl⟩ | hv
       · rw [hconv w]; exact hx w hw
       · exact hy v hv)

/-- **C07 for DOUBLE columns**: over two DOUBLE columns holding any doubles (every magnitude —
beyond ±2^63 and 2^64 included —, fractions, ±0) and NULLs, all nine operators — GROUP BY,
DISTINCT, COUNT(DISTINCT), UNION, INTERSECT, EXCEPT, IN list (of float literals), IN (subquery)
and the hash join — return exactly what `=` demands. -/
theorem dbl_columns_correct (e : Env) (op : Op) (xs ys : List Val)
    (hx : ∀ x ∈ xs, FltLike x) (hy : ∀ y ∈ ys, FltLike y) :
    implObs e op .dbl .dbl xs ys = specObs e op .dbl .dbl xs ys := by
  apply op_partial
  have hin := inputs_flt op xs ys hx hy
  refine ⟨?_, ?_⟩
  · intro a ha b hb
    have hA := hin a ha
    have hB := hin b hb
    cases op with
    | inList => exact flt_simple_iff_eq _ a b hA hB
    | groupBy => exact flt_key_iff_eq _ a b hA hB
    | distinct => exact flt_key_iff_eq _ a b hA hB
    | union => exact flt_key_iff_eq _ a b hA hB
    | intersect => exact flt_key_iff_eq _ a b hA hB
    | except => exact flt_key_iff_eq _ a b hA hB
    | countDistinct => exact countDistinct_flt _ a b hA hB
    | inSub =>
      have hk := flt_key_iff_eq (e.cmpColl .dbl) a b hA hB
      cases a <;> cases b <;> simp only [FltLike] at hA hB
      · simp [relsOf, mtch, eqVal]
      · simp [relsOf, mtch, eqVal]
      · simp [relsOf, mtch, eqVal]
      · simp only [relsOf, Env.collOf]
        rw [hk]
        rfl
    | hashJoin => exact flt_simple_iff_eq _ a b hA hB
  · intro _ a ha
    exact emptyRowKey_flt a (hin a ha)

/-- Non-vacuity: 1e19, 2e19, -1e19, 3.5e30, 2^63, 2, 0.5 and 0 are eight groups; 2e19 IN (2e19, 5) only. -/
example : implObs envW .groupBy .dbl .dbl
    [.flt 10000000000000000000 0 false, .flt 20000000000000000000 0 false, .flt (-10000000000000000000) 0 false,
     .flt 3500000000000000000000000000000 0 false, .flt 9223372036854775808 0 false, .flt 2 0 false, .flt 5 1 false,
     .flt 0 0 false] [.flt 20000000000000000000 0 false, .flt 0 0 true]
    = .pairs [(0, 1), (1, 2), (2, 1), (3, 1), (4, 1), (5, 1), (6, 1), (7, 2)] := by decide

example : implObs envW .inList .dbl .dbl
    [.flt 10000000000000000000 0 false, .flt 20000000000000000000 0 false, .flt 3500000000000000000000000000000 0 false]
    [.flt 20000000000000000000 0 false, .flt 5 0 false] = .nats [1] := by decide

end Gms.C07
