/-
C35 — Clients receive exactly the engine's results over the wire: the row pipeline.

For *every* schedule of the reader / batcher / sender goroutines (any interleaving of enabled
steps, any number of rows): the batches delivered to the client followed by the returned last
result are exactly the iterator's rows in order; every delivered batch has exactly `rowsBatch`
rows; on error/cancellation the client has received a prefix; the pipeline never deadlocks and
always terminates.

Strengthened (seeded changes C35-1, C35-2):
* the rows handed to the callback alias a pooled scratch buffer — memory model Gms/Model/BufPool.lean:
  for every interleaving of any number of connections that keep the buffer discipline (borrowed
  before spooling, returned after the final callback — regenerated facts `facts_match_buffer`),
  every client reads exactly the bytes the engine produced (`buffer_isolation`,
  `pending_rows_stable`); returning the buffer before the final callback is a violation of the
  discipline and does corrupt a client's rows (`early_release_corrupts`);
* the spooling dispatch of doQuery — model Gms/Model/Spool.lean: with a sound QFlagMax1Row the five
  strategies deliver exactly the iterator's rows (`dispatch_exact`, `callbacks_sizes`,
  `batchSizes_sum`), the flag is unobservable (`flag_unobservable`), and an unsound flag turns a
  multi-row result into an error (`unsound_max1_flag_errors`).
-/
import Gms.Model.Pipeline
import Gms.Model.Spool
import Gms.Lemmas.BufPool
import Gms.Generated.C35

namespace Gms.Pipeline
variable {α : Type}

structure Inv (c : Cfg) (input : List α) (s : St α) : Prop where
  data : s.delivered.flatten ++ (s.resChan.flatten ++ (s.cur ++ (s.rowChan ++ s.remaining))) = input
  delB : ∀ b ∈ s.delivered, b.length = c.B
  resB : ∀ b ∈ s.resChan, b.length = c.B
  curB : s.cur.length ≤ c.B
  rDone : s.readerDone = true → s.remaining = []
  bDone : s.batcherDone = true → s.readerDone = true ∧ s.rowChan = [] ∧ s.cur.length < c.B
  sDone : s.senderDone = true → s.batcherDone = true ∧ s.resChan = []
  capR : s.rowChan.length ≤ c.capR
  capS : s.resChan.length ≤ c.capS

theorem inv_init (c : Cfg) (input : List α) : Inv c input (init input) := by
  constructor <;> simp [init]

theorem inv_step (c : Cfg) (input : List α) (s s' : St α) (h : Inv c input s) (st : Step c s s') :
    Inv c input s' := by
  obtain ⟨hd, hdel, hres, hcur, hr, hb, hs, hcr, hcs⟩ := h
  cases st with
  | read r rest hf hrem hcap =>
    refine ⟨?_, hdel, hres, hcur, ?_, ?_, hs, ?_, hcs⟩
    · simp only; rw [← hd, hrem]; simp
    · intro h; have := hr h; rw [hrem] at this; simp at this
    · intro h; have := (hb h).1; have := hr this; rw [hrem] at this; simp at this
    · simp only [List.length_append, List.length_cons, List.length_nil]; omega
  | readerClose hf hrem hnd =>
    refine ⟨hd, hdel, hres, hcur, fun _ => hrem, ?_, hs, hcr, hcs⟩
    intro h; have := (hb h).1; rw [hnd] at this; simp at this
  | take r rc hf hrc hlt =>
    refine ⟨?_, hdel, hres, ?_, hr, ?_, hs, ?_, hcs⟩
    · simp only; rw [← hd, hrc]; simp
    · simp only [List.length_append, List.length_cons, List.length_nil]; omega
    · intro h; have := (hb h).2.1; rw [hrc] at this; simp at this
    · rw [hrc] at hcr; simp only [List.length_cons] at hcr; simp only; omega
  | flush hf hfull hcap =>
    refine ⟨?_, hdel, ?_, by simp, hr, ?_, ?_, hcr, ?_⟩
    · simp only; rw [← hd]; simp
    · intro b hbm
      simp only [List.mem_append, List.mem_singleton] at hbm
      rcases hbm with h | h
      · exact hres b h
      · rw [h]; exact hfull
    · intro h; have := (hb h).2.2; omega
    · intro h
      have h1 := (hs h).1
      have := (hb h1).2.2; omega
    · simp only [List.length_append, List.length_cons, List.length_nil]; omega
  | batcherClose hf hrc hrd hlt hnd =>
    refine ⟨hd, hdel, hres, hcur, hr, fun _ => ⟨hrd, hrc, hlt⟩, ?_, hcr, hcs⟩
    intro h; have := (hs h).1; rw [hnd] at this; simp at this
  | send b rs hf hrs =>
    refine ⟨?_, ?_, ?_, hcur, hr, hb, ?_, hcr, ?_⟩
    · simp only; rw [← hd, hrs]; simp
    · intro x hx
      simp only [List.mem_append, List.mem_singleton] at hx
      rcases hx with h | h
      · exact hdel x h
      · rw [h]; exact hres b (by rw [hrs]; simp)
    · intro x hx; exact hres x (by rw [hrs]; simp [hx])
    · intro h; have := (hs h).2; rw [hrs] at this; simp at this
    · rw [hrs] at hcs; simp only [List.length_cons] at hcs; simp only; omega
  | senderClose hf hrs hbd hnd =>
    exact ⟨hd, hdel, hres, hcur, hr, hb, fun _ => ⟨hbd, hrs⟩, hcr, hcs⟩
  | fail hf hnd =>
    exact ⟨hd, hdel, hres, hcur, hr, hb, hs, hcr, hcs⟩

theorem inv_reach (c : Cfg) (input : List α) (s : St α) (h : Reach c input s) : Inv c input s := by
  induction h with
  | init => exact inv_init c input
  | step s s' _ st ih => exact inv_step c input s s' ih st

/-- Termination measure. -/
def measure (s : St α) : Nat :=
  5 * s.remaining.length + 4 * s.rowChan.length + 3 * s.cur.length + s.resChan.flatten.length
    + s.resChan.length
    + (if s.readerDone then 0 else 1) + (if s.batcherDone then 0 else 1)
    + (if s.senderDone then 0 else 1) + (if s.failed then 0 else 1)

end Gms.Pipeline

namespace Gms.C35
open Gms.Pipeline
variable {α : Type}

/-- The constants of the model are the ones in server/handler.go on this run. -/
theorem facts_match : Gms.Generated.C35.rowsBatch = 128 ∧ Gms.Generated.C35.rowChanCap = 512 ∧
    Gms.Generated.C35.resChanCap = 4 ∧ Gms.Generated.C35.flushComparison = "==" ∧
    Gms.Generated.C35.goroutines = 4 := by decide

/-- Order-preserving and lossless, for every schedule: when the three goroutines have returned
without error, the client has received exactly the iterator's rows, in order; every batch
delivered through the callback has exactly `rowsBatch` rows and the returned last result has
fewer. -/
theorem pipeline_order_lossless (c : Cfg) (input : List α) (s : St α)
    (h : Reach c input s) (hf : Final s) :
    clientRows s = input ∧ (∀ b ∈ s.delivered, b.length = c.B) ∧ s.cur.length < c.B := by
  have inv := inv_reach c input s h
  obtain ⟨_, hr, hb, hs⟩ := hf
  have h1 := inv.sDone hs
  have h2 := inv.bDone hb
  have h3 := inv.rDone hr
  refine ⟨?_, inv.delB, h2.2.2⟩
  have := inv.data
  rw [h1.2, h2.2.1, h3] at this
  simpa [clientRows] using this

/-- The sequence of `callback` invocations (as `doQuery` makes them) carries exactly the rows,
in order; it is a single empty result iff there are no rows. -/
theorem callbacks_lossless (c : Cfg) (input : List α) (s : St α)
    (h : Reach c input s) (hf : Final s) :
    (clientCallbacks s).flatten = input := by
  have := (pipeline_order_lossless c input s h hf).1
  unfold clientCallbacks
  cases hc : s.cur with
  | nil => simp [clientRows, hc] at this ⊢; split <;> simp [this]
  | cons x xs => simp [clientRows, hc] at this ⊢; exact this

/-- On error or cancellation (and at every intermediate moment) what the client has been sent
is a prefix of the result: nothing is reordered, duplicated or invented. -/
theorem error_no_partial_reorder (c : Cfg) (input : List α) (s : St α) (h : Reach c input s) :
    s.delivered.flatten <+: input := by
  have inv := inv_reach c input s h
  exact ⟨_, inv.data⟩

/-- Batch sizes, at every moment of every schedule. -/
theorem batch_sizes (c : Cfg) (input : List α) (s : St α) (h : Reach c input s) :
    (∀ b ∈ s.delivered, b.length = c.B) ∧ (∀ b ∈ s.resChan, b.length = c.B) ∧ s.cur.length ≤ c.B ∧
    s.rowChan.length ≤ c.capR ∧ s.resChan.length ≤ c.capS := by
  have inv := inv_reach c input s h
  exact ⟨inv.delB, inv.resB, inv.curB, inv.capR, inv.capS⟩

/-- No deadlock: in every reachable state that has not failed and is not final, some goroutine
can make progress (given that the client consumes, i.e. `send` is always possible). -/
theorem no_deadlock (c : Cfg) (input : List α) (s : St α) (hB : 0 < c.B) (hR : 0 < c.capR)
    (hS : 0 < c.capS) (h : Reach c input s) (hnf : s.failed = false) (hfin : ¬ Final s) :
    ∃ s', Step c s s' ∧ s'.failed = false := by
  have inv := inv_reach c input s h
  -- what the batcher/sender can do when the batcher holds or can get a row
  have drain : (s.rowChan ≠ [] ∨ s.cur.length = c.B) → ∃ s', Step c s s' ∧ s'.failed = false := by
    intro hne
    by_cases hfull : s.cur.length = c.B
    · by_cases hcap : s.resChan.length < c.capS
      · exact ⟨_, Step.flush s hnf hfull hcap, hnf⟩
      · cases hrs : s.resChan with
        | nil => rw [hrs] at hcap; simp at hcap; omega
        | cons b rs => exact ⟨_, Step.send s b rs hnf hrs, hnf⟩
    · have hlt : s.cur.length < c.B := by have := inv.curB; omega
      cases hrc : s.rowChan with
      | nil => rcases hne with h1 | h1
               · exact absurd hrc h1
               · exact absurd h1 hfull
      | cons r rc => exact ⟨_, Step.take s r rc hnf hrc hlt, hnf⟩
  cases hrem : s.remaining with
  | cons r rest =>
    by_cases hcap : s.rowChan.length < c.capR
    · exact ⟨_, Step.read s r rest hnf hrem hcap, hnf⟩
    · apply drain; left
      intro e; rw [e] at hcap; simp at hcap; omega
  | nil =>
    cases hrd : s.readerDone with
    | false => exact ⟨_, Step.readerClose s hnf hrem hrd, hnf⟩
    | true =>
      by_cases hne : s.rowChan ≠ [] ∨ s.cur.length = c.B
      · exact drain hne
      · have hrc : s.rowChan = [] := by
          apply Classical.byContradiction; intro x; exact hne (Or.inl x)
        have hlt : s.cur.length < c.B := by
          have := inv.curB
          have : ¬ s.cur.length = c.B := fun x => hne (Or.inr x)
          omega
        cases hbd : s.batcherDone with
        | false => exact ⟨_, Step.batcherClose s hnf hrc hrd hlt hbd, hnf⟩
        | true =>
          cases hrs : s.resChan with
          | cons b rs => exact ⟨_, Step.send s b rs hnf hrs, hnf⟩
          | nil =>
            cases hsd : s.senderDone with
            | false => exact ⟨_, Step.senderClose s hnf hrs hbd hsd, hnf⟩
            | true => exact absurd ⟨hnf, hrd, hbd, hsd⟩ hfin

/-- Termination: every step strictly decreases the measure, so every schedule is finite. -/
theorem step_decreases (c : Cfg) (s s' : St α) (hB : 0 < c.B) (st : Step c s s') :
    measure s' < measure s := by
  cases st with
  | read r rest hf hrem hcap => simp [Pipeline.measure, hrem]; omega
  | readerClose hf hrem hnd => simp [Pipeline.measure, hnd]
  | take r rc hf hrc hlt => simp [Pipeline.measure, hrc]; omega
  | flush hf hfull hcap => simp [Pipeline.measure, hfull]; omega
  | batcherClose hf hrc hrd hlt hnd => simp [Pipeline.measure, hnd]
  | send b rs hf hrs => simp [Pipeline.measure, hrs]; omega
  | senderClose hf hrs hbd hnd => simp [Pipeline.measure, hnd]
  | fail hf hnd => simp [Pipeline.measure, hf]

/-- The executable scheduler used by the correspondence driver only takes model steps. -/
theorem tick_is_step (c : Cfg) (s s' : St α) (p : Nat) (hnf : s.failed = false)
    (hcur : s.cur.length ≤ c.B) (h : tick c s p = some s') : Step c s s' := by
  have rd : ∀ t, (match s.remaining with
      | r :: rest => if s.rowChan.length < c.capR then some { s with remaining := rest, rowChan := s.rowChan ++ [r] } else none
      | [] => if s.readerDone then none else some { s with readerDone := true }) = some t → Step c s t := by
    intro t ht
    cases hrem : s.remaining with
    | nil =>
      rw [hrem] at ht
      cases hrd : s.readerDone with
      | true => simp [hrd] at ht
      | false =>
        simp [hrd] at ht; subst ht
        have e := Step.readerClose (c := c) s hnf hrem hrd
        rw [hrem] at e; exact e
    | cons r rest =>
      rw [hrem] at ht
      by_cases hc : s.rowChan.length < c.capR
      · simp [hc] at ht; subst ht; exact Step.read s r rest hnf hrem hc
      · simp [hc] at ht
  have bt : ∀ t, (if s.cur.length = c.B then
        (if s.resChan.length < c.capS then some { s with cur := [], resChan := s.resChan ++ [s.cur] } else none)
      else match s.rowChan with
        | r :: rc => some { s with rowChan := rc, cur := s.cur ++ [r] }
        | [] => if s.readerDone && !s.batcherDone then some { s with batcherDone := true } else none) = some t → Step c s t := by
    intro t ht
    by_cases hfull : s.cur.length = c.B
    · simp only [hfull, if_true] at ht
      by_cases hc : s.resChan.length < c.capS
      · simp [hc] at ht; subst ht; exact Step.flush s hnf hfull hc
      · simp [hc] at ht
    · simp only [hfull, if_false] at ht
      have hlt : s.cur.length < c.B := by omega
      cases hrc : s.rowChan with
      | cons r rc => rw [hrc] at ht; simp at ht; subst ht; exact Step.take s r rc hnf hrc hlt
      | nil =>
        rw [hrc] at ht
        cases hrd : s.readerDone <;> cases hbd : s.batcherDone <;> simp [hrd, hbd] at ht
        subst ht
        have e := Step.batcherClose (c := c) s hnf hrc hrd hlt hbd
        rw [hrc, hrd] at e; exact e
  have sd : ∀ t, (match s.resChan with
      | b :: rs => some { s with resChan := rs, delivered := s.delivered ++ [b] }
      | [] => if s.batcherDone && !s.senderDone then some { s with senderDone := true } else none) = some t → Step c s t := by
    intro t ht
    cases hrs : s.resChan with
    | cons b rs => rw [hrs] at ht; simp at ht; subst ht; exact Step.send s b rs hnf hrs
    | nil =>
      rw [hrs] at ht
      cases hbd : s.batcherDone <;> cases hsd : s.senderDone <;> simp [hbd, hsd] at ht
      subst ht
      have e := Step.senderClose (c := c) s hnf hrs hbd hsd
      rw [hrs, hbd] at e; exact e
  unfold tick at h
  simp only at h
  split at h <;> simp only [List.findSome?_cons, id] at h
  all_goals
    repeat' split at h
    all_goals first
      | (injection h with h; subst h; first | exact rd _ ‹_› | exact bt _ ‹_› | exact sd _ ‹_›)
      | simp at h

/-- Non-vacuity: a concrete run (B = 2, capacities 1) reaches a final state with two delivered
batches and a one-row last result. -/
example :
    let c : Cfg := { B := 2, capR := 1, capS := 1 }
    let s := runSched c (init [1, 2, 3, 4, 5]) [0, 0, 1, 2, 2, 1, 0, 1] 100
    s.delivered = [[1, 2], [3, 4]] ∧ s.cur = [5] ∧ s.senderDone = true ∧ clientRows s = [1, 2, 3, 4, 5] := by
  decide

/-! ### The scratch buffer: aliasing between connections -/
section Buffer
open Gms.BufPool

/-- The buffer life time in the source on this run: borrowed and returned (by a function-level
`defer`) in `doQuery`, the one function that makes the final callback and dispatches to the spooling
helpers, and borrowed before any of them runs. This is `late = true` of `Gms.BufPool.compile`. -/
theorem facts_match_buffer :
    Gms.Generated.C35.bufGetFuncs = ["doQuery"] ∧ Gms.Generated.C35.bufPutFuncs = ["doQuery"] ∧
    Gms.Generated.C35.bufPutDeferredTopLevel = true ∧ Gms.Generated.C35.bufGetBeforeSpool = true ∧
    Gms.Generated.C35.finalCallbackFuncs = ["doQuery"] ∧
    Gms.Generated.C35.spoolCallers = ["doQuery"] := by decide

/-- Isolation: whatever the interleaving of the connections' statements (any number of
connections, rows, batches), if every connection keeps the discipline then every client has read
exactly the bytes the engine produced for the rows it was sent. -/
theorem buffer_isolation (es : List Ev) (h : (run init es).bad = false) : Intact (run init es) :=
  (inv_run init es inv_init h).recv

/-- … and at every such moment every row that is still pending (spooled, not yet consumed by the
callback) reads as the bytes written for it, and no two connections hold the same buffer. -/
theorem pending_rows_stable (es : List Ev) (h : (run init es).bad = false) :
    let s := run init es
    (∀ c b, (s.conns c).held = some b → ∀ p ∈ (s.conns c).pending, deref s.bufs p.1 = p.2) ∧
    (∀ c c' b, (s.conns c).held = some b → (s.conns c').held = some b → c = c') ∧
    (∀ c b, (s.conns c).held = some b → b ∉ s.free) := by
  have inv := inv_run init es inv_init h
  exact ⟨fun c b hb p hp => (inv.pendHeld c b hb p hp).2.2, inv.heldInj,
    fun c b hb => (inv.heldLt c b hb).2⟩

/-- The discipline is necessary: when `doQuery` returns the buffer once spooling is finished —
before the final callback — (`compile false`), a statement of another connection that runs before
that callback overwrites the rows the first client is about to be sent. -/
theorem early_release_corrupts :
    let t := Stmt.mk 0 100 1 2 [(0, Stmt.mk 1 200 1 2 [])]
    let s := run init (compile false 128 t)
    s.bad = true ∧ (s.conns 0).sent = [[100, 100]] ∧ (s.conns 0).received = [[200, 200]] := by
  decide

/-- Non-vacuity of `buffer_isolation`: the same schedule with the source's discipline (`compile
true`), and a bigger one (three connections, full batches of 2 rows, nested at different
callbacks) keep the discipline and every client is intact. -/
example :
    let t := Stmt.mk 0 100 1 2 [(0, Stmt.mk 1 200 1 2 [])]
    let s := run init (compile true 128 t)
    s.bad = false ∧ (s.conns 0).received = [[100, 100]] ∧ (s.conns 1).received = [[200, 200]] := by
  decide

example :
    let t := Stmt.mk 0 100 5 1 [(0, Stmt.mk 1 200 3 2 [(1, Stmt.mk 2 300 1 1 [])]), (2, Stmt.mk 3 400 0 1 [])]
    let s := run init (compile true 2 t)
    s.bad = false ∧ (s.conns 0).received = [[100], [101], [102], [103], [104]] ∧
      (s.conns 1).received = [[200, 200], [201, 201], [202, 202]] ∧ (s.conns 2).received = [[300]] := by
  decide

/-! #### Known finding: server-side cursors

Full statement (FALSE on the unchanged tree):
  `∀ c rows between, let s := run init (cursorTrace c rows between); (s.conns c).received = (s.conns c).sent`
— a client that executes a statement through a server-side cursor is sent the engine's rows. The
cursor's pending result is written at FETCH time, after `doQuery` has returned the scratch buffer
its rows point into; a statement of another connection in between overwrites them. -/

/-- Witness (replayed on the real server by the `cursor` stream: the client fetches the rows of
another connection's table, or is disconnected because the overwritten bytes no longer parse). -/
theorem finding_cursor_pending_result_outlives_buffer :
    ∃ c rows between, CursorRegion between ∧
      ((run init (cursorTrace c rows between)).conns c).received
        ≠ ((run init (cursorTrace c rows between)).conns c).sent :=
  ⟨0, [[1, 1]], [Ev.borrow 1, Ev.write 1 [9, 9], Ev.deliver 1, Ev.release 1], by simp [CursorRegion], by decide⟩

/-- Outside the region — nothing else executes between the EXECUTE and the FETCH — the late read
is still exact, for any rows. -/
theorem cursor_exact_partial (c : Nat) (rows : List (List Nat)) (between : List Ev)
    (h : ¬ CursorRegion between) :
    ((run init (cursorTrace c rows between)).conns c).received
      = ((run init (cursorTrace c rows between)).conns c).sent := by
  have hb : between = [] := by
    apply Classical.byContradiction; intro x; exact h x
  subst hb
  exact cursor_alone_exact c rows

example : ((run init (cursorTrace 3 [[1, 2], [3]] [])).conns 3).received = [[1, 2], [3]] := by decide

/-! #### Known finding without a Lean model: `cursor_multibatch_cancelled_by_conn_watcher`

A server-side cursor on a result of more than `rowsBatch` rows: the handler is still inside
`doQuery` (parked in the callback until the cursor takes the next batch) when the client's
COM_STMT_FETCH arrives; once the statement is older than the connection watcher's start delay the
watcher (server/connwatch.go) takes the FETCH for "client wrote to connection while a query was
executing" and cancels the statement; the FETCH is never answered. Timers, the socket and the
watcher are outside every model of this property (see `level_note`), so there is no witness theorem;
the witness is replayed on the real server by the `cursor` stream (a pausing client on a 129…300-row
result), and the region is decided on the case (cursor ∧ more than one callback). -/

end Buffer

/-! ### The spooling dispatch -/
section Dispatch
open Gms.Spool

/-- The dispatch chain of `doQuery` and the error of the max-1-row helper, as in the source. -/
theorem facts_match_dispatch :
    Gms.Generated.C35.dispatchChain =
      ["types.IsOkResultSchema(schema) => resultForOkIter",
       "schema == nil => resultForEmptyIter",
       "analyzer.FlagIsSet(qFlags, sql.QFlagMax1Row) => resultForMax1RowIter",
       "vr, ok := rowIter.(sql.ValueRowIter); ok && vr.IsValueRowIter(sqlCtx) => resultForValueRowIter",
       "else => resultForDefaultIter"] ∧
    Gms.Generated.C35.max1RowError = "result max1Row iterator returned more than one row" := by
  decide

theorem map_length_replicate {α : Type} (l : List (List α)) (B : Nat) (h : ∀ b ∈ l, b.length = B) :
    l.map List.length = List.replicate l.length B := by
  induction l with
  | nil => rfl
  | cons x xs ih =>
    have hx : x.length = B := h x (by simp)
    have := ih (fun b hb => h b (by simp [hb]))
    simp [List.replicate_succ, hx, this]

theorem flatten_length_all {α : Type} (l : List (List α)) (B : Nat) (h : ∀ b ∈ l, b.length = B) :
    l.flatten.length = l.length * B := by
  induction l with
  | nil => simp
  | cons x xs ih =>
    have hx : x.length = B := h x (by simp)
    have := ih (fun b hb => h b (by simp [hb]))
    simp [hx, this, Nat.succ_mul]; omega

/-- The batching pipeline's callbacks have the closed form the dispatch model uses: for every
schedule of the three goroutines, `n / B` batches of `B` rows and then the rest. -/
theorem callbacks_sizes {α : Type} (c : Cfg) (input : List α) (s : St α) (hB : 0 < c.B)
    (h : Reach c input s) (hf : Final s) :
    (clientCallbacks s).map List.length = batchSizes c.B input.length := by
  obtain ⟨hrows, hdel, hcur⟩ := pipeline_order_lossless c input s h hf
  have hlen : input.length = s.delivered.length * c.B + s.cur.length := by
    rw [← hrows]; simp [clientRows, flatten_length_all s.delivered c.B hdel]
  have hdiv : input.length / c.B = s.delivered.length := by
    rw [hlen, Nat.add_comm, Nat.add_mul_div_right _ _ hB, Nat.div_eq_of_lt hcur]; simp
  have hmod : input.length % c.B = s.cur.length := by
    rw [hlen, Nat.add_comm, Nat.add_mul_mod_self_right, Nat.mod_eq_of_lt hcur]
  have hmap := map_length_replicate s.delivered c.B hdel
  unfold batchSizes clientCallbacks
  rw [hdiv, hmod]
  cases hc : s.cur with
  | nil =>
    cases hd : s.delivered with
    | nil => simp
    | cons b bs => rw [hd] at hmap; simp [hmap]
  | cons x xs => simp [hmap]

/-- Exactness of the dispatch: if the iterator has the shape its schema promises and the analyzer's
flag is sound, every strategy hands the client exactly what the Spec demands. -/
theorem dispatch_exact (B : Nat) (q : Q) (hB : 1 < B) (hw : WellShaped q) (hs : FlagSound q) :
    handler B q = spec B q := by
  obtain ⟨hok, hnone⟩ := hw
  unfold handler spec
  cases hk : q.kind with
  | ok => simp [hok hk]
  | none => simp [hnone hk]
  | rows =>
    cases hm : q.max1 with
    | false => simp
    | true =>
      have hn : q.n ≤ 1 := hs hm
      have h01 : q.n = 0 ∨ q.n = 1 := by omega
      rcases h01 with h0 | h1
      · simp [h0, batchSizes]
      · have hd : 1 / B = 0 := Nat.div_eq_of_lt hB
        have hmd : 1 % B = 1 := Nat.mod_eq_of_lt hB
        simp [h1, batchSizes, hd, hmd]

/-- The client is sent all `n` rows. -/
theorem batchSizes_sum (B n : Nat) : (batchSizes B n).sum = n := by
  unfold batchSizes
  have := Nat.div_add_mod n B
  by_cases h : n % B ≠ 0 ∨ n / B = 0
  · simp only [h, if_true, List.sum_append, List.sum_replicate_nat, List.sum_cons, List.sum_nil]
    rw [Nat.mul_comm] at this; omega
  · simp only [h, if_false, List.sum_append, List.sum_replicate_nat, List.sum_nil]
    have h0 : n % B = 0 := by
      apply Classical.byContradiction; intro x; exact h (Or.inl x)
    rw [Nat.mul_comm] at this; omega

/-- With a sound flag the flag is unobservable: the client sees the same with and without it (the
in-process engine ignores it). -/
theorem flag_unobservable (B : Nat) (q : Q) (hB : 1 < B) (hw : WellShaped q) (hs : FlagSound q) :
    handler B q = handler B { q with max1 := false } := by
  rw [dispatch_exact B q hB hw hs,
    dispatch_exact B { q with max1 := false } hB hw (by intro h; simp at h)]
  rfl

/-- The soundness of the flag is necessary: a statement that carries the flag and yields two or
more rows fails over the wire, while the Spec (and the in-process engine) delivers the rows. -/
theorem unsound_max1_flag_errors (B : Nat) (q : Q) (hk : q.kind = .rows) (hm : q.max1 = true)
    (hn : 2 ≤ q.n) : handler B q = .err ∧ spec B q = .cbs (batchSizes B q.n) := by
  have : ¬ q.n ≤ 1 := by omega
  simp [handler, spec, hk, hm, this]

/-- Non-vacuity: three NULLs under a UNIQUE index, flag wrongly set. -/
example : handler 128 { kind := .rows, max1 := true, n := 3 } = .err ∧
    spec 128 { kind := .rows, max1 := true, n := 3 } = .cbs [3] := by decide

example : handler 128 { kind := .rows, max1 := false, n := 300 } = .cbs [128, 128, 44] ∧
    handler 128 { kind := .rows, max1 := true, n := 1 } = .cbs [1] ∧
    handler 128 { kind := .ok, max1 := false, n := 1 } = .cbs [0] ∧
    handler 128 { kind := .none, max1 := false, n := 0 } = .cbs [0] := by decide

end Dispatch

end Gms.C35
