/-
C35 — Clients receive exactly the engine's results over the wire: the row pipeline.

For *every* schedule of the reader / batcher / sender goroutines (any interleaving of enabled
steps, any number of rows): the batches delivered to the client followed by the returned last
result are exactly the iterator's rows in order; every delivered batch has exactly `rowsBatch`
rows; on error/cancellation the client has received a prefix; the pipeline never deadlocks and
always terminates.
-/
import Gms.Model.Pipeline
import Gms.Generated.C35

namespace Gms.Pipeline
variable {α : Type}

structure Inv (c : Cfg) (input : List α) (s : St α) : Prop where
  data : s.delivered.flatten ++ (s.resChan.flatten ++ (s.cur ++ (s.rowChan ++ s.remaining))) = input
  delB : ∀ b ∈ s.delivered, b.length = c.B
  resB : ∀ b ∈ s.resChan, b.length = c.B
  curB : s.cur.length ≤ c.B
  rDone : s.readerDone = true → s.remaining = []
  bDone : s.batcherDone = true → s.readerDone = true ∧ s.rowChan = [] ∧ s.cur.length < c.B
  sDone : s.senderDone = true → s.batcherDone = true ∧ s.resChan = []
  capR : s.rowChan.length ≤ c.capR
  capS : s.resChan.length ≤ c.capS

theorem inv_init (c : Cfg) (input : List α) : Inv c input (init input) := by
  constructor <;> simp [init]

theorem inv_step (c : Cfg) (input : List α) (s s' : St α) (h : Inv c input s) (st : Step c s s') :
    Inv c input s' := by
  obtain ⟨hd, hdel, hres, hcur, hr, hb, hs, hcr, hcs⟩ := h
  cases st with
  | read r rest hf hrem hcap =>
    refine ⟨?_, hdel, hres, hcur, ?_, ?_, hs, ?_, hcs⟩
    · simp only; rw [← hd, hrem]; simp
    · intro h; have := hr h; rw [hrem] at this; simp at this
    · intro h; have := (hb h).1; have := hr this; rw [hrem] at this; simp at this
    · simp only [List.length_append, List.length_cons, List.length_nil]; omega
  | readerClose hf hrem hnd =>
    refine ⟨hd, hdel, hres, hcur, fun _ => hrem, ?_, hs, hcr, hcs⟩
    intro h; have := (hb h).1; rw [hnd] at this; simp at this
  | take r rc hf hrc hlt =>
    refine ⟨?_, hdel, hres, ?_, hr, ?_, hs, ?_, hcs⟩
    · simp only; rw [← hd, hrc]; simp
    · simp only [List.length_append, List.length_cons, List.length_nil]; omega
    · intro h; have := (hb h).2.1; rw [hrc] at this; simp at this
    · rw [hrc] at hcr; simp only [List.length_cons] at hcr; simp only; omega
  | flush hf hfull hcap =>
    refine ⟨?_, hdel, ?_, by simp, hr, ?_, ?_, hcr, ?_⟩
    · simp only; rw [← hd]; simp
    · intro b hbm
      simp only [List.mem_append, List.mem_singleton] at hbm
      rcases hbm with h | h
      · exact hres b h
      · rw [h]; exact hfull
    · intro h; have := (hb h).2.2; omega
    · intro h
      have h1 := (hs h).1
      have := (hb h1).2.2; omega
    · simp only [List.length_append, List.length_cons, List.length_nil]; omega
  | batcherClose hf hrc hrd hlt hnd =>
    refine ⟨hd, hdel, hres, hcur, hr, fun _ => ⟨hrd, hrc, hlt⟩, ?_, hcr, hcs⟩
    intro h; have := (hs h).1; rw [hnd] at this; simp at this
  | send b rs hf hrs =>
    refine ⟨?_, ?_, ?_, hcur, hr, hb, ?_, hcr, ?_⟩
    · simp only; rw [← hd, hrs]; simp
    · intro x hx
      simp only [List.mem_append, List.mem_singleton] at hx
      rcases hx with h | h
      · exact hdel x h
      · rw [h]; exact hres b (by rw [hrs]; simp)
    · intro x hx; exact hres x (by rw [hrs]; simp [hx])
    · intro h; have := (hs h).2; rw [hrs] at this; simp at this
    · rw [hrs] at hcs; simp only [List.length_cons] at hcs; simp only; omega
  | senderClose hf hrs hbd hnd =>
    exact ⟨hd, hdel, hres, hcur, hr, hb, fun _ => ⟨hbd, hrs⟩, hcr, hcs⟩
  | fail hf hnd =>
    exact ⟨hd, hdel, hres, hcur, hr, hb, hs, hcr, hcs⟩

theorem inv_reach (c : Cfg) (input : List α) (s : St α) (h : Reach c input s) : Inv c input s := by
  induction h with
  | init => exact inv_init c input
  | step s s' _ st ih => exact inv_step c input s s' ih st

/-- Termination measure. -/
def measure (s : St α) : Nat :=
  5 * s.remaining.length + 4 * s.rowChan.length + 3 * s.cur.length + s.resChan.flatten.length
    + s.resChan.length
    + (if s.readerDone then 0 else 1) + (if s.batcherDone then 0 else 1)
    + (if s.senderDone then 0 else 1) + (if s.failed then 0 else 1)

end Gms.Pipeline

namespace Gms.C35
open Gms.Pipeline
variable {α : Type}

/-- The constants of the model are the ones in server/handler.go on this run. -/
theorem facts_match : Gms.Generated.C35.rowsBatch = 128 ∧ Gms.Generated.C35.rowChanCap = 512 ∧
    Gms.Generated.C35.resChanCap = 4 ∧ Gms.Generated.C35.flushComparison = "==" ∧
    Gms.Generated.C35.goroutines = 4 := by decide

/-- Order-preserving and lossless, for every schedule: when the three goroutines have returned
without error, the client has received exactly the iterator's rows, in order; every batch
delivered through the callback has exactly `rowsBatch` rows and the returned last result has
fewer. -/
theorem pipeline_order_lossless (c : Cfg) (input : List α) (s : St α)
    (h : Reach c input s) (hf : Final s) :
    clientRows s = input ∧ (∀ b ∈ s.delivered, b.length = c.B) ∧ s.cur.length < c.B := by
  have inv := inv_reach c input s h
  obtain ⟨_, hr, hb, hs⟩ := hf
  have h1 := inv.sDone hs
  have h2 := inv.bDone hb
  have h3 := inv.rDone hr
  refine ⟨?_, inv.delB, h2.2.2⟩
  have := inv.data
  rw [h1.2, h2.2.1, h3] at this
  simpa [clientRows] using this

/-- The sequence of `callback` invocations (as `doQuery` makes them) carries exactly the rows,
in order; it is a single empty result iff there are no rows. -/
theorem callbacks_lossless (c : Cfg) (input : List α) (s : St α)
    (h : Reach c input s) (hf : Final s) :
    (clientCallbacks s).flatten = input := by
  have := (pipeline_order_lossless c input s h hf).1
  unfold clientCallbacks
  cases hc : s.cur with
  | nil => simp [clientRows, hc] at this ⊢; split <;> simp [this]
  | cons x xs => simp [clientRows, hc] at this ⊢; exact this

/-- On error or cancellation (and at every intermediate moment) what the client has been sent
is a prefix of the result: nothing is reordered, duplicated or invented. -/
theorem error_no_partial_reorder (c : Cfg) (input : List α) (s : St α) (h : Reach c input s) :
    s.delivered.flatten <+: input := by
  have inv := inv_reach c input s h
  exact ⟨_, inv.data⟩

/-- Batch sizes, at every moment of every schedule. -/
theorem batch_sizes (c : Cfg) (input : List α) (s : St α) (h : Reach c input s) :
    (∀ b ∈ s.delivered, b.length = c.B) ∧ (∀ b ∈ s.resChan, b.length = c.B) ∧ s.cur.length ≤ c.B ∧
    s.rowChan.length ≤ c.capR ∧ s.resChan.length ≤ c.capS := by
  have inv := inv_reach c input s h
  exact ⟨inv.delB, inv.resB, inv.curB, inv.capR, inv.capS⟩

/-- No deadlock: in every reachable state that has not failed and is not final, some goroutine
can make progress (given that the client consumes, i.e. `send` is always possible). -/
theorem no_deadlock (c : Cfg) (input : List α) (s : St α) (hB : 0 < c.B) (hR : 0 < c.capR)
    (hS : 0 < c.capS) (h : Reach c input s) (hnf : s.failed = false) (hfin : ¬ Final s) :
    ∃ s', Step c s s' ∧ s'.failed = false := by
  have inv := inv_reach c input s h
  -- what the batcher/sender can do when the batcher holds or can get a row
  have drain : (s.rowChan ≠ [] ∨ s.cur.length = c.B) → ∃ s', Step c s s' ∧ s'.failed = false := by
    intro hne
    by_cases hfull : s.cur.length = c.B
    · by_cases hcap : s.resChan.length < c.capS
      · exact ⟨_, Step.flush s hnf hfull hcap, hnf⟩
      · cases hrs : s.resChan with
        | nil => rw [hrs] at hcap; simp at hcap; omega
        | cons b rs => exact ⟨_, Step.send s b rs hnf hrs, hnf⟩
    · have hlt : s.cur.length < c.B := by have := inv.curB; omega
      cases hrc : s.rowChan with
      | nil => rcases hne with h1 | h1
               · exact absurd hrc h1
               · exact absurd h1 hfull
      | cons r rc => exact ⟨_, Step.take s r rc hnf hrc hlt, hnf⟩
  cases hrem : s.remaining with
  | cons r rest =>
    by_cases hcap : s.rowChan.length < c.capR
    · exact ⟨_, Step.read s r rest hnf hrem hcap, hnf⟩
    · apply drain; left
      intro e; rw [e] at hcap; simp at hcap; omega
  | nil =>
    cases hrd : s.readerDone with
    | false => exact ⟨_, Step.readerClose s hnf hrem hrd, hnf⟩
    | true =>
      by_cases hne : s.rowChan ≠ [] ∨ s.cur.length = c.B
      · exact drain hne
      · have hrc : s.rowChan = [] := by
          apply Classical.byContradiction; intro x; exact hne (Or.inl x)
        have hlt : s.cur.length < c.B := by
          have := inv.curB
          have : ¬ s.cur.length = c.B := fun x => hne (Or.inr x)
          omega
        cases hbd : s.batcherDone with
        | false => exact ⟨_, Step.batcherClose s hnf hrc hrd hlt hbd, hnf⟩
        | true =>
          cases hrs : s.resChan with
          | cons b rs => exact ⟨_, Step.send s b rs hnf hrs, hnf⟩
          | nil =>
            cases hsd : s.senderDone with
            | false => exact ⟨_, Step.senderClose s hnf hrs hbd hsd, hnf⟩
            | true => exact absurd ⟨hnf, hrd, hbd, hsd⟩ hfin

/-- Termination: every step strictly decreases the measure, so every schedule is finite. -/
theorem step_decreases (c : Cfg) (s s' : St α) (hB : 0 < c.B) (st : Step c s s') :
    measure s' < measure s := by
  cases st with
  | read r rest hf hrem hcap => simp [Pipeline.measure, hrem]; omega
  | readerClose hf hrem hnd => simp [Pipeline.measure, hnd]
  | take r rc hf hrc hlt => simp [Pipeline.measure, hrc]; omega
  | flush hf hfull hcap => simp [Pipeline.measure, hfull]; omega
  | batcherClose hf hrc hrd hlt hnd => simp [Pipeline.measure, hnd]
  | send b rs hf hrs => simp [Pipeline.measure, hrs]; omega
  | senderClose hf hrs hbd hnd => simp [Pipeline.measure, hnd]
  | fail hf hnd => simp [Pipeline.measure, hf]

/-- The executable scheduler used by the correspondence driver only takes model steps. -/
theorem tick_is_step (c : Cfg) (s s' : St α) (p : Nat) (hnf : s.failed = false)
    (hcur : s.cur.length ≤ c.B) (h : tick c s p = some s') : Step c s s' := by
  have rd : ∀ t, (match s.remaining with
      | r :: rest => if s.rowChan.length < c.capR then some { s with remaining := rest, rowChan := s.rowChan ++ [r] } else none
      | [] => if s.readerDone then none else some { s with readerDone := true }) = some t → Step c s t := by
    intro t ht
    cases hrem : s.remaining with
    | nil =>
      rw [hrem] at ht
      cases hrd : s.readerDone with
      | true => simp [hrd] at ht
      | false =>
        simp [hrd] at ht; subst ht
        have e := Step.readerClose (c := c) s hnf hrem hrd
        rw [hrem] at e; exact e
    | cons r rest =>
      rw [hrem] at ht
      by_cases hc : s.rowChan.length < c.capR
      · simp [hc] at ht; subst ht; exact Step.read s r rest hnf hrem hc
      · simp [hc] at ht
  have bt : ∀ t, (if s.cur.length = c.B then
        (if s.resChan.length < c.capS then some { s with cur := [], resChan := s.resChan ++ [s.cur] } else none)
      else match s.rowChan with
        | r :: rc => some { s with rowChan := rc, cur := s.cur ++ [r] }
        | [] => if s.readerDone && !s.batcherDone then some { s with batcherDone := true } else none) = some t → Step c s t := by
    intro t ht
    by_cases hfull : s.cur.length = c.B
    · simp only [hfull, if_true] at ht
      by_cases hc : s.resChan.length < c.capS
      · simp [hc] at ht; subst ht; exact Step.flush s hnf hfull hc
      · simp [hc] at ht
    · simp only [hfull, if_false] at ht
      have hlt : s.cur.length < c.B := by omega
      cases hrc : s.rowChan with
      | cons r rc => rw [hrc] at ht; simp at ht; subst ht; exact Step.take s r rc hnf hrc hlt
      | nil =>
        rw [hrc] at ht
        cases hrd : s.readerDone <;> cases hbd : s.batcherDone <;> simp [hrd, hbd] at ht
        subst ht
        have e := Step.batcherClose (c := c) s hnf hrc hrd hlt hbd
        rw [hrc, hrd] at e; exact e
  have sd : ∀ t, (match s.resChan with
      | b :: rs => some { s with resChan := rs, delivered := s.delivered ++ [b] }
      | [] => if s.batcherDone && !s.senderDone then some { s with senderDone := true } else none) = some t → Step c s t := by
    intro t ht
    cases hrs : s.resChan with
    | cons b rs => rw [hrs] at ht; simp at ht; subst ht; exact Step.send s b rs hnf hrs
    | nil =>
      rw [hrs] at ht
      cases hbd : s.batcherDone <;> cases hsd : s.senderDone <;> simp [hbd, hsd] at ht
      subst ht
      have e := Step.senderClose (c := c) s hnf hrs hbd hsd
      rw [hrs, hbd] at e; exact e
  unfold tick at h
  simp only at h
  split at h <;> simp only [List.findSome?_cons, id] at h
  all_goals
    repeat' split at h
    all_goals first
      | (injection h with h; subst h; first | exact rd _ ‹_› | exact bt _ ‹_› | exact sd _ ‹_›)
      | simp at h

/-- Non-vacuity: a concrete run (B = 2, capacities 1) reaches a final state with two delivered
batches and a one-row last result. -/
example :
    let c : Cfg := { B := 2, capR := 1, capS := 1 }
    let s := runSched c (init [1, 2, 3, 4, 5]) [0, 0, 1, 2, 2, 1, 0, 1] 100
    s.delivered = [[1, 2], [3, 4]] ∧ s.cur = [5] ∧ s.senderDone = true ∧ clientRows s = [1, 2, 3, 4, 5] := by
  decide

end Gms.C35
