/-
C17 — Transactions commit or roll back exactly their own changes.

Model: Gms/Model/Txn.lean (Impl model of memory.Session's working copies, beginTransaction,
START TRANSACTION / COMMIT / ROLLBACK, TransactionCommittingIter.Close; Spec = the same machine
with "publish exactly the written tables", "DDL ends the explicit transaction", "READ ONLY
rejects writes"). A write attempted in a READ ONLY transaction registers the table's snapshot in
the session before the analyzer rule panics (`readonly_write_registers_like_read`); together with
a later commit this is the listed write-back of a table that was only read
(`finding_readonly_panic_then_commit_overwrites`).
-/
import Gms.Model.Txn
import Gms.Generated.C17

namespace Gms.Txn

/-! ## Lemmas -/

theorem lookup_store_same (l : List (Nat × TV)) (t : Nat) (v : TV) : lookup (store l t v) t = some v := by
  induction l with
  | nil => simp [store, lookup]
  | cons p r ih =>
    obtain ⟨k, w⟩ := p
    by_cases h : k = t
    · simp [store, lookup, h]
    · simp [store, lookup, h, ih]

theorem lookup_store_other (l : List (Nat × TV)) (t t' : Nat) (v : TV) (h : t' ≠ t) :
    lookup (store l t v) t' = lookup l t' := by
  induction l with
  | nil =>
    have : ¬ t = t' := fun e => h e.symm
    simp [store, lookup, this]
  | cons p r ih =>
    obtain ⟨k, w⟩ := p
    by_cases hk : k = t
    · subst hk
      have : ¬ k = t' := fun e => h e.symm
      simp [store, lookup, this]
    · by_cases hk' : k = t'
      · subst hk'
        simp [store, lookup, hk]
      · simp [store, lookup, hk, hk', ih]

theorem lookup_mem (l : List (Nat × TV)) (t : Nat) (v : TV) (h : lookup l t = some v) : (t, v) ∈ l := by
  induction l with
  | nil => simp [lookup] at h
  | cons p r ih =>
    obtain ⟨k, w⟩ := p
    by_cases hk : k = t
    · simp [lookup, hk] at h; subst hk h; simp
    · simp [lookup, hk] at h; exact List.mem_cons_of_mem _ (ih h)

/-- If no touched-but-unwritten copy differs from the committed version, publishing every touched
table (Impl) and publishing the written tables (Spec) give the same committed state. -/
theorem publish_eq_of_not_stale (base : Nat → TV) (se : Sess) (h : staleRead base se = false) :
    publish base se.tables = publishWritten base se.tables se.written := by
  funext t
  unfold publish publishWritten
  cases hw : se.written.contains t with
  | true => simp
  | false =>
    simp only [Bool.false_eq_true, if_false]
    cases hl : lookup se.tables t with
    | none => rfl
    | some v =>
      simp only
      have hm := lookup_mem se.tables t v hl
      unfold staleRead at h
      have := (List.any_eq_false.mp h) (t, v) hm
      simp only [hw, Bool.not_false, Bool.true_and, bne_iff_ne, ne_eq, Decidable.not_not,
        Bool.not_eq_true, bne_eq_false_iff_eq] at this
      exact this

theorem closeTx_eq (implicit : Bool) (base : Nat → TV) (se : Sess)
    (h : (se.tx && (implicit || (!se.explicit && se.autocommit))) = true → staleRead base se = false) :
    closeTx (fun b se => publish b se.tables) implicit base se =
    closeTx (fun b se => publishWritten b se.tables se.written) implicit base se := by
  unfold closeTx
  cases hc : (se.tx && (implicit || (!se.explicit && se.autocommit))) with
  | false => simp
  | true => simp only [if_true]; rw [publish_eq_of_not_stale base se (h hc)]

theorem closeTx_open (pub : (Nat → TV) → Sess → (Nat → TV)) (base : Nat → TV) (se : Sess)
    (hopen : se.explicit = true ∨ se.autocommit = false) : closeTx pub false base se = (base, se) := by
  unfold closeTx
  rcases hopen with he | ha
  · simp [he]
  · simp [ha]

theorem touch_flags (base : Nat → TV) (se : Sess) (t : Nat) :
    (touch base se t).1.tx = se.tx ∧ (touch base se t).1.explicit = se.explicit ∧
    (touch base se t).1.autocommit = se.autocommit ∧ (touch base se t).1.written = se.written := by
  unfold touch; split <;> simp

theorem beginTx_tx (se : Sess) : (beginTx se).tx = true := by
  unfold beginTx; cases h : se.tx <;> simp [h]


/-! ## Serial composition -/

/-- What the session would read for every table: its working copy, else the committed version. -/
def viewOf (base : Nat → TV) (se : Sess) : Nat → TV :=
  fun t => match lookup se.tables t with
    | some v => v
    | none => base t

def upd (f : Nat → TV) (t : Nat) (v : TV) : Nat → TV := fun x => if x = t then v else f x

/-- A body statement of a transaction block: a read (`none`) or a write of table `t`. -/
abbrev BodyOp := Nat × Option W

def BodyOp.kind (b : BodyOp) : Kind :=
  match b.2 with
  | none => .read b.1
  | some w => .write b.1 w

/-- Sequential meaning of a body statement on a database value. -/
def applyBodyOp (f : Nat → TV) (b : BodyOp) : Nat → TV :=
  match b.2 with
  | none => f
  | some w => match w.app (f b.1) with
    | some v' => upd f b.1 v'
    | none => f

structure Block where
  s : Nat
  body : List BodyOp
  commit : Bool

def Block.ops (b : Block) : List Op :=
  ⟨b.s, .begin false⟩ :: b.body.map (fun x => ⟨b.s, x.kind⟩) ++ [⟨b.s, if b.commit then .commit else .rollback⟩]

/-- Running the transaction alone on the committed database. -/
def Block.effect (base : Nat → TV) (b : Block) : Nat → TV :=
  if b.commit then b.body.foldl applyBodyOp base else base

theorem run_append (st : St) (a b : List Op) : (run st (a ++ b)).1 = (run (run st a).1 b).1 := by
  induction a generalizing st with
  | nil => rfl
  | cons o os ih => simp only [List.cons_append, run]; exact ih _

theorem viewOf_touch (base : Nat → TV) (se : Sess) (t : Nat) :
    viewOf base (touch base se t).1 = viewOf base se ∧ (touch base se t).2 = viewOf base se t := by
  unfold touch viewOf
  cases h : lookup se.tables t with
  | some v => simp [h]
  | none =>
    simp only
    constructor
    · funext x
      by_cases hx : x = t
      · subst hx; simp [lookup_store_same, h]
      · simp [lookup_store_other _ _ _ _ hx]
    · first | rfl | trivial

theorem viewOf_store (base : Nat → TV) (se : Sess) (t : Nat) (v : TV) (w : List Nat) :
    viewOf base { se with tables := store se.tables t v, written := w } = upd (viewOf base se) t v := by
  funext x
  unfold viewOf upd
  by_cases hx : x = t
  · subst hx; simp [lookup_store_same]
  · simp [lookup_store_other _ _ _ _ hx, hx]

/-- Invariant of a session inside its own block. -/
def InBlock (se : Sess) : Prop := se.tx = true ∧ se.explicit = true ∧ se.readOnly = false

/-- One body statement inside a block: committed state and other sessions unchanged, the
session's view advances by the sequential meaning of the statement. -/
theorem body_step (st : St) (s : Nat) (b : BodyOp) (hin : InBlock (st.sess s)) :
    (step st ⟨s, b.kind⟩).1.base = st.base ∧
    InBlock ((step st ⟨s, b.kind⟩).1.sess s) ∧
    viewOf st.base ((step st ⟨s, b.kind⟩).1.sess s) = applyBodyOp (viewOf st.base (st.sess s)) b ∧
    (∀ s', s' ≠ s → (step st ⟨s, b.kind⟩).1.sess s' = st.sess s') := by
  obtain ⟨htx, hex, hro⟩ := hin
  have hb : beginTx (st.sess s) = st.sess s := by unfold beginTx; simp [htx]
  have hfl := touch_flags st.base (st.sess s)
  have hro' : ∀ t, (touch st.base (st.sess s) t).1.readOnly = false := by
    intro t; unfold touch; split <;> simp [hro]
  obtain ⟨t, ow⟩ := b
  cases ow with
  | none =>
    simp only [BodyOp.kind, applyBodyOp, step, stepWith, hb, Bool.false_eq_true, if_false]
    rw [closeTx_open _ _ _ (Or.inl (by rw [(hfl t).2.1]; exact hex))]
    refine ⟨rfl, ?_, ?_, fun s' hs => by simp [setSess, hs]⟩
    · simp only [setSess, if_true]
      exact ⟨by rw [(hfl t).1]; exact htx, by rw [(hfl t).2.1]; exact hex, hro' t⟩
    · simp only [setSess, if_true]
      exact (viewOf_touch st.base (st.sess s) t).1
  | some w =>
    simp only [BodyOp.kind, applyBodyOp, step, stepWith, hb, hro, Bool.false_eq_true, if_false]
    rw [(viewOf_touch st.base (st.sess s) t).2]
    cases hw : w.app (viewOf st.base (st.sess s) t) with
    | some v' =>
      simp only
      rw [closeTx_open _ _ _ (Or.inl (by simp only; rw [(hfl t).2.1]; exact hex))]
      refine ⟨rfl, ?_, ?_, fun s' hs => by simp [setSess, hs]⟩
      · simp only [setSess, if_true]
        exact ⟨by rw [(hfl t).1]; exact htx, by rw [(hfl t).2.1]; exact hex, hro' t⟩
      · simp only [setSess, if_true]
        rw [viewOf_store, (viewOf_touch st.base (st.sess s) t).1]
    | none =>
      simp only
      rw [closeTx_open _ _ _ (Or.inl (by rw [(hfl t).2.1]; exact hex))]
      refine ⟨rfl, ?_, ?_, fun s' hs => by simp [setSess, hs]⟩
      · simp only [setSess, if_true]
        exact ⟨by rw [(hfl t).1]; exact htx, by rw [(hfl t).2.1]; exact hex, hro' t⟩
      · simp only [setSess, if_true]
        exact (viewOf_touch st.base (st.sess s) t).1

theorem body_run (st : St) (s : Nat) (body : List BodyOp) (hin : InBlock (st.sess s)) :
    (run st (body.map (fun x => ⟨s, x.kind⟩))).1.base = st.base ∧
    InBlock ((run st (body.map (fun x => ⟨s, x.kind⟩))).1.sess s) ∧
    viewOf st.base ((run st (body.map (fun x => ⟨s, x.kind⟩))).1.sess s) = body.foldl applyBodyOp (viewOf st.base (st.sess s)) ∧
    (∀ s', s' ≠ s → (run st (body.map (fun x => ⟨s, x.kind⟩))).1.sess s' = st.sess s') := by
  induction body generalizing st with
  | nil => exact ⟨rfl, hin, rfl, fun _ _ => rfl⟩
  | cons b bs ih =>
    simp only [List.map_cons, run, List.foldl_cons]
    obtain ⟨h1, h2, h3, h4⟩ := body_step st s b hin
    obtain ⟨i1, i2, i3, i4⟩ := ih (step st ⟨s, b.kind⟩).1 h2
    refine ⟨by rw [i1, h1], i2, ?_, fun s' hs => by rw [i4 s' hs, h4 s' hs]⟩
    rw [h1] at i3
    rw [i3, h3]

/-- All sessions are between transactions. -/
def Idle (st : St) : Prop := ∀ s, (st.sess s).tx = false

theorem block_run (st : St) (b : Block) (hidle : Idle st) :
    (run st b.ops).1.base = b.effect st.base ∧ Idle (run st b.ops).1 := by
  unfold Block.ops
  rw [List.cons_append]
  simp only [run]
  -- after BEGIN
  have hbt : beginTx (st.sess b.s) = { st.sess b.s with tables := [], written := [], tx := true, readOnly := false } := by
    unfold beginTx; simp [hidle b.s]
  have hbegin : (step st ⟨b.s, .begin false⟩).1 =
      ⟨st.base, setSess st.sess b.s { st.sess b.s with tables := [], written := [], tx := true, explicit := true, readOnly := false }⟩ := by
    simp only [step, stepWith, hbt, Bool.false_eq_true, if_false]
    congr 1
  rw [hbegin, run_append]
  obtain ⟨st1, hst1⟩ : ∃ x : St, x = ⟨st.base, setSess st.sess b.s { st.sess b.s with tables := [], written := [], tx := true, explicit := true, readOnly := false }⟩ := ⟨_, rfl⟩
  rw [← hst1]
  have hin : InBlock (st1.sess b.s) := by simp [hst1, setSess, InBlock]
  obtain ⟨h1, h2, h3, h4⟩ := body_run st1 b.s b.body hin
  have hview0 : viewOf st1.base (st1.sess b.s) = st.base := by
    funext t; simp [hst1, viewOf, setSess, lookup]
  rw [hview0] at h3
  obtain ⟨st2, hst2⟩ : ∃ x : St, x = (run st1 (b.body.map (fun x => ⟨b.s, x.kind⟩))).1 := ⟨_, rfl⟩
  rw [← hst2] at h1 h2 h3 h4 ⊢
  have hb2 : beginTx (st2.sess b.s) = st2.sess b.s := by unfold beginTx; simp [h2.1]
  have hb1 : st1.base = st.base := by rw [hst1]
  have hbase2 : st2.base = st.base := by rw [h1, hb1]
  rw [hb1] at h3
  cases hc : b.commit with
  | true =>
    simp only [if_true, run, Block.effect, hc]
    constructor
    · simp only [step, stepWith, hb2, Bool.false_eq_true, if_false]
      funext t
      have := congrFun h3 t
      simp only [viewOf, hbase2] at this ⊢
      simp only [publish, hbase2]
      exact this
    · intro s'
      simp only [step, stepWith, hb2, Bool.false_eq_true, if_false, setSess]
      by_cases hs : s' = b.s
      · simp [hs]
      · simp only [hs, if_false]
        rw [h4 s' hs]
        simp only [hst1, setSess, hs, if_false]
        exact hidle s'
  | false =>
    simp only [Bool.false_eq_true, if_false, run, Block.effect]
    constructor
    · simp only [step, stepWith, hc, Bool.false_eq_true, if_false]; exact hbase2
    · intro s'
      simp only [step, stepWith, setSess]
      by_cases hs : s' = b.s
      · simp [hs]
      · simp only [hs, if_false]
        rw [h4 s' hs]
        simp only [hst1, setSess, hs, if_false]
        exact hidle s'

end Gms.Txn

/-! ## Property theorems -/
namespace Gms.C17
open Gms.Txn

/-- The transaction code has the shape the model transliterates (regenerated from the source). -/
theorem facts_match :
    Gms.Generated.C17.sessionStartTransaction =
      ["s.tables = make(map[tableKey]*TableData)", "s.editAccumulators = make(map[tableKey]tableEditAccumulator)",
       "return &Transaction{tCharacteristic == sql.ReadOnly}, nil"] ∧
    Gms.Generated.C17.sessionRollback =
      ["s.tables = make(map[tableKey]*TableData)", "s.editAccumulators = make(map[tableKey]tableEditAccumulator)", "return nil"] ∧
    Gms.Generated.C17.commitTransactionShape = ["for range s.tables", "baseDb.putTable(s.tables[key].Table(baseDb))"] ∧
    Gms.Generated.C17.sessionTableData = ["td, ok := s.tables[key(t.data)]", "if !ok", "return td"] ∧
    Gms.Generated.C17.beginTransactionGuards = ["ctx.GetTransaction() != nil", "ok"] ∧
    Gms.Generated.C17.committingIterCloseConds =
      ["t.childIter != nil", "err != nil", "tx == nil", "!t.implicitCommit && ctx.GetIgnoreAutoCommit()",
       "!t.implicitCommit && !t.autoCommit", "!ok", "err := ts.CommitTransaction(ctx, tx); err != nil"] ∧
    Gms.Generated.C17.implicitCommitCond =
      "qFlags != nil && (qFlags.IsSet(sql.QFlagDDL) || qFlags.IsSet(sql.QFlagAlterTable) || qFlags.IsSet(sql.QFlagDBDDL))" ∧
    Gms.Generated.C17.buildStartTransactionCalls =
      ["CommitTransaction(ctx, currentTx)", "StartTransaction(ctx, n.TransChar)", "SetTransaction(transaction)", "SetIgnoreAutoCommit(true)"] ∧
    Gms.Generated.C17.buildCommitCalls = ["CommitTransaction(ctx, transaction)", "SetIgnoreAutoCommit(false)", "SetTransaction(nil)"] ∧
    Gms.Generated.C17.buildRollbackCalls = ["Rollback(ctx, transaction)", "SetIgnoreAutoCommit(false)", "SetTransaction(nil)"] := by
  decide

/-- **Refinement, one statement.** Outside the three listed regions the Impl model and the Spec
take exactly the same step: same new state, same client-visible result. -/
theorem step_eq_spec_partial (st : St) (o : Op) (h : (step st o).2.2 = []) : step st o = specStep st o := by
  obtain ⟨s, k⟩ := o
  unfold step specStep at *
  cases k with
  | read t =>
    simp only [stepWith] at h ⊢
    have hc := closeTx_eq false st.base (touch st.base (beginTx (st.sess s)) t).1 (by
      intro hcond
      simp only [Bool.false_or] at hcond
      cases hs : staleRead st.base (touch st.base (beginTx (st.sess s)) t).1 with
      | false => rfl
      | true => simp [hcond, hs] at h)
    simp only [Bool.false_eq_true, if_false, if_true] at hc ⊢
    rw [hc]
  | write t w =>
    simp only [stepWith] at h ⊢
    split
    · next hro => simp [hro] at h
    · split
      · next v' hv =>
        simp only [hv] at h
        have hc := closeTx_eq false st.base
          { (touch st.base (beginTx (st.sess s)) t).1 with
            tables := store (touch st.base (beginTx (st.sess s)) t).1.tables t v',
            written := if (touch st.base (beginTx (st.sess s)) t).1.written.contains t
                       then (touch st.base (beginTx (st.sess s)) t).1.written
                       else t :: (touch st.base (beginTx (st.sess s)) t).1.written } (by
          intro hcond
          simp only [Bool.false_or] at hcond
          cases hs : staleRead st.base _ with
          | false => rfl
          | true => simp_all)
        simp only [Bool.false_eq_true, if_false, if_true] at hc ⊢
        rw [hc]
      · next hv =>
        simp only [hv] at h
        have hc := closeTx_eq false st.base (touch st.base (beginTx (st.sess s)) t).1 (by
          intro hcond
          simp only [Bool.false_or] at hcond
          cases hs : staleRead st.base (touch st.base (beginTx (st.sess s)) t).1 with
          | false => rfl
          | true => simp_all)
        simp only [Bool.false_eq_true, if_false, if_true] at hc ⊢
        rw [hc]
  | begin ro =>
    simp only [stepWith] at h ⊢
    cases hs : staleRead st.base (beginTx (st.sess s)) with
    | true => simp [hs] at h
    | false => simp only [Bool.false_eq_true, if_false, if_true]; rw [publish_eq_of_not_stale _ _ hs]
  | commit =>
    simp only [stepWith] at h ⊢
    cases hs : staleRead st.base (beginTx (st.sess s)) with
    | true => simp [hs] at h
    | false => simp only [Bool.false_eq_true, if_false, if_true]; rw [publish_eq_of_not_stale _ _ hs]
  | rollback => simp only [stepWith]
  | setAC b =>
    simp only [stepWith] at h ⊢
    have hc := closeTx_eq false st.base { beginTx (st.sess s) with autocommit := b } (by
      intro hcond
      simp only [Bool.false_or] at hcond
      cases hs : staleRead st.base { beginTx (st.sess s) with autocommit := b } with
      | false => rfl
      | true => simp_all)
    simp only [Bool.false_eq_true, if_false, if_true] at hc ⊢
    rw [hc]
  | ddl =>
    simp only [stepWith] at h ⊢
    have h1 : staleRead st.base (beginTx (st.sess s)) = false := by
      cases hs : staleRead st.base (beginTx (st.sess s)) with
      | false => rfl
      | true => simp [hs] at h
    have h2 : (beginTx (st.sess s)).explicit = false := by
      cases he : (beginTx (st.sess s)).explicit with
      | false => rfl
      | true => simp [he] at h
    have hc := closeTx_eq true st.base (beginTx (st.sess s)) (fun _ => h1)
    simp only [Bool.false_eq_true, if_false, if_true] at hc ⊢
    rw [hc]
    -- the Spec additionally clears `explicit`, which is already false
    have : ∀ p : (Nat → TV) × Sess, p.2.explicit = false → ({ p.2 with explicit := false } : Sess) = p.2 := by
      intro p hp; cases p with | mk b se => cases se; simp_all
    have hex : (closeTx (fun b se => publishWritten b se.tables se.written) true st.base (beginTx (st.sess s))).2.explicit = false := by
      unfold closeTx; split <;> simp [h2]
    rw [this _ hex]

/-- **Refinement, whole histories.** If no statement of the run falls into a listed region, the
Impl run and the Spec run produce the same observations and the same final state. -/
theorem run_eq_spec_partial (st : St) (h : List Op) (hfl : (run st h).2.2 = []) :
    (run st h).1 = (specRun st h).1 ∧ (run st h).2.1 = (specRun st h).2 := by
  induction h generalizing st with
  | nil => exact ⟨rfl, rfl⟩
  | cons o os ih =>
    simp only [run, specRun] at hfl ⊢
    have h1 : (step st o).2.2 = [] := List.append_eq_nil_iff.mp hfl |>.1
    have h2 := List.append_eq_nil_iff.mp hfl |>.2
    have he := step_eq_spec_partial st o h1
    rw [← he]
    obtain ⟨ha, hb⟩ := ih (step st o).1 h2
    exact ⟨ha, by rw [hb]⟩

/-
Full statement (FALSE on the unchanged code; kept visible):
  theorem run_eq_spec (st h) : (run st h).2.1 = (specRun st h).2
Witnesses: finding_commit_overwrites_read_table, finding_ddl_keeps_explicit_mode,
finding_readonly_txn_write_panics.
-/

def obsOf (h : List Op) : List Obs := (run St.init h).2.1
def specObsOf (h : List Op) : List Obs := (specRun St.init h).2

/-- Session 0 only *reads* t0 inside its transaction; session 1 commits row 2 to t0 meanwhile;
session 0's COMMIT erases it: session 1 then reads [1] instead of [1,2]. -/
theorem finding_commit_overwrites_read_table :
    let h := [⟨0, .write 0 (.ins 1)⟩, ⟨0, .begin false⟩, ⟨0, .read 0⟩, ⟨1, .write 0 (.ins 2)⟩,
              ⟨0, .write 1 (.ins 5)⟩, ⟨0, .commit⟩, ⟨1, .read 0⟩]
    obsOf h ≠ specObsOf h ∧ (obsOf h).getLast? = some (.rows [1]) ∧ (specObsOf h).getLast? = some (.rows [1, 2]) ∧
    (run St.init h).2.2 = [Region.commit_overwrites_read_table] := by
  decide

/-- BEGIN; INSERT 7; CREATE TABLE …; INSERT 8 — the second insert is not committed (another
session does not see it) although the DDL ended the transaction. -/
theorem finding_ddl_keeps_explicit_mode :
    let h := [⟨1, .begin false⟩, ⟨1, .write 0 (.ins 7)⟩, ⟨1, .ddl⟩, ⟨1, .write 0 (.ins 8)⟩, ⟨2, .read 0⟩]
    (obsOf h).getLast? = some (.rows [7]) ∧ (specObsOf h).getLast? = some (.rows [7, 8]) ∧
    (run St.init h).2.2 = [Region.ddl_keeps_explicit_mode] := by
  decide

/-- START TRANSACTION READ ONLY; INSERT → the engine panics (nil TemporaryTable in
validateReadOnlyTransaction) where an error is demanded. -/
theorem finding_readonly_txn_write_panics :
    let h := [⟨2, .begin true⟩, ⟨2, .write 0 (.ins 9)⟩]
    (obsOf h).getLast? = some .crash ∧ (specObsOf h).getLast? = some .err ∧
    (run St.init h).2.2 = [Region.readonly_txn_write_panics] := by
  decide

/-- The write that panics in a READ ONLY transaction has already resolved its table: on the session
state it acts exactly like a read of that table (the working copy is registered in
`Session.tables`), the committed state is untouched. (A READ ONLY transaction is explicit.) -/
theorem readonly_write_registers_like_read (st : St) (s t : Nat) (w : W)
    (hro : (beginTx (st.sess s)).readOnly = true) (hex : (beginTx (st.sess s)).explicit = true) :
    (step st ⟨s, .write t w⟩).1.base = st.base ∧
    (step st ⟨s, .write t w⟩).1.sess = (step st ⟨s, .read t⟩).1.sess ∧
    (step st ⟨s, .read t⟩).1.base = st.base ∧
    (step st ⟨s, .write t w⟩).2.1 = .crash ∧ (specStep st ⟨s, .write t w⟩).2.1 = .err ∧
    (specStep st ⟨s, .write t w⟩).1.sess = (step st ⟨s, .write t w⟩).1.sess := by
  have hfl := touch_flags st.base (beginTx (st.sess s)) t
  have hopen : closeTx (fun b se => publish b se.tables) false st.base (touch st.base (beginTx (st.sess s)) t).1
      = (st.base, (touch st.base (beginTx (st.sess s)) t).1) :=
    closeTx_open _ _ _ (Or.inl (by rw [hfl.2.1]; exact hex))
  simp only [step, specStep, stepWith, hro, if_true, Bool.false_eq_true, if_false, hopen]
  exact ⟨trivial, trivial, trivial, trivial, trivial, trivial⟩

/-- Non-vacuity of `readonly_write_registers_like_read`. -/
example :
    let st := (run St.init [⟨2, .begin true⟩]).1
    (beginTx (st.sess 2)).readOnly = true ∧ (beginTx (st.sess 2)).explicit = true ∧
    ((step st ⟨2, .write 1 (.ins 2)⟩).1.sess 2).tables = [(1, [])] := by
  decide

/-- The two listed findings combined (sweep alarm of seed 1): the INSERT that panics in session 2's
READ ONLY transaction registered t1's snapshot; session 0 then commits row 101 to t1; session 2
reads the snapshot and its COMMIT writes it back, erasing row 101. Both regions are flagged, in
this order; the Spec keeps row 101. -/
theorem finding_readonly_panic_then_commit_overwrites :
    let h := [⟨2, .begin true⟩, ⟨2, .write 1 (.ins 2)⟩, ⟨0, .write 1 (.ins 101)⟩, ⟨2, .read 1⟩, ⟨2, .commit⟩, ⟨0, .read 1⟩]
    (obsOf h).getLast? = some (.rows []) ∧ (specObsOf h).getLast? = some (.rows [101]) ∧
    (run St.init h).2.2 = [Region.readonly_txn_write_panics, Region.commit_overwrites_read_table] := by
  decide

/-- **ROLLBACK discards exactly the session's changes**: the committed state is untouched, the
session's working copies are gone (its next read of any table returns the committed version),
every other session is untouched. No guard. -/
theorem rollback_discards_exactly (st : St) (s : Nat) :
    (step st ⟨s, .rollback⟩).1.base = st.base ∧
    (∀ t, readVal (step st ⟨s, .rollback⟩).1 s t = st.base t) ∧
    (∀ s', s' ≠ s → (step st ⟨s, .rollback⟩).1.sess s' = st.sess s') := by
  refine ⟨rfl, ?_, ?_⟩
  · intro t
    simp [step, stepWith, readVal, setSess, beginTx, lookup]
  · intro s' hs
    simp [step, stepWith, setSess, hs]

/-- **COMMIT makes the session's view the committed state** (Impl, no guard): after COMMIT the
committed version of every table is what the session would have read. -/
theorem commit_publishes_view (st : St) (s t : Nat) :
    (step st ⟨s, .commit⟩).1.base t = readVal st s t := by
  simp only [step, stepWith, readVal, publish, Bool.false_eq_true, if_false]

/-- **COMMIT publishes exactly the written tables** (Spec): a written table gets the session's
copy, every other table keeps its committed version. -/
theorem spec_commit_publishes_exactly (st : St) (s t : Nat) :
    (specStep st ⟨s, .commit⟩).1.base t =
      if (beginTx (st.sess s)).written.contains t then readVal st s t else st.base t := by
  simp only [specStep, stepWith, readVal, publishWritten, if_true]

/-- **Autocommit.** In an idle autocommit session a successful write is committed on its own:
the committed version of the table is the write applied to the previous committed version,
every other table is unchanged, and the session is idle again. -/
theorem autocommit_each_stmt (st : St) (s t : Nat) (w : W) (v' : TV)
    (hidle : (st.sess s).tx = false) (hex : (st.sess s).explicit = false) (hac : (st.sess s).autocommit = true)
    (hw : w.app (st.base t) = some v') :
    (step st ⟨s, .write t w⟩).1.base t = v' ∧
    (∀ t', t' ≠ t → (step st ⟨s, .write t w⟩).1.base t' = st.base t') ∧
    ((step st ⟨s, .write t w⟩).1.sess s).tx = false ∧
    (step st ⟨s, .write t w⟩).2.2 = [] := by
  have hb : beginTx (st.sess s) = { st.sess s with tables := [], written := [], tx := true, readOnly := false } := by
    unfold beginTx; simp [hidle]
  have hstep : step st ⟨s, .write t w⟩ =
      (⟨publish st.base [(t, v')], setSess st.sess s
          { st.sess s with tables := [(t, v')], written := [t], tx := false, readOnly := false }⟩,
        .ok (w.affected (st.base t)), []) := by
    simp only [step, stepWith, hb, Bool.false_eq_true, if_false]
    simp only [touch, lookup, store, hw, closeTx, hex, hac, Bool.not_false, Bool.and_self, Bool.or_true,
      Bool.true_and, if_true, Bool.false_or, List.contains_nil]
    have hst : staleRead st.base
        { tables := [(t, v')], written := [t], tx := true, explicit := false, readOnly := false, autocommit := true } = false := by
      unfold staleRead; simp
    simp [hst]
  rw [hstep]
  refine ⟨?_, ?_, ?_, rfl⟩
  · simp [publish, lookup]
  · intro t' ht
    have : ¬ t = t' := fun e => ht e.symm
    simp [publish, lookup, this]
  · simp [setSess]

/-- **No dirty reads.** A read or write of session `a` inside an open transaction (explicit, or
autocommit off) changes neither the committed state nor any other session, so what any other
session would read is unchanged. -/
theorem uncommitted_invisible (st : St) (a : Nat) (k : Kind)
    (hk : (∃ t, k = .read t) ∨ (∃ t w, k = .write t w))
    (hopen : (st.sess a).tx = true ∧ ((st.sess a).explicit = true ∨ (st.sess a).autocommit = false)) :
    (step st ⟨a, k⟩).1.base = st.base ∧
    (∀ b, b ≠ a → (step st ⟨a, k⟩).1.sess b = st.sess b) ∧
    (∀ b t, b ≠ a → readVal (step st ⟨a, k⟩).1 b t = readVal st b t) := by
  have hb : beginTx (st.sess a) = st.sess a := by unfold beginTx; simp [hopen.1]
  have hfl := touch_flags st.base (st.sess a)
  have hbase : (step st ⟨a, k⟩).1.base = st.base ∧ ∀ b, b ≠ a → (step st ⟨a, k⟩).1.sess b = st.sess b := by
    rcases hk with ⟨t, rfl⟩ | ⟨t, w, rfl⟩
    · simp only [step, stepWith, hb, Bool.false_eq_true, if_false]
      rw [closeTx_open _ _ _ (by rw [(hfl t).2.1, (hfl t).2.2.1]; exact hopen.2)]
      exact ⟨rfl, fun b hba => by simp [setSess, hba]⟩
    · simp only [step, stepWith, hb, Bool.false_eq_true, if_false]
      split
      · exact ⟨rfl, fun b hba => by simp [setSess, hba]⟩
      · split
        · rw [closeTx_open _ _ _ (by simp only; rw [(hfl t).2.1, (hfl t).2.2.1]; exact hopen.2)]
          exact ⟨rfl, fun b hba => by simp [setSess, hba]⟩
        · rw [closeTx_open _ _ _ (by rw [(hfl t).2.1, (hfl t).2.2.1]; exact hopen.2)]
          exact ⟨rfl, fun b hba => by simp [setSess, hba]⟩
  refine ⟨hbase.1, hbase.2, ?_⟩
  intro b t hba
  unfold readVal
  rw [hbase.1, hbase.2 b hba]

/-- A statement of one session never changes another session's working copies or flags
(whatever the statement). -/
theorem other_sessions_untouched (st : St) (o : Op) (b : Nat) (hb : b ≠ o.s) :
    (step st o).1.sess b = st.sess b := by
  obtain ⟨s, k⟩ := o
  simp only at hb
  cases k <;> simp only [step, stepWith] <;> (try split) <;> (try split) <;> simp [setSess, hb]

/-- **Serial equivalence.** For every history that is a concatenation of transaction blocks
(BEGIN; reads and writes of one session; COMMIT or ROLLBACK) — i.e. transactions of different
sessions do not overlap in time — started when every session is between transactions, the final
committed state is the result of running the committed transactions one after another on the
committed database; rolled-back ones contribute nothing. No region guard: the listed defects
need overlap, DDL or READ ONLY. -/
theorem serial_equiv_nonoverlap (blocks : List Block) (st : St) (hidle : Idle st) :
    (run st (blocks.flatMap Block.ops)).1.base = blocks.foldl Block.effect st.base := by
  induction blocks generalizing st with
  | nil => rfl
  | cons b bs ih =>
    simp only [List.flatMap_cons, List.foldl_cons]
    rw [run_append]
    obtain ⟨h1, h2⟩ := block_run st b hidle
    rw [ih _ h2, h1]

/-- Non-vacuity of `serial_equiv_nonoverlap`: three blocks of two sessions, one rolled back. -/
example :
    let bs : List Block := [⟨0, [(0, some (.ins 1)), (1, some (.ins 5)), (0, none)], true⟩,
                            ⟨1, [(0, some (.ins 2)), (0, some (.del 1))], false⟩,
                            ⟨1, [(0, some (.ins 1)), (0, some (.ins 3))], true⟩]
    (run St.init (bs.flatMap Block.ops)).1.base 0 = [1, 3] ∧ (bs.foldl Block.effect St.init.base) 0 = [1, 3] ∧
    (run St.init (bs.flatMap Block.ops)).2.2 = [] := by
  decide

/-! ### Non-vacuity -/

/-- A region-free history with rollback, commit, autocommit off/on, failed insert, two
sessions: Impl = Spec, no flag, and the final committed t0 is [1, 3, 4]. -/
example :
    let h := [⟨0, .write 0 (.ins 1)⟩, ⟨0, .begin false⟩, ⟨0, .write 0 (.ins 2)⟩, ⟨1, .read 0⟩, ⟨0, .rollback⟩,
              ⟨1, .setAC false⟩, ⟨1, .write 0 (.ins 3)⟩, ⟨0, .read 0⟩, ⟨1, .commit⟩, ⟨0, .write 0 (.ins 3)⟩,
              ⟨0, .write 0 (.ins 4)⟩, ⟨2, .read 0⟩]
    (run St.init h).2.2 = [] ∧ obsOf h = specObsOf h ∧ (run St.init h).1.base 0 = [1, 3, 4] ∧
    (obsOf h).getLast? = some (.rows [1, 3, 4]) := by
  decide

/-- `uncommitted_invisible` is not vacuous: session 0 holds an open transaction with a write. -/
example :
    let st := (run St.init [⟨0, .begin false⟩, ⟨0, .write 0 (.ins 5)⟩]).1
    (st.sess 0).tx = true ∧ (st.sess 0).explicit = true ∧ readVal st 0 0 = [5] ∧ readVal st 1 0 = [] := by
  decide

end Gms.C17
