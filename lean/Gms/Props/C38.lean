/-
C38 — Named locks give mutual exclusion and are linearizable.

Helper lemmas first (namespace `Gms.Locks`), the property theorems at the end in `Gms.C38`.
-/
import Gms.Model.Locks
import Gms.Generated.C38

namespace Gms.Locks

/-! ## Function updates -/

@[simp] theorem upd_same {β : Type} (t : Nat → β) (n : Nat) (v : β) : upd t n v n = v := by simp [upd]

theorem upd_other {β : Type} (t : Nat → β) (n m : Nat) (v : β) (h : m ≠ n) : upd t n v m = t m := by
  simp [upd, h]

theorem proj_upd (cells : Nat → Option Cell) (n : Nat) (c : Cell) :
    proj (upd cells n (some c)) = upd (proj cells) n (some (c.owner, c.count)) := by
  funext m
  by_cases h : m = n <;> simp [proj, upd, h]

theorem mem_addLock (l : List Nat) (n m : Nat) : m ∈ addLock l n ↔ m = n ∨ m ∈ l := by
  unfold addLock
  split
  · constructor
    · exact Or.inr
    · rintro (h | h)
      · subst h; assumption
      · exact h
  · simp

theorem mem_delLock (l : List Nat) (n m : Nat) : m ∈ delLock l n ↔ m ∈ l ∧ m ≠ n := by
  simp [delLock]

/-! ## The invariant of the concurrent Impl model -/

structure Inv (s : CSt) : Prop where
  /-- versions (pointer identities) in use are below the allocation supply -/
  verLt : ∀ n c, s.cells n = some c → c.ver < s.nextVer
  /-- a thread about to load has resolved an existing cell -/
  loadEx : ∀ u k n, s.pc u = .load k n → ∃ c, s.cells n = some c
  /-- a thread about to CAS: the record it loaded is what the version it holds stood for, and the
  decision it took on that record allowed the CAS -/
  casOk : ∀ u k n v o c, s.pc u = .cas k n v o c →
      v < s.nextVer ∧ goCond k u o = true ∧
      ∃ cell, s.cells n = some cell ∧ (cell.ver = v → cell.owner = o ∧ cell.count = c)
  /-- a session's lock set contains every name it owns (it may contain more: `ReleaseAll`) -/
  owned : ∀ u n c, u ≠ 0 → s.cells n = some c → c.owner = u → n ∈ s.sets u

theorem inv_init : Inv CSt.init :=
  ⟨by intro n c h; simp [CSt.init] at h, by intro u k n h; simp [CSt.init] at h,
   by intro u k n v o c h; simp [CSt.init] at h, by intro u n c _ h; simp [CSt.init] at h⟩

/-- The step's linearization label is what happened to the abstract table at this step. -/
def LinOK (t t' : Table) : Option (Op × R) → Prop
  | none => t' = t
  | some (op, r) => astep t op = (t', r)

/-- Only the pc of `u` changed. -/
theorem inv_pc_only {s : CSt} {u : Nat} {p : Pc} (hi : Inv s)
    (hload : ∀ k n, p = .load k n → ∃ c, s.cells n = some c)
    (hcas : ∀ k n v o c, p = .cas k n v o c →
      v < s.nextVer ∧ goCond k u o = true ∧
      ∃ cell, s.cells n = some cell ∧ (cell.ver = v → cell.owner = o ∧ cell.count = c)) :
    Inv { s with pc := upd s.pc u p } := by
  refine ⟨hi.verLt, ?_, ?_, hi.owned⟩
  · intro u' k n h
    by_cases e : u' = u
    · subst e; simp only [upd_same] at h; exact hload k n h
    · simp only [upd_other _ _ _ _ e] at h; exact hi.loadEx u' k n h
  · intro u' k n v o c h
    by_cases e : u' = u
    · subst e; simp only [upd_same] at h; exact hcas k n v o c h
    · simp only [upd_other _ _ _ _ e] at h; exact hi.casOk u' k n v o c h

/-- A write of a freshly allocated record to the cell of `n` (creation or successful CAS) by `u`. -/
theorem inv_write {s : CSt} {u n o c : Nat} {p : Pc} {l : List Nat} (hi : Inv s)
    (hp : p = .idle ∨ ∃ k, p = .load k n)
    (hown : ∀ u', u' ≠ 0 → o = u' → n ∈ upd s.sets u l u')
    (hsets : ∀ m, m ≠ n → m ∈ s.sets u → m ∈ l) :
    Inv { cells := upd s.cells n (some ⟨s.nextVer, o, c⟩), nextVer := s.nextVer + 1,
          pc := upd s.pc u p, sets := upd s.sets u l } := by
  refine ⟨?_, ?_, ?_, ?_⟩
  · intro m cm h
    by_cases e : m = n
    · subst e; simp only [upd_same] at h; cases h; exact Nat.lt_succ_self _
    · simp only [upd_other _ _ _ _ e] at h
      exact Nat.lt_succ_of_lt (hi.verLt m cm h)
  · intro u' k m h
    have hex : ∀ m, (∃ c', s.cells m = some c') → ∃ c', upd s.cells n (some ⟨s.nextVer, o, c⟩) m = some c' := by
      intro m ⟨cm, hcm⟩
      by_cases e : m = n
      · subst e; exact ⟨_, upd_same _ _ _⟩
      · exact ⟨cm, by rw [upd_other _ _ _ _ e]; exact hcm⟩
    by_cases e : u' = u
    · subst e
      simp only [upd_same] at h
      rcases hp with hp | ⟨k', hp⟩
      · rw [hp] at h; cases h
      · rw [hp] at h; cases h; exact ⟨_, upd_same _ _ _⟩
    · simp only [upd_other _ _ _ _ e] at h
      exact hex m (hi.loadEx u' k m h)
  · intro u' k m v o' c' h
    by_cases e : u' = u
    · subst e
      simp only [upd_same] at h
      rcases hp with hp | ⟨k', hp⟩ <;> (rw [hp] at h; cases h)
    · simp only [upd_other _ _ _ _ e] at h
      obtain ⟨h1, h2, cell, h3, h4⟩ := hi.casOk u' k m v o' c' h
      refine ⟨Nat.lt_succ_of_lt h1, h2, ?_⟩
      by_cases e2 : m = n
      · subst e2
        refine ⟨_, upd_same _ _ _, ?_⟩
        intro hv
        simp only at hv
        omega
      · exact ⟨cell, by simp only [upd_other _ _ _ _ e2]; exact h3, h4⟩
  · intro u' m cm hu' h ho
    by_cases e : m = n
    · subst e
      simp only [upd_same] at h
      cases h
      exact hown u' hu' ho
    · simp only [upd_other _ _ _ _ e] at h
      have := hi.owned u' m cm hu' h ho
      by_cases e2 : u' = u
      · subst e2; simp only [upd_same]; exact hsets m e this
      · simp only [upd_other _ _ _ _ e2]; exact this

theorem call_ok (s : CSt) (u : Nat) (c : Call) (hi : Inv s) :
    Inv (call s u c).st ∧ LinOK (proj s.cells) (proj (call s u c).st.cells) (call s u c).lin := by
  cases c with
  | tryLock n =>
    cases hc : s.cells n with
    | none =>
      simp only [call, hc]
      constructor
      · have := inv_write (s := s) (u := u) (n := n) (o := 0) (c := 0) (p := .load .try n) (l := s.sets u) hi
          (Or.inr ⟨_, rfl⟩) (by intro u' h0 e; exact absurd e.symm h0) (by intro m _ h; exact h)
        have e : upd s.sets u (s.sets u) = s.sets := by
          funext x; by_cases h : x = u <;> simp [upd, h]
        rw [e] at this
        exact this
      · simp only [LinOK, astep, proj, hc, Option.map_none]
        have := proj_upd s.cells n ⟨s.nextVer, 0, 0⟩
        simp only [proj] at this
        rw [this]
    | some cell =>
      simp only [call, hc]
      constructor
      · exact inv_pc_only hi (by intro k m h; cases h; exact ⟨cell, hc⟩) (by intro k m v o c h; cases h)
      · simp [LinOK, astep, proj, hc]
  | unlock n =>
    cases hc : s.cells n with
    | none => simp only [call, hc]; exact ⟨hi, by simp [LinOK, astep, proj, hc]⟩
    | some cell =>
      simp only [call, hc]
      exact ⟨inv_pc_only hi (by intro k m h; cases h; exact ⟨cell, hc⟩) (by intro k m v o c h; cases h), rfl⟩
  | relOne n =>
    cases hc : s.cells n with
    | none => simp only [call, hc]; exact ⟨hi, by simp [LinOK, astep, proj, hc]⟩
    | some cell =>
      simp only [call, hc]
      exact ⟨inv_pc_only hi (by intro k m h; cases h; exact ⟨cell, hc⟩) (by intro k m v o c h; cases h), rfl⟩
  | getState n =>
    cases hc : s.cells n with
    | none => simp only [call, hc]; exact ⟨hi, by simp [LinOK, astep, proj, hc]⟩
    | some cell =>
      simp only [call, hc]
      refine ⟨hi, ?_⟩
      by_cases h0 : cell.owner = 0 <;> simp [LinOK, astep, proj, hc, h0]

end Gms.Locks
