/-
C38 — Named locks give mutual exclusion and are linearizable.

Helper lemmas first (namespace `Gms.Locks`), the property theorems at the end in `Gms.C38`.
-/
import Gms.Model.Locks
import Gms.Generated.C38

namespace Gms.Locks

/-! ## Function updates -/

@[simp] theorem upd_same {β : Type} (t : Nat → β) (n : Nat) (v : β) : upd t n v n = v := by simp [upd]

theorem upd_other {β : Type} (t : Nat → β) (n m : Nat) (v : β) (h : m ≠ n) : upd t n v m = t m := by
  simp [upd, h]

theorem proj_upd (cells : Nat → Option Cell) (n : Nat) (c : Cell) :
    proj (upd cells n (some c)) = upd (proj cells) n (some (c.owner, c.count)) := by
  funext m
  by_cases h : m = n <;> simp [proj, upd, h]

theorem mem_addLock (l : List Nat) (n m : Nat) : m ∈ addLock l n ↔ m = n ∨ m ∈ l := by
  unfold addLock
  split
  · constructor
    · exact Or.inr
    · rintro (h | h)
      · subst h; assumption
      · exact h
  · simp

theorem mem_delLock (l : List Nat) (n m : Nat) : m ∈ delLock l n ↔ m ∈ l ∧ m ≠ n := by
  simp [delLock]

/-! ## The invariant of the concurrent Impl model -/

structure Inv (s : CSt) : Prop where
  /-- versions (pointer identities) in use are below the allocation supply -/
  verLt : ∀ n c, s.cells n = some c → c.ver < s.nextVer
  /-- a thread about to load has resolved an existing cell -/
  loadEx : ∀ u k n, s.pc u = .load k n → ∃ c, s.cells n = some c
  /-- a thread about to CAS: the record it loaded is what the version it holds stood for, and the
  decision it took on that record allowed the CAS -/
  casOk : ∀ u k n v o c, s.pc u = .cas k n v o c →
      v < s.nextVer ∧ goCond k u o = true ∧
      ∃ cell, s.cells n = some cell ∧ (cell.ver = v → cell.owner = o ∧ cell.count = c)
  /-- a session's lock set contains every name it owns (it may contain more: `ReleaseAll`) -/
  owned : ∀ u n c, u ≠ 0 → s.cells n = some c → c.owner = u → n ∈ s.sets u

theorem inv_init : Inv CSt.init :=
  ⟨by intro n c h; simp [CSt.init] at h, by intro u k n h; simp [CSt.init] at h,
   by intro u k n v o c h; simp [CSt.init] at h, by intro u n c _ h; simp [CSt.init] at h⟩

/-- The step's linearization label is what happened to the abstract table at this step. -/
def LinOK (t t' : Table) : Option (Op × R) → Prop
  | none => t' = t
  | some (op, r) => astep t op = (t', r)

/-- Only the pc of `u` changed. -/
theorem inv_pc_only {s : CSt} {u : Nat} {p : Pc} (hi : Inv s)
    (hload : ∀ k n, p = .load k n → ∃ c, s.cells n = some c)
    (hcas : ∀ k n v o c, p = .cas k n v o c →
      v < s.nextVer ∧ goCond k u o = true ∧
      ∃ cell, s.cells n = some cell ∧ (cell.ver = v → cell.owner = o ∧ cell.count = c)) :
    Inv { s with pc := upd s.pc u p } := by
  refine ⟨hi.verLt, ?_, ?_, hi.owned⟩
  · intro u' k n h
    by_cases e : u' = u
    · subst e; simp only [upd_same] at h; exact hload k n h
    · simp only [upd_other _ _ _ _ e] at h; exact hi.loadEx u' k n h
  · intro u' k n v o c h
    by_cases e : u' = u
    · subst e; simp only [upd_same] at h; exact hcas k n v o c h
    · simp only [upd_other _ _ _ _ e] at h; exact hi.casOk u' k n v o c h

/-- A write of a freshly allocated record to the cell of `n` (creation or successful CAS) by `u`. -/
theorem inv_write {s : CSt} {u n o c : Nat} {p : Pc} {l : List Nat} (hi : Inv s)
    (hp : p = .idle ∨ ∃ k, p = .load k n)
    (hown : ∀ u', u' ≠ 0 → o = u' → n ∈ upd s.sets u l u')
    (hsets : ∀ m, m ≠ n → m ∈ s.sets u → m ∈ l) :
    Inv { cells := upd s.cells n (some ⟨s.nextVer, o, c⟩), nextVer := s.nextVer + 1,
          pc := upd s.pc u p, sets := upd s.sets u l } := by
  refine ⟨?_, ?_, ?_, ?_⟩
  · intro m cm h
    by_cases e : m = n
    · subst e; simp only [upd_same] at h; cases h; exact Nat.lt_succ_self _
    · simp only [upd_other _ _ _ _ e] at h
      exact Nat.lt_succ_of_lt (hi.verLt m cm h)
  · intro u' k m h
    have hex : ∀ m, (∃ c', s.cells m = some c') → ∃ c', upd s.cells n (some ⟨s.nextVer, o, c⟩) m = some c' := by
      intro m ⟨cm, hcm⟩
      by_cases e : m = n
      · subst e; exact ⟨_, upd_same _ _ _⟩
      · exact ⟨cm, by rw [upd_other _ _ _ _ e]; exact hcm⟩
    by_cases e : u' = u
    · subst e
      simp only [upd_same] at h
      rcases hp with hp | ⟨k', hp⟩
      · rw [hp] at h; cases h
      · rw [hp] at h; cases h; exact ⟨_, upd_same _ _ _⟩
    · simp only [upd_other _ _ _ _ e] at h
      exact hex m (hi.loadEx u' k m h)
  · intro u' k m v o' c' h
    by_cases e : u' = u
    · subst e
      simp only [upd_same] at h
      rcases hp with hp | ⟨k', hp⟩ <;> (rw [hp] at h; cases h)
    · simp only [upd_other _ _ _ _ e] at h
      obtain ⟨h1, h2, cell, h3, h4⟩ := hi.casOk u' k m v o' c' h
      refine ⟨Nat.lt_succ_of_lt h1, h2, ?_⟩
      by_cases e2 : m = n
      · subst e2
        refine ⟨_, upd_same _ _ _, ?_⟩
        intro hv
        simp only at hv
        omega
      · exact ⟨cell, by simp only [upd_other _ _ _ _ e2]; exact h3, h4⟩
  · intro u' m cm hu' h ho
    by_cases e : m = n
    · subst e
      simp only [upd_same] at h
      cases h
      exact hown u' hu' ho
    · simp only [upd_other _ _ _ _ e] at h
      have := hi.owned u' m cm hu' h ho
      by_cases e2 : u' = u
      · subst e2; simp only [upd_same]; exact hsets m e this
      · simp only [upd_other _ _ _ _ e2]; exact this

theorem call_ok (s : CSt) (u : Nat) (c : Call) (hi : Inv s) :
    Inv (call s u c).st ∧ LinOK (proj s.cells) (proj (call s u c).st.cells) (call s u c).lin := by
  cases c with
  | tryLock n =>
    cases hc : s.cells n with
    | none =>
      simp only [call, hc]
      constructor
      · have := inv_write (s := s) (u := u) (n := n) (o := 0) (c := 0) (p := .load .try n) (l := s.sets u) hi
          (Or.inr ⟨_, rfl⟩) (by intro u' h0 e; exact absurd e.symm h0) (by intro m _ h; exact h)
        have e : upd s.sets u (s.sets u) = s.sets := by
          funext x; by_cases h : x = u <;> simp [upd, h]
        rw [e] at this
        exact this
      · simp only [LinOK, astep, proj, hc, Option.map_none]
        have := proj_upd s.cells n ⟨s.nextVer, 0, 0⟩
        simp only [proj] at this
        rw [this]
    | some cell =>
      simp only [call, hc]
      constructor
      · exact inv_pc_only hi (by intro k m h; cases h; exact ⟨cell, hc⟩) (by intro k m v o c h; cases h)
      · simp [LinOK, astep, proj, hc]
  | unlock n =>
    cases hc : s.cells n with
    | none => simp only [call, hc]; exact ⟨hi, by simp [LinOK, astep, proj, hc]⟩
    | some cell =>
      simp only [call, hc]
      exact ⟨inv_pc_only hi (by intro k m h; cases h; exact ⟨cell, hc⟩) (by intro k m v o c h; cases h), rfl⟩
  | relOne n =>
    cases hc : s.cells n with
    | none => simp only [call, hc]; exact ⟨hi, by simp [LinOK, astep, proj, hc]⟩
    | some cell =>
      simp only [call, hc]
      exact ⟨inv_pc_only hi (by intro k m h; cases h; exact ⟨cell, hc⟩) (by intro k m v o c h; cases h), rfl⟩
  | getState n =>
    cases hc : s.cells n with
    | none => simp only [call, hc]; exact ⟨hi, by simp [LinOK, astep, proj, hc]⟩
    | some cell =>
      simp only [call, hc]
      refine ⟨hi, ?_⟩
      by_cases h0 : cell.owner = 0 <;> simp [LinOK, astep, proj, hc, h0]

theorem astep_fail (t : Table) (k : Kind) (u n o c : Nat) (ht : t n = some (o, c))
    (hg : goCond k u o = false) : astep t (kindOp k u n) = (t, failRes k) := by
  cases k <;> simp_all [goCond, kindOp, astep, failRes]

theorem astep_success (t : Table) (k : Kind) (u n o c : Nat) (ht : t n = some (o, c))
    (hg : goCond k u o = true) :
    astep t (kindOp k u n) = (upd t n (some (casVal k u o c)), casRes k) := by
  cases k <;> simp_all [goCond, kindOp, astep, casVal, casRes]

theorem micro_ok (s : CSt) (u : Nat) (hi : Inv s) :
    Inv (micro s u).st ∧ LinOK (proj s.cells) (proj (micro s u).st.cells) (micro s u).lin := by
  cases hpc : s.pc u with
  | idle => simp only [micro, hpc]; exact ⟨hi, rfl⟩
  | load k n =>
    obtain ⟨cell, hc⟩ := hi.loadEx u k n hpc
    by_cases hg : goCond k u cell.owner = true
    · simp only [micro, hpc, hc, hg, if_true]
      refine ⟨inv_pc_only hi (by intro k' m h; cases h) ?_, rfl⟩
      intro k' m v o c h
      cases h
      exact ⟨hi.verLt n cell hc, hg, cell, hc, fun _ => ⟨rfl, rfl⟩⟩
    · have hg' : goCond k u cell.owner = false := by simpa using hg
      simp only [micro, hpc, hc, hg']
      refine ⟨inv_pc_only hi (by intro k' m h; cases h) (by intro k' m v o c h; cases h), ?_⟩
      simp only [LinOK]
      exact astep_fail (proj s.cells) k u n cell.owner cell.count (by simp [proj, hc]) hg'
  | cas k n v o c =>
    obtain ⟨hv, hg, cell, hc, heq⟩ := hi.casOk u k n v o c hpc
    by_cases hver : cell.ver = v
    · obtain ⟨ho, hcnt⟩ := heq hver
      simp only [micro, hpc, hc, hver, if_true]
      constructor
      · apply inv_write hi (Or.inl rfl)
        · intro u' hu' e
          have hu : (casVal k u o c).1 = u' := e
          cases k with
          | «try» =>
            have : u' = u := by simp [casVal, acqVal] at hu; split at hu <;> simp_all
            subst this
            simp only [upd_same, casSets]
            split
            · exact (mem_addLock _ _ _).2 (Or.inl rfl)
            · rename_i h0
              have : o = u' := by simp [goCond] at hg; rcases hg with h | h; exact absurd h h0; exact h
              exact hi.owned u' n cell hu' hc (ho.trans this)
          | unl =>
            have hou : o = u := by simpa [goCond] using hg
            simp only [casVal, unlockVal] at hu
            by_cases hc1 : c > 1
            · simp only [hc1, if_true] at hu
              subst hu
              have hne : c - 1 ≠ 0 := by omega
              simp only [upd_same, casSets, casVal, unlockVal, hc1, if_true, hne, if_false]
              exact hi.owned u n cell hu' hc (ho.trans hou)
            · simp only [hc1, if_false] at hu
              exact absurd hu.symm hu'
          | rel =>
            simp only [casVal] at hu
            exact absurd hu.symm hu'
        · intro m hm hmem
          cases k with
          | «try» =>
            simp only [casSets]
            split
            · exact (mem_addLock _ _ _).2 (Or.inr hmem)
            · exact hmem
          | unl =>
            simp only [casSets]
            split
            · exact (mem_delLock _ _ _).2 ⟨hmem, hm⟩
            · exact hmem
          | rel => exact hmem
      · simp only [LinOK]
        rw [proj_upd]
        exact astep_success (proj s.cells) k u n o c (by simp [proj, hc, ho, hcnt]) hg
    · simp only [micro, hpc, hc, hver, if_false]
      exact ⟨inv_pc_only hi (by intro k' m h; cases h; exact ⟨cell, hc⟩) (by intro k' m v' o' c' h; cases h), rfl⟩

/-! ## Whole schedules -/

theorem arun_cons (t : Table) (op : Op) (ops : List Op) :
    arun t (op :: ops) = ((arun (astep t op).1 ops).1, (astep t op).2 :: (arun (astep t op).1 ops).2) := by
  simp [arun]

theorem cstep_ok (s : CSt) (a : Act) (o : Out) (hi : Inv s) (h : cstep s a = some o) :
    Inv o.st ∧ LinOK (proj s.cells) (proj o.st.cells) o.lin := by
  cases a with
  | call u c =>
    simp only [cstep] at h
    split at h
    · cases h; exact call_ok s u c hi
    · cases h
  | step u =>
    simp only [cstep] at h
    split at h
    · cases h
    · cases h; exact micro_ok s u hi

/-- Forward simulation over a whole schedule: the linearization points, in the order in which they
were taken, are a legal sequential run of the atomic Spec from the abstraction of the start state
to the abstraction of the end state, with the very results the calls returned. -/
theorem crun_linearizable (acts : List Act) (s s' : CSt) (ls : List (Op × R)) (hi : Inv s)
    (h : crun s acts = some (s', ls)) :
    Inv s' ∧ arun (proj s.cells) (ls.map (·.1)) = (proj s'.cells, ls.map (·.2)) := by
  induction acts generalizing s ls with
  | nil => simp only [crun] at h; cases h; exact ⟨hi, rfl⟩
  | cons a as ih =>
    simp only [crun] at h
    split at h
    · cases h
    · rename_i o ho
      split at h
      · cases h
      · rename_i s2 ls2 hr
        cases h
        obtain ⟨hi2, hlin⟩ := cstep_ok s a o hi ho
        obtain ⟨hi3, hrun⟩ := ih o.st ls2 hi2 hr
        refine ⟨hi3, ?_⟩
        cases hl : o.lin with
        | none =>
          rw [hl] at hlin
          simp only [LinOK] at hlin
          simp only [Option.toList, List.nil_append]
          rw [← hlin]; exact hrun
        | some x =>
          obtain ⟨op, r⟩ := x
          rw [hl] at hlin
          simp only [LinOK] at hlin
          simp only [Option.toList, List.cons_append, List.nil_append, List.map_cons]
          rw [arun_cons, hlin]
          simp only [hrun]

/-- The primitive a thread in loop `k` on name `n` is executing. -/
def pcOp (u : Nat) : Pc → Option Op
  | .idle => none
  | .load k n => some (kindOp k u n)
  | .cas k n _ _ _ => some (kindOp k u n)

def callOp (u : Nat) : Call → Op
  | .tryLock n => .tryAcq u n
  | .unlock n => .unlock u n
  | .relOne n => .relOne u n
  | .getState n => .getState n

/-- A call that completes at a `micro` step is linearized at that very step, as the primitive it
is executing and with the result it returns; a step that does not complete a call is silent. -/
theorem micro_completion (s : CSt) (u : Nat) (hi : Inv s) :
    match (micro s u).done with
    | some r => ∃ op, pcOp u (s.pc u) = some op ∧ (micro s u).lin = some (op, r)
    | none => (micro s u).lin = none := by
  cases hpc : s.pc u with
  | idle => simp [micro, hpc]
  | load k n =>
    obtain ⟨cell, hc⟩ := hi.loadEx u k n hpc
    by_cases hg : goCond k u cell.owner = true
    · simp [micro, hpc, hc, hg]
    · have hg' : goCond k u cell.owner = false := by simpa using hg
      simp [micro, hpc, hc, hg', pcOp]
  | cas k n v o c =>
    obtain ⟨_, _, cell, hc, _⟩ := hi.casOk u k n v o c hpc
    by_cases hver : cell.ver = v
    · simp [micro, hpc, hc, hver, pcOp]
    · simp [micro, hpc, hc, hver]

/-- A call that completes at its first action is linearized there; otherwise the first action is
silent, except `TryLock`/`Lock`, whose first action is the (separately visible) creation step. -/
theorem call_completion (s : CSt) (u : Nat) (c : Call) :
    match (call s u c).done with
    | some r => (call s u c).lin = some (callOp u c, r)
    | none => (call s u c).lin = none ∨ ∃ n, c = .tryLock n ∧ (call s u c).lin = some (.ensure n, .unit) := by
  cases c with
  | tryLock n => cases hc : s.cells n <;> simp [call, hc]
  | unlock n => cases hc : s.cells n <;> simp [call, hc, callOp]
  | relOne n => cases hc : s.cells n <;> simp [call, hc, callOp]
  | getState n => simp [call, callOp]

/-- After its first action a thread is executing the primitive of its call. -/
theorem call_pc (s : CSt) (u : Nat) (c : Call) (h : (call s u c).done = none) :
    pcOp u ((call s u c).st.pc u) = some (callOp u c) := by
  cases c with
  | tryLock n => cases hc : s.cells n <;> simp [call, hc, pcOp, callOp, kindOp]
  | unlock n => cases hc : s.cells n <;> simp_all [call, pcOp, callOp, kindOp]
  | relOne n => cases hc : s.cells n <;> simp_all [call, pcOp, callOp, kindOp]
  | getState n => simp [call] at h

/-- A step of a thread keeps the primitive it is executing until the call completes, and never
touches another thread's program counter. -/
theorem micro_pc (s : CSt) (u : Nat) (hi : Inv s) :
    ((micro s u).done = none → pcOp u ((micro s u).st.pc u) = pcOp u (s.pc u)) ∧
    (∀ u', u' ≠ u → (micro s u).st.pc u' = s.pc u') := by
  cases hpc : s.pc u with
  | idle => simp [micro, hpc]
  | load k n =>
    obtain ⟨cell, hc⟩ := hi.loadEx u k n hpc
    by_cases hg : goCond k u cell.owner = true
    · simp only [micro, hpc, hc, hg, if_true]
      exact ⟨fun _ => by simp [pcOp], fun u' h => upd_other _ _ _ _ h⟩
    · have hg' : goCond k u cell.owner = false := by simpa using hg
      simp only [micro, hpc, hc, hg']
      exact ⟨fun h => by simp at h, fun u' h => upd_other _ _ _ _ h⟩
  | cas k n v o c =>
    obtain ⟨_, _, cell, hc, _⟩ := hi.casOk u k n v o c hpc
    by_cases hver : cell.ver = v
    · simp only [micro, hpc, hc, hver, if_true]
      exact ⟨fun h => by simp at h, fun u' h => upd_other _ _ _ _ h⟩
    · simp only [micro, hpc, hc, hver, if_false]
      exact ⟨fun _ => by simp [pcOp], fun u' h => upd_other _ _ _ _ h⟩

/-! ## Laws of the atomic Spec -/

def Op.session : Op → Option Nat
  | .ensure _ => none
  | .tryAcq u _ => some u
  | .unlock u _ => some u
  | .relOne u _ => some u
  | .getState _ => none

theorem owner_upd (t : Table) (n m o c : Nat) :
    owner (upd t n (some (o, c))) m = if m = n then o else owner t m := by
  by_cases h : m = n <;> simp [owner, upd, h]

theorem count_upd (t : Table) (n m o c : Nat) :
    count (upd t n (some (o, c))) m = if m = n then c else count t m := by
  by_cases h : m = n <;> simp [count, upd, h]

/-- `n` times the same primitive. -/
def rep (op : Op) : Nat → Table → Table
  | 0, t => t
  | k + 1, t => rep op k (astep t op).1

/-- Codes of the regenerated shape facts (see `facts_match`). -/
def modelAcquireValues : List String := ["ownedLock{userId, 1}", "ownedLock{userId, currLock.Count + 1}"]
def modelUnlockValues : List String := ["ownedLock{}", "ownedLock{userId, currLock.Count - 1}"]
def modelReleaseAllValues : List String := ["ownedLock{}"]

end Gms.Locks

/-! # C38 — the property theorems -/

namespace Gms.C38
open Gms.Locks

/-- **Linearizability (all schedules, any number of sessions, names and steps).** Take any schedule
of the interleaved Impl model from the initial state — calls `TryLock`/`Lock` attempt, `Unlock`, one
`ReleaseAll` iteration and `GetLockState` by any sessions, each advancing by its own atomic steps
(map lookup/creation, load, CAS, retry) in any interleaving. Then the primitives, taken in the order of
their linearization points (the successful CAS, or the load on which a failing / read-only call
decides), form a legal *sequential* run of the atomic Spec `astep` from the empty table, ending in
the abstraction of the final cells, with exactly the results the calls returned. -/
theorem linearizable (acts : List Act) (s' : CSt) (ls : List (Op × R))
    (h : crun CSt.init acts = some (s', ls)) :
    arun Table.empty (ls.map (·.1)) = (proj s'.cells, ls.map (·.2)) :=
  (crun_linearizable acts CSt.init s' ls inv_init h).2

/-- The invariant (versions fresh, a pending CAS carries what its version stood for, every owned
name is in the owner's session set) holds in every reachable state. -/
theorem reachable_inv (acts : List Act) (s' : CSt) (ls : List (Op × R))
    (h : crun CSt.init acts = some (s', ls)) : Inv s' :=
  (crun_linearizable acts CSt.init s' ls inv_init h).1

/-- The linearization point of a call lies inside the call: it is taken at one of the call's own
steps — the one that completes it — as the primitive of that call and with the returned result;
all other steps of the call are silent (except the creation step of `TryLock`, a primitive of its
own). -/
theorem lin_point_at_completion (s : CSt) (u : Nat) (hi : Inv s) :
    match (micro s u).done with
    | some r => ∃ op, pcOp u (s.pc u) = some op ∧ (micro s u).lin = some (op, r)
    | none => (micro s u).lin = none :=
  micro_completion s u hi

theorem lin_point_at_completion_first (s : CSt) (u : Nat) (c : Call) :
    match (call s u c).done with
    | some r => (call s u c).lin = some (callOp u c, r)
    | none => (call s u c).lin = none ∨ ∃ n, c = .tryLock n ∧ (call s u c).lin = some (.ensure n, .unit) :=
  call_completion s u c

/-- Non-vacuity: two sessions race for lock 7; session 2 loads the free record, session 1 loads and
wins the CAS, session 2's CAS fails, it reloads and returns false; session 1 re-enters, unlocks
twice; session 2 then gets the lock. -/
def sampleSchedule : List Act :=
  [.call 1 (.tryLock 7), .call 2 (.tryLock 7), .step 2, .step 1, .step 1, .step 2, .step 2,
   .call 1 (.tryLock 7), .step 1, .step 1, .call 2 (.getState 7), .call 1 (.unlock 7), .step 1, .step 1,
   .call 1 (.unlock 7), .step 1, .step 1, .call 2 (.tryLock 7), .step 2, .step 2, .call 1 (.unlock 7), .step 1]

example : (crun CSt.init sampleSchedule).map (·.2) = some
    [(.ensure 7, .unit), (.ensure 7, .unit), (.tryAcq 1 7, .acquired true), (.tryAcq 2 7, .acquired false),
     (.ensure 7, .unit), (.tryAcq 1 7, .acquired true), (.getState 7, .inUse 1), (.unlock 1 7, .ok),
     (.unlock 1 7, .ok), (.ensure 7, .unit), (.tryAcq 2 7, .acquired true), (.unlock 1 7, .errNotOwned)] := by
  decide

/-! ## Laws of the atomic Spec (sessions with a non-zero id) -/

/-- **Mutual exclusion.** A lock held by `u` cannot be acquired by anybody else. -/
theorem mutex_partial (t t' : Table) (u v n : Nat) (hu : u ≠ 0) (ho : owner t n = u)
    (h : astep t (.tryAcq v n) = (t', .acquired true)) : v = u := by
  simp only [astep] at h
  cases ht : t n with
  | none => simp [ht] at h
  | some p =>
    obtain ⟨o, c⟩ := p
    simp only [owner, ht] at ho
    subst ho
    simp only [ht] at h
    split at h
    · rename_i hc
      rcases hc with hc | hc
      · exact absurd hc hu
      · exact hc.symm
    · simp at h

/-- **Nobody but the holder changes a held lock** (in particular `RELEASE_LOCK` and
`RELEASE_ALL_LOCKS` by a non-holder have no effect): owner and count are untouched by every
primitive of every other session. -/
theorem holder_stable (t : Table) (op : Op) (u n : Nat) (hu : u ≠ 0) (ho : owner t n = u)
    (hs : op.session ≠ some u) : (astep t op).1 n = t n := by
  cases op with
  | ensure m =>
    simp only [astep]
    cases hm : t m with
    | none =>
      have : n ≠ m := by intro e; subst e; simp [owner, hm] at ho; exact hu ho.symm
      simp [upd, this]
    | some _ => rfl
  | getState m =>
    simp only [astep]
    cases hm : t m with
    | none => rfl
    | some p => obtain ⟨o, c⟩ := p; by_cases h0 : o = 0 <;> simp [h0]
  | tryAcq v m =>
    have hv : v ≠ u := fun e => hs (by simp [Op.session, e])
    simp only [astep]
    cases hm : t m with
    | none => rfl
    | some p =>
      obtain ⟨o, c⟩ := p
      simp only []
      split
      · rename_i hc
        have : n ≠ m := by
          intro e; subst e
          simp [owner, hm] at ho
          rcases hc with hc | hc
          · exact hu (ho.symm.trans hc)
          · exact hv (hc.symm.trans ho)
        simp [upd, this]
      · rfl
  | unlock v m =>
    have hv : v ≠ u := fun e => hs (by simp [Op.session, e])
    simp only [astep]
    cases hm : t m with
    | none => rfl
    | some p =>
      obtain ⟨o, c⟩ := p
      simp only []
      split
      · rfl
      · rename_i hc
        have hov : o = v := Classical.not_not.mp hc
        have : n ≠ m := by
          intro e; subst e
          simp [owner, hm] at ho
          exact hv (hov.symm.trans ho)
        simp [upd, this]
  | relOne v m =>
    have hv : v ≠ u := fun e => hs (by simp [Op.session, e])
    simp only [astep]
    cases hm : t m with
    | none => rfl
    | some p =>
      obtain ⟨o, c⟩ := p
      simp only []
      split
      · rfl
      · rename_i hc
        have hov : o = v := Classical.not_not.mp hc
        have : n ≠ m := by
          intro e; subst e
          simp [owner, hm] at ho
          exact hv (hov.symm.trans ho)
        simp [upd, this]

/-- `RELEASE_LOCK` by a non-holder fails and changes nothing. -/
theorem release_by_nonholder_noop (t : Table) (u n : Nat) (h : owner t n ≠ u) (hex : (t n).isSome) :
    astep t (.unlock u n) = (t, .errNotOwned) := by
  cases ht : t n with
  | none => simp [ht] at hex
  | some p =>
    obtain ⟨o, c⟩ := p
    simp only [owner, ht] at h
    simp [astep, ht, h]

/-- `GET_LOCK` succeeds exactly when the lock is free or already held by the caller. -/
theorem tryAcq_succeeds_iff (t : Table) (u n : Nat) (hex : (t n).isSome) :
    (astep t (.tryAcq u n)).2 = .acquired true ↔ (owner t n = 0 ∨ owner t n = u) := by
  cases ht : t n with
  | none => simp [ht] at hex
  | some p =>
    obtain ⟨o, c⟩ := p
    simp only [astep, ht, owner]
    by_cases hc : o = 0 ∨ o = u <;> simp [hc]

/-- **Re-entrancy.** From a free lock, `k+1` acquisitions by `u` give count `k+1` … -/
theorem reentrant_acquire (t : Table) (u n c0 k : Nat) (hu : u ≠ 0) (ht : t n = some (0, c0)) :
    rep (.tryAcq u n) (k + 1) t n = some (u, k + 1) := by
  have hrep : ∀ j (t : Table) c, t n = some (u, c) → rep (.tryAcq u n) j t n = some (u, c + j) := by
    intro j
    induction j with
    | zero => intro t c h; simpa [rep] using h
    | succ j ih =>
      intro t c h
      simp only [rep]
      have : (astep t (.tryAcq u n)).1 n = some (u, c + 1) := by simp [astep, h, acqVal, hu]
      rw [ih _ (c + 1) this]
      congr 2; omega
  have step1 : (astep t (.tryAcq u n)).1 n = some (u, 1) := by simp [astep, ht, acqVal]
  simp only [rep]
  rw [hrep k _ 1 step1]
  congr 2; omega

/-- … `j < c` releases leave the lock with the holder at count `c - j` … -/
theorem reentrant_release_partial (u n : Nat) (j : Nat) : ∀ (t : Table) (c : Nat),
    t n = some (u, c) → j < c → rep (.unlock u n) j t n = some (u, c - j) := by
  induction j with
  | zero => intro t c h _; simpa [rep] using h
  | succ j ih =>
    intro t c h hj
    simp only [rep]
    have hc : c > 1 := by omega
    have : (astep t (.unlock u n)).1 n = some (u, c - 1) := by simp [astep, h, unlockVal, hc]
    rw [ih _ (c - 1) this (by omega)]
    congr 2; omega

/-- … and exactly `c` releases free it. -/
theorem reentrant_release_full (u n : Nat) (c : Nat) : ∀ (t : Table),
    t n = some (u, c + 1) → rep (.unlock u n) (c + 1) t n = some (0, 0) := by
  induction c with
  | zero => intro t h; simp [rep, astep, h, unlockVal]
  | succ c ih =>
    intro t h
    simp only [rep]
    have : (astep t (.unlock u n)).1 n = some (u, c + 1) := by simp [astep, h, unlockVal]
    exact ih _ this

example : rep (.unlock 3 1) 2 (rep (.tryAcq 3 1) 2 (astep Table.empty (.ensure 1)).1) 1 = some (0, 0) := by decide
example : rep (.unlock 3 1) 1 (rep (.tryAcq 3 1) 2 (astep Table.empty (.ensure 1)).1) 1 = some (3, 1) := by decide

/-- `IS_USED_LOCK` / `IS_FREE_LOCK` report the true holder. -/
theorem state_reports_owner (t : Table) (n : Nat) :
    (astep t (.getState n)).1 = t ∧
    (astep t (.getState n)).2 =
      (match t n with
       | none => R.notExist
       | some (o, _) => if o = 0 then R.free else R.inUse o) := by
  cases ht : t n with
  | none => simp [astep, ht]
  | some p => obtain ⟨o, c⟩ := p; by_cases h0 : o = 0 <;> simp [astep, ht, h0]

/-- One `ReleaseAll` iteration on `n` leaves `n` not held by `u`. -/
theorem relOne_releases (t : Table) (u n : Nat) (hu : u ≠ 0) : owner (astep t (.relOne u n)).1 n ≠ u := by
  cases ht : t n with
  | none => simp [astep, ht, owner]; exact fun e => hu e.symm
  | some p =>
    obtain ⟨o, c⟩ := p
    by_cases h : o = u
    · simp [astep, ht, h, owner, upd]; exact fun e => hu e.symm
    · simp [astep, ht, h, owner]

/-- Only an acquisition by `u` itself makes `u` the holder of `n`. -/
theorem released_stays_released (t : Table) (op : Op) (u n : Nat) (hu : u ≠ 0) (ho : owner t n ≠ u)
    (hop : op ≠ .tryAcq u n) : owner (astep t op).1 n ≠ u := by
  cases op with
  | ensure m =>
    simp only [astep]
    cases hm : t m with
    | none => simp only []; rw [owner_upd]; split; exact fun e => hu e.symm; exact ho
    | some _ => exact ho
  | getState m =>
    simp only [astep]
    cases hm : t m with
    | none => exact ho
    | some p => obtain ⟨o, c⟩ := p; by_cases h0 : o = 0 <;> simp [h0] <;> exact ho
  | tryAcq v m =>
    simp only [astep]
    cases hm : t m with
    | none => exact ho
    | some p =>
      obtain ⟨o, c⟩ := p
      simp only []
      split
      · rw [show acqVal v o c = ((acqVal v o c).1, (acqVal v o c).2) from rfl, owner_upd]
        split
        · rename_i _ e
          subst e
          have : (acqVal v o c).1 = v := by simp [acqVal]; split <;> rfl
          rw [this]
          intro e; subst e; exact hop rfl
        · exact ho
      · exact ho
  | unlock v m =>
    simp only [astep]
    cases hm : t m with
    | none => exact ho
    | some p =>
      obtain ⟨o, c⟩ := p
      simp only []
      split
      · exact ho
      · rename_i hc
        have hov : o = v := Classical.not_not.mp hc
        rw [show unlockVal v c = ((unlockVal v c).1, (unlockVal v c).2) from rfl, owner_upd]
        split
        · rename_i e
          subst e
          have hno : v ≠ u := by intro e; subst e; simp [owner, hm] at ho; exact ho hov
          simp only [unlockVal]
          split
          · exact hno
          · exact fun e => hu e.symm
        · exact ho
  | relOne v m =>
    simp only [astep]
    cases hm : t m with
    | none => exact ho
    | some p =>
      obtain ⟨o, c⟩ := p
      simp only []
      split
      · exact ho
      · rw [owner_upd]; split; exact fun e => hu e.symm; exact ho

/-- **RELEASE_ALL_LOCKS releases every lock of the session, under any interleaving.** In a
sequential run of primitives (by the linearizability theorem: in any concurrent execution) that
contains the `ReleaseAll` iteration for `n` and in which `u` does not acquire `n` (the session is
busy with `ReleaseAll`), `n` is not held by `u` at the end — whatever the other sessions do in
between. By `reachable_inv` (`Inv.owned`) the iterations cover every name `u` holds. -/
theorem releaseAll_releases_interleaved (ops : List Op) (t : Table) (u n : Nat) (hu : u ≠ 0)
    (hno : ∀ op ∈ ops, op ≠ .tryAcq u n) (hrel : Op.relOne u n ∈ ops) :
    owner (arun t ops).1 n ≠ u := by
  have stay : ∀ (ops : List Op) (t : Table), (∀ op ∈ ops, op ≠ .tryAcq u n) → owner t n ≠ u →
      owner (arun t ops).1 n ≠ u := by
    intro ops
    induction ops with
    | nil => intro t _ h; simpa [arun] using h
    | cons op ops ih =>
      intro t hno h
      rw [arun_cons]
      exact ih _ (fun o ho => hno o (List.mem_cons_of_mem _ ho))
        (released_stays_released t op u n hu h (hno op List.mem_cons_self))
  induction ops generalizing t with
  | nil => cases hrel
  | cons op ops ih =>
    rw [arun_cons]
    simp only [List.mem_cons] at hrel
    rcases hrel with hrel | hrel
    · subst hrel
      exact stay ops _ (fun o ho => hno o (List.mem_cons_of_mem _ ho)) (relOne_releases t u n hu)
    · exact ih _ (fun o ho => hno o (List.mem_cons_of_mem _ ho)) hrel

/-- The names a session holds are all in its lock set — in every reachable state of the
concurrent model — so `ReleaseAll`'s iteration over the set visits every held lock. -/
theorem session_set_covers_owned (acts : List Act) (s' : CSt) (ls : List (Op × R))
    (h : crun CSt.init acts = some (s', ls)) (u n : Nat) (hu : u ≠ 0) (ho : owner (proj s'.cells) n = u) :
    n ∈ s'.sets u := by
  have hi := reachable_inv acts s' ls h
  cases hc : s'.cells n with
  | none => simp [owner, proj, hc] at ho; exact absurd ho.symm hu
  | some cell =>
    simp [owner, proj, hc] at ho
    exact hi.owned u n cell hu hc ho

/-- The set may be larger than what is held: `ReleaseAll` does not call `DelLock` (DESIGN F-C38-a;
harmless for the results: the extra names fail the owner test of later iterations). -/
example : ((seqReleaseAll (seqCall CSt.init 4 (.tryLock 9)).1 4).1.sets 4 = [9]) ∧
    (proj (seqReleaseAll (seqCall CSt.init 4 (.tryLock 9)).1 4).1.cells 9 = some (0, 0)) := by decide

/-- `ReleaseAll` is a *sequence* of linearizable iterations, not one atomic step: session 1 holds
8 and 9, releases 8, session 2 sees 8 free and then 9 still held, then 9 is released. (No single
point between the two reads of session 2 can be "the" release of both.) The Spec therefore has the
per-name primitive `relOne`, and the property's "behave like some sequential order" is proved for
primitives. -/
example : (crun CSt.init
    [.call 1 (.tryLock 8), .step 1, .step 1, .call 1 (.tryLock 9), .step 1, .step 1,
     .call 1 (.relOne 8), .step 1, .step 1, .call 2 (.getState 8), .call 2 (.getState 9),
     .call 1 (.relOne 9), .step 1, .step 1]).map (fun x => x.2.drop 4) = some
    [(.relOne 1 8, .released 1), (.getState 8, .free), (.getState 9, .inUse 1), (.relOne 1 9, .released 1)] := by
  decide

/-! ## Finding on the unchanged tree: session id 0 -/

/-- `Owner == 0` is the code's encoding of "free", so a session whose id is 0 (API level:
only `NewBaseSessionWithClientServer(…, 0)` makes one; `NewBaseSession` numbers from 2, the server from 1) never excludes anybody: it "acquires"
the lock, the record stays free, and another session acquires it as well. The full statement
(`mutex_partial` without `u ≠ 0`) is false. -/
theorem finding_session_id_zero :
    ∃ ops, (arun Table.empty ops).2 =
      [.unit, .acquired true, .free, .unit, .acquired true] ∧
      ops = [.ensure 1, .tryAcq 0 1, .getState 1, .ensure 1, .tryAcq 5 1] :=
  ⟨_, by decide, rfl⟩

/-- The same through the interleaved Impl model, run sequentially. -/
example : (seqCall (seqCall CSt.init 0 (.tryLock 1)).1 5 (.tryLock 1)).2 = some (.acquired true) ∧
    (seqCall CSt.init 0 (.tryLock 1)).2 = some (.acquired true) := by decide

/-! ## Regenerated facts -/

/-- The records installed by the three CAS sites, the number of CAS/load sites per function, the
session-set calls per function (`ReleaseAll` has no `DelLock`), and the `LockState` numbering are
what the model transliterates. -/
theorem facts_match :
    Generated.C38.acquireValues = modelAcquireValues ∧
    Generated.C38.unlockValues = modelUnlockValues ∧
    Generated.C38.releaseAllValues = modelReleaseAllValues ∧
    Generated.C38.casSites = [("ReleaseAll", 1), ("Unlock", 1), ("tryLock", 2)] ∧
    Generated.C38.loadSites = [("GetLockState", 1), ("ReleaseAll", 1), ("Unlock", 1), ("tryLock", 1)] ∧
    Generated.C38.sessionSetCalls = [("ReleaseAll", "IterLocks"), ("Unlock", "DelLock"), ("tryLock", "AddLock")] ∧
    Generated.C38.conditions =
      [("GetLockState", "currLock.Owner == 0"),
       ("ReleaseAll", "currLock.Owner != int64(userId)"), ("Unlock", "currLock.Owner != userId"),
       ("Unlock", "currLock.Count > 1"), ("Unlock", "newVal.Count == 0"),
       ("tryLock", "currLock.Owner == 0"), ("tryLock", "currLock.Owner == userId")] ∧
    Generated.C38.lockStates = [("LockDoesNotExist", 0), ("LockInUse", 1), ("LockFree", 2)] := by
  decide

end Gms.C38
