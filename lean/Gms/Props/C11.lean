/-
C11 — Repeated queries reflect the current data; no stale results.

Model: Gms/Model/QueryCache.lean (the executor's cache cells and who owns them) on top of the
statement fragment and reference semantics of Gms/Model/Prepared.lean.
-/
import Gms.Model.QueryCache
import Gms.Generated.C11
open Gms.Sql Gms.QueryCache

namespace Gms.C11

/-- the cell invariant inside one statement: whatever is cached is the child's current result -/
def CellOK (c : Cell) (child : List Row) : Prop := c.finalized = true → c.cached = child

theorem iter_correct (c : Cell) (child : List Row) (d : Option Nat) (h : CellOK c child) :
    (c.iter child d).1 = served child d ∧ CellOK (c.iter child d).2 child := by
  unfold Cell.iter
  by_cases hf : c.finalized = true
  · have hc := h hf
    simp only [hf, if_true]
    constructor
    · cases d <;> simp [served, hc]
    · exact h
  · simp only [hf, Bool.false_eq_true, if_false]
    cases d with
    | none => exact ⟨rfl, fun _ => rfl⟩
    | some n =>
      by_cases hn : n > child.length
      · simp only [hn, if_true]
        constructor
        · simp [served, List.take_of_length_le (Nat.le_of_lt hn)]
        · exact fun _ => rfl
      · simp only [hn, if_false]
        exact ⟨rfl, h⟩

/-- inside one statement every iteration of a cached node serves exactly the rows the child yields
now — for any number of iterations and any demands (early close never saves a partial result) -/
theorem iters_correct (child : List Row) (ds : List (Option Nat)) :
    ∀ c : Cell, CellOK c child → (iters c child ds).1 = ds.map (served child) ∧ CellOK (iters c child ds).2 child := by
  induction ds with
  | nil => intro c h; exact ⟨rfl, h⟩
  | cons d ds ih =>
    intro c h
    have h1 := iter_correct c child d h
    have h2 := ih (c.iter child d).2 h1.2
    simp only [iters, List.map_cons]
    exact ⟨by rw [h1.1, h2.1], h2.2⟩

theorem fresh_ok (child : List Row) : CellOK {} child := by
  intro h; simp at h

/-- **cache_scoped**: with one plan per execution, every query of every history (any writes in
between, any repetition) returns the rows of the state current at that step -/
theorem cache_scoped {σ : Type} (hist : List (Step σ)) : ∀ s : σ, runFresh hist s = runSpec hist s := by
  induction hist with
  | nil => intro s; rfl
  | cons st rest ih =>
    intro s
    cases st with
    | write f => exact ih (f s)
    | query den ds =>
      simp only [runFresh, runSpec]
      rw [(iters_correct (den s) ds {} (fresh_ok _)).1, ih s]

/-- a deterministic read-only query run twice on unchanged data returns the same result -/
theorem deterministic_rerun {σ : Type} (den : σ → List Row) (ds : List (Option Nat)) (s : σ) :
    runFresh [.query den ds, .query den ds] s = [ds.map (served (den s)), ds.map (served (den s))] := by
  rw [cache_scoped]; rfl

/-- what the tie has to exclude: if a plan instance (its cell) survived across executions, a
re-run after a write would serve the old rows -/
theorem finding_shape_stale_if_shared :
    ∃ (hist : List (Step (List Row))) (s : List Row), runShared hist s {} ≠ runSpec hist s :=
  ⟨[.query id [none], .write (fun _ => [[.int 2]]), .query id [none]], [[.int 1]], by decide⟩

/-- the shared variant is still correct as long as nothing is written between the executions -/
theorem shared_ok_without_writes {σ : Type} (den : σ → List Row) (s : σ) (qs : List (List (Option Nat))) :
    ∀ c : Cell, CellOK c (den s) →
      runShared (qs.map fun ds => Step.query den ds) s c = qs.map fun ds => ds.map (served (den s)) := by
  induction qs with
  | nil => intro c _; rfl
  | cons ds rest ih =>
    intro c h
    have h1 := iters_correct (den s) ds c h
    simp only [List.map_cons, runShared]
    rw [h1.1, ih _ h1.2]

/-- `Subquery.Eval`: within one node instance the first evaluation is served for ever -/
theorem subcell_sticky (c : SubCell) (a b : List Value) :
    ((c.eval true a).2.eval true b).1 = (c.eval true a).1 := by
  unfold SubCell.eval
  by_cases h : c.resultsCached = true <;> simp [h]

example : (iters {} [[.int 1], [.int 2], [.int 3]] [some 1, none, some 2]).1
    = [[[.int 1]], [[.int 1], [.int 2], [.int 3]], [[.int 1], [.int 2]]] := by decide

/-- the histories the driver replays: statements of the Prepared fragment against one table; a
SELECT served through a fresh cell returns the reference result on the table as it is *now* -/
theorem select_through_fresh_cell (st : Gms.Prepared.Stmt) (db : Gms.Prepared.Table) (rs : List Row) (db' : Gms.Prepared.Table)
    (_h : Gms.Prepared.run [] st db = (.rows rs, db')) : (iters {} rs [none]).1.headD [] = rs := by
  have := (iters_correct rs [none] {} (fresh_ok rs)).1
  rw [this]; rfl

/-- regenerated on every run (go/ast): the cell of `plan.CachedResults` is exactly (`cachedResults`,
`finalized`); `buildCachedResults` serves from the cell iff `IsFinalized()` and otherwise builds the
child; the iterator saves into the node only under `err != nil` ∧ `err == io.EOF`; `WithChildren`
copies the node (and its cell); the only caller of `NewCachedResults` is the analyzer rule
`cacheSubqueryAliasesInJoins`; the subquery cache is (`cache`, `hashCache`, `resultsCached`, mutex), it
is used only when `s.correlated.Empty() && !s.volatile`, and `Dispose` does *not* clear it (so the
per-execution plan is what scopes it); `HashLookup.Dispose` clears its map; `QueryWithBindings` plans
afresh (`bindQuery`, `analyzeNode`) on every call and the session's prepared cache takes a
`sqlparser.Statement`. -/
theorem facts_match :
    Gms.Generated.C11.cachedResultsFields = ["UnaryNode", "cachedResults", "finalized"] ∧
    Gms.Generated.C11.withChildrenCopiesNode = true ∧
    Gms.Generated.C11.serveFromCellWhen = ["n.IsFinalized()"] ∧
    Gms.Generated.C11.buildChildWhen = [] ∧
    Gms.Generated.C11.saveCellWhen = ["err != nil", "err == io.EOF"] ∧
    Gms.Generated.C11.saveSetsCachedResults = true ∧
    Gms.Generated.C11.subqueryCacheFields = ["cache", "cacheMu", "hashCache", "resultsCached"] ∧
    Gms.Generated.C11.subqueryDisposeClearsCache = false ∧
    Gms.Generated.C11.subqueryCacheableWhen = "s.correlated.Empty() && !s.volatile" ∧
    Gms.Generated.C11.hashLookupDisposeClears = true ∧
    Gms.Generated.C11.newCachedResultsSites = ["sql/analyzer/resolve_subqueries.go:1"] ∧
    Gms.Generated.C11.queryPlansAfresh = true ∧
    Gms.Generated.C11.sessionPrepareQueryParamTypes = ["string", "sqlparser.Statement"] := by
  decide

end Gms.C11
