/-
C11 — Repeated queries reflect the current data; no stale results.

Model: Gms/Model/QueryCache.lean (the executor's cache cells and who owns them) on top of the
statement fragment and reference semantics of Gms/Model/Prepared.lean; Gms/Model/TxSnapshot.lean (the
session's per-transaction working copy of the data and the marks that decide when it is dropped);
Gms/Model/TrigCache.lean (subquery cells inside a statement whose data changes while it runs: trigger bodies).
-/
import Gms.Model.QueryCache
import Gms.Model.TxSnapshot
import Gms.Model.TrigCache
import Gms.Generated.C11
open Gms.Sql Gms.QueryCache

namespace Gms.C11

/-- the cell invariant inside one statement: whatever is cached is the child's current result -/
def CellOK (c : Cell) (child : List Row) : Prop := c.finalized = true → c.cached = child

theorem iter_correct (c : Cell) (child : List Row) (d : Option Nat) (h : CellOK c child) :
    (c.iter child d).1 = served child d ∧ CellOK (c.iter child d).2 child := by
  unfold Cell.iter
  by_cases hf : c.finalized = true
  · have hc := h hf
    simp only [hf, if_true]
    constructor
    · cases d <;> simp [served, hc]
    · exact h
  · simp only [hf, Bool.false_eq_true, if_false]
    cases d with
    | none => exact ⟨rfl, fun _ => rfl⟩
    | some n =>
      by_cases hn : n > child.length
      · simp only [hn, if_true]
        constructor
        · simp [served, List.take_of_length_le (Nat.le_of_lt hn)]
        · exact fun _ => rfl
      · simp only [hn, if_false]
        exact ⟨rfl, h⟩

/-- inside one statement every iteration of a cached node serves exactly the rows the child yields
now — for any number of iterations and any demands (early close never saves a partial result) -/
theorem iters_correct (child : List Row) (ds : List (Option Nat)) :
    ∀ c : Cell, CellOK c child → (iters c child ds).1 = ds.map (served child) ∧ CellOK (iters c child ds).2 child := by
  induction ds with
  | nil => intro c h; exact ⟨rfl, h⟩
  | cons d ds ih =>
    intro c h
    have h1 := iter_correct c child d h
    have h2 := ih (c.iter child d).2 h1.2
    simp only [iters, List.map_cons]
    exact ⟨by rw [h1.1, h2.1], h2.2⟩

theorem fresh_ok (child : List Row) : CellOK {} child := by
  intro h; simp at h

/-- **cache_scoped**: with one plan per execution, every query of every history (any writes in
between, any repetition) returns the rows of the state current at that step -/
theorem cache_scoped {σ : Type} (hist : List (Step σ)) : ∀ s : σ, runFresh hist s = runSpec hist s := by
  induction hist with
  | nil => intro s; rfl
  | cons st rest ih =>
    intro s
    cases st with
    | write f => exact ih (f s)
    | query den ds =>
      simp only [runFresh, runSpec]
      rw [(iters_correct (den s) ds {} (fresh_ok _)).1, ih s]

/-- a deterministic read-only query run twice on unchanged data returns the same result -/
theorem deterministic_rerun {σ : Type} (den : σ → List Row) (ds : List (Option Nat)) (s : σ) :
    runFresh [.query den ds, .query den ds] s = [ds.map (served (den s)), ds.map (served (den s))] := by
  rw [cache_scoped]; rfl

/-- what the tie has to exclude: if a plan instance (its cell) survived across executions, a
re-run after a write would serve the old rows -/
theorem finding_shape_stale_if_shared :
    ∃ (hist : List (Step (List Row))) (s : List Row), runShared hist s {} ≠ runSpec hist s :=
  ⟨[.query id [none], .write (fun _ => [[.int 2]]), .query id [none]], [[.int 1]], by decide⟩

/-- the shared variant is still correct as long as nothing is written between the executions -/
theorem shared_ok_without_writes {σ : Type} (den : σ → List Row) (s : σ) (qs : List (List (Option Nat))) :
    ∀ c : Cell, CellOK c (den s) →
      runShared (qs.map fun ds => Step.query den ds) s c = qs.map fun ds => ds.map (served (den s)) := by
  induction qs with
  | nil => intro c _; rfl
  | cons ds rest ih =>
    intro c h
    have h1 := iters_correct (den s) ds c h
    simp only [List.map_cons, runShared]
    rw [h1.1, ih _ h1.2]

/-- `Subquery.Eval`: within one node instance the first evaluation is served for ever -/
theorem subcell_sticky (c : SubCell) (a b : List Value) :
    ((c.eval true a).2.eval true b).1 = (c.eval true a).1 := by
  unfold SubCell.eval
  by_cases h : c.resultsCached = true <;> simp [h]

example : (iters {} [[.int 1], [.int 2], [.int 3]] [some 1, none, some 2]).1
    = [[[.int 1]], [[.int 1], [.int 2], [.int 3]], [[.int 1], [.int 2]]] := by decide

/-- the histories the driver replays: statements of the Prepared fragment against one table; a
SELECT served through a fresh cell returns the reference result on the table as it is *now* -/
theorem select_through_fresh_cell (st : Gms.Prepared.Stmt) (db : Gms.Prepared.Table) (rs : List Row) (db' : Gms.Prepared.Table)
    (_h : Gms.Prepared.run [] st db = (.rows rs, db')) : (iters {} rs [none]).1.headD [] = rs := by
  have := (iters_correct rs [none] {} (fresh_ok rs)).1
  rw [this]; rfl


/-! ## The session's working copy of the data (Gms/Model/TxSnapshot.lean) -/

section TxSnapshot
open Gms.TxSnapshot

/-- one operation: the Go bookkeeping (`tables` left behind by a finished transaction, the marks `txn` /
`ignoreAutoCommit`, the reset at the *next* statement) yields the observation, the database and the
session state the Spec prescribes -/
theorem step_sim {σ ο} (db : σ) (s : Sess σ) (h : s.Inv) (op : Op σ ο) :
    (stepImpl db s op).1 = (stepSpec db s.abs op).1 ∧ (stepImpl db s op).2.1 = (stepSpec db s.abs op).2.1 ∧
    (stepImpl db s op).2.2.abs = (stepSpec db s.abs op).2.2 ∧ (stepImpl db s op).2.2.Inv := by
  obtain ⟨tables, txn, ign, ac⟩ := s
  obtain ⟨h1, h2⟩ := h
  simp only at h1 h2
  cases op with
  | setAC b =>
    cases b <;> cases txn <;> cases ign <;> cases ac <;> cases tables <;>
      simp_all [stepImpl, stepSpec, Sess.abs, Sess.Inv, Sess.beginStmt, Sess.startTx, Sess.flush, Sess.endStmt, Tx.flush]
  | _ =>
    cases txn <;> cases ign <;> cases ac <;> cases tables <;>
      simp_all [stepImpl, stepSpec, Sess.abs, Sess.Inv, Sess.beginStmt, Sess.startTx, Sess.view, Sess.flush, Sess.endStmt, Tx.flush]

/-- **tx_snapshot_scoped**: for every history of statements and transaction control issued by any number of
sessions, every statement observes what the Spec prescribes — in particular the working copy a finished
transaction leaves in the session is never served again -/
theorem tx_snapshot_scoped {σ ο} (hist : Hist σ ο) : ∀ (db : σ) (ss : Nat → Sess σ), (∀ j, (ss j).Inv) →
    runImpl hist db ss = TxSnapshot.runSpec hist db (fun j => (ss j).abs) := by
  induction hist with
  | nil => intros; rfl
  | cons x rest ih =>
    intro db ss hinv
    obtain ⟨i, op⟩ := x
    obtain ⟨h1, h2, h3, h4⟩ := step_sim db (ss i) (hinv i) op
    simp only [runImpl, TxSnapshot.runSpec, runWith] at ih ⊢
    rw [h1, h2]
    congr 1
    rw [ih]
    · congr 1
      funext j
      unfold upd
      by_cases hj : j = i
      · simp [hj, h3]
      · simp [hj]
    · intro j
      unfold upd
      by_cases hj : j = i
      · simp [hj, h4]
      · simp [hj, hinv j]

/-- from new sessions -/
theorem tx_snapshot_scoped_fresh {σ ο} (hist : Hist σ ο) (db : σ) :
    runImpl hist db (fun _ => {}) = TxSnapshot.runSpec hist db (fun _ => {}) := by
  rw [tx_snapshot_scoped hist db (fun _ => {}) (fun _ => by simp [Sess.Inv])]
  rfl

/-- how to read the Spec: a statement of a session that has no transaction open sees the current data,
whatever that session did before -/
theorem idle_statement_sees_current_data {σ ο} (db : σ) (f : σ → ο × σ) :
    (stepSpec db { tx := .idle, autocommit := true } (.stmt f)).1 = some (f db).1 := rfl

/-- … and COMMIT / ROLLBACK always lead there (under autocommit) -/
theorem commit_rollback_end_the_transaction {σ ο} (db : σ) (s : SSess σ) :
    (stepSpec (ο := ο) db s .commit).2.2.tx = .idle ∧ (stepSpec (ο := ο) db s .rollback).2.2.tx = .idle := ⟨rfl, rfl⟩

/-- what the tie has to exclude: a COMMIT that leaves the transaction marks set (any early return in front of
`SetTransaction(nil)`) makes the session serve its old working copy after another session's write -/
theorem finding_shape_stale_if_commit_keeps_txn :
    ∃ (hist : Hist (List Row) (List Row)) (db : List Row), runKeep hist db (fun _ => {}) ≠ TxSnapshot.runSpec hist db (fun _ => {}) :=
  ⟨[(0, .start), (0, .stmt fun d => (d, d)), (0, .commit), (1, .stmt fun d => ([], [.int 2] :: d)), (0, .stmt fun d => (d, d))],
   [[.int 1]], by decide⟩

/-- non-vacuity: the same history through the model as built -/
example : runImpl (σ := List Row) (ο := List Row)
    [(0, .start), (0, .stmt fun d => (d, d)), (0, .commit), (1, .stmt fun d => ([], [.int 2] :: d)), (0, .stmt fun d => (d, d))]
    [[.int 1]] (fun _ => {}) = [none, some [[.int 1]], none, some [], some [[.int 2], [.int 1]]] := by decide

end TxSnapshot

/-! ## Subquery cells of a trigger body (Gms/Model/TrigCache.lean) -/

section TrigCache
open Gms.TrigCache

theorem eval_uncacheable (c : SubCell) (h : c.resultsCached = false) (now : List Value) : c.eval false now = (now, c) := by
  simp [SubCell.eval, h]

/-- no subquery of the body may be served from its cell -/
def Uncacheable (vol : Bool) (b : Body) : Prop :=
  (∀ q, b.setK = some q → cacheable vol q.correlated = false) ∧
  (∀ t, b.mark = some t → (t.fills && cacheable vol t.correlated) = false)

theorem execRow_current (vol : Bool) (b : Body) (hb : Uncacheable vol b) (cs : Cells)
    (h1 : cs.c1.resultsCached = false) (h2 : cs.c2.resultsCached = false) (log : Log) (r : NewRow) :
    execRow vol b cs log r = ((specRow b log r).1, (specRow b log r).2, cs) := by
  obtain ⟨c1, c2⟩ := cs
  obtain ⟨sk, mk, lg⟩ := b
  obtain ⟨hq, ht⟩ := hb
  simp only at h1 h2 hq ht
  cases sk with
  | none =>
    cases mk with
    | none => simp [execRow, specRow]
    | some t =>
      have := ht t rfl
      simp [execRow, specRow, this, eval_uncacheable c2 h2]
  | some q =>
    have hq' := hq q rfl
    cases mk with
    | none => simp [execRow, specRow, hq', eval_uncacheable c1 h1]
    | some t =>
      have := ht t rfl
      simp [execRow, specRow, hq', this, eval_uncacheable c1 h1, eval_uncacheable c2 h2]

/-- a statement none of whose body subqueries is cacheable evaluates every one of them on the data as it is
when the body runs, for every row the statement touches -/
theorem execRows_current (vol : Bool) (b : Body) (hb : Uncacheable vol b) (rows : List NewRow) :
    ∀ (cs : Cells) (log : Log), cs.c1.resultsCached = false → cs.c2.resultsCached = false →
      execRows vol b cs log rows = specRows b log rows := by
  induction rows with
  | nil => intros; rfl
  | cons r rest ih =>
    intro cs log h1 h2
    simp only [execRows, specRows, execRow_current vol b hb cs h1 h2 log r]
    rw [ih cs _ h1 h2]

theorem marked_uncacheable (b : Body) : Uncacheable true b := by
  constructor <;> intros <;> simp [cacheable]

/-- **trigger_rows_current**: with the mark the plan builder puts on the subqueries of a trigger body, a
multi-row statement gives every row the subquery results of the data current at that row -/
theorem trigger_rows_current (b : Body) (log : Log) (rows : List NewRow) : implStmt b log rows = specRows b log rows :=
  execRows_current true b (marked_uncacheable b) rows {} log rfl rfl

/-- correlated subqueries are safe without the mark (the control shapes of the generator) -/
theorem correlated_rows_current (b : Body) (hq : ∀ q, b.setK = some q → q.correlated = true)
    (ht : ∀ t, b.mark = some t → t.correlated = true) (log : Log) (rows : List NewRow) :
    implStmtUnmarked b log rows = specRows b log rows :=
  execRows_current false b ⟨fun q h => by simp [cacheable, hq q h], fun t h => by simp [cacheable, ht t h]⟩ rows {} log rfl rfl

/-- non-vacuity: a body all of whose subqueries mention the row -/
example : implStmtUnmarked { setK := some { agg := .count, below := some .newId }, mark := some (.existsEq .newK), logs := .newK } [0]
    [{ id := 1, k := 5 }, { id := 2, k := 5 }] = ([{ id := 1, k := 1 }, { id := 2, k := 2 }], [0, 1, 2]) := by decide

/-- what the tie has to exclude: if the mark is lost on the way to execution, rows 2..n of a statement get the
subquery result computed for row 1 -/
theorem finding_shape_trigger_cache_unmarked :
    ∃ (b : Body) (log : Log) (rows : List NewRow), implStmtUnmarked b log rows ≠ specRows b log rows :=
  ⟨{ setK := some { agg := .max }, logs := .newId }, [1, 2], [{ id := 3, k := -1 }, { id := 4, k := -1 }, { id := 5, k := -1 }], by decide⟩

example : implStmt { setK := some { agg := .max }, mark := some (.inLog .newK), logs := .newId } [1, 2]
    [{ id := 3, k := -1 }, { id := 4, k := -1 }] = ([{ id := 3, k := 2, seen := true }, { id := 4, k := 3, seen := true }], [1, 2, 3, 4]) := by decide

end TrigCache

/-- regenerated on every run (go/ast): the cell of `plan.CachedResults` is exactly (`cachedResults`,
`finalized`); `buildCachedResults` serves from the cell iff `IsFinalized()` and otherwise builds the
child; the iterator saves into the node only under `err != nil` ∧ `err == io.EOF`; `WithChildren`
copies the node (and its cell); the only caller of `NewCachedResults` is the analyzer rule
`cacheSubqueryAliasesInJoins`; the subquery cache is (`cache`, `hashCache`, `resultsCached`, mutex), it
is used only when `s.correlated.Empty() && !s.volatile`, and `Dispose` does *not* clear it (so the
per-execution plan is what scopes it); `HashLookup.Dispose` clears its map; `QueryWithBindings` plans
afresh (`bindQuery`, `analyzeNode`) on every call and the session's prepared cache takes a
`sqlparser.Statement`. -/
theorem facts_match :
    Gms.Generated.C11.cachedResultsFields = ["UnaryNode", "cachedResults", "finalized"] ∧
    Gms.Generated.C11.withChildrenCopiesNode = true ∧
    Gms.Generated.C11.serveFromCellWhen = ["n.IsFinalized()"] ∧
    Gms.Generated.C11.buildChildWhen = [] ∧
    Gms.Generated.C11.saveCellWhen = ["err != nil", "err == io.EOF"] ∧
    Gms.Generated.C11.saveSetsCachedResults = true ∧
    Gms.Generated.C11.subqueryCacheFields = ["cache", "cacheMu", "hashCache", "resultsCached"] ∧
    Gms.Generated.C11.subqueryDisposeClearsCache = false ∧
    Gms.Generated.C11.subqueryCacheableWhen = "s.correlated.Empty() && !s.volatile" ∧
    Gms.Generated.C11.hashLookupDisposeClears = true ∧
    Gms.Generated.C11.newCachedResultsSites = ["sql/analyzer/resolve_subqueries.go:1"] ∧
    Gms.Generated.C11.queryPlansAfresh = true ∧
    Gms.Generated.C11.sessionPrepareQueryParamTypes = ["string", "sqlparser.Statement"] := by
  decide

/-- regenerated on every run (go/ast) — the transaction marks of Gms/Model/TxSnapshot.lean: COMMIT and ROLLBACK
reach `SetIgnoreAutoCommit(false); SetTransaction(nil)` unless the session has no transaction (`Sess.beginStmt`
excludes that) or the backend call failed; START TRANSACTION commits what is pending, starts a transaction and
sets both marks; every statement begins a transaction iff there is none; after a statement the transaction is
committed and cleared unless it is explicit or `autocommit = 0`; `memory.Session.tables` is reset by
`StartTransaction` and `Rollback` only (a commit leaves it behind) and `tableData` reads the database only for
a table that is not in it. -/
theorem facts_match_tx :
    Gms.Generated.C11.commitReturnsEarlyWhen = ["!ok", "transaction == nil", "err != nil"] ∧
    Gms.Generated.C11.commitCalls = ["ts.CommitTransaction(ctx, transaction)", "ctx.SetIgnoreAutoCommit(false)", "ctx.SetTransaction(nil)"] ∧
    Gms.Generated.C11.rollbackReturnsEarlyWhen = ["!ok", "transaction == nil", "err != nil"] ∧
    Gms.Generated.C11.rollbackCalls = ["ts.Rollback(ctx, transaction)", "ctx.SetIgnoreAutoCommit(false)", "ctx.SetTransaction(nil)"] ∧
    Gms.Generated.C11.startTransactionReturnsEarlyWhen = ["!ok", "err != nil"] ∧
    Gms.Generated.C11.startTransactionCalls = ["ts.CommitTransaction(ctx, currentTx)", "ts.StartTransaction(ctx, n.TransChar)",
      "ctx.SetTransaction(transaction)", "ctx.SetIgnoreAutoCommit(true)"] ∧
    Gms.Generated.C11.startTransactionCommitsPendingWhen = ["currentTx != nil"] ∧
    Gms.Generated.C11.beginTransactionSkipsWhen = ["ctx.GetTransaction() != nil", "nested:ok"] ∧
    Gms.Generated.C11.beginTransactionCalls = ["ts.StartTransaction(ctx, sql.ReadWrite)", "ctx.SetTransaction(tx)"] ∧
    Gms.Generated.C11.beginTransactionCalledBy = ["QueryWithBindings", "PrepQueryPlanForExecution", "PrepareParsedQuery"] ∧
    Gms.Generated.C11.closeSkipsCommitWhen = ["err != nil", "tx == nil", "!t.implicitCommit && ctx.GetIgnoreAutoCommit()",
      "!t.implicitCommit && !t.autoCommit", "!ok"] ∧
    Gms.Generated.C11.closeCalls = ["ts.CommitTransaction(ctx, tx)", "ctx.SetTransaction(nil)"] ∧
    Gms.Generated.C11.sessionTablesFilledBy = ["putTable", "tableData"] ∧
    Gms.Generated.C11.sessionTablesResetBy = ["Rollback", "StartTransaction"] ∧
    Gms.Generated.C11.tableDataReadsDatabaseWhen = ["!ok"] := by
  decide

/-- regenerated on every run — the "do not cache" mark of Gms/Model/TrigCache.lean: the plan builder marks every
subquery built inside a trigger body, the `With*` rebuilders of `plan.Subquery` start from a copy of the node,
and (dumped by analyzing probe statements with the code under test) the `cacheable` flag of every subquery that
reaches execution is the model's `cacheable volatile correlated`: true for an uncorrelated subquery of a plain
SELECT, false for a correlated one and false for every subquery of a BEFORE INSERT / UPDATE trigger body. -/
theorem facts_match_subquery_mark :
    Gms.Generated.C11.triggerBodySubqueriesMarkedVolatile = true ∧
    Gms.Generated.C11.subqueryWithMethods = ["WithChildren:self", "WithCorrelated:copy", "WithExecBuilder:copy",
      "WithNodeChildren:other", "WithQuery:copy", "WithVolatile:copy"] ∧
    Gms.Generated.C11.subqueryCacheFlags =
      [("select-uncorrelated", [Gms.TrigCache.cacheable false false]),
       ("select-correlated", [Gms.TrigCache.cacheable false true]),
       ("trigger-insert", [Gms.TrigCache.cacheable true false, Gms.TrigCache.cacheable true false]),
       ("trigger-insert-select", [Gms.TrigCache.cacheable true false, Gms.TrigCache.cacheable true false]),
       ("trigger-update", [Gms.TrigCache.cacheable true false, Gms.TrigCache.cacheable true false])] := by
  decide

end Gms.C11
