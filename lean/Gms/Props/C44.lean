/-
C44 — System and user variables store and scope values correctly.

Model: Gms/Model/SysVars.lean (Impl = `implQ`, Spec = `specQ`). Facts: Gms/Generated/C44.lean
(the registry as compiled + go/ast facts), regenerated on every run.

Helper lemmas first, the property theorems in `namespace Gms.C44` at the end.
-/
import Gms.Model.SysVars
import Gms.Generated.C44

open Gms.SysVars

namespace Gms.SysVars

/-! ### maps -/

theorem Map.get_put {β : Type} (m : Map β) (k k' : String) (v : β) :
    (Map.put m k v).get k' = if k' = k then some v else m.get k' := by
  induction m with
  | nil =>
    by_cases h : k' = k
    · simp [Map.put, Map.get, h]
    · have : ¬ k = k' := fun e => h e.symm
      simp [Map.put, Map.get, h, this]
  | cons a rest ih =>
    obtain ⟨k0, v0⟩ := a
    by_cases h0 : k0 = k
    · by_cases h : k' = k
      · simp [Map.put, Map.get, h0, h]
      · have : ¬ k = k' := fun e => h e.symm
        simp [Map.put, Map.get, h0, h, this]
    · by_cases h1 : k0 = k'
      · have : ¬ k' = k := fun e => h0 (h1.trans e)
        simp [Map.put, Map.get, h0, h1, this]
      · simp only [Map.put, h0, if_false, Map.get, List.find?, decide_eq_true_eq, h1]
        simpa [Map.get] using ih

theorem mem_putSess {l : List (Nat × Session)} {sid : Nat} {s : Session} {p : Nat × Session}
    (h : p ∈ putSess l sid s) : p = (sid, s) ∨ p ∈ l := by
  induction l with
  | nil => simp [putSess] at h; exact Or.inl h
  | cons a rest ih =>
    obtain ⟨k, s'⟩ := a
    by_cases hk : k = sid
    · simp [putSess, hk] at h
      rcases h with h | h
      · exact Or.inl h
      · exact Or.inr (List.mem_cons_of_mem _ h)
    · simp [putSess, hk] at h
      rcases h with h | h
      · exact Or.inr (by simp [h])
      · rcases ih h with h | h
        · exact Or.inl h
        · exact Or.inr (List.mem_cons_of_mem _ h)

theorem find_putSess (l : List (Nat × Session)) (sid sid' : Nat) (s : Session) :
    ((putSess l sid s).find? (·.1 = sid')).map (·.2) =
      if sid' = sid then some s else (l.find? (·.1 = sid')).map (·.2) := by
  induction l with
  | nil =>
    by_cases h : sid' = sid
    · simp [putSess, h]
    · have : ¬ sid = sid' := fun e => h e.symm
      simp [putSess, h, this]
  | cons a rest ih =>
    obtain ⟨k, s'⟩ := a
    by_cases hk : k = sid
    · by_cases h : sid' = sid
      · simp [putSess, hk, h]
      · have : ¬ sid = sid' := fun e => h e.symm
        simp [putSess, hk, h, this]
    · by_cases h1 : k = sid'
      · have : ¬ sid' = sid := fun e => hk (h1.trans e)
        simp [putSess, hk, h1, this]
      · simp only [putSess, hk, if_false, List.find?, decide_eq_true_eq, h1]
        simpa using ih

theorem sess_mem {st : State} {sid : Nat} {s : Session} (h : st.sess sid = some s) : (sid, s) ∈ st.sessions := by
  unfold State.sess at h
  cases hf : st.sessions.find? (·.1 = sid) with
  | none => simp [hf] at h
  | some p =>
    simp [hf] at h
    have hm := List.mem_of_find?_eq_some hf
    have hp := List.find?_some hf
    simp at hp
    obtain ⟨a, b⟩ := p
    simp at h hp
    subst h; subst hp; exact hm

/-! ### `Convert` lands in the type -/

theorem getElem?_mem_contains {vals : List String} {i : Nat} {s : String} (h : vals[i]? = some s) :
    vals.contains s = true := by
  have := List.mem_of_getElem? h
  simpa using this

theorem convEnum_valid {vals : List String} {i : Int} {sv : SVal} (h : convEnum vals i = some sv) :
    valid (.enum vals) sv = true := by
  unfold convEnum at h
  split at h
  · cases hg : vals[i.toNat]? with
    | none => simp [hg] at h
    | some s => simp [hg] at h; subst h; exact getElem?_mem_contains hg
  · cases h

theorem convSetBits_valid {vals : List String} {n : Nat} {sv : SVal} (h : convSetBits vals n = some sv) :
    valid (.set vals) sv = true := by
  unfold convSetBits at h
  split at h
  · cases h; simpa [valid]
  · cases h

theorem convInt_valid {q : Quirks} {lo hi : Int} {neg : Bool} {i : Int} {sv : SVal}
    (h : convInt q lo hi neg i = some sv) : valid (.int lo hi neg) sv = true := by
  unfold convInt at h
  split at h
  · cases h
    rename_i hc
    rcases hc with hc | hc
    · simp [valid, hc.1, hc.2]
    · simp [valid, hc.1, hc.2]
  · cases h

theorem convUint_valid {lo hi n : Nat} {sv : SVal} (h : convUint lo hi n = some sv) :
    valid (.uint lo hi) sv = true := by
  unfold convUint at h
  split at h
  · cases h; rename_i hc; simp [valid, hc.1, hc.2]
  · cases h

theorem pow_le_allBits_or {vals : List String} {a b : Nat} (ha : a ≤ allBits vals) (hb : b ≤ allBits vals) :
    a ||| b ≤ allBits vals := by
  unfold allBits at *
  have hp : 0 < 2 ^ vals.length := Nat.two_pow_pos _
  have ha' : a < 2 ^ vals.length := by omega
  have hb' : b < 2 ^ vals.length := by omega
  have := Nat.or_lt_two_pow ha' hb'
  omega

theorem isPow2Below_le {n len : Nat} (h : isPow2Below n len = true) : n < 2 ^ len := by
  unfold isPow2Below at h
  simp at h
  obtain ⟨i, hi, rfl⟩ := h
  exact Nat.pow_lt_pow_right (by decide) hi

theorem findIdxLast_lt_aux (l : List (String × Nat)) (bound : Nat) (s : String) (acc : Option Nat)
    (hacc : ∀ i, acc = some i → i < bound) (hl : ∀ p ∈ l, p.2 < bound) :
    ∀ i, l.foldl (fun acc (p : String × Nat) => if lower p.1 = lower s then some p.2 else acc) acc = some i → i < bound := by
  induction l generalizing acc with
  | nil => simpa using hacc
  | cons a rest ih =>
    intro i
    simp only [List.foldl]
    apply ih
    · intro j hj
      split at hj
      · cases hj; exact hl a (by simp)
      · exact hacc j hj
    · intro p hp; exact hl p (List.mem_cons_of_mem _ hp)

theorem findIdxLast_lt {vals : List String} {s : String} {i : Nat} (h : findIdxLast vals s = some i) :
    i < vals.length := by
  unfold findIdxLast at h
  refine findIdxLast_lt_aux vals.zipIdx vals.length s none (by simp) ?_ i h
  intro p hp
  obtain ⟨v, k⟩ := p
  have := List.mem_zipIdx hp
  simp at this
  omega

theorem setElem_le {vals : List String} {b : Nat} {el : List Char} {a : Nat} (hb : b ≤ allBits vals)
    (h : setElem vals b el = some a) : a ≤ allBits vals := by
  unfold setElem at h
  split at h
  · cases h; exact hb
  · split at h
    · cases h
      rename_i i hi
      have hlt := findIdxLast_lt hi
      have : 2 ^ i ≤ allBits vals := by
        unfold allBits
        have := Nat.pow_lt_pow_right (a := 2) (by decide) hlt
        omega
      exact pow_le_allBits_or hb this
    · split at h
      · split at h
        · cases h
        · split at h
          · cases h; exact hb
          · split at h
            · cases h
              rename_i hp
              have hlt := isPow2Below_le hp
              refine pow_le_allBits_or hb ?_
              unfold allBits; omega
            · cases h
      · cases h

theorem setElems_le {vals : List String} (els : List (List Char)) {b n : Nat} (hb : b ≤ allBits vals)
    (h : setElems vals els b = some n) : n ≤ allBits vals := by
  induction els generalizing b with
  | nil => simp [setElems] at h; omega
  | cons el rest ih =>
    simp only [setElems] at h
    cases he : setElem vals b el with
    | none => simp [he] at h
    | some a => simp [he] at h; exact ih (setElem_le hb he) h

theorem setOfString_le {vals : List String} {s : String} {n : Nat} (h : setOfString vals s = some n) :
    n ≤ allBits vals := by
  unfold setOfString at h
  split at h
  · cases h; exact Nat.zero_le _
  · exact setElems_le _ (Nat.zero_le _) h

theorem intg_bool {m : Int} {s : Nat} {sv : SVal}
    (h : (match integral m s with
      | some 0 => some (SVal.i8 false)
      | some 1 => some (SVal.i8 true)
      | _ => none) = some sv) : valid .bool sv = true := by
  split at h <;> first | (cases h; rfl) | cases h

theorem enumMap_valid {vals : List String} {i : Nat} {sv : SVal} (h : (vals[i]?).map SVal.str = some sv) :
    valid (.enum vals) sv = true := by
  cases hg : vals[i]? with
  | none => simp [hg] at h
  | some s => simp [hg] at h; subst h; exact getElem?_mem_contains hg

theorem setMap_valid {vals : List String} {s : String} {sv : SVal} (h : (setOfString vals s).map SVal.bits = some sv) :
    valid (.set vals) sv = true := by
  cases hg : setOfString vals s with
  | none => simp [hg] at h
  | some n => simp [hg] at h; subst h; simpa [valid] using setOfString_le hg

/-- Whatever `Convert` accepts is a value of the variable's type (for the code and for the property). -/
theorem convert_valid (q : Quirks) (ty : Ty) (x : Val) (sv : SVal) (h : convert q ty x = some sv) :
    valid ty sv = true := by
  cases ty <;> cases x <;> simp only [convert] at h
  all_goals (repeat' (split at h))
  all_goals first
    | cases h; done
    | (cases h; rfl)
    | exact convInt_valid h
    | exact convUint_valid h
    | exact convEnum_valid h
    | exact convSetBits_valid h
    | exact enumMap_valid h
    | exact setMap_valid h
    | (cases h; simp_all [valid, mkDbl]; done)
    | skip

/-! ### the stored values always have the variable's type (invariant over all histories) -/

/-- A stored value is fine if it has the registered type or is the registered default (which
`InitSystemVariables` stores unconverted). -/
def Good (r : Reg) (n : String) (sv : SVal) : Prop :=
  ∃ v, r.find n = some v ∧ (valid v.ty sv = true ∨ sv = v.default)

def MapWF (r : Reg) (m : Map SVal) : Prop := ∀ n sv, m.get n = some sv → Good r n sv

def WF (r : Reg) (st : State) : Prop :=
  MapWF r st.global ∧ (∀ p ∈ st.sessions, MapWF r p.2.sys) ∧ MapWF r st.persisted

theorem MapWF_put {r : Reg} {m : Map SVal} {n : String} {sv : SVal} (hm : MapWF r m) (hg : Good r n sv) :
    MapWF r (m.put n sv) := by
  intro n' sv' h
  rw [Map.get_put] at h
  split at h
  · cases h; rename_i e; subst e; exact hg
  · exact hm n' sv' h

theorem setValue_valid {q : Quirks} {v : Var} {x : Val} {g : Bool} {sv : SVal} (h : setValue q v x g = .ok sv) :
    valid v.ty sv = true := by
  unfold setValue at h
  repeat' (split at h)
  all_goals first | cases h; done | skip
  cases h
  exact convert_valid _ _ _ _ (by assumption)

theorem setGlobal_wf {q : Quirks} {r : Reg} {st st' : State} {n : String} {x : Val} (hw : WF r st)
    (h : setGlobal q r st n x = .ok st') : WF r st' := by
  unfold setGlobal at h
  split at h
  · cases h
  · rename_i v hv
    cases hs : setValue q v x true with
    | error e => simp [hs, bind, Except.bind] at h
    | ok sv =>
      simp [hs, bind, Except.bind, pure, Except.pure] at h
      subst h
      exact ⟨MapWF_put hw.1 ⟨v, hv, Or.inl (setValue_valid hs)⟩, hw.2.1, hw.2.2⟩

theorem setSessionVar_wf {q : Quirks} {r : Reg} {st st' : State} {sid : Nat} {n : String} {x : Val} (hw : WF r st)
    (h : setSessionVar q r st sid n x = .ok st') : WF r st' := by
  unfold setSessionVar at h
  split at h
  · rename_i s v hs hv
    split at h
    · cases h
    · cases hsv : setValue q v x false with
      | error e => simp [hsv, bind, Except.bind] at h
      | ok sv =>
        simp [hsv, bind, Except.bind, pure, Except.pure] at h
        subst h
        refine ⟨hw.1, ?_, hw.2.2⟩
        intro p hp
        rcases mem_putSess hp with hp | hp
        · subst hp
          exact MapWF_put (hw.2.1 _ (sess_mem hs)) ⟨v, hv, Or.inl (setValue_valid hsv)⟩
        · exact hw.2.1 p hp
  · cases h

theorem persistGlobal_wf {q : Quirks} {r : Reg} {st st' : State} {n : String} {x : Val} (hw : WF r st)
    (h : persistGlobal q r st n x = .ok st') : WF r st' := by
  unfold persistGlobal at h
  split at h
  · cases h
  · rename_i v hv
    split at h
    · rename_i sv hc
      cases h
      exact ⟨hw.1, hw.2.1, MapWF_put hw.2.2 ⟨v, hv, Or.inl (convert_valid _ _ _ _ hc)⟩⟩
    · cases h

theorem lift_wf {r : Reg} {st : State} {e : Except Err State} (hw : WF r st)
    (h : ∀ st', e = .ok st' → WF r st') : WF r (lift st e).1 := by
  cases e with
  | ok st' => exact h st' rfl
  | error _ => exact hw

theorem scopeSetValue_wf {q : Quirks} {r : Reg} {st : State} {sid : Nat} {sc : SetScope} {n : String} {x : Val}
    (hw : WF r st) : WF r (scopeSetValue q r st sid sc n x).1 := by
  unfold scopeSetValue
  cases sc with
  | global => exact lift_wf hw fun _ h => setGlobal_wf hw h
  | session => exact lift_wf hw fun _ h => setSessionVar_wf hw h
  | persist =>
    simp only
    split
    · cases hp : persistGlobal q r st n x with
      | error e => exact hw
      | ok st1 =>
        have h1 := persistGlobal_wf hw hp
        exact lift_wf h1 fun _ h => setGlobal_wf h1 h
    · cases hg : setGlobal q r st n x with
      | error e => exact hw
      | ok st1 =>
        have h1 := setGlobal_wf hw hg
        exact lift_wf hw fun _ h => persistGlobal_wf h1 h
  | persistOnly =>
    simp only
    split
    · exact lift_wf hw fun _ h => persistGlobal_wf hw h
    · split
      · exact hw
      · split
        · exact hw
        · exact lift_wf hw fun _ h => persistGlobal_wf hw h

theorem execAsg_wf {q : Quirks} {r : Reg} {st : State} {sid : Nat} {a : Target × PRhs} (hw : WF r st) :
    WF r (execAsg q r st sid a).1 := by
  unfold execAsg
  split
  · exact hw
  · split
    · split
      · rename_i s hs
        refine ⟨hw.1, ?_, hw.2.2⟩
        intro p hp
        rcases mem_putSess hp with hp | hp
        · subst hp; exact hw.2.1 (sid, s) (sess_mem hs)
        · exact hw.2.1 p hp
      · exact hw
    · exact scopeSetValue_wf hw

theorem execAsgs_wf {q : Quirks} {r : Reg} {sid : Nat} (as : List (Target × PRhs)) {st : State} (hw : WF r st) :
    WF r (execAsgs q r sid st as).1 := by
  induction as generalizing st with
  | nil => exact hw
  | cons a rest ih =>
    simp only [execAsgs]
    have h1 : WF r (execAsg q r st sid a).1 := execAsg_wf hw
    split
    · rename_i st' he; rw [he] at h1; exact ih h1
    · rename_i st' e he; rw [he] at h1; exact h1

theorem execSet_wf {q : Quirks} {r : Reg} {st : State} {sid : Nat} {asgs : List (Target × Rhs)} (hw : WF r st) :
    WF r (execSet q r st sid asgs).1 := by
  unfold execSet
  split
  · exact hw
  · rename_i ps _
    have h1 : WF r (execAsgs q r sid st ps).1 := execAsgs_wf ps hw
    split
    · rename_i st' he; rw [he] at h1; exact h1
    · rename_i st' e he
      rw [he] at h1
      split
      · exact h1
      · split
        · exact ⟨hw.1, hw.2.1, h1.2.2⟩
        · exact hw

theorem newSession_wf {r : Reg} {st : State} {sid : Nat} (hw : WF r st) : WF r (newSession st sid) := by
  refine ⟨hw.1, ?_, hw.2.2⟩
  intro p hp
  rcases mem_putSess hp with hp | hp
  · subst hp; exact hw.1
  · exact hw.2.1 p hp

theorem step_wf {q : Quirks} {r : Reg} {st : State} (s : Stmt) (hw : WF r st) : WF r (step q r st s).1 := by
  cases s with
  | newSession sid => exact newSession_wf hw
  | set sid asgs =>
    simp only [step]
    have := execSet_wf (q := q) (sid := sid) (asgs := asgs) hw
    split <;> (rename_i he; rw [he] at this; exact this)
  | get sid refs => simp only [step]; split <;> exact hw
  | getPersisted n => simp only [step]; split <;> exact hw

theorem find_init (r : Reg) (n : String) (sv : SVal) (h : (init r).global.get n = some sv) :
    ∃ v, r.find n = some v ∧ sv = v.default := by
  unfold init Map.get at h
  simp only at h
  unfold Reg.find
  induction r with
  | nil => simp at h
  | cons a rest ih =>
    by_cases hn : a.name = n
    · simp [hn] at h ⊢; exact h.symm
    · simp [hn] at h ⊢
      obtain ⟨p, hp, hs⟩ := h
      exact ih (by simp; exact ⟨p, hp, hs⟩)

end Gms.SysVars

namespace Gms.SysVars

/-! ### a SET in one session never touches another session -/

def SameOthers (sid : Nat) (st st' : State) : Prop := ∀ sid', sid' ≠ sid → st'.sess sid' = st.sess sid'

theorem SameOthers.refl (sid : Nat) (st : State) : SameOthers sid st st := fun _ _ => rfl
theorem SameOthers.trans {sid : Nat} {a b c : State} (h1 : SameOthers sid a b) (h2 : SameOthers sid b c) :
    SameOthers sid a c := fun s hs => (h2 s hs).trans (h1 s hs)

theorem sameOthers_of_sessions_eq {sid : Nat} {st st' : State} (h : st'.sessions = st.sessions) : SameOthers sid st st' := by
  intro s _; unfold State.sess; rw [h]

theorem sameOthers_putSess {sid : Nat} {st : State} {s : Session} :
    SameOthers sid st { st with sessions := putSess st.sessions sid s } := by
  intro s' hs
  unfold State.sess
  simp only
  rw [find_putSess]
  simp [hs]

theorem setGlobal_sessions {q : Quirks} {r : Reg} {st st' : State} {n : String} {x : Val}
    (h : setGlobal q r st n x = .ok st') : st'.sessions = st.sessions ∧ st'.persisted = st.persisted := by
  unfold setGlobal at h
  split at h
  · cases h
  · rename_i v hv
    cases hs : setValue q v x true with
    | error e => simp [hs, bind, Except.bind] at h
    | ok sv => simp [hs, bind, Except.bind, pure, Except.pure] at h; subst h; exact ⟨rfl, rfl⟩

theorem persistGlobal_sessions {q : Quirks} {r : Reg} {st st' : State} {n : String} {x : Val}
    (h : persistGlobal q r st n x = .ok st') : st'.sessions = st.sessions ∧ st'.global = st.global := by
  unfold persistGlobal at h
  repeat' (split at h)
  all_goals first | cases h; done | skip
  cases h; exact ⟨rfl, rfl⟩

theorem setSessionVar_others {q : Quirks} {r : Reg} {st st' : State} {sid : Nat} {n : String} {x : Val}
    (h : setSessionVar q r st sid n x = .ok st') :
    SameOthers sid st st' ∧ st'.global = st.global ∧ st'.persisted = st.persisted := by
  unfold setSessionVar at h
  split at h
  · rename_i s v hs hv
    split at h
    · cases h
    · cases hsv : setValue q v x false with
      | error e => simp [hsv, bind, Except.bind] at h
      | ok sv =>
        simp [hsv, bind, Except.bind, pure, Except.pure] at h
        subst h
        exact ⟨sameOthers_putSess, rfl, rfl⟩
  · cases h

theorem lift_sameOthers {sid : Nat} {st0 st : State} {e : Except Err State} (h0 : SameOthers sid st0 st)
    (h : ∀ st', e = .ok st' → SameOthers sid st0 st') : SameOthers sid st0 (lift st e).1 := by
  cases e with
  | ok st' => exact h st' rfl
  | error _ => exact h0

theorem scopeSetValue_others {q : Quirks} {r : Reg} {st : State} {sid : Nat} {sc : SetScope} {n : String} {x : Val} :
    SameOthers sid st (scopeSetValue q r st sid sc n x).1 := by
  unfold scopeSetValue
  cases sc with
  | global => exact lift_sameOthers (.refl _ _) fun _ h => sameOthers_of_sessions_eq (setGlobal_sessions h).1
  | session => exact lift_sameOthers (.refl _ _) fun _ h => (setSessionVar_others h).1
  | persist =>
    simp only
    split
    · cases hp : persistGlobal q r st n x with
      | error e => exact .refl _ _
      | ok st1 =>
        have h1 : SameOthers sid st st1 := sameOthers_of_sessions_eq (persistGlobal_sessions hp).1
        exact lift_sameOthers h1 fun _ h => h1.trans (sameOthers_of_sessions_eq (setGlobal_sessions h).1)
    · cases hg : setGlobal q r st n x with
      | error e => exact .refl _ _
      | ok st1 =>
        have h1 : SameOthers sid st st1 := sameOthers_of_sessions_eq (setGlobal_sessions hg).1
        exact lift_sameOthers (.refl _ _) fun _ h => h1.trans (sameOthers_of_sessions_eq (persistGlobal_sessions h).1)
  | persistOnly =>
    simp only
    split
    · exact lift_sameOthers (.refl _ _) fun _ h => sameOthers_of_sessions_eq (persistGlobal_sessions h).1
    · split
      · exact .refl _ _
      · split
        · exact .refl _ _
        · exact lift_sameOthers (.refl _ _) fun _ h => sameOthers_of_sessions_eq (persistGlobal_sessions h).1

theorem execAsg_others {q : Quirks} {r : Reg} {st : State} {sid : Nat} {a : Target × PRhs} :
    SameOthers sid st (execAsg q r st sid a).1 := by
  unfold execAsg
  split
  · exact .refl _ _
  · split
    · split
      · exact sameOthers_putSess
      · exact .refl _ _
    · exact scopeSetValue_others

theorem execAsgs_others {q : Quirks} {r : Reg} {sid : Nat} (as : List (Target × PRhs)) {st : State} :
    SameOthers sid st (execAsgs q r sid st as).1 := by
  induction as generalizing st with
  | nil => exact .refl _ _
  | cons a rest ih =>
    simp only [execAsgs]
    have h1 : SameOthers sid st (execAsg q r st sid a).1 := execAsg_others
    split
    · rename_i st' he; rw [he] at h1; exact h1.trans ih
    · rename_i st' e he; rw [he] at h1; exact h1

theorem execSet_others {q : Quirks} {r : Reg} {st : State} {sid : Nat} {asgs : List (Target × Rhs)} :
    SameOthers sid st (execSet q r st sid asgs).1 := by
  unfold execSet
  split
  · exact .refl _ _
  · rename_i ps _
    have h1 : SameOthers sid st (execAsgs q r sid st ps).1 := execAsgs_others ps
    split
    · rename_i st' he; rw [he] at h1; exact h1
    · rename_i st' e he
      rw [he] at h1
      split
      · exact h1
      · split
        · exact sameOthers_of_sessions_eq rfl
        · exact .refl _ _

/-! ### a SET that only names SESSION targets and user variables leaves the globals alone -/

def sessionOnlyTarget : Target → Bool
  | .user _ => true
  | .sys t => t.scope = .session

theorem scopeSetValue_session_globals {q : Quirks} {r : Reg} {st : State} {sid : Nat} {n : String} {x : Val} :
    (scopeSetValue q r st sid .session n x).1.global = st.global ∧
    (scopeSetValue q r st sid .session n x).1.persisted = st.persisted := by
  unfold scopeSetValue
  simp only
  cases h : setSessionVar q r st sid n x with
  | error e => exact ⟨rfl, rfl⟩
  | ok st' => exact (setSessionVar_others h).2

theorem execAsg_session_globals {q : Quirks} {r : Reg} {st : State} {sid : Nat} {a : Target × PRhs}
    (ha : sessionOnlyTarget a.1 = true) :
    (execAsg q r st sid a).1.global = st.global ∧ (execAsg q r st sid a).1.persisted = st.persisted := by
  unfold execAsg
  split
  · exact ⟨rfl, rfl⟩
  · split
    · split <;> exact ⟨rfl, rfl⟩
    · rename_i t ht
      rw [ht] at ha
      simp [sessionOnlyTarget] at ha
      rw [ha]
      exact scopeSetValue_session_globals

theorem execAsgs_session_globals {q : Quirks} {r : Reg} {sid : Nat} (as : List (Target × PRhs)) {st : State}
    (ha : ∀ a ∈ as, sessionOnlyTarget a.1 = true) :
    (execAsgs q r sid st as).1.global = st.global ∧ (execAsgs q r sid st as).1.persisted = st.persisted := by
  induction as generalizing st with
  | nil => exact ⟨rfl, rfl⟩
  | cons a rest ih =>
    simp only [execAsgs]
    have h1 := execAsg_session_globals (q := q) (r := r) (st := st) (sid := sid) (ha a (by simp))
    split
    · rename_i st' he
      rw [he] at h1
      have h2 := ih (st := st') (fun b hb => ha b (List.mem_cons_of_mem _ hb))
      exact ⟨h2.1.trans h1.1, h2.2.trans h1.2⟩
    · rename_i st' e he; rw [he] at h1; exact h1

theorem planAsg_target {q : Quirks} {r : Reg} {a : Target × Rhs} {p : Target × PRhs} (h : planAsg q r a = .ok p) :
    sessionOnlyTarget p.1 = sessionOnlyTarget a.1 := by
  obtain ⟨t, rhs⟩ := a
  cases t with
  | user n =>
    cases rhs with
    | lit v => simp [planAsg] at h; cases h; rfl
    | dflt => simp [planAsg] at h
    | user m => simp [planAsg] at h; cases h; rfl
    | sys ref =>
      simp only [planAsg] at h
      cases hr : resolveRef r ref with
      | error e => simp [hr, bind, Except.bind] at h
      | ok u =>
        simp only [hr, bind, Except.bind] at h
        split at h <;> first | (cases h; rfl) | cases h
  | sys t0 =>
    simp only [planAsg] at h
    cases hr : resolveRef r { t0 with explicit := false } with
    | error e => simp [hr, bind, Except.bind] at h
    | ok u =>
      simp only [hr, bind, Except.bind] at h
      repeat' (split at h)
      all_goals first
        | (cases h; rfl)
        | cases h; done
        | skip
      all_goals (
        rename_i hr2
        cases hr3 : resolveRef r _ with
        | error e => simp [hr3] at h
        | ok u2 => simp [hr3] at h; repeat' (split at h)
                   all_goals first | (cases h; rfl) | cases h)

end Gms.SysVars

namespace Gms.SysVars

theorem planSet_targets {q : Quirks} {r : Reg} (as : List (Target × Rhs)) {ps : List (Target × PRhs)}
    (h : planSet q r as = .ok ps) (ha : ∀ a ∈ as, sessionOnlyTarget a.1 = true) :
    ∀ p ∈ ps, sessionOnlyTarget p.1 = true := by
  induction as generalizing ps with
  | nil => simp [planSet] at h; cases h; simp
  | cons a rest ih =>
    simp only [planSet] at h
    cases h1 : planAsg q r a with
    | error e => simp [h1, bind, Except.bind] at h
    | ok p =>
      cases h2 : planSet q r rest with
      | error e => simp [h1, h2, bind, Except.bind] at h
      | ok ps' =>
        simp [h1, h2, bind, Except.bind, pure, Except.pure] at h
        subst h
        intro p' hp'
        simp at hp'
        rcases hp' with hp' | hp'
        · subst hp'; rw [planAsg_target h1]; exact ha a (by simp)
        · exact ih h2 (fun b hb => ha b (List.mem_cons_of_mem _ hb)) p' hp'

/-- Registry entry well-formedness (checked on the regenerated registry by `decide`). Kernel
evaluation of `String` operations is very slow, so everything here is numeric; the string-valued
parts (names lower case and unique, enum / set members distinct, string defaults accepted) are
computed by the extractor on the compiled code and arrive as the facts `keyMismatch`, `dupKeys`,
`dupMembers`, `defaultRejected`. -/
def boundsOrdered : Ty → Bool
  | .int lo hi _ => decide (lo ≤ hi) && decide (-(two63 : Int) ≤ lo) && decide (hi < two63)
  | .uint lo hi => decide (lo ≤ hi) && decide (hi < two64)
  | .double lo hi => decide (lo ≤ hi)
  | .enum vals => !vals.isEmpty
  | .set vals => !vals.isEmpty && decide (vals.length ≤ 64)
  | _ => true

/-- `SET x = DEFAULT` is accepted by the variable's own type (numeric kinds; under the property's
conversion). -/
def defaultOk (v : Var) : Bool :=
  match v.ty, v.default with
  | .int lo hi neg, d => (convert specQ (.int lo hi neg) (toVal (.int lo hi neg) d)).isSome
  | .uint lo hi, d => (convert specQ (.uint lo hi) (toVal (.uint lo hi) d)).isSome
  | .double lo hi, d => (convert specQ (.double lo hi) (toVal (.double lo hi) d)).isSome
  | .bool, .i8 _ => true
  | .bool, _ => false
  | .enum _, .str _ | .set _, .str _ | .string, .str _ => true
  | .other, _ => true
  | _, _ => false

def wellformed (v : Var) : Bool := boundsOrdered v.ty && defaultOk v

end Gms.SysVars

/-! ## Property theorems -/

namespace Gms.C44

open Gms.Generated.C44

/-- The code paths the model transliterates still have the shape it assumes: which names the
executor and the planbuilder treat by name, the order of the checks in
`MysqlSystemVariable.SetValue`, the order of the calls for `SET PERSIST`; and the registry dump
found no duplicate / mismatching key and no entry it could not describe. -/
theorem facts_match :
    coupledVars = ["character_set_connection", "collation_connection", "character_set_server", "collation_server"] ∧
    validatedVars = ["time_zone"] ∧
    planSpecialVars = ["character_set_database", "collation_database"] ∧
    planIntSpecialVars = ["sql_mode", "collation_database", "collation_connection", "collation_server", "lc_time_names"] ∧
    setValueChecks = [("global && m.Scope.Type == SystemVariableScope_Session", "ErrSystemVariableSessionOnly"),
      ("!global && m.Scope.Type == SystemVariableScope_Global", "ErrSystemVariableGlobalOnly"),
      ("!m.Dynamic || m.ValueFunction != nil", "ErrSystemVariableReadOnly"),
      ("otherwise", "m.InitValue(ctx, val, global)")] ∧
    persistCalls = ["PersistGlobal", "SetGlobal"] ∧ persistOnlyCalls = ["PersistGlobal"] ∧
    keyMismatch = [] ∧ dupKeys = [] ∧ dupMembers = [] ∧ defaultRejected = ["ft_max_word_len"] ∧
    -- the only oddity of the dump: the type of `uptime` was built with another variable's name
    -- (its error messages would name `updatable_views_with_limit`); `uptime` is read-only
    badEntries = ["uptime: type carries the name \"updatable_views_with_limit\""] := by decide

/- Every registered variable: bounds ordered and inside the 64-bit range, enum / set types not
empty (a set has at most 64 members), the default has the Go type of the variable's kind and a
numeric default is accepted by the variable's own `Convert`.
   The full statement is false on the unchanged tree:
     theorem registry_wellformed : ∀ v ∈ sysvars, wellformed v = true
   `ft_max_word_len` is registered with bounds [10, 2^63-1] and default 0 (read-only, so the value
   can never become valid): region `registry_default_out_of_range`. -/
def defaultOutOfRange : List String := ["ft_max_word_len"]

theorem registry_wellformed_partial : ∀ v ∈ sysvars, wellformed v = true ∨ v.name ∈ defaultOutOfRange := by
  decide +kernel

theorem finding_registry_default_out_of_range : (sysvars.filter fun v => !defaultOk v).length = 1 := by
  decide +kernel

example : sysvars.length > 300 ∧ (sysvars.filter (!·.special)).length > 250 := by decide +kernel

/-- **Validation + conversion.** Whatever `Convert` accepts has the variable's type (all types, all
Go values, for the code and for the property). -/
theorem set_converts_to_type (q : Quirks) (ty : Ty) (x : Val) (sv : SVal) (h : convert q ty x = some sv) :
    valid ty sv = true := convert_valid q ty x sv h

example : convert implQ (.int 1 100000 false) (.str "151") = some (.int 151) := by decide
example : convert implQ (.int 1 100000 false) (.int 0) = none := by decide

/-- **Stored values always have the variable's type**, for every registry, every history of
statements in any number of sessions, for the code's semantics and for the property's: each value in
the global map, in every session map and in the persisted map is a value of the variable's type or
its registered default. -/
theorem stored_values_typed (q : Quirks) (r : Reg) (h : List Stmt) : WF r (run q r (init r) h).1 := by
  have hinit : WF r (init r) := by
    refine ⟨?_, ?_, ?_⟩
    · intro n sv hg
      obtain ⟨v, hv, hd⟩ := find_init r n sv hg
      exact ⟨v, hv, Or.inr hd⟩
    · intro p hp; simp [init] at hp
    · intro n sv hg; simp [init, Map.get] at hg
  have key : ∀ (h : List Stmt) (st : State), WF r st → WF r (run q r st h).1 := by
    intro h
    induction h with
    | nil => intro st hw; exact hw
    | cons s rest ih =>
      intro st hw
      simp only [run]
      exact ih _ (step_wf s hw)
  exact key h _ hinit

/-- **Session isolation.** No SET statement executed in session `sid` — whatever its targets,
scopes and outcome — changes anything in another session: its system-variable values and its user
variables are the same before and after (so a GLOBAL change is *not* seen by existing sessions, and
user variables are private). -/
theorem set_leaves_other_sessions (q : Quirks) (r : Reg) (st : State) (sid sid' : Nat)
    (asgs : List (Target × Rhs)) (h : sid' ≠ sid) :
    (step q r st (.set sid asgs)).1.sess sid' = st.sess sid' := by
  have := execSet_others (q := q) (r := r) (st := st) (sid := sid) (asgs := asgs) sid' h
  simp only [step]
  split <;> (rename_i he; rw [he] at this; exact this)

/-- **A session-scope change is visible only to that session**: a SET whose targets are all
`SESSION` system variables or user variables leaves the global values and the persisted map
unchanged (together with `set_leaves_other_sessions`: nothing outside the session changes). -/
theorem session_set_leaves_globals (q : Quirks) (r : Reg) (st : State) (sid : Nat) (asgs : List (Target × Rhs))
    (h : ∀ a ∈ asgs, sessionOnlyTarget a.1 = true) :
    (step q r st (.set sid asgs)).1.global = st.global ∧ (step q r st (.set sid asgs)).1.persisted = st.persisted := by
  have key : (execSet q r st sid asgs).1.global = st.global ∧ (execSet q r st sid asgs).1.persisted = st.persisted := by
    unfold execSet
    split
    · exact ⟨rfl, rfl⟩
    · rename_i ps hp
      have h1 := execAsgs_session_globals (q := q) (r := r) (sid := sid) ps (st := st) (planSet_targets asgs hp h)
      split
      · rename_i st' he; rw [he] at h1; exact h1
      · rename_i st' e he
        rw [he] at h1
        split
        · exact h1
        · split
          · exact ⟨rfl, h1.2⟩
          · exact ⟨rfl, rfl⟩
  simp only [step]
  split <;> (rename_i he; rw [he] at key; exact key)

/-- **A global change is seen by new sessions**: a session created now reads, for every variable,
exactly the current global value. -/
theorem new_session_sees_globals (r : Reg) (st : State) (sid : Nat) (name : String) :
    readSys r (newSession st sid) sid false name = readSys r (newSession st sid) sid true name := by
  have hs : (newSession st sid).sess sid = some { sys := st.global, user := [] } := by
    unfold newSession State.sess
    simp only
    rw [find_putSess]; simp
  unfold readSys
  rw [hs]
  cases r.find name with
  | none => rfl
  | some v => simp [newSession, Option.bind]

/-- **Rejected without effect** (the property's semantics): a SET statement that reports an error
leaves the whole state — globals, every session, persisted values — unchanged. -/
theorem spec_failed_set_no_effect (r : Reg) (st : State) (sid : Nat) (asgs : List (Target × Rhs)) (e : Err)
    (h : (execSet specQ r st sid asgs).2 = some e) : (execSet specQ r st sid asgs).1 = st := by
  unfold execSet at h ⊢
  cases hp : planSet specQ r asgs with
  | error e1 => simp
  | ok ps =>
    simp only [hp] at h ⊢
    cases he : execAsgs specQ r sid st ps with
    | mk st' oe =>
      cases oe with
      | none => simp [he] at h
      | some e' => simp [specQ]

/- The same statement about the code is false:
   theorem impl_failed_set_no_effect : (execSet implQ r st sid asgs).2 = some e → (execSet implQ r st sid asgs).1 = st
   Witnesses: `finding_multi_assign_partial_effect`, `finding_persist_before_checks`. It holds for
   a single assignment that is not `SET PERSIST`: -/

def isPersistTarget : Target → Bool
  | .sys t => t.scope = .persist
  | _ => false

theorem lift_err_state {st st' : State} {e : Except Err State} {er : Err} (h : lift st e = (st', some er)) : st' = st := by
  cases e with
  | ok s => simp [lift] at h
  | error x => simp [lift] at h; exact h.1.symm

theorem scopeSetValue_err_no_effect (q : Quirks) (r : Reg) (st st' : State) (sid : Nat) (sc : SetScope) (n : String)
    (x : Val) (e : Err) (hsc : sc ≠ .persist) (h : scopeSetValue q r st sid sc n x = (st', some e)) : st' = st := by
  unfold scopeSetValue at h
  cases sc with
  | persist => exact absurd rfl hsc
  | global => exact lift_err_state h
  | session => exact lift_err_state h
  | persistOnly =>
    simp only at h
    split at h
    · exact lift_err_state h
    · split at h
      · cases h; rfl
      · split at h
        · cases h; rfl
        · exact lift_err_state h

theorem impl_failed_set_no_effect_partial (q : Quirks) (r : Reg) (st : State) (sid : Nat) (a : Target × Rhs) (e : Err)
    (hp : isPersistTarget a.1 = false)
    (h : (execSet q r st sid [a]).2 = some e) : (execSet q r st sid [a]).1 = st := by
  unfold execSet at h ⊢
  cases h1 : planAsg q r a with
  | error e1 =>
    have : planSet q r [a] = .error e1 := by simp [planSet, h1, bind, Except.bind]
    simp [this]
  | ok p =>
      have hplan : planSet q r [a] = .ok [p] := by simp [planSet, h1, bind, Except.bind, pure, Except.pure]
      rw [hplan] at h ⊢
      have hpt : isPersistTarget p.1 = false := by
        obtain ⟨t, rhs⟩ := a
        cases t with
        | user n =>
          cases rhs with
          | lit v => simp [planAsg] at h1; cases h1; rfl
          | dflt => simp [planAsg] at h1
          | user m => simp [planAsg] at h1; cases h1; rfl
          | sys ref =>
            simp only [planAsg] at h1
            cases hr : resolveRef r ref with
            | error e => simp [hr, bind, Except.bind] at h1
            | ok u =>
              simp only [hr, bind, Except.bind] at h1
              split at h1 <;> first | (cases h1; rfl) | cases h1
        | sys t0 =>
          simp only [planAsg] at h1
          cases hr : resolveRef r { t0 with explicit := false } with
          | error e => simp [hr, bind, Except.bind] at h1
          | ok u =>
            simp only [hr, bind, Except.bind] at h1
            simp [isPersistTarget] at hp
            repeat' (split at h1)
            all_goals first
              | (cases h1; simpa [isPersistTarget] using hp)
              | cases h1; done
              | skip
            all_goals (
              cases hr3 : resolveRef r _ with
              | error e => simp [hr3] at h1
              | ok u2 => simp [hr3] at h1; repeat' (split at h1)
                         all_goals first | (cases h1; simpa [isPersistTarget] using hp) | cases h1)
      simp only [execAsgs]
      have hone : ∀ st' er, execAsg q r st sid p = (st', some er) → st' = st := by
        intro st' er he
        unfold execAsg at he
        split at he
        · cases he; rfl
        · split at he
          · split at he
            · cases he
            · cases he; rfl
          · rename_i t ht
            refine scopeSetValue_err_no_effect q r st st' sid t.scope t.name _ er ?_ he
            rw [ht] at hpt
            simpa [isPersistTarget] using hpt
      cases he1 : execAsg q r st sid p with
      | mk st1 oe =>
        cases oe with
        | none => simp [execAsgs, he1] at h
        | some e1 =>
          have := hone st1 e1 he1
          subst this
          simp only [execAsgs, he1]
          split <;> first | rfl | (split <;> rfl)


/-- **SELECT @@x returns exactly the value assigned** (session scope): after a successful
`SetSessionVariable` the session reads back the converted value, with the variable's type. -/
theorem set_session_then_read (q : Quirks) (r : Reg) (st st' : State) (sid : Nat) (n : String) (x : Val)
    (h : setSessionVar q r st sid n x = .ok st') :
    ∃ v sv, r.find n = some v ∧ convert q v.ty x = some sv ∧ valid v.ty sv = true ∧
      readSys r st' sid false n = .ok (v.ty, sv) := by
  unfold setSessionVar at h
  split at h
  · rename_i s v hs hv
    split at h
    · cases h
    · cases hsv : setValue q v x false with
      | error e => simp [hsv, bind, Except.bind] at h
      | ok sv =>
        simp [hsv, bind, Except.bind, pure, Except.pure] at h
        subst h
        have hc : convert q v.ty x = some sv := by
          unfold setValue at hsv
          repeat' (split at hsv)
          all_goals first | cases hsv; done | skip
          cases hsv; assumption
        refine ⟨v, sv, hv, hc, convert_valid _ _ _ _ hc, ?_⟩
        unfold readSys State.sess
        simp only [hv]
        rw [find_putSess]
        simp [Option.bind, Map.get_put]
  · cases h

/-- The same for the global scope: after a successful `SetGlobal`, `@@global.x` is the converted value. -/
theorem set_global_then_read (q : Quirks) (r : Reg) (st st' : State) (sid : Nat) (n : String) (x : Val)
    (h : setGlobal q r st n x = .ok st') :
    ∃ v sv, r.find n = some v ∧ convert q v.ty x = some sv ∧ valid v.ty sv = true ∧
      readSys r st' sid true n = .ok (v.ty, sv) := by
  unfold setGlobal at h
  split at h
  · cases h
  · rename_i v hv
    cases hs : setValue q v x true with
    | error e => simp [hs, bind, Except.bind] at h
    | ok sv =>
      simp [hs, bind, Except.bind, pure, Except.pure] at h
      subst h
      have hc : convert q v.ty x = some sv := by
        unfold setValue at hs
        repeat' (split at hs)
        all_goals first | cases hs; done | skip
        cases hs; assumption
      refine ⟨v, sv, hv, hc, convert_valid _ _ _ _ hc, ?_⟩
      unfold readSys
      simp [hv, Map.get_put]

example : ∃ st', setGlobal implQ [⟨"a", .both, true, false, .int 0 100 false, .int 5⟩] (init []) "a" (.str "42") = .ok st' :=
  ⟨_, rfl⟩

/-- **Scope errors** (`MysqlSystemVariable.SetValue`): a SESSION-only variable cannot be set
globally, a GLOBAL-only one not per session, a non-dynamic one not at all — before any conversion. -/
theorem scope_errors (q : Quirks) (v : Var) (x : Val) :
    (v.scope = .session → setValue q v x true = .error .sessionOnly) ∧
    (v.scope = .global → setValue q v x false = .error .globalOnly) ∧
    (v.dynamic = false → v.scope = .both → ∀ g, setValue q v x g = .error .readOnly) := by
  refine ⟨?_, ?_, ?_⟩
  · intro h; simp [setValue, h]
  · intro h; simp [setValue, h]
  · intro hd hs g; cases g <;> simp [setValue, hs, isReadOnly, hd]

/-- **@uservar returns exactly the value assigned, with its type**, and only in that session
(`set_leaves_other_sessions`): names are case-insensitive. -/
theorem uservar_roundtrip (q : Quirks) (r : Reg) (st : State) (sid : Nat) (s : Session) (n n' : String) (x : Val)
    (hs : st.sess sid = some s) (hn : lower n' = lower n) :
    readItem q r (execAsg q r st sid (.user n, .val x)).1 sid (.user n') = .ok (showVal x, showUTy (litType x)) := by
  simp only [execAsg, evalRhs, hs]
  unfold readItem State.sess
  simp only
  rw [find_putSess]
  simp [Option.bind, Map.get_put, hn]

/-! ### where the code differs from the property -/

/-- Value classes in which `Convert` of the code reinterprets or rounds instead of rejecting. -/
def convRegion : Ty → Val → Bool
  | .int _ _ _, .uint n => decide (n ≥ two63)          -- int64(uint64) reinterpretation
  | .uint _ _, .int i => decide (i < 0)                -- uint64(int64) reinterpretation
  | .uint _ _, .dec _ _ => true                        -- DecimalIntPartUint64: rounded, sign dropped
  | .set _, .int i => decide (i < 0)
  | .set _, .dec m s | .set _, .flt m s => (integral m s).any (decide <| · < 0)
  | _, _ => false

/- The full statement `∀ ty x, convert implQ ty x = convert specQ ty x` is false
   (`finding_int_uint_reinterpreted`, `finding_uint_decimal_rounded`). -/
theorem wrapI_of_lt {n : Nat} (h : n < two63) : wrapI n = n := by simp [wrapI, h]
theorem wrapU_of_nonneg {i : Int} (h : 0 ≤ i) : wrapU i = i.toNat := by
  have : ¬ i < 0 := by omega
  simp [wrapU, this]

theorem convert_agrees_partial (ty : Ty) (x : Val) (h : convRegion ty x = false) :
    convert implQ ty x = convert specQ ty x := by
  cases ty <;> cases x <;> simp [convRegion] at h <;>
    simp [convert, implQ, specQ, convInt]
  · rename_i n; simp [wrapI_of_lt h, h]
  · rename_i i; simp [wrapU_of_nonneg h, h]
  · rename_i i; simp [wrapU_of_nonneg h, h]
  · split
    · rename_i i hi
      have : 0 ≤ i := by
        rw [hi] at h; simpa using h
      simp [wrapU_of_nonneg this, this]
    · rfl
  · split
    · rename_i i hi
      have : 0 ≤ i := by
        rw [hi] at h; simpa using h
      simp [wrapU_of_nonneg this, this]
    · rfl

example : convRegion (.int 0 10 false) (.int 5) = false ∧ convRegion (.uint 0 10) (.int (-1)) = true := by decide

theorem finding_int_uint_reinterpreted :
    ∃ ty x, convert implQ ty x ≠ convert specQ ty x ∧ convert specQ ty x = none :=
  ⟨.int (-9223372036854775808) 9223372036854775807 false, .uint 18446744073709551615, by decide, by decide⟩

theorem finding_uint_decimal_rounded :
    convert implQ (.uint 1 18446744073709551615) (.dec 15 1) = some (.uint 2) ∧
    convert implQ (.uint 1 18446744073709551615) (.dec (-30) 1) = some (.uint 3) ∧
    convert specQ (.uint 1 18446744073709551615) (.dec 15 1) = none ∧
    convert specQ (.uint 1 18446744073709551615) (.dec (-30) 1) = none := by decide

/-- A small registry for the statement-level witnesses. -/
def r0 : Reg := [
  ⟨"lim", .both, true, false, .int 0 2147483647 true, .int 2147483647⟩,
  ⟨"errs", .both, true, false, .int 0 65535 false, .int 1024⟩,
  ⟨"conns", .global, true, false, .int 1 100000 false, .int 151⟩,
  ⟨"port", .global, false, false, .int 0 65535 false, .int 33062⟩]

def sref (n : String) : Target := .sys ⟨.session, false, n⟩
def gref (n : String) : Target := .sys ⟨.global, true, n⟩

/-- `SET lim = 10, errs = -5` fails on the second assignment and keeps the first. -/
theorem finding_multi_assign_partial_effect :
    let h := [Stmt.newSession 1, .set 1 [(sref "lim", .lit (.int 10)), (sref "errs", .lit (.int (-5)))], .get 1 [sref "lim"]]
    (run implQ r0 (init r0) h).2 = [.ok, .err .invalid, .row [("10", "sys")]] ∧
    (run specQ r0 (init r0) h).2 = [.ok, .err .invalid, .row [("2147483647", "sys")]] := by decide

/-- `SET PERSIST port = 100` is rejected (read-only) but the persisted map has the value. -/
theorem finding_persist_before_checks :
    let h := [Stmt.newSession 1, .set 1 [(.sys ⟨.persist, false, "port"⟩, .lit (.int 100))], .getPersisted "port"]
    (run implQ r0 (init r0) h).2 = [.ok, .err .readOnly, .row [("100", "persisted")]] ∧
    (run specQ r0 (init r0) h).2 = [.ok, .err .readOnly, .row [("none", "persisted")]] := by decide

/-- After `SET GLOBAL conns = 500`, `@@conns` in the same session still shows the start-up copy. -/
theorem finding_global_only_stale_read :
    let h := [Stmt.newSession 1, .set 1 [(.sys ⟨.global, false, "conns"⟩, .lit (.int 500))], .get 1 [sref "conns", gref "conns"]]
    (run implQ r0 (init r0) h).2 = [.ok, .ok, .row [("151", "sys"), ("500", "sys")]] ∧
    (run specQ r0 (init r0) h).2 = [.ok, .ok, .row [("500", "sys"), ("500", "sys")]] := by decide

/- Full statement (false on the unchanged tree, see the witness above):
     theorem unqualified_read_is_current : readScoped implQ r st sid false n = readScoped specQ r st sid false n -/
theorem unqualified_read_is_current_partial (r : Reg) (st : State) (sid : Nat) (n : String)
    (h : ∀ v, r.find n = some v → isGlobalOnly v = false) (g : Bool) :
    readScoped implQ r st sid g n = readScoped specQ r st sid g n := by
  unfold readScoped
  cases hv : r.find n with
  | none => rfl
  | some v => simp [h v hv]

example : ∀ v, r0.find "lim" = some v → isGlobalOnly v = false := by decide

end Gms.C44
