/-
C44 — System and user variables store and scope values correctly.

Model: Gms/Model/SysVars.lean (Impl = `implQ`, Spec = `specQ`). Facts: Gms/Generated/C44.lean
(the registry as compiled + go/ast facts), regenerated on every run.

Helper lemmas first, the property theorems in `namespace Gms.C44` at the end.
-/
import Gms.Model.SysVars
import Gms.Generated.C44

open Gms.SysVars

namespace Gms.SysVars

/-! ### maps -/

theorem Map.get_put {β : Type} (m : Map β) (k k' : String) (v : β) :
    (Map.put m k v).get k' = if k' = k then some v else m.get k' := by
  induction m with
  | nil =>
    by_cases h : k' = k
    · simp [Map.put, Map.get, h]
    · have : ¬ k = k' := fun e => h e.symm
      simp [Map.put, Map.get, h, this]
  | cons a rest ih =>
    obtain ⟨k0, v0⟩ := a
    by_cases h0 : k0 = k
    · by_cases h : k' = k
      · simp [Map.put, Map.get, h0, h]
      · have : ¬ k = k' := fun e => h e.symm
        simp [Map.put, Map.get, h0, h, this]
    · by_cases h1 : k0 = k'
      · have : ¬ k' = k := fun e => h0 (h1.trans e)
        simp [Map.put, Map.get, h0, h1, this]
      · simp only [Map.put, h0, if_false, Map.get, List.find?, decide_eq_true_eq, h1]
        simpa [Map.get] using ih

theorem mem_putSess {l : List (Nat × Session)} {sid : Nat} {s : Session} {p : Nat × Session}
    (h : p ∈ putSess l sid s) : p = (sid, s) ∨ p ∈ l := by
  induction l with
  | nil => simp [putSess] at h; exact Or.inl h
  | cons a rest ih =>
    obtain ⟨k, s'⟩ := a
    by_cases hk : k = sid
    · simp [putSess, hk] at h
      rcases h with h | h
      · exact Or.inl h
      · exact Or.inr (List.mem_cons_of_mem _ h)
    · simp [putSess, hk] at h
      rcases h with h | h
      · exact Or.inr (by simp [h])
      · rcases ih h with h | h
        · exact Or.inl h
        · exact Or.inr (List.mem_cons_of_mem _ h)

theorem find_putSess (l : List (Nat × Session)) (sid sid' : Nat) (s : Session) :
    ((putSess l sid s).find? (·.1 = sid')).map (·.2) =
      if sid' = sid then some s else (l.find? (·.1 = sid')).map (·.2) := by
  induction l with
  | nil =>
    by_cases h : sid' = sid
    · simp [putSess, h]
    · have : ¬ sid = sid' := fun e => h e.symm
      simp [putSess, h, this]
  | cons a rest ih =>
    obtain ⟨k, s'⟩ := a
    by_cases hk : k = sid
    · by_cases h : sid' = sid
      · simp [putSess, hk, h]
      · have : ¬ sid = sid' := fun e => h e.symm
        simp [putSess, hk, h, this]
    · by_cases h1 : k = sid'
      · have : ¬ sid' = sid := fun e => hk (h1.trans e)
        simp [putSess, hk, h1, this]
      · simp only [putSess, hk, if_false, List.find?, decide_eq_true_eq, h1]
        simpa using ih

theorem sess_mem {st : State} {sid : Nat} {s : Session} (h : st.sess sid = some s) : (sid, s) ∈ st.sessions := by
  unfold State.sess at h
  cases hf : st.sessions.find? (·.1 = sid) with
  | none => simp [hf] at h
  | some p =>
    simp [hf] at h
    have hm := List.mem_of_find?_eq_some hf
    have hp := List.find?_some hf
    simp at hp
    obtain ⟨a, b⟩ := p
    simp at h hp
    subst h; subst hp; exact hm

/-! ### `Convert` lands in the type -/

theorem getElem?_mem_contains {vals : List String} {i : Nat} {s : String} (h : vals[i]? = some s) :
    vals.contains s = true := by
  have := List.mem_of_getElem? h
  simpa using this

theorem convEnum_valid {vals : List String} {i : Int} {sv : SVal} (h : convEnum vals i = some sv) :
    valid (.enum vals) sv = true := by
  unfold convEnum at h
  split at h
  · cases hg : vals[i.toNat]? with
    | none => simp [hg] at h
    | some s => simp [hg] at h; subst h; exact getElem?_mem_contains hg
  · cases h

theorem convSetBits_valid {vals : List String} {n : Nat} {sv : SVal} (h : convSetBits vals n = some sv) :
    valid (.set vals) sv = true := by
  unfold convSetBits at h
  split at h
  · cases h; simpa [valid]
  · cases h

theorem convInt_valid {q : Quirks} {lo hi : Int} {neg : Bool} {i : Int} {sv : SVal}
    (h : convInt q lo hi neg i = some sv) : valid (.int lo hi neg) sv = true := by
  unfold convInt at h
  split at h
  · cases h
    rename_i hc
    rcases hc with hc | hc
    · simp [valid, hc.1, hc.2]
    · simp [valid, hc.1, hc.2]
  · cases h

theorem convUint_valid {lo hi n : Nat} {sv : SVal} (h : convUint lo hi n = some sv) :
    valid (.uint lo hi) sv = true := by
  unfold convUint at h
  split at h
  · cases h; rename_i hc; simp [valid, hc.1, hc.2]
  · cases h

theorem pow_le_allBits_or {vals : List String} {a b : Nat} (ha : a ≤ allBits vals) (hb : b ≤ allBits vals) :
    a ||| b ≤ allBits vals := by
  unfold allBits at *
  have hp : 0 < 2 ^ vals.length := Nat.two_pow_pos _
  have ha' : a < 2 ^ vals.length := by omega
  have hb' : b < 2 ^ vals.length := by omega
  have := Nat.or_lt_two_pow ha' hb'
  omega

theorem isPow2Below_le {n len : Nat} (h : isPow2Below n len = true) : n < 2 ^ len := by
  unfold isPow2Below at h
  simp at h
  obtain ⟨i, hi, rfl⟩ := h
  exact Nat.pow_lt_pow_right (by decide) hi

theorem findIdxLast_lt_aux (l : List (String × Nat)) (bound : Nat) (s : String) (acc : Option Nat)
    (hacc : ∀ i, acc = some i → i < bound) (hl : ∀ p ∈ l, p.2 < bound) :
    ∀ i, l.foldl (fun acc (p : String × Nat) => if lower p.1 = lower s then some p.2 else acc) acc = some i → i < bound := by
  induction l generalizing acc with
  | nil => simpa using hacc
  | cons a rest ih =>
    intro i
    simp only [List.foldl]
    apply ih
    · intro j hj
      split at hj
      · cases hj; exact hl a (by simp)
      · exact hacc j hj
    · intro p hp; exact hl p (List.mem_cons_of_mem _ hp)

theorem findIdxLast_lt {vals : List String} {s : String} {i : Nat} (h : findIdxLast vals s = some i) :
    i < vals.length := by
  unfold findIdxLast at h
  refine findIdxLast_lt_aux vals.zipIdx vals.length s none (by simp) ?_ i h
  intro p hp
  obtain ⟨v, k⟩ := p
  have := List.mem_zipIdx hp
  simp at this
  omega

theorem setElem_le {vals : List String} {b : Nat} {el : List Char} {a : Nat} (hb : b ≤ allBits vals)
    (h : setElem vals b el = some a) : a ≤ allBits vals := by
  unfold setElem at h
  split at h
  · cases h; exact hb
  · split at h
    · cases h
      rename_i i hi
      have hlt := findIdxLast_lt hi
      have : 2 ^ i ≤ allBits vals := by
        unfold allBits
        have := Nat.pow_lt_pow_right (a := 2) (by decide) hlt
        omega
      exact pow_le_allBits_or hb this
    · split at h
      · split at h
        · cases h
        · split at h
          · cases h; exact hb
          · split at h
            · cases h
              rename_i hp
              have hlt := isPow2Below_le hp
              refine pow_le_allBits_or hb ?_
              unfold allBits; omega
            · cases h
      · cases h

theorem setElems_le {vals : List String} (els : List (List Char)) {b n : Nat} (hb : b ≤ allBits vals)
    (h : setElems vals els b = some n) : n ≤ allBits vals := by
  induction els generalizing b with
  | nil => simp [setElems] at h; omega
  | cons el rest ih =>
    simp only [setElems] at h
    cases he : setElem vals b el with
    | none => simp [he] at h
    | some a => simp [he] at h; exact ih (setElem_le hb he) h

theorem setOfString_le {vals : List String} {s : String} {n : Nat} (h : setOfString vals s = some n) :
    n ≤ allBits vals := by
  unfold setOfString at h
  split at h
  · cases h; exact Nat.zero_le _
  · exact setElems_le _ (Nat.zero_le _) h

theorem intg_bool {m : Int} {s : Nat} {sv : SVal}
    (h : (match integral m s with
      | some 0 => some (SVal.i8 false)
      | some 1 => some (SVal.i8 true)
      | _ => none) = some sv) : valid .bool sv = true := by
  split at h <;> first | (cases h; rfl) | cases h

theorem enumMap_valid {vals : List String} {i : Nat} {sv : SVal} (h : (vals[i]?).map SVal.str = some sv) :
    valid (.enum vals) sv = true := by
  cases hg : vals[i]? with
  | none => simp [hg] at h
  | some s => simp [hg] at h; subst h; exact getElem?_mem_contains hg

theorem setMap_valid {vals : List String} {s : String} {sv : SVal} (h : (setOfString vals s).map SVal.bits = some sv) :
    valid (.set vals) sv = true := by
  cases hg : setOfString vals s with
  | none => simp [hg] at h
  | some n => simp [hg] at h; subst h; simpa [valid] using setOfString_le hg

/-- Whatever `Convert` accepts is a value of the variable's type (for the code and for the property). -/
theorem convert_valid (q : Quirks) (ty : Ty) (x : Val) (sv : SVal) (h : convert q ty x = some sv) :
    valid ty sv = true := by
  cases ty <;> cases x <;> simp only [convert] at h
  all_goals (repeat' (split at h))
  all_goals first
    | cases h; done
    | (cases h; rfl)
    | exact convInt_valid h
    | exact convUint_valid h
    | exact convEnum_valid h
    | exact convSetBits_valid h
    | exact enumMap_valid h
    | exact setMap_valid h
    | (cases h; simp_all [valid, mkDbl]; done)
    | skip

/-! ### the stored values always have the variable's type (invariant over all histories) -/

/-- A stored value is fine if it has the registered type or is the registered default (which
`InitSystemVariables` stores unconverted). -/
def Good (r : Reg) (n : String) (sv : SVal) : Prop :=
  ∃ v, r.find n = some v ∧ (valid v.ty sv = true ∨ sv = v.default)

def MapWF (r : Reg) (m : Map SVal) : Prop := ∀ n sv, m.get n = some sv → Good r n sv

def WF (r : Reg) (st : State) : Prop :=
  MapWF r st.global ∧ (∀ p ∈ st.sessions, MapWF r p.2.sys) ∧ MapWF r st.persisted

theorem MapWF_put {r : Reg} {m : Map SVal} {n : String} {sv : SVal} (hm : MapWF r m) (hg : Good r n sv) :
    MapWF r (m.put n sv) := by
  intro n' sv' h
  rw [Map.get_put] at h
  split at h
  · cases h; rename_i e; subst e; exact hg
  · exact hm n' sv' h

theorem setValue_valid {q : Quirks} {v : Var} {x : Val} {g : Bool} {sv : SVal} (h : setValue q v x g = .ok sv) :
    valid v.ty sv = true := by
  unfold setValue at h
  repeat' (split at h)
  all_goals first | cases h; done | skip
  cases h
  exact convert_valid _ _ _ _ (by assumption)

theorem setGlobal_wf {q : Quirks} {r : Reg} {st st' : State} {n : String} {x : Val} (hw : WF r st)
    (h : setGlobal q r st n x = .ok st') : WF r st' := by
  unfold setGlobal at h
  split at h
  · cases h
  · rename_i v hv
    cases hs : setValue q v x true with
    | error e => simp [hs, bind, Except.bind] at h
    | ok sv =>
      simp [hs, bind, Except.bind, pure, Except.pure] at h
      subst h
      exact ⟨MapWF_put hw.1 ⟨v, hv, Or.inl (setValue_valid hs)⟩, hw.2.1, hw.2.2⟩

theorem setSessionVar_wf {q : Quirks} {r : Reg} {st st' : State} {sid : Nat} {n : String} {x : Val} (hw : WF r st)
    (h : setSessionVar q r st sid n x = .ok st') : WF r st' := by
  unfold setSessionVar at h
  split at h
  · rename_i s v hs hv
    split at h
    · cases h
    · cases hsv : setValue q v x false with
      | error e => simp [hsv, bind, Except.bind] at h
      | ok sv =>
        simp [hsv, bind, Except.bind, pure, Except.pure] at h
        subst h
        refine ⟨hw.1, ?_, hw.2.2⟩
        intro p hp
        rcases mem_putSess hp with hp | hp
        · subst hp
          exact MapWF_put (hw.2.1 _ (sess_mem hs)) ⟨v, hv, Or.inl (setValue_valid hsv)⟩
        · exact hw.2.1 p hp
  · cases h

theorem persistGlobal_wf {q : Quirks} {r : Reg} {st st' : State} {n : String} {x : Val} (hw : WF r st)
    (h : persistGlobal q r st n x = .ok st') : WF r st' := by
  unfold persistGlobal at h
  split at h
  · cases h
  · rename_i v hv
    split at h
    · rename_i sv hc
      cases h
      exact ⟨hw.1, hw.2.1, MapWF_put hw.2.2 ⟨v, hv, Or.inl (convert_valid _ _ _ _ hc)⟩⟩
    · cases h

theorem lift_wf {r : Reg} {st : State} {e : Except Err State} (hw : WF r st)
    (h : ∀ st', e = .ok st' → WF r st') : WF r (lift st e).1 := by
  cases e with
  | ok st' => exact h st' rfl
  | error _ => exact hw

theorem scopeSetValue_wf {q : Quirks} {r : Reg} {st : State} {sid : Nat} {sc : SetScope} {n : String} {x : Val}
    (hw : WF r st) : WF r (scopeSetValue q r st sid sc n x).1 := by
  unfold scopeSetValue
  cases sc with
  | global => exact lift_wf hw fun _ h => setGlobal_wf hw h
  | session => exact lift_wf hw fun _ h => setSessionVar_wf hw h
  | persist =>
    simp only
    split
    · cases hp : persistGlobal q r st n x with
      | error e => exact hw
      | ok st1 =>
        have h1 := persistGlobal_wf hw hp
        exact lift_wf h1 fun _ h => setGlobal_wf h1 h
    · cases hg : setGlobal q r st n x with
      | error e => exact hw
      | ok st1 =>
        have h1 := setGlobal_wf hw hg
        exact lift_wf hw fun _ h => persistGlobal_wf h1 h
  | persistOnly =>
    simp only
    split
    · exact lift_wf hw fun _ h => persistGlobal_wf hw h
    · split
      · exact hw
      · split
        · exact hw
        · exact lift_wf hw fun _ h => persistGlobal_wf hw h

theorem setSystemVar_wf {q : Quirks} {r : Reg} {st : State} {sid : Nat} {t : SysRef} {v : Val}
    (hw : WF r st) : WF r (setSystemVar q r st sid t v).1 := by
  unfold setSystemVar
  have h1 : WF r (scopeSetValue q r st sid t.scope t.name v).1 := scopeSetValue_wf hw
  split
  · rename_i st1 e he; rw [he] at h1; exact h1
  · rename_i st1 he
    rw [he] at h1
    split
    · exact h1
    · split
      · exact h1
      · exact scopeSetValue_wf h1

theorem execAsg_wf {q : Quirks} {r : Reg} {st : State} {sid : Nat} {a : Target × PRhs} (hw : WF r st) :
    WF r (execAsg q r st sid a).1 := by
  unfold execAsg
  split
  · exact hw
  · split
    · split
      · rename_i s hs
        refine ⟨hw.1, ?_, hw.2.2⟩
        intro p hp
        rcases mem_putSess hp with hp | hp
        · subst hp; exact hw.2.1 (sid, s) (sess_mem hs)
        · exact hw.2.1 p hp
      · exact hw
    · exact setSystemVar_wf hw

theorem execAsgs_wf {q : Quirks} {r : Reg} {sid : Nat} (as : List (Target × PRhs)) {st : State} (hw : WF r st) :
    WF r (execAsgs q r sid st as).1 := by
  induction as generalizing st with
  | nil => exact hw
  | cons a rest ih =>
    simp only [execAsgs]
    have h1 : WF r (execAsg q r st sid a).1 := execAsg_wf hw
    split
    · rename_i st' he; rw [he] at h1; exact ih h1
    · rename_i st' e he; rw [he] at h1; exact h1

theorem execSet_wf {q : Quirks} {r : Reg} {st : State} {sid : Nat} {asgs : List (Target × Rhs)} (hw : WF r st) :
    WF r (execSet q r st sid asgs).1 := by
  unfold execSet
  split
  · exact hw
  · rename_i ps _
    have h1 : WF r (execAsgs q r sid st ps).1 := execAsgs_wf ps hw
    split
    · rename_i st' he; rw [he] at h1; exact h1
    · rename_i st' e he
      rw [he] at h1
      split
      · exact h1
      · split
        · exact ⟨hw.1, hw.2.1, h1.2.2⟩
        · exact hw

theorem newSession_wf {r : Reg} {st : State} {sid : Nat} (hw : WF r st) : WF r (newSession st sid) := by
  refine ⟨hw.1, ?_, hw.2.2⟩
  intro p hp
  rcases mem_putSess hp with hp | hp
  · subst hp; exact hw.1
  · exact hw.2.1 p hp

theorem step_wf {q : Quirks} {r : Reg} {st : State} (s : Stmt) (hw : WF r st) : WF r (step q r st s).1 := by
  cases s with
  | newSession sid => exact newSession_wf hw
  | set sid asgs =>
    simp only [step]
    have := execSet_wf (q := q) (sid := sid) (asgs := asgs) hw
    split <;> (rename_i he; rw [he] at this; exact this)
  | get sid refs => simp only [step]; split <;> exact hw
  | getPersisted n => simp only [step]; split <;> exact hw

theorem find_init (r : Reg) (n : String) (sv : SVal) (h : (init r).global.get n = some sv) :
    ∃ v, r.find n = some v ∧ sv = v.default := by
  unfold init Map.get at h
  simp only at h
  unfold Reg.find
  induction r with
  | nil => simp at h
  | cons a rest ih =>
    by_cases hn : a.name = n
    · simp [hn] at h ⊢; exact h.symm
    · simp [hn] at h ⊢
      obtain ⟨p, hp, hs⟩ := h
      exact ih (by simp; exact ⟨p, hp, hs⟩)

end Gms.SysVars

namespace Gms.SysVars

/-! ### a SET in one session never touches another session -/

def SameOthers (sid : Nat) (st st' : State) : Prop := ∀ sid', sid' ≠ sid → st'.sess sid' = st.sess sid'

theorem SameOthers.refl (sid : Nat) (st : State) : SameOthers sid st st := fun _ _ => rfl
theorem SameOthers.trans {sid : Nat} {a b c : State} (h1 : SameOthers sid a b) (h2 : SameOthers sid b c) :
    SameOthers sid a c := fun s hs => (h2 s hs).trans (h1 s hs)

theorem sameOthers_of_sessions_eq {sid : Nat} {st st' : State} (h : st'.sessions = st.sessions) : SameOthers sid st st' := by
  intro s _; unfold State.sess; rw [h]

theorem sameOthers_putSess {sid : Nat} {st : State} {s : Session} :
    SameOthers sid st { st with sessions := putSess st.sessions sid s } := by
  intro s' hs
  unfold State.sess
  simp only
  rw [find_putSess]
  simp [hs]

theorem setGlobal_sessions {q : Quirks} {r : Reg} {st st' : State} {n : String} {x : Val}
    (h : setGlobal q r st n x = .ok st') : st'.sessions = st.sessions ∧ st'.persisted = st.persisted := by
  unfold setGlobal at h
  split at h
  · cases h
  · rename_i v hv
    cases hs : setValue q v x true with
    | error e => simp [hs, bind, Except.bind] at h
    | ok sv => simp [hs, bind, Except.bind, pure, Except.pure] at h; subst h; exact ⟨rfl, rfl⟩

theorem persistGlobal_sessions {q : Quirks} {r : Reg} {st st' : State} {n : String} {x : Val}
    (h : persistGlobal q r st n x = .ok st') : st'.sessions = st.sessions ∧ st'.global = st.global := by
  unfold persistGlobal at h
  repeat' (split at h)
  all_goals first | cases h; done | skip
  cases h; exact ⟨rfl, rfl⟩

theorem setSessionVar_others {q : Quirks} {r : Reg} {st st' : State} {sid : Nat} {n : String} {x : Val}
    (h : setSessionVar q r st sid n x = .ok st') :
    SameOthers sid st st' ∧ st'.global = st.global ∧ st'.persisted = st.persisted := by
  unfold setSessionVar at h
  split at h
  · rename_i s v hs hv
    split at h
    · cases h
    · cases hsv : setValue q v x false with
      | error e => simp [hsv, bind, Except.bind] at h
      | ok sv =>
        simp [hsv, bind, Except.bind, pure, Except.pure] at h
        subst h
        exact ⟨sameOthers_putSess, rfl, rfl⟩
  · cases h

theorem lift_sameOthers {sid : Nat} {st0 st : State} {e : Except Err State} (h0 : SameOthers sid st0 st)
    (h : ∀ st', e = .ok st' → SameOthers sid st0 st') : SameOthers sid st0 (lift st e).1 := by
  cases e with
  | ok st' => exact h st' rfl
  | error _ => exact h0

theorem scopeSetValue_others {q : Quirks} {r : Reg} {st : State} {sid : Nat} {sc : SetScope} {n : String} {x : Val} :
    SameOthers sid st (scopeSetValue q r st sid sc n x).1 := by
  unfold scopeSetValue
  cases sc with
  | global => exact lift_sameOthers (.refl _ _) fun _ h => sameOthers_of_sessions_eq (setGlobal_sessions h).1
  | session => exact lift_sameOthers (.refl _ _) fun _ h => (setSessionVar_others h).1
  | persist =>
    simp only
    split
    · cases hp : persistGlobal q r st n x with
      | error e => exact .refl _ _
      | ok st1 =>
        have h1 : SameOthers sid st st1 := sameOthers_of_sessions_eq (persistGlobal_sessions hp).1
        exact lift_sameOthers h1 fun _ h => h1.trans (sameOthers_of_sessions_eq (setGlobal_sessions h).1)
    · cases hg : setGlobal q r st n x with
      | error e => exact .refl _ _
      | ok st1 =>
        have h1 : SameOthers sid st st1 := sameOthers_of_sessions_eq (setGlobal_sessions hg).1
        exact lift_sameOthers (.refl _ _) fun _ h => h1.trans (sameOthers_of_sessions_eq (persistGlobal_sessions h).1)
  | persistOnly =>
    simp only
    split
    · exact lift_sameOthers (.refl _ _) fun _ h => sameOthers_of_sessions_eq (persistGlobal_sessions h).1
    · split
      · exact .refl _ _
      · split
        · exact .refl _ _
        · exact lift_sameOthers (.refl _ _) fun _ h => sameOthers_of_sessions_eq (persistGlobal_sessions h).1

theorem setSystemVar_others {q : Quirks} {r : Reg} {st : State} {sid : Nat} {t : SysRef} {v : Val} :
    SameOthers sid st (setSystemVar q r st sid t v).1 := by
  unfold setSystemVar
  have h1 : SameOthers sid st (scopeSetValue q r st sid t.scope t.name v).1 := scopeSetValue_others
  split
  · rename_i st1 e he; rw [he] at h1; exact h1
  · rename_i st1 he
    rw [he] at h1
    split
    · exact h1
    · split
      · exact h1
      · exact h1.trans scopeSetValue_others

theorem execAsg_others {q : Quirks} {r : Reg} {st : State} {sid : Nat} {a : Target × PRhs} :
    SameOthers sid st (execAsg q r st sid a).1 := by
  unfold execAsg
  split
  · exact .refl _ _
  · split
    · split
      · exact sameOthers_putSess
      · exact .refl _ _
    · exact setSystemVar_others

theorem execAsgs_others {q : Quirks} {r : Reg} {sid : Nat} (as : List (Target × PRhs)) {st : State} :
    SameOthers sid st (execAsgs q r sid st as).1 := by
  induction as generalizing st with
  | nil => exact .refl _ _
  | cons a rest ih =>
    simp only [execAsgs]
    have h1 : SameOthers sid st (execAsg q r st sid a).1 := execAsg_others
    split
    · rename_i st' he; rw [he] at h1; exact h1.trans ih
    · rename_i st' e he; rw [he] at h1; exact h1

theorem execSet_others {q : Quirks} {r : Reg} {st : State} {sid : Nat} {asgs : List (Target × Rhs)} :
    SameOthers sid st (execSet q r st sid asgs).1 := by
  unfold execSet
  split
  · exact .refl _ _
  · rename_i ps _
    have h1 : SameOthers sid st (execAsgs q r sid st ps).1 := execAsgs_others ps
    split
    · rename_i st' he; rw [he] at h1; exact h1
    · rename_i st' e he
      rw [he] at h1
      split
      · exact h1
      · split
        · exact sameOthers_of_sessions_eq rfl
        · exact .refl _ _

/-! ### a SET that only names SESSION targets and user variables leaves the globals alone -/

def sessionOnlyTarget : Target → Bool
  | .user _ => true
  | .sys t => t.scope = .session

theorem scopeSetValue_session_globals {q : Quirks} {r : Reg} {st : State} {sid : Nat} {n : String} {x : Val} :
    (scopeSetValue q r st sid .session n x).1.global = st.global ∧
    (scopeSetValue q r st sid .session n x).1.persisted = st.persisted := by
  unfold scopeSetValue
  simp only
  cases h : setSessionVar q r st sid n x with
  | error e => exact ⟨rfl, rfl⟩
  | ok st' => exact (setSessionVar_others h).2

theorem setSystemVar_session_globals {q : Quirks} {r : Reg} {st : State} {sid : Nat} {t : SysRef} {v : Val}
    (ht : t.scope = .session) :
    (setSystemVar q r st sid t v).1.global = st.global ∧ (setSystemVar q r st sid t v).1.persisted = st.persisted := by
  unfold setSystemVar
  rw [ht]
  have h1 := scopeSetValue_session_globals (q := q) (r := r) (st := st) (sid := sid) (n := t.name) (x := v)
  split
  · rename_i st1 e he; rw [he] at h1; exact h1
  · rename_i st1 he
    rw [he] at h1
    split
    · exact h1
    · split
      · exact h1
      · exact ⟨scopeSetValue_session_globals.1.trans h1.1, scopeSetValue_session_globals.2.trans h1.2⟩

theorem execAsg_session_globals {q : Quirks} {r : Reg} {st : State} {sid : Nat} {a : Target × PRhs}
    (ha : sessionOnlyTarget a.1 = true) :
    (execAsg q r st sid a).1.global = st.global ∧ (execAsg q r st sid a).1.persisted = st.persisted := by
  unfold execAsg
  split
  · exact ⟨rfl, rfl⟩
  · split
    · split <;> exact ⟨rfl, rfl⟩
    · rename_i t ht
      rw [ht] at ha
      simp [sessionOnlyTarget] at ha
      exact setSystemVar_session_globals ha

theorem execAsgs_session_globals {q : Quirks} {r : Reg} {sid : Nat} (as : List (Target × PRhs)) {st : State}
    (ha : ∀ a ∈ as, sessionOnlyTarget a.1 = true) :
    (execAsgs q r sid st as).1.global = st.global ∧ (execAsgs q r sid st as).1.persisted = st.persisted := by
  induction as generalizing st with
  | nil => exact ⟨rfl, rfl⟩
  | cons a rest ih =>
    simp only [execAsgs]
    have h1 := execAsg_session_globals (q := q) (r := r) (st := st) (sid := sid) (ha a (by simp))
    split
    · rename_i st' he
      rw [he] at h1
      have h2 := ih (st := st') (fun b hb => ha b (List.mem_cons_of_mem _ hb))
      exact ⟨h2.1.trans h1.1, h2.2.trans h1.2⟩
    · rename_i st' e he; rw [he] at h1; exact h1

/-- The planned target: the same variable in the same scope (the `explicit` mark of a SET target
is dropped, see `planAsg`). -/
def normTarget : Target → Target
  | .user n => .user n
  | .sys t0 => .sys { t0 with explicit := false }

theorem planAsg_fst {q : Quirks} {r : Reg} {a : Target × Rhs} {p : Target × PRhs} (h : planAsg q r a = .ok p) :
    p.1 = normTarget a.1 := by
  obtain ⟨t, rhs⟩ := a
  cases t with
  | user n =>
    cases rhs with
    | lit v => simp [planAsg] at h; cases h; rfl
    | dflt => simp [planAsg] at h
    | user m => simp [planAsg] at h; cases h; rfl
    | sys ref =>
      simp only [planAsg] at h
      cases hr : resolveRef r ref with
      | error e => simp [hr, bind, Except.bind] at h
      | ok u =>
        simp only [hr, bind, Except.bind] at h
        split at h <;> first | (cases h; rfl) | cases h
  | sys t0 =>
    simp only [planAsg] at h
    cases hr : resolveRef r { t0 with explicit := false } with
    | error e => simp [hr, bind, Except.bind] at h
    | ok u =>
      simp only [hr, bind, Except.bind] at h
      repeat' (split at h)
      all_goals first
        | (cases h; rfl)
        | cases h; done
        | skip
      all_goals (
        rename_i hr2
        cases hr3 : resolveRef r _ with
        | error e => simp [hr3] at h
        | ok u2 => simp [hr3] at h; repeat' (split at h)
                   all_goals first | (cases h; rfl) | cases h)

theorem planAsg_target {q : Quirks} {r : Reg} {a : Target × Rhs} {p : Target × PRhs} (h : planAsg q r a = .ok p) :
    sessionOnlyTarget p.1 = sessionOnlyTarget a.1 := by
  obtain ⟨t, rhs⟩ := a
  cases t with
  | user n =>
    cases rhs with
    | lit v => simp [planAsg] at h; cases h; rfl
    | dflt => simp [planAsg] at h
    | user m => simp [planAsg] at h; cases h; rfl
    | sys ref =>
      simp only [planAsg] at h
      cases hr : resolveRef r ref with
      | error e => simp [hr, bind, Except.bind] at h
      | ok u =>
        simp only [hr, bind, Except.bind] at h
        split at h <;> first | (cases h; rfl) | cases h
  | sys t0 =>
    simp only [planAsg] at h
    cases hr : resolveRef r { t0 with explicit := false } with
    | error e => simp [hr, bind, Except.bind] at h
    | ok u =>
      simp only [hr, bind, Except.bind] at h
      repeat' (split at h)
      all_goals first
        | (cases h; rfl)
        | cases h; done
        | skip
      all_goals (
        rename_i hr2
        cases hr3 : resolveRef r _ with
        | error e => simp [hr3] at h
        | ok u2 => simp [hr3] at h; repeat' (split at h)
                   all_goals first | (cases h; rfl) | cases h)

end Gms.SysVars

namespace Gms.SysVars

theorem planSet_targets {q : Quirks} {r : Reg} (as : List (Target × Rhs)) {ps : List (Target × PRhs)}
    (h : planSet q r as = .ok ps) (ha : ∀ a ∈ as, sessionOnlyTarget a.1 = true) :
    ∀ p ∈ ps, sessionOnlyTarget p.1 = true := by
  induction as generalizing ps with
  | nil => simp [planSet] at h; cases h; simp
  | cons a rest ih =>
    simp only [planSet] at h
    cases h1 : planAsg q r a with
    | error e => simp [h1, bind, Except.bind] at h
    | ok p =>
      cases h2 : planSet q r rest with
      | error e => simp [h1, h2, bind, Except.bind] at h
      | ok ps' =>
        simp [h1, h2, bind, Except.bind, pure, Except.pure] at h
        subst h
        intro p' hp'
        simp at hp'
        rcases hp' with hp' | hp'
        · subst hp'; rw [planAsg_target h1]; exact ha a (by simp)
        · exact ih h2 (fun b hb => ha b (List.mem_cons_of_mem _ hb)) p' hp'

/-- Registry entry well-formedness (checked on the regenerated registry by `decide`). Kernel
evaluation of `String` operations is very slow, so everything here is numeric; the string-valued
parts (names lower case and unique, enum / set members distinct, string defaults accepted) are
computed by the extractor on the compiled code and arrive as the facts `keyMismatch`, `dupKeys`,
`dupMembers`, `defaultRejected`. -/
def boundsOrdered : Ty → Bool
  | .int lo hi _ => decide (lo ≤ hi) && decide (-(two63 : Int) ≤ lo) && decide (hi < two63)
  | .uint lo hi => decide (lo ≤ hi) && decide (hi < two64)
  | .double lo hi => decide (lo ≤ hi)
  | .enum vals => !vals.isEmpty
  | .set vals => !vals.isEmpty && decide (vals.length ≤ 64)
  | _ => true

/-- `SET x = DEFAULT` is accepted by the variable's own type (numeric kinds; under the property's
conversion). -/
def defaultOk (v : Var) : Bool :=
  match v.ty, v.default with
  | .int lo hi neg, d => (convert specQ (.int lo hi neg) (toVal (.int lo hi neg) d)).isSome
  | .uint lo hi, d => (convert specQ (.uint lo hi) (toVal (.uint lo hi) d)).isSome
  | .double lo hi, d => (convert specQ (.double lo hi) (toVal (.double lo hi) d)).isSome
  | .bool, .i8 _ => true
  | .bool, _ => false
  | .enum _, .str _ | .set _, .str _ | .string, .str _ => true
  | .other, _ => true
  | _, _ => false

def wellformed (v : Var) : Bool := boundsOrdered v.ty && defaultOk v

end Gms.SysVars

namespace Gms.SysVars

/-! ### which strings denote which integer (`strconv.ParseInt(s, 10, 64)`) -/


/-- decimal digit -/
def isDig (c : Char) : Bool := decide ('0' ≤ c ∧ c ≤ '9')

/-- Horner value of a digit string, most significant digit first (the *definition* of the decimal
denotation). -/
def decValue (cs : List Char) : Nat := cs.foldl (fun a c => a * 10 + (c.toNat - '0'.toNat)) 0

theorem digitsVal_spec (cs : List Char) (acc n : Nat) (h : digitsVal cs acc = some n) :
    (∀ c ∈ cs, isDig c = true) ∧ n = cs.foldl (fun a c => a * 10 + (c.toNat - '0'.toNat)) acc := by
  induction cs generalizing acc with
  | nil => simp [digitsVal] at h; simp [h]
  | cons c cs ih =>
    simp only [digitsVal] at h
    split at h
    · rename_i hc
      obtain ⟨h1, h2⟩ := ih _ h
      refine ⟨?_, by simpa using h2⟩
      intro d hd
      simp at hd
      rcases hd with rfl | hd
      · simp [isDig, hc]
      · exact h1 d hd
    · cases h

theorem digitsVal_complete (cs : List Char) (acc : Nat) (h : ∀ c ∈ cs, isDig c = true) :
    digitsVal cs acc = some (cs.foldl (fun a c => a * 10 + (c.toNat - '0'.toNat)) acc) := by
  induction cs generalizing acc with
  | nil => simp [digitsVal]
  | cons c cs ih =>
    have hc : '0' ≤ c ∧ c ≤ '9' := by simpa [isDig] using h c (by simp)
    simp only [digitsVal, hc, and_self, if_true, List.foldl]
    exact ih _ (fun d hd => h d (by simp [hd]))

/-- `parseNat` accepts exactly the non-empty strings of decimal digits, with their decimal value. -/
theorem parseNat_iff (cs : List Char) (n : Nat) :
    parseNat cs = some n ↔ cs ≠ [] ∧ (∀ c ∈ cs, isDig c = true) ∧ n = decValue cs := by
  constructor
  · intro h
    cases cs with
    | nil => simp [parseNat] at h
    | cons c cs =>
      simp only [parseNat] at h
      obtain ⟨h1, h2⟩ := digitsVal_spec _ _ _ h
      exact ⟨by simp, h1, h2⟩
  · rintro ⟨h0, h1, h2⟩
    cases cs with
    | nil => exact absurd rfl h0
    | cons c cs =>
      simp only [parseNat]
      rw [digitsVal_complete _ _ h1, h2]; rfl

/-- A leading zero does not change the value: `'010'` is ten, not eight. -/
theorem decValue_leading_zero (cs : List Char) : decValue ('0' :: cs) = decValue cs := by
  simp [decValue]

theorem parseNat_leading_zero (cs : List Char) (h : cs ≠ []) : parseNat ('0' :: cs) = parseNat cs := by
  cases cs with
  | nil => exact absurd rfl h
  | cons c cs => simp [parseNat, digitsVal]

end Gms.SysVars

namespace Gms.SysVars

theorem parseIntL_sound (cs : List Char) (i : Int) (h : parseIntL cs = some i) :
    ∃ ds, ds ≠ [] ∧ (∀ c ∈ ds, isDig c = true) ∧
      ((cs = '-' :: ds ∧ i = -(decValue ds : Int)) ∨ (cs = '+' :: ds ∧ i = (decValue ds : Int)) ∨
       (cs = ds ∧ i = (decValue ds : Int))) := by
  unfold parseIntL at h
  simp only at h
  split at h
  · rename_i r j hr
    split at h
    · cases h
      split at hr
      · rename_i ds
        cases hp : parseNat ds with
        | none => simp [hp] at hr
        | some n =>
          simp [hp] at hr
          obtain ⟨h0, h1, h2⟩ := (parseNat_iff ds n).1 hp
          exact ⟨ds, h0, h1, Or.inl ⟨rfl, by rw [← hr, h2]⟩⟩
      · rename_i ds
        cases hp : parseNat ds with
        | none => simp [hp] at hr
        | some n =>
          simp [hp] at hr
          obtain ⟨h0, h1, h2⟩ := (parseNat_iff ds n).1 hp
          exact ⟨ds, h0, h1, Or.inr (Or.inl ⟨rfl, by rw [← hr, h2]⟩)⟩
      · cases hp : parseNat cs with
        | none => simp [hp] at hr
        | some n =>
          simp [hp] at hr
          obtain ⟨h0, h1, h2⟩ := (parseNat_iff cs n).1 hp
          exact ⟨cs, h0, h1, Or.inr (Or.inr ⟨rfl, by rw [← hr, h2]⟩)⟩
    · cases h
  · cases h

/-- Any character other than a decimal digit or a sign makes `ParseInt(s, 10, 64)` fail: no `x`, `b`,
`o`, `_`, blank, `e`, `.` anywhere. -/
theorem parseIntL_rejects (cs : List Char) (c : Char) (hc : c ∈ cs) (hd : isDig c = false)
    (hs : c ≠ '+' ∧ c ≠ '-') : parseIntL cs = none := by
  cases h : parseIntL cs with
  | none => rfl
  | some i =>
    exfalso
    obtain ⟨ds, _, h1, h2⟩ := parseIntL_sound cs i h
    have hds : ∀ d ∈ ds, d ≠ c := by
      intro d hd' e; subst e; rw [h1 d hd'] at hd; cases hd
    rcases h2 with ⟨e, _⟩ | ⟨e, _⟩ | ⟨e, _⟩
    · subst e; simp at hc; rcases hc with hc | hc
      · exact hs.2 hc
      · exact hds c hc rfl
    · subst e; simp at hc; rcases hc with hc | hc
      · exact hs.1 hc
      · exact hds c hc rfl
    · subst e; exact hds c hc rfl

end Gms.SysVars

namespace Gms.SysVars

/-! ### a SET without SESSION targets changes no session -/

/-- GLOBAL / PERSIST / PERSIST_ONLY system-variable target. -/
def globalishTarget : Target → Bool
  | .sys t => t.scope != .session
  | .user _ => false

theorem lift_sessions {st : State} {e : Except Err State} (h : ∀ st', e = .ok st' → st'.sessions = st.sessions) :
    (lift st e).1.sessions = st.sessions := by
  cases e with
  | ok st' => exact h st' rfl
  | error _ => rfl

theorem scopeSetValue_nonsession_sessions {q : Quirks} {r : Reg} {st : State} {sid : Nat} {sc : SetScope} {n : String}
    {x : Val} (hsc : sc ≠ .session) : (scopeSetValue q r st sid sc n x).1.sessions = st.sessions := by
  unfold scopeSetValue
  cases sc with
  | session => exact absurd rfl hsc
  | global => exact lift_sessions fun _ h => (setGlobal_sessions h).1
  | persist =>
    simp only
    split
    · cases hp : persistGlobal q r st n x with
      | error e => rfl
      | ok st1 =>
        have h1 := (persistGlobal_sessions hp).1
        have h2 : (lift st1 (setGlobal q r st1 n x)).1.sessions = st1.sessions :=
          lift_sessions fun _ h => (setGlobal_sessions h).1
        exact h2.trans h1
    · cases hg : setGlobal q r st n x with
      | error e => rfl
      | ok st1 =>
        have h1 := (setGlobal_sessions hg).1
        exact lift_sessions fun _ h => (persistGlobal_sessions h).1.trans h1
  | persistOnly =>
    simp only
    split
    · exact lift_sessions fun _ h => (persistGlobal_sessions h).1
    · split
      · rfl
      · split
        · rfl
        · exact lift_sessions fun _ h => (persistGlobal_sessions h).1

theorem setSystemVar_nonsession_sessions {q : Quirks} {r : Reg} {st : State} {sid : Nat} {t : SysRef} {v : Val}
    (ht : t.scope ≠ .session) : (setSystemVar q r st sid t v).1.sessions = st.sessions := by
  unfold setSystemVar
  have h1 : (scopeSetValue q r st sid t.scope t.name v).1.sessions = st.sessions :=
    scopeSetValue_nonsession_sessions ht
  split
  · rename_i st1 e he; rw [he] at h1; exact h1
  · rename_i st1 he
    rw [he] at h1
    split
    · exact h1
    · split
      · exact h1
      · exact (scopeSetValue_nonsession_sessions ht).trans h1

theorem execAsg_nonsession_sessions {q : Quirks} {r : Reg} {st : State} {sid : Nat} {a : Target × PRhs}
    (ha : globalishTarget a.1 = true) : (execAsg q r st sid a).1.sessions = st.sessions := by
  unfold execAsg
  split
  · rfl
  · split
    · rename_i n hn; rw [hn] at ha; simp [globalishTarget] at ha
    · rename_i t ht
      rw [ht] at ha
      exact setSystemVar_nonsession_sessions (by simpa [globalishTarget] using ha)

theorem execAsgs_nonsession_sessions {q : Quirks} {r : Reg} {sid : Nat} (as : List (Target × PRhs)) {st : State}
    (ha : ∀ a ∈ as, globalishTarget a.1 = true) : (execAsgs q r sid st as).1.sessions = st.sessions := by
  induction as generalizing st with
  | nil => rfl
  | cons a rest ih =>
    simp only [execAsgs]
    have h1 := execAsg_nonsession_sessions (q := q) (r := r) (st := st) (sid := sid) (ha a (by simp))
    split
    · rename_i st' he
      rw [he] at h1
      exact (ih (st := st') (fun b hb => ha b (List.mem_cons_of_mem _ hb))).trans h1
    · rename_i st' e he; rw [he] at h1; exact h1

theorem planSet_fst {q : Quirks} {r : Reg} (as : List (Target × Rhs)) {ps : List (Target × PRhs)}
    (h : planSet q r as = .ok ps) : ps.map (·.1) = as.map fun a => normTarget a.1 := by
  induction as generalizing ps with
  | nil => simp [planSet] at h; cases h; rfl
  | cons a rest ih =>
    simp only [planSet] at h
    cases h1 : planAsg q r a with
    | error e => simp [h1, bind, Except.bind] at h
    | ok p =>
      cases h2 : planSet q r rest with
      | error e => simp [h1, h2, bind, Except.bind] at h
      | ok ps' =>
        simp [h1, h2, bind, Except.bind, pure, Except.pure] at h
        subst h
        simp [planAsg_fst h1, ih h2]

theorem globalish_norm (t : Target) : globalishTarget (normTarget t) = globalishTarget t := by
  cases t <;> rfl

theorem lift_ok {st st' : State} {e : Except Err State} (h : lift st e = (st', none)) : e = .ok st' := by
  cases e with
  | ok s => simp [lift] at h; rw [h]
  | error x => simp [lift] at h

/-- Normal form of a stored double (what `render` prints): trailing zeros of the scale removed. -/
def normSV : SVal → SVal
  | .dbl m s => .dbl (normDbl m s).1 (normDbl m s).2
  | sv => sv

/-- The numeric system_* types (those whose string arm is `convStr`). -/
def numericTy : Ty → Bool
  | .bool | .int _ _ _ | .uint _ _ | .double _ _ => true
  | _ => false

/-- The defect class of a counterpart that is written through the SESSION scope whatever the scope
of the statement (compare `setSystemVar`). -/
def setSystemVarSess (q : Quirks) (r : Reg) (st : State) (sid : Nat) (t : SysRef) (v : Val) : State × Option Err :=
  match scopeSetValue q r st sid t.scope t.name v with
  | (st1, some e) => (st1, some e)
  | (st1, none) =>
    match coupleOf r t.name with
    | none => (st1, none)
    | some (other, tbl) =>
      match coupledVal tbl v with
      | .error e => (st1, some e)
      | .ok v' => scopeSetValue q r st1 sid .session other v'

end Gms.SysVars

/-! ## Property theorems -/

namespace Gms.C44

open Gms.Generated.C44

/-- The code paths the model transliterates still have the shape it assumes: which names the
executor and the planbuilder treat by name, the order of the checks in
`MysqlSystemVariable.SetValue`, the order of the calls for `SET PERSIST`; and the registry dump
found no duplicate / mismatching key and no entry it could not describe. -/
theorem facts_match :
    coupledVars = ["character_set_connection", "collation_connection", "character_set_server", "collation_server"] ∧
    validatedVars = ["time_zone"] ∧
    planSpecialVars = ["character_set_database", "collation_database"] ∧
    planIntSpecialVars = ["sql_mode", "collation_database", "collation_connection", "collation_server", "lc_time_names"] ∧
    setValueChecks = [("global && m.Scope.Type == SystemVariableScope_Session", "ErrSystemVariableSessionOnly"),
      ("!global && m.Scope.Type == SystemVariableScope_Global", "ErrSystemVariableGlobalOnly"),
      ("!m.Dynamic || m.ValueFunction != nil", "ErrSystemVariableReadOnly"),
      ("otherwise", "m.InitValue(ctx, val, global)")] ∧
    -- setSystemVar writes the variable and every counterpart through the scope of the statement
    coupledWrites = [("sysVar.Scope", "sysVar.Name"), ("sysVar.Scope", "\"collation_connection\""),
      ("sysVar.Scope", "\"character_set_connection\""), ("sysVar.Scope", "\"collation_server\""),
      ("sysVar.Scope", "\"character_set_server\"")] ∧
    -- SET NAMES assigns what `expandNames` assigns
    (expandNames .dflt).map (fun a => match a.1 with | .sys t => t.name | .user n => n) = namesExpansion ∧
    -- every string → number conversion of the system_* types is strconv in base 10 / ParseFloat
    strconvCalls = [("system_int.go:Convert", "strconv.ParseInt(value, 10, 64)"),
      ("system_int.go:DecodeValue", "strconv.ParseInt(val, 10, 64)"),
      ("system_uint.go:DecodeValue", "strconv.ParseUint(val, 10, 64)"),
      ("system_double.go:Convert", "strconv.ParseFloat(value, 64)"),
      ("system_double.go:DecodeValue", "strconv.ParseFloat(val, 64)"),
      ("set.go:convertStringToBitField", "strconv.ParseUint(val, 10, 64)")] ∧
    persistCalls = ["PersistGlobal", "SetGlobal"] ∧ persistOnlyCalls = ["PersistGlobal"] ∧
    keyMismatch = [] ∧ dupKeys = [] ∧ dupMembers = [] ∧ defaultRejected = ["ft_max_word_len"] ∧
    -- the only oddity of the dump: the type of `uptime` was built with another variable's name
    -- (its error messages would name `updatable_views_with_limit`); `uptime` is read-only
    badEntries = ["uptime: type carries the name \"updatable_views_with_limit\""] := by decide

/- Every registered variable: bounds ordered and inside the 64-bit range, enum / set types not
empty (a set has at most 64 members), the default has the Go type of the variable's kind and a
numeric default is accepted by the variable's own `Convert`.
   The full statement is false on the unchanged tree:
     theorem registry_wellformed : ∀ v ∈ sysvars, wellformed v = true
   `ft_max_word_len` is registered with bounds [10, 2^63-1] and default 0 (read-only, so the value
   can never become valid): region `registry_default_out_of_range`. -/
def defaultOutOfRange : List String := ["ft_max_word_len"]

theorem registry_wellformed_partial : ∀ v ∈ sysvars, wellformed v = true ∨ v.name ∈ defaultOutOfRange := by
  decide +kernel

theorem finding_registry_default_out_of_range : (sysvars.filter fun v => !defaultOk v).length = 1 := by
  decide +kernel

example : sysvars.length > 300 ∧ (sysvars.filter (!·.special)).length > 250 := by decide +kernel

/-- **Validation + conversion.** Whatever `Convert` accepts has the variable's type (all types, all
Go values, for the code and for the property). -/
theorem set_converts_to_type (q : Quirks) (ty : Ty) (x : Val) (sv : SVal) (h : convert q ty x = some sv) :
    valid ty sv = true := convert_valid q ty x sv h

example : convert implQ (.int 1 100000 false) (.str "151") = some (.int 151) := by decide
example : convert implQ (.int 1 100000 false) (.int 0) = none := by decide

/-- **Stored values always have the variable's type**, for every registry, every history of
statements in any number of sessions, for the code's semantics and for the property's: each value in
the global map, in every session map and in the persisted map is a value of the variable's type or
its registered default. -/
theorem stored_values_typed (q : Quirks) (r : Reg) (h : List Stmt) : WF r (run q r (init r) h).1 := by
  have hinit : WF r (init r) := by
    refine ⟨?_, ?_, ?_⟩
    · intro n sv hg
      obtain ⟨v, hv, hd⟩ := find_init r n sv hg
      exact ⟨v, hv, Or.inr hd⟩
    · intro p hp; simp [init] at hp
    · intro n sv hg; simp [init, Map.get] at hg
  have key : ∀ (h : List Stmt) (st : State), WF r st → WF r (run q r st h).1 := by
    intro h
    induction h with
    | nil => intro st hw; exact hw
    | cons s rest ih =>
      intro st hw
      simp only [run]
      exact ih _ (step_wf s hw)
  exact key h _ hinit

/-- **Session isolation.** No SET statement executed in session `sid` — whatever its targets,
scopes and outcome — changes anything in another session: its system-variable values and its user
variables are the same before and after (so a GLOBAL change is *not* seen by existing sessions, and
user variables are private). -/
theorem set_leaves_other_sessions (q : Quirks) (r : Reg) (st : State) (sid sid' : Nat)
    (asgs : List (Target × Rhs)) (h : sid' ≠ sid) :
    (step q r st (.set sid asgs)).1.sess sid' = st.sess sid' := by
  have := execSet_others (q := q) (r := r) (st := st) (sid := sid) (asgs := asgs) sid' h
  simp only [step]
  split <;> (rename_i he; rw [he] at this; exact this)

/-- **A session-scope change is visible only to that session**: a SET whose targets are all
`SESSION` system variables or user variables leaves the global values and the persisted map
unchanged (together with `set_leaves_other_sessions`: nothing outside the session changes). -/
theorem session_set_leaves_globals (q : Quirks) (r : Reg) (st : State) (sid : Nat) (asgs : List (Target × Rhs))
    (h : ∀ a ∈ asgs, sessionOnlyTarget a.1 = true) :
    (step q r st (.set sid asgs)).1.global = st.global ∧ (step q r st (.set sid asgs)).1.persisted = st.persisted := by
  have key : (execSet q r st sid asgs).1.global = st.global ∧ (execSet q r st sid asgs).1.persisted = st.persisted := by
    unfold execSet
    split
    · exact ⟨rfl, rfl⟩
    · rename_i ps hp
      have h1 := execAsgs_session_globals (q := q) (r := r) (sid := sid) ps (st := st) (planSet_targets asgs hp h)
      split
      · rename_i st' he; rw [he] at h1; exact h1
      · rename_i st' e he
        rw [he] at h1
        split
        · exact h1
        · split
          · exact ⟨rfl, h1.2⟩
          · exact ⟨rfl, rfl⟩
  simp only [step]
  split <;> (rename_i he; rw [he] at key; exact key)

/-- **A global change is seen by new sessions**: a session created now reads, for every variable,
exactly the current global value. -/
theorem new_session_sees_globals (r : Reg) (st : State) (sid : Nat) (name : String) :
    readSys r (newSession st sid) sid false name = readSys r (newSession st sid) sid true name := by
  have hs : (newSession st sid).sess sid = some { sys := st.global, user := [] } := by
    unfold newSession State.sess
    simp only
    rw [find_putSess]; simp
  unfold readSys
  rw [hs]
  cases r.find name with
  | none => rfl
  | some v => simp [newSession, Option.bind]

/-- **Rejected without effect** (the property's semantics): a SET statement that reports an error
leaves the whole state — globals, every session, persisted values — unchanged. -/
theorem spec_failed_set_no_effect (r : Reg) (st : State) (sid : Nat) (asgs : List (Target × Rhs)) (e : Err)
    (h : (execSet specQ r st sid asgs).2 = some e) : (execSet specQ r st sid asgs).1 = st := by
  unfold execSet at h ⊢
  cases hp : planSet specQ r asgs with
  | error e1 => simp
  | ok ps =>
    simp only [hp] at h ⊢
    cases he : execAsgs specQ r sid st ps with
    | mk st' oe =>
      cases oe with
      | none => simp [he] at h
      | some e' => simp [specQ]

/- The same statement about the code is false:
   theorem impl_failed_set_no_effect : (execSet implQ r st sid asgs).2 = some e → (execSet implQ r st sid asgs).1 = st
   Witnesses: `finding_multi_assign_partial_effect`, `finding_persist_before_checks`. It holds for
   a single assignment that is not `SET PERSIST`: -/

def isPersistTarget : Target → Bool
  | .sys t => t.scope = .persist
  | _ => false

theorem lift_err_state {st st' : State} {e : Except Err State} {er : Err} (h : lift st e = (st', some er)) : st' = st := by
  cases e with
  | ok s => simp [lift] at h
  | error x => simp [lift] at h; exact h.1.symm

theorem scopeSetValue_err_no_effect (q : Quirks) (r : Reg) (st st' : State) (sid : Nat) (sc : SetScope) (n : String)
    (x : Val) (e : Err) (hsc : sc ≠ .persist) (h : scopeSetValue q r st sid sc n x = (st', some e)) : st' = st := by
  unfold scopeSetValue at h
  cases sc with
  | persist => exact absurd rfl hsc
  | global => exact lift_err_state h
  | session => exact lift_err_state h
  | persistOnly =>
    simp only at h
    split at h
    · exact lift_err_state h
    · split at h
      · cases h; rfl
      · split at h
        · cases h; rfl
        · exact lift_err_state h

/-- The target has no coupled counterpart in `setSystemVar` (everything except the four
character-set / collation variables). -/
def notCoupled (r : Reg) : Target → Bool
  | .sys t => (coupleOf r t.name).isNone
  | _ => true

theorem impl_failed_set_no_effect_partial (q : Quirks) (r : Reg) (st : State) (sid : Nat) (a : Target × Rhs) (e : Err)
    (hp : isPersistTarget a.1 = false) (hc : notCoupled r a.1 = true)
    (h : (execSet q r st sid [a]).2 = some e) : (execSet q r st sid [a]).1 = st := by
  unfold execSet at h ⊢
  cases h1 : planAsg q r a with
  | error e1 =>
    have : planSet q r [a] = .error e1 := by simp [planSet, h1, bind, Except.bind]
    simp [this]
  | ok p =>
      have hplan : planSet q r [a] = .ok [p] := by simp [planSet, h1, bind, Except.bind, pure, Except.pure]
      rw [hplan] at h ⊢
      have hfst := planAsg_fst h1
      have hpt : isPersistTarget p.1 = false := by
        rw [hfst]; cases hx : a.1 <;> simp [hx, normTarget, isPersistTarget] at hp ⊢; exact hp
      have hpc : notCoupled r p.1 = true := by
        rw [hfst]; cases hx : a.1 <;> simp [hx, normTarget, notCoupled] at hc ⊢; exact hc
      simp only [execAsgs]
      have hone : ∀ st' er, execAsg q r st sid p = (st', some er) → st' = st := by
        intro st' er he
        unfold execAsg at he
        split at he
        · cases he; rfl
        · split at he
          · split at he
            · cases he
            · cases he; rfl
          · rename_i t ht
            rw [ht] at hpt hpc
            have hnone : coupleOf r t.name = none := by simpa [notCoupled] using hpc
            unfold setSystemVar at he
            rw [hnone] at he
            split at he
            · rename_i st1 e1 hs
              cases he
              exact scopeSetValue_err_no_effect q r st _ sid t.scope t.name _ _ (by simpa [isPersistTarget] using hpt) hs
            · cases he
      cases he1 : execAsg q r st sid p with
      | mk st1 oe =>
        cases oe with
        | none => simp [execAsgs, he1] at h
        | some e1 =>
          have := hone st1 e1 he1
          subst this
          simp only [execAsgs, he1]
          split <;> first | rfl | (split <;> rfl)


/-- **SELECT @@x returns exactly the value assigned** (session scope): after a successful
`SetSessionVariable` the session reads back the converted value, with the variable's type. -/
theorem set_session_then_read (q : Quirks) (r : Reg) (st st' : State) (sid : Nat) (n : String) (x : Val)
    (h : setSessionVar q r st sid n x = .ok st') :
    ∃ v sv, r.find n = some v ∧ convert q v.ty x = some sv ∧ valid v.ty sv = true ∧
      readSys r st' sid false n = .ok (v.ty, sv) := by
  unfold setSessionVar at h
  split at h
  · rename_i s v hs hv
    split at h
    · cases h
    · cases hsv : setValue q v x false with
      | error e => simp [hsv, bind, Except.bind] at h
      | ok sv =>
        simp [hsv, bind, Except.bind, pure, Except.pure] at h
        subst h
        have hc : convert q v.ty x = some sv := by
          unfold setValue at hsv
          repeat' (split at hsv)
          all_goals first | cases hsv; done | skip
          cases hsv; assumption
        refine ⟨v, sv, hv, hc, convert_valid _ _ _ _ hc, ?_⟩
        unfold readSys State.sess
        simp only [hv]
        rw [find_putSess]
        simp [Option.bind, Map.get_put]
  · cases h

/-- The same for the global scope: after a successful `SetGlobal`, `@@global.x` is the converted value. -/
theorem set_global_then_read (q : Quirks) (r : Reg) (st st' : State) (sid : Nat) (n : String) (x : Val)
    (h : setGlobal q r st n x = .ok st') :
    ∃ v sv, r.find n = some v ∧ convert q v.ty x = some sv ∧ valid v.ty sv = true ∧
      readSys r st' sid true n = .ok (v.ty, sv) := by
  unfold setGlobal at h
  split at h
  · cases h
  · rename_i v hv
    cases hs : setValue q v x true with
    | error e => simp [hs, bind, Except.bind] at h
    | ok sv =>
      simp [hs, bind, Except.bind, pure, Except.pure] at h
      subst h
      have hc : convert q v.ty x = some sv := by
        unfold setValue at hs
        repeat' (split at hs)
        all_goals first | cases hs; done | skip
        cases hs; assumption
      refine ⟨v, sv, hv, hc, convert_valid _ _ _ _ hc, ?_⟩
      unfold readSys
      simp [hv, Map.get_put]

example : ∃ st', setGlobal implQ [{ name := "a", scope := .both, dynamic := true, special := false, ty := .int 0 100 false, default := .int 5 }]
    (init []) "a" (.str "42") = .ok st' := ⟨_, rfl⟩

/-- **Scope errors** (`MysqlSystemVariable.SetValue`): a SESSION-only variable cannot be set
globally, a GLOBAL-only one not per session, a non-dynamic one not at all — before any conversion. -/
theorem scope_errors (q : Quirks) (v : Var) (x : Val) :
    (v.scope = .session → setValue q v x true = .error .sessionOnly) ∧
    (v.scope = .global → setValue q v x false = .error .globalOnly) ∧
    (v.dynamic = false → v.scope = .both → ∀ g, setValue q v x g = .error .readOnly) := by
  refine ⟨?_, ?_, ?_⟩
  · intro h; simp [setValue, h]
  · intro h; simp [setValue, h]
  · intro hd hs g; cases g <;> simp [setValue, hs, isReadOnly, hd]

/-- **@uservar returns exactly the value assigned, with its type**, and only in that session
(`set_leaves_other_sessions`): names are case-insensitive. -/
theorem uservar_roundtrip (q : Quirks) (r : Reg) (st : State) (sid : Nat) (s : Session) (n n' : String) (x : Val)
    (hs : st.sess sid = some s) (hn : lower n' = lower n) :
    readItem q r (execAsg q r st sid (.user n, .val x)).1 sid (.user n') = .ok (showVal x, showUTy (litType x)) := by
  simp only [execAsg, evalRhs, hs]
  unfold readItem State.sess
  simp only
  rw [find_putSess]
  simp [Option.bind, Map.get_put, hn]

/-! ### where the code differs from the property -/

/-- Value classes in which `Convert` of the code reinterprets or rounds instead of rejecting. -/
def convRegion : Ty → Val → Bool
  | .int _ _ _, .uint n => decide (n ≥ two63)          -- int64(uint64) reinterpretation
  | .uint _ _, .int i => decide (i < 0)                -- uint64(int64) reinterpretation
  | .uint _ _, .dec _ _ => true                        -- DecimalIntPartUint64: rounded, sign dropped
  | .set _, .int i => decide (i < 0)
  | .set _, .dec m s | .set _, .flt m s => (integral m s).any (decide <| · < 0)
  | .double _ _, .str s => goSyntax s.toList          -- ParseFloat: `_` separators, hexadecimal floats
  | _, _ => false

/- The full statement `∀ ty x, convert implQ ty x = convert specQ ty x` is false
   (`finding_int_uint_reinterpreted`, `finding_uint_decimal_rounded`). -/
theorem wrapI_of_lt {n : Nat} (h : n < two63) : wrapI n = n := by simp [wrapI, h]
theorem wrapU_of_nonneg {i : Int} (h : 0 ≤ i) : wrapU i = i.toNat := by
  have : ¬ i < 0 := by omega
  simp [wrapU, this]

theorem parseFloatL_agree {cs : List Char} (h : goSyntax cs = false) (q q' : Quirks) :
    parseFloatL q cs = parseFloatL q' cs := by
  unfold parseFloatL; simp [h]

theorem convert_agrees_partial (ty : Ty) (x : Val) (h : convRegion ty x = false) :
    convert implQ ty x = convert specQ ty x := by
  cases ty <;> cases x <;> simp [convRegion] at h <;>
    simp [convert, convInt]
  case int.uint n => simp [implQ, specQ, wrapI_of_lt h, h]
  case uint.int i => simp [implQ, specQ, wrapU_of_nonneg h, h]
  case double.str s => rw [parseFloatL_agree h implQ specQ]
  case set.int i => simp [implQ, specQ, wrapU_of_nonneg h, h]
  case set.dec m sc =>
    simp only [implQ, specQ]
    split
    · rename_i i hi
      have : 0 ≤ i := by
        rw [hi] at h; simpa using h
      simp [wrapU_of_nonneg this, this]
    · rfl
  case set.flt m sc =>
    simp only [implQ, specQ]
    split
    · rename_i i hi
      have : 0 ≤ i := by
        rw [hi] at h; simpa using h
      simp [wrapU_of_nonneg this, this]
    · rfl

example : convRegion (.int 0 10 false) (.int 5) = false ∧ convRegion (.uint 0 10) (.int (-1)) = true := by decide

theorem finding_int_uint_reinterpreted :
    ∃ ty x, convert implQ ty x ≠ convert specQ ty x ∧ convert specQ ty x = none :=
  ⟨.int (-9223372036854775808) 9223372036854775807 false, .uint 18446744073709551615, by decide, by decide⟩

theorem finding_uint_decimal_rounded :
    convert implQ (.uint 1 18446744073709551615) (.dec 15 1) = some (.uint 2) ∧
    convert implQ (.uint 1 18446744073709551615) (.dec (-30) 1) = some (.uint 3) ∧
    convert specQ (.uint 1 18446744073709551615) (.dec 15 1) = none ∧
    convert specQ (.uint 1 18446744073709551615) (.dec (-30) 1) = none := by decide

/-- A small registry for the statement-level witnesses. -/
def mkVar (name : String) (scope : Scope) (dynamic : Bool) (ty : Ty) (default : SVal) : Var :=
  { name := name, scope := scope, dynamic := dynamic, special := false, ty := ty, default := default }

def r0 : Reg := [
  mkVar "lim" .both true (.int 0 2147483647 true) (.int 2147483647),
  mkVar "errs" .both true (.int 0 65535 false) (.int 1024),
  mkVar "conns" .global true (.int 1 100000 false) (.int 151),
  mkVar "port" .global false (.int 0 65535 false) (.int 33062)]

def sref (n : String) : Target := .sys ⟨.session, false, n⟩
def gref (n : String) : Target := .sys ⟨.global, true, n⟩

/-- `SET lim = 10, errs = -5` fails on the second assignment and keeps the first. -/
theorem finding_multi_assign_partial_effect :
    let h := [Stmt.newSession 1, .set 1 [(sref "lim", .lit (.int 10)), (sref "errs", .lit (.int (-5)))], .get 1 [sref "lim"]]
    (run implQ r0 (init r0) h).2 = [.ok, .err .invalid, .row [("10", "sys")]] ∧
    (run specQ r0 (init r0) h).2 = [.ok, .err .invalid, .row [("2147483647", "sys")]] := by decide

/-- `SET PERSIST port = 100` is rejected (read-only) but the persisted map has the value. -/
theorem finding_persist_before_checks :
    let h := [Stmt.newSession 1, .set 1 [(.sys ⟨.persist, false, "port"⟩, .lit (.int 100))], .getPersisted "port"]
    (run implQ r0 (init r0) h).2 = [.ok, .err .readOnly, .row [("100", "persisted")]] ∧
    (run specQ r0 (init r0) h).2 = [.ok, .err .readOnly, .row [("none", "persisted")]] := by decide

/-- After `SET GLOBAL conns = 500`, `@@conns` in the same session still shows the start-up copy. -/
theorem finding_global_only_stale_read :
    let h := [Stmt.newSession 1, .set 1 [(.sys ⟨.global, false, "conns"⟩, .lit (.int 500))], .get 1 [sref "conns", gref "conns"]]
    (run implQ r0 (init r0) h).2 = [.ok, .ok, .row [("151", "sys"), ("500", "sys")]] ∧
    (run specQ r0 (init r0) h).2 = [.ok, .ok, .row [("500", "sys"), ("500", "sys")]] := by decide

/- Full statement (false on the unchanged tree, see the witness above):
     theorem unqualified_read_is_current : readScoped implQ r st sid false n = readScoped specQ r st sid false n -/
theorem unqualified_read_is_current_partial (r : Reg) (st : State) (sid : Nat) (n : String)
    (h : ∀ v, r.find n = some v → isGlobalOnly v = false ∧ v.catalog = none) (g : Bool) :
    readScoped implQ r st sid g n = readScoped specQ r st sid g n := by
  unfold readScoped
  cases hv : r.find n with
  | none => rfl
  | some v => simp [(h v hv).1, (h v hv).2]

example : ∀ v, r0.find "lim" = some v → isGlobalOnly v = false ∧ v.catalog = none := by decide

/-! ### string → typed value: decimal only -/

/-- The string arm of `convert` for the numeric types is `convStr` on the characters. -/
theorem convert_str (q : Quirks) (ty : Ty) (s : String) (h : numericTy ty = true) :
    convert q ty (.str s) = convStr q ty s.toList := by
  cases ty <;> simp [numericTy] at h <;> rfl

/-- **The compiled `Convert` agrees with the model on the probe strings**: run-time table of
system_int (wide and narrow range), system_uint, system_double (two ranges) and system_bool over
plain decimals, leading zeros, signs, blanks, `0x` / `0b` / `0o` prefixes, underscores, exponent and
hexadecimal-float forms, non-ASCII digits, 64-bit boundaries (regenerated on every run). -/
theorem facts_convert_strings : ∀ e ∈ strFacts, (convStr implQ e.1 e.2.1).map normSV = e.2.2 := by
  decide +kernel

example : strFacts.length > 500 ∧ (strFacts.filter (·.2.2.isSome)).length > 100 := by decide +kernel

/-- **Which strings denote which integer.** If an integer variable accepts a string, the string is
an optional sign followed by a non-empty run of decimal digits, and the stored value is the signed
decimal (Horner) value of those digits — for the code and for the property, every range. -/
theorem int_string_is_decimal (q : Quirks) (lo hi : Int) (neg : Bool) (s : String) (sv : SVal)
    (h : convert q (.int lo hi neg) (.str s) = some sv) :
    ∃ ds, ds ≠ [] ∧ (∀ c ∈ ds, isDig c = true) ∧
      ((s.toList = '-' :: ds ∧ sv = .int (-(decValue ds : Int))) ∨
       (s.toList = '+' :: ds ∧ sv = .int (decValue ds : Int)) ∨
       (s.toList = ds ∧ sv = .int (decValue ds : Int))) := by
  simp only [convert] at h
  cases hp : parseIntL s.toList with
  | none => simp [hp] at h
  | some i =>
    simp only [hp] at h
    have hsv : sv = .int i := by
      unfold convInt at h
      split at h <;> first | (cases h; rfl) | cases h
    obtain ⟨ds, h0, h1, h2⟩ := parseIntL_sound _ _ hp
    refine ⟨ds, h0, h1, ?_⟩
    rcases h2 with ⟨e, v⟩ | ⟨e, v⟩ | ⟨e, v⟩
    · exact Or.inl ⟨e, by rw [hsv, v]⟩
    · exact Or.inr (Or.inl ⟨e, by rw [hsv, v]⟩)
    · exact Or.inr (Or.inr ⟨e, by rw [hsv, v]⟩)

/-- A string containing any character other than a decimal digit or a sign — a base prefix letter,
an underscore, a blank, an exponent letter, a point — is rejected by every integer variable. -/
theorem int_string_rejects_nondecimal (q : Quirks) (lo hi : Int) (neg : Bool) (s : String) (c : Char)
    (hc : c ∈ s.toList) (hd : isDig c = false) (hs : c ≠ '+' ∧ c ≠ '-') :
    convert q (.int lo hi neg) (.str s) = none := by
  simp only [convert, parseIntL_rejects s.toList c hc hd hs]

/-- Leading zeros are decimal: zero-padding a digit string does not change what it denotes
(`'010'` is ten). -/
theorem leading_zero_is_decimal (q : Quirks) (lo hi : Int) (neg : Bool) (ds : List Char) (h : ds ≠ [])
    (hd : ∀ c ∈ ds, isDig c = true) :
    convStr q (.int lo hi neg) ('0' :: ds) = convStr q (.int lo hi neg) ds ∧
    convStr q (.int lo hi neg) ('-' :: '0' :: ds) = convStr q (.int lo hi neg) ('-' :: ds) ∧
    convStr q (.int lo hi neg) ('+' :: '0' :: ds) = convStr q (.int lo hi neg) ('+' :: ds) := by
  cases ds with
  | nil => exact absurd rfl h
  | cons d ds =>
    have hdig := hd d (by simp)
    have hm : d ≠ '-' := by intro e; subst e; revert hdig; decide
    have hp : d ≠ '+' := by intro e; subst e; revert hdig; decide
    refine ⟨?_, ?_, ?_⟩
    · simp [convStr, parseIntL, parseNat_leading_zero (d :: ds) (by simp), hm, hp]
    · simp [convStr, parseIntL, parseNat_leading_zero (d :: ds) (by simp)]
    · simp [convStr, parseIntL, parseNat_leading_zero (d :: ds) (by simp)]

example : convStr implQ (.int 1 1000 false) ['0', '1', '0'] = some (.int 10) ∧
    convStr implQ (.int 1 1000 false) ['0', 'x', '1', '0'] = none ∧
    convStr implQ (.int 1 1000 false) ['1', '_', '0'] = none ∧
    convStr implQ (.int 1 1000 false) ['0', '8'] = some (.int 8) := by decide

/-- An unsigned variable has no string arm at all; a boolean one only the four keywords. -/
theorem uint_rejects_strings (q : Quirks) (lo hi : Nat) (s : String) : convert q (.uint lo hi) (.str s) = none := rfl

theorem bool_string_keywords (q : Quirks) (s : String) (sv : SVal) (h : convert q .bool (.str s) = some sv) :
    s.toList.map lowerC ∈ [['o', 'n'], ['t', 'r', 'u', 'e'], ['o', 'f', 'f'], ['f', 'a', 'l', 's', 'e']] := by
  simp only [convert] at h
  have hne : boolOfChars s.toList ≠ none := by intro e; simp [e] at h
  unfold boolOfChars at hne
  simp only at hne
  by_cases h1 : s.toList.map lowerC = ['o', 'n'] ∨ s.toList.map lowerC = ['t', 'r', 'u', 'e']
  · rcases h1 with h1 | h1 <;> simp [h1]
  · by_cases h2 : s.toList.map lowerC = ['o', 'f', 'f'] ∨ s.toList.map lowerC = ['f', 'a', 'l', 's', 'e']
    · rcases h2 with h2 | h2 <;> simp [h2]
    · simp [h1, h2] at hne

/-- Under the property a double variable accepts decimal notation only: no underscore, no `0x`. -/
theorem double_spec_rejects_go_syntax (lo hi : Int) (s : String) (h : goSyntax s.toList = true) :
    convert specQ (.double lo hi) (.str s) = none := by
  simp [convert, parseFloatL, h, specQ]

/- The same about the code is false: `strconv.ParseFloat` accepts `_` between digits and
hexadecimal floats (region `double_string_go_syntax`). -/
theorem finding_double_string_go_syntax :
    convStr implQ (.double 0 100000) ['1', '_', '0', '0', '0'] = some (.dbl 1000 0) ∧
    convStr implQ (.double 0 100000) ['0', 'x', '1', 'p', '4'] = some (.dbl 16 0) ∧
    convStr specQ (.double 0 100000) ['1', '_', '0', '0', '0'] = none ∧
    convStr specQ (.double 0 100000) ['0', 'x', '1', 'p', '4'] = none ∧
    convStr specQ (.double 0 100000) ['1', 'e', '3'] = some (.dbl 1000 0) := by decide

/-! ### scopes of the coupled character-set / collation variables -/

/-- **A SET without SESSION targets changes no session** — neither another one nor the one that
issued it: every session's system variables and user variables are the same before and after a SET
whose targets are all GLOBAL / PERSIST / PERSIST_ONLY system variables, whatever its outcome and
including the counterparts of coupled variables. -/
theorem global_set_leaves_all_sessions (q : Quirks) (r : Reg) (st : State) (sid : Nat) (asgs : List (Target × Rhs))
    (h : ∀ a ∈ asgs, globalishTarget a.1 = true) :
    (step q r st (.set sid asgs)).1.sessions = st.sessions := by
  have key : (execSet q r st sid asgs).1.sessions = st.sessions := by
    unfold execSet
    split
    · rfl
    · rename_i ps hp
      have hps : ∀ p ∈ ps, globalishTarget p.1 = true := by
        intro p hpm
        have hm : p.1 ∈ ps.map (·.1) := List.mem_map_of_mem hpm
        rw [planSet_fst asgs hp] at hm
        obtain ⟨a, ha, e⟩ := List.mem_map.1 hm
        rw [← e, globalish_norm]; exact h a ha
      have h1 := execAsgs_nonsession_sessions (q := q) (r := r) (sid := sid) ps (st := st) hps
      split
      · rename_i st' he; rw [he] at h1; exact h1
      · rename_i st' e he
        rw [he] at h1
        split
        · exact h1
        · split <;> rfl
  simp only [step]
  split <;> (rename_i he; rw [he] at key; exact key)

/-- **The counterpart follows in the scope of the statement (GLOBAL).** After a successful
`SET GLOBAL x = v` of a coupled variable, `@@global.<counterpart>` is the value derived from `v`
(default collation of the character set / character set of the collation), converted by the
counterpart's own type, and no session changed. -/
theorem coupled_global_follows (q : Quirks) (r : Reg) (st st' : State) (sid : Nat) (t : SysRef) (x : Val)
    (other : String) (tbl : List (String × String))
    (hsc : t.scope = .global) (hc : coupleOf r t.name = some (other, tbl))
    (h : setSystemVar q r st sid t x = (st', none)) :
    ∃ y vo svo, coupledVal tbl x = .ok y ∧ r.find other = some vo ∧ convert q vo.ty y = some svo ∧
      readSys r st' sid true other = .ok (vo.ty, svo) ∧ st'.sessions = st.sessions := by
  have hs : st'.sessions = st.sessions := by
    have := setSystemVar_nonsession_sessions (q := q) (r := r) (st := st) (sid := sid) (t := t) (v := x)
      (by rw [hsc]; decide)
    rw [h] at this; exact this
  unfold setSystemVar at h
  split at h
  · cases h
  · rename_i st1 h1
    rw [hc] at h
    simp only at h
    cases hv : coupledVal tbl x with
    | error e => simp [hv] at h
    | ok y =>
      simp only [hv, hsc] at h
      have hg : setGlobal q r st1 other y = .ok st' := by
        unfold scopeSetValue at h
        exact lift_ok h
      obtain ⟨vo, svo, hf, hcv, _, hr⟩ := set_global_then_read q r st1 st' sid other y hg
      exact ⟨y, vo, svo, rfl, hf, hcv, hr, hs⟩

/-- **The counterpart follows in the scope of the statement (SESSION).** After a successful
`SET SESSION x = v` of a coupled variable the issuing session reads the derived value for the
counterpart, and the global values and the persisted map are unchanged. -/
theorem coupled_session_follows (q : Quirks) (r : Reg) (st st' : State) (sid : Nat) (t : SysRef) (x : Val)
    (other : String) (tbl : List (String × String))
    (hsc : t.scope = .session) (hc : coupleOf r t.name = some (other, tbl))
    (h : setSystemVar q r st sid t x = (st', none)) :
    ∃ y vo svo, coupledVal tbl x = .ok y ∧ r.find other = some vo ∧ convert q vo.ty y = some svo ∧
      readSys r st' sid false other = .ok (vo.ty, svo) ∧ st'.global = st.global ∧ st'.persisted = st.persisted := by
  have hs := setSystemVar_session_globals (q := q) (r := r) (st := st) (sid := sid) (t := t) (v := x) hsc
  rw [h] at hs
  unfold setSystemVar at h
  split at h
  · cases h
  · rename_i st1 h1
    rw [hc] at h
    simp only at h
    cases hv : coupledVal tbl x with
    | error e => simp [hv] at h
    | ok y =>
      simp only [hv, hsc] at h
      have hg : setSessionVar q r st1 sid other y = .ok st' := by
        unfold scopeSetValue at h
        exact lift_ok h
      obtain ⟨vo, svo, hf, hcv, _, hr⟩ := set_session_then_read q r st1 st' sid other y hg
      exact ⟨y, vo, svo, rfl, hf, hcv, hr, hs.1, hs.2⟩

/-- A small registry with a coupled pair, a catalog variable and a double. -/
def csT : List (String × String) := [("", "utf8mb4_0900_bin"), ("latin1", "latin1_swedish_ci"), ("utf8mb4", "utf8mb4_0900_ai_ci")]
def coT : List (String × String) := [("", "utf8mb4"), ("latin1_bin", "latin1"), ("latin1_swedish_ci", "latin1"),
  ("utf8mb4_0900_ai_ci", "utf8mb4"), ("utf8mb4_0900_bin", "utf8mb4")]

def r1 : Reg := [
  { name := "cs_server", scope := .both, dynamic := true, special := false, ty := .string, default := .str "utf8mb4",
    allowed := some (csT.map (·.1)), couple := some ("co_server", csT) },
  { name := "co_server", scope := .both, dynamic := true, special := false, ty := .string, default := .str "utf8mb4_0900_bin",
    allowed := some (coT.map (·.1)), couple := some ("cs_server", coT) },
  { name := "cs_db", scope := .both, dynamic := true, special := false, ty := .string, default := .str "utf8mb4",
    allowed := some (csT.map (·.1)), catalog := some (.str "utf8mb4") }]

/-- `SET GLOBAL co_server = 'LATIN1_bin'` in session 1: both halves change globally, no session
value changes (sessions 1 and 2 keep their start-up copies), a new session starts with both — the
same for the code and the property. -/
theorem coupled_global_witness :
    let both (sid : Nat) := Stmt.get sid [sref "cs_server", gref "cs_server", sref "co_server", gref "co_server"]
    let h := [Stmt.newSession 1, .newSession 2,
      .set 1 [(.sys ⟨.global, false, "co_server"⟩, .lit (.str "LATIN1_bin"))], both 1, both 2, .newSession 3, both 3]
    (run implQ r1 (init r1) h).2 = [.ok, .ok, .ok,
      .row [("utf8mb4", "sys"), ("latin1", "sys"), ("utf8mb4_0900_bin", "sys"), ("LATIN1_bin", "sys")],
      .row [("utf8mb4", "sys"), ("latin1", "sys"), ("utf8mb4_0900_bin", "sys"), ("LATIN1_bin", "sys")],
      .ok,
      .row [("latin1", "sys"), ("latin1", "sys"), ("LATIN1_bin", "sys"), ("LATIN1_bin", "sys")]] ∧
    (run specQ r1 (init r1) h).2 = (run implQ r1 (init r1) h).2 := by decide

/-- The defect class (counterpart written through the SESSION scope, `setSystemVarSess`): a
`SET GLOBAL` then changes the issuing session — which `global_set_leaves_all_sessions` excludes for
the model of the code. -/
theorem counterpart_in_session_scope_diverges :
    let st := newSession (init r1) 1
    let t : SysRef := ⟨.global, false, "co_server"⟩
    (setSystemVarSess implQ r1 st 1 t (.str "latin1_bin")).1.sessions ≠ st.sessions ∧
    (setSystemVar implQ r1 st 1 t (.str "latin1_bin")).1.sessions = st.sessions ∧
    (readSys r1 (setSystemVarSess implQ r1 st 1 t (.str "latin1_bin")).1 1 true "cs_server").toOption = some (.string, .str "utf8mb4") ∧
    (readSys r1 (setSystemVar implQ r1 st 1 t (.str "latin1_bin")).1 1 true "cs_server").toOption = some (.string, .str "latin1") := by
  decide

/-- `SET NAMES latin1`-shaped statement on the small registry: an unknown name is rejected by the
validator without effect. -/
example : (run implQ r1 (init r1) [.newSession 1, .set 1 [(sref "cs_server", .lit (.str "nosuch"))],
    .get 1 [sref "cs_server", sref "co_server"]]).2 =
    [.ok, .err .charset, .row [("utf8mb4", "sys"), ("utf8mb4_0900_bin", "sys")]] := by decide

/-- `character_set_database` / `collation_database`: a SESSION-scope read is answered from the
current database — the value just assigned is not read back, and a new session does not see the
global value. -/
theorem finding_database_charset_read_from_catalog :
    let h := [Stmt.newSession 1, .set 1 [(sref "cs_db", .lit (.str "latin1"))], .get 1 [sref "cs_db"],
      .set 1 [(.sys ⟨.global, false, "cs_db"⟩, .lit (.str "latin1"))], .newSession 2, .get 2 [sref "cs_db", gref "cs_db"]]
    (run implQ r1 (init r1) h).2 = [.ok, .ok, .row [("utf8mb4", "sys")], .ok, .ok, .row [("utf8mb4", "sys"), ("latin1", "sys")]] ∧
    (run specQ r1 (init r1) h).2 = [.ok, .ok, .row [("latin1", "sys")], .ok, .ok, .row [("latin1", "sys"), ("latin1", "sys")]] := by
  decide

/-- The registry as compiled: exactly the four coupled variables, each with its counterpart, and the
two catalog variables; every one of them is validated (`allowed`). -/
theorem facts_charset_family :
    (sysvars.filter (·.couple.isSome)).map (fun v => (v.name, v.couple.map (·.1))) =
      [("character_set_connection", some "collation_connection"), ("character_set_server", some "collation_server"),
       ("collation_connection", some "character_set_connection"), ("collation_server", some "character_set_server")] ∧
    (sysvars.filter (·.catalog.isSome)).map (·.name) = ["character_set_database", "collation_database"] ∧
    (sysvars.filter fun v => (v.couple.isSome || v.catalog.isSome) && (v.allowed.isNone || v.special)).length = 0 := by
  decide +kernel


end Gms.C44
