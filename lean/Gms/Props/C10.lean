/-
C10 — No SQL input crashes the engine (partial: proof for the modelled cores + exploration).

"The Go code panics" is an explicit outcome of the models in Gms/Model/Crash.lean,
Gms/Model/RangeMap.lean and Gms/Model/JsonQuote.lean. Proved here, for all inputs:

* character-set conversion (`RangeMap.Decode/Encode/EncodeReplaceUnknown`, any table): `Decode` and
  `EncodeReplaceUnknown` never panic; `Encode` never panics when its search loop has the length
  guard, and without the guard it panics exactly in the tail region (`encode_unguarded_crash_iff`)
  and otherwise agrees with the guarded loop; whether the guard is present is re-read from the
  source on every run (`encode_guard_present`);
* `internal/strings.Unquote` (JSON_UNQUOTE): the Spec never panics, the code agrees with it off the
  listed region, `finding_unquote_bad_unicode_escape` is the witness that it panics inside;
* `validateMysqlNativePassword` (as repaired by d3c438db7): never panics and equals its Spec for all
  inputs (`native_password_total_safe`, `native_password_eq_spec`); the pre-fix code panicked exactly
  for responses of 1..19 bytes (`nativePasswordPreFix_crash_iff`, `fixed_native_password_short_response`).

Everything else of the engine is explored, not proved: the harness runs statement streams through
`Engine.Query` and lists the crash sites it reaches (known_findings/C10.jsonl, regions `panic:<site>`);
which panics the query path converts into errors is a regenerated fact (`facts_match`).
-/
import Gms.Model.Crash
import Gms.Lemmas.RangeMap
import Gms.Generated.C10

namespace Gms.JsonQuote

theorem unescape_strict_never_crashes (s : Bytes) : unescape true s ≠ .crash := by
  fun_induction unescape true s <;> simp_all [Res.cons, Res.app]
  all_goals (first | (split <;> simp_all) | skip)

end Gms.JsonQuote

namespace Gms.Crash

theorem xorLoop_none_iff : ∀ (s r : List Nat), xorLoop s r = none ↔ r.length < s.length
  | [], r => by simp [xorLoop]
  | _ :: ss, [] => by simp [xorLoop]
  | _ :: ss, _ :: rs => by
    have ih := xorLoop_none_iff ss rs
    simp only [xorLoop, Option.map_eq_none_iff, List.length_cons]
    rw [ih]; omega

end Gms.Crash

namespace Gms.C10
open Gms.RangeMap Gms.Crash Gms.JsonQuote

/-! ### regenerated facts -/

/-- Which panics the query path turns into errors, and the shape of the guarded code, as read
from the source on every run: `Engine.Query` / `QueryWithBindings` recover nothing; the planbuilder
recovers only its own `parseErr`, `replanJoin` only `memo.MemoErr` (everything else is re-panicked);
`Decode` has the length guard, `EncodeReplaceUnknown` bounds its search by `len(str)`;
`validateMysqlNativePassword` returns early for an empty response / empty or non-hex stored hash
and — the repair of F-C40-a, commit d3c438db7 — for `len(authResponse) != len(scramble)`, and only
then runs `for i := range scramble { scramble[i] ^= authResponse[i] }` (if that guard disappears
this obligation breaks and the real code disagrees with the model on 1..19-byte responses); `Unquote` guards
`s[i+1 : i+5]` with `i+4 > len(s)`. -/
theorem facts_match :
    Generated.C10.decodeHasLengthGuard = true ∧
    Generated.C10.replaceLoopBoundedByLen = true ∧
    Generated.C10.recoverQueryWithBindings = [] ∧
    Generated.C10.recoverQuery = [] ∧
    Generated.C10.recoverParse = ["parseErr"] ∧
    Generated.C10.recoverBindOnly = ["parseErr"] ∧
    Generated.C10.recoverReplanJoin = ["memo.MemoErr"] ∧
    Generated.C10.nativePasswordEarlyReturns =
      ["len(authResponse) == 0 || len(mysqlNativePassword) == 0", "err != nil", "len(authResponse) != len(scramble)"] ∧
    Generated.C10.nativePasswordLoop = "range scramble: { scramble[i] ^= authResponse[i] }" ∧
    Generated.C10.unquoteUnicodeGuard = "i+4 > len(s)" := by decide

/-- `Encode`'s search loop has `Decode`'s length guard (the repair of F-C10-a / C30
`encode_unrepresentable_tail`). If the guard disappears this obligation breaks, and the driver —
which instantiates `encodeG` with the regenerated flag — predicts the panics. -/
theorem encode_guard_present : Generated.C10.encodeHasLengthGuard = true := by decide

/-! ### character-set conversion -/

/-- **`Decode` never panics**, for any table and any bytes. -/
theorem decode_total_safe (rm : RangeMap) (s : List Nat) : decode rm s ≠ .crash :=
  convLoop_guard_no_crash _ _ _ _

/-- **`Encode` with the length guard never panics**, for any table and any bytes. -/
theorem encode_total_safe (rm : RangeMap) (s : List Nat) : encodeG true rm s ≠ .crash :=
  convLoop_guard_no_crash _ _ _ _

/-- `Encode` as compiled (guard flag from the source) never panics. -/
theorem encode_as_compiled_safe (rm : RangeMap) (s : List Nat) :
    encodeG Generated.C10.encodeHasLengthGuard rm s ≠ .crash := by
  rw [encode_guard_present]; exact encode_total_safe rm s

/-- **`EncodeReplaceUnknown` always returns a string.** -/
theorem replace_total_safe (rm : RangeMap) (s : List Nat) : ∃ b, replace rm s = .ok b :=
  replLoop_total _ _ _ _ _ (Nat.lt_succ_self _)

/-- Without the guard `Encode` either panics or does what the guarded loop does … -/
theorem encode_unguarded_cases (rm : RangeMap) (s : List Nat) :
    encodeG false rm s = .crash ∨ encodeG false rm s = encodeG true rm s :=
  convLoop_unguarded_cases _ _ _ _

/-- … and it panics exactly when the search reaches a rest of the string that is shorter than the
longest unit of the table and has no convertible prefix (region `rangemap_encode_unguarded_tail`). -/
theorem encode_unguarded_crash_iff (rm : RangeMap) (s : List Nat) :
    encodeG false rm s = .crash ↔ TailAt (encodeRune rm) rm.inE.length s :=
  convLoop_crash_iff _ _ _ _ (Nat.lt_succ_self _)

/-- The repaired defect F-C10-a on the regenerated latin1 table: `é` given as the latin1 byte E9
(not UTF-8) made the unguarded loop slice `str[:2]` of a one-byte string. -/
theorem fixed_rangemap_encode_unguarded_tail :
    encodeG false Generated.C10.latin1 [0xE9] = .crash ∧ encodeG true Generated.C10.latin1 [0xE9] = .fail ∧
    encodeG false Generated.C10.latin1 [97, 0xC4, 0x80] = .crash := by decide +kernel

/-- Non-vacuity: conversions that succeed, on the regenerated tables. -/
example : encodeG true Generated.C10.latin1 [104, 0xC3, 0xA9] = .ok [104, 0xE9] ∧
    decode Generated.C10.utf16 [0, 0x41] = .ok [0x41] ∧ replace Generated.C10.latin1 [0xC4, 0x80, 97, 98, 99, 100] = .ok [63, 97, 98, 99, 100] := by
  decide +kernel

/-! ### Unquote -/

/-- The Spec of `Unquote` never panics. -/
theorem unquoteSpec_total_safe (s : Bytes) : unquoteSpec s ≠ .crash := by
  unfold unquoteSpec unquoteWith
  have := unescape_strict_never_crashes s
  cases h : unescape true s <;> simp_all

/-- FULL STATEMENT (false on the unchanged tree): `∀ s, unquote s ≠ .crash`.
**Partial**: `Unquote` does not panic off the region `crashes` (a `\u` escape followed by exactly
three more bytes, or naming a surrogate, before any earlier error). -/
theorem unquote_safe_partial (s : Bytes) (h : crashes s = false) : unquote s ≠ .crash := by
  unfold crashes at h
  unfold unquote unquoteWith
  cases hu : unescape false s <;> simp_all

/-- Finding (C32 `unquote_bad_unicode_escape_panics`, reachable as `SELECT JSON_UNQUOTE('\\u123')`). -/
theorem finding_unquote_bad_unicode_escape :
    ∃ s, unquote s = .crash ∧ unquoteSpec s ≠ .crash :=
  ⟨[92, 117, 49, 50, 51], by decide, by decide⟩

example : unquote [92, 117, 100, 56, 48, 48] = .crash ∧ crashes [92, 117, 49, 50, 51] = true ∧
    crashes [92, 117, 48, 48, 52, 49] = false ∧ unquote [92, 117, 48, 48, 52, 49] = .ok [65] := by decide

/-! ### mysql_native_password -/

/-- **The password check never panics** (any scramble, any response, any stored hash): the byte
loop is only reached with a response exactly as long as the scramble. -/
theorem native_password_total_safe (scramble resp : List Nat) (hashOk : Bool) :
    nativePassword scramble resp hashOk ≠ .crash := by
  unfold nativePassword
  by_cases he : resp.isEmpty
  · simp [he]
  · cases hashOk
    · simp [he]
    · by_cases hl : resp.length = scramble.length
      · simp only [he, Bool.false_eq_true, if_false, Bool.not_true, hl, ne_eq, not_true_eq_false]
        cases hx : xorLoop scramble resp with
        | none => have := (xorLoop_none_iff scramble resp).mp hx; omega
        | some v => simp
      · simp [he, hl]

/-- **The code is the Spec**, for all inputs (this was `native_password_partial`, guarded by the
region 1 ≤ len(response) < 20, before the repair). -/
theorem native_password_eq_spec (scramble resp : List Nat) (hashOk : Bool) :
    nativePassword scramble resp hashOk = nativePasswordSpec scramble resp hashOk := by
  unfold nativePassword nativePasswordSpec
  by_cases he : resp.isEmpty
  · simp [he]
  · cases hashOk
    · simp [he]
    · by_cases hl : resp.length = scramble.length
      · simp only [he, Bool.false_eq_true, if_false, Bool.not_true, hl, ne_eq, not_true_eq_false]
        cases hx : xorLoop scramble resp with
        | none => have := (xorLoop_none_iff scramble resp).mp hx; omega
        | some v => rfl
      · simp [he, hl]

/-- Before the repair the byte loop panicked exactly for a non-empty response shorter than the
SHA-1, checked against a usable stored hash. -/
theorem nativePasswordPreFix_crash_iff (scramble resp : List Nat) (hashOk : Bool) :
    nativePasswordPreFix scramble resp hashOk = .crash ↔ (resp ≠ [] ∧ hashOk = true ∧ resp.length < scramble.length) := by
  unfold nativePasswordPreFix
  by_cases he : resp.isEmpty
  · have : resp = [] := List.isEmpty_iff.mp he
    simp [this]
  · have hne : resp ≠ [] := fun h => he (by simp [h])
    cases hashOk
    · simp [he]
    · simp only [he, Bool.false_eq_true, if_false, Bool.not_true]
      cases hx : xorLoop scramble resp with
      | none => have := (xorLoop_none_iff scramble resp).mp hx; simp [hne, this]
      | some v =>
        have : ¬ resp.length < scramble.length := fun h => by
          have := (xorLoop_none_iff scramble resp).mpr h; rw [hx] at this; cases this
        simp [this]

/-- F-C40-a (repaired by d3c438db7). Witness of the repaired defect: a 19-byte response against a
20-byte scramble made the pre-fix code panic; the repaired code rejects it. A 21-byte response whose
first 20 bytes are a valid token was compared (trailing bytes ignored) and is now rejected too. -/
theorem fixed_native_password_short_response :
    nativePasswordPreFix (List.replicate 20 0) (List.replicate 19 1) true = .crash ∧
    nativePassword (List.replicate 20 0) (List.replicate 19 1) true = .rejected ∧
    nativePasswordPreFix (List.replicate 20 0) (List.replicate 21 1) true = .compared ∧
    nativePassword (List.replicate 20 0) (List.replicate 21 1) true = .rejected := by decide

example : nativePassword (List.replicate 20 7) (List.replicate 20 1) true = .compared ∧
    nativePassword (List.replicate 20 7) [] true = .rejected ∧
    nativePassword (List.replicate 20 7) (List.replicate 20 1) false = .rejected ∧
    nativePassword (List.replicate 20 7) [1] true = .rejected := by decide

end Gms.C10
