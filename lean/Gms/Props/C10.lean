/-
C10 — No SQL input crashes the engine (partial: proof for the modelled cores + exploration).

"The Go code panics" is an explicit outcome of the models in Gms/Model/Crash.lean,
Gms/Model/RangeMap.lean and Gms/Model/JsonQuote.lean. Proved here, for all inputs:

* character-set conversion (`RangeMap.Decode/Encode/EncodeReplaceUnknown`, any table): `Decode` and
  `EncodeReplaceUnknown` never panic; `Encode` never panics when its search loop has the length
  guard, and without the guard it panics exactly in the tail region (`encode_unguarded_crash_iff`)
  and otherwise agrees with the guarded loop; whether the guard is present is re-read from the
  source on every run (`encode_guard_present`);
* `internal/strings.Unquote` (JSON_UNQUOTE): the Spec never panics, the code agrees with it off the
  listed region, `finding_unquote_bad_unicode_escape` is the witness that it panics inside;
* `validateMysqlNativePassword` (as repaired by d3c438db7): never panics and equals its Spec for all
  inputs (`native_password_total_safe`, `native_password_eq_spec`); the pre-fix code panicked exactly
  for responses of 1..19 bytes (`nativePasswordPreFix_crash_iff`, `fixed_native_password_short_response`).

Everything else of the engine is explored, not proved: the harness runs statement streams through
`Engine.Query` and lists the crash sites it reaches (known_findings/C10.jsonl, regions `panic:<site>`);
which panics the query path converts into errors is a regenerated fact (`facts_match`).
-/
import Gms.Model.Crash
import Gms.Model.SliceMap
import Gms.Model.StoredReparse
import Gms.Lemmas.RangeMap
import Gms.Generated.C10

namespace Gms.JsonQuote

theorem unescape_strict_never_crashes (s : Bytes) : unescape true s ≠ .crash := by
  fun_induction unescape true s <;> simp_all [Res.cons, Res.app]
  all_goals (first | (split <;> simp_all) | skip)

end Gms.JsonQuote


namespace Gms.SliceMap
open Gms.Utf8 Gms.ScalarFn

/-- `strings.Index` reports an offset inside the string it searched. -/
theorem indexOf_le (sub : Bytes) : ∀ (t : Bytes) (r : Nat), indexOf sub t = some r → r ≤ t.length
  | [], r, h => by
    unfold indexOf at h
    split at h <;> simp_all
  | c :: cs, r, h => by
    unfold indexOf at h
    split at h
    · simp at h; omega
    · cases hi : indexOf sub cs with
      | none => simp [hi] at h
      | some k =>
        have := indexOf_le sub cs k hi
        simp [hi] at h
        simp only [List.length_cons]; omega

/-- `utf8.DecodeRune` never reports a width beyond the bytes it was given. -/
theorem decodeRune1_width_le (b0 : Nat) (rest : Bytes) : (decodeRune1 b0 rest).2 ≤ rest.length + 1 := by
  unfold decodeRune1
  split
  · simp
  · split <;> (try split) <;> simp <;> omega

theorem runeOffset_le : ∀ (k : Nat) (s : Bytes), runeOffset k s ≤ s.length
  | 0, _ => by simp [runeOffset]
  | _ + 1, [] => by simp [runeOffset]
  | k + 1, b0 :: rest => by
    have hw := decodeRune1_width_le b0 rest
    have ih := runeOffset_le k ((b0 :: rest).drop (decodeRune1 b0 rest).2)
    simp only [runeOffset, List.length_cons]
    simp only [List.length_drop, List.length_cons] at ih
    omega

end Gms.SliceMap

namespace Gms.StoredReparse

theorem step_preserves_inv {Text : Type} (parses : Opts → Text → Bool) (pol : Policy) (s : St Text) (x : Stmt Text)
    (h : Inv parses s) : Inv parses (step parses pol s x).1 := by
  cases x with
  | setMode m => exact h
  | create n t =>
    simp only [step]
    split
    · exact h
    · split
      · exact h
      · intro e he
        simp only [List.mem_cons] at he
        rcases he with rfl | he
        · simp_all
        · exact h e he
  | call n =>
    simp only [step]
    split
    · exact h
    · split <;> exact h
  | list =>
    simp only [step]
    split <;> exact h

theorem lookup_mem {Text : Type} (s : St Text) (n : Nat) (r : Mode) (t : Text) (h : s.lookup n = some (r, t)) :
    ∃ e ∈ s.store, e.2.1 = r ∧ e.2.2 = t := by
  unfold St.lookup at h
  cases hf : s.store.find? (fun e => e.1 == n) with
  | none => simp [hf] at h
  | some e =>
    simp [hf] at h
    exact ⟨e, List.mem_of_find?_eq_some hf, by rw [h], by rw [h]⟩

/-- With the recorded-mode policy one statement never panics on a store that satisfies the invariant. -/
theorem step_recorded_no_crash {Text : Type} (parses : Opts → Text → Bool) (s : St Text) (x : Stmt Text)
    (h : Inv parses s) : (step parses recordedPolicy s x).2 ≠ .crash := by
  cases x with
  | setMode m => simp [step]
  | create n t => simp only [step]; split <;> (try split) <;> simp
  | call n =>
    simp only [step]
    split
    · simp
    · rename_i r t hl
      obtain ⟨e, he, h1, h2⟩ := lookup_mem s n r t hl
      have := h e he
      simp [recordedPolicy, ← h1, ← h2, this]
  | list =>
    simp only [step]
    have : s.store.all (fun e => parses (optsOf (recordedPolicy e.2.1 s.sess)) e.2.2) = true := by
      simp only [List.all_eq_true, recordedPolicy]
      exact fun e he => h e he
    simp [this]

theorem run_recorded_no_crash {Text : Type} (parses : Opts → Text → Bool) :
    ∀ (h : List (Stmt Text)) (s : St Text), Inv parses s → Obs.crash ∉ run parses recordedPolicy s h
  | [], _, _ => by simp [run]
  | x :: xs, s, hi => by
    simp only [run, List.mem_cons, not_or]
    exact ⟨fun e => step_recorded_no_crash parses s x hi e.symm,
      run_recorded_no_crash parses xs _ (step_preserves_inv parses recordedPolicy s x hi)⟩

end Gms.StoredReparse

namespace Gms.Crash

theorem xorLoop_none_iff : ∀ (s r : List Nat), xorLoop s r = none ↔ r.length < s.length
  | [], r => by simp [xorLoop]
  | _ :: ss, [] => by simp [xorLoop]
  | _ :: ss, _ :: rs => by
    have ih := xorLoop_none_iff ss rs
    simp only [xorLoop, Option.map_eq_none_iff, List.length_cons]
    rw [ih]; omega

end Gms.Crash

namespace Gms.C10
open Gms.RangeMap Gms.Crash Gms.JsonQuote
open Gms.SliceMap Gms.StoredReparse

/-! ### regenerated facts -/

/-- Which panics the query path turns into errors, and the shape of the guarded code, as read
from the source on every run: `Engine.Query` / `QueryWithBindings` recover nothing; the planbuilder
recovers only its own `parseErr`, `replanJoin` only `memo.MemoErr` (everything else is re-panicked);
`Decode` has the length guard, `EncodeReplaceUnknown` bounds its search by `len(str)`;
`validateMysqlNativePassword` returns early for an empty response / empty or non-hex stored hash
and — the repair of F-C40-a, commit d3c438db7 — for `len(authResponse) != len(scramble)`, and only
then runs `for i := range scramble { scramble[i] ^= authResponse[i] }` (if that guard disappears
this obligation breaks and the real code disagrees with the model on 1..19-byte responses); `Unquote` guards
`s[i+1 : i+5]` with `i+4 > len(s)`. -/
theorem facts_match :
    Generated.C10.decodeHasLengthGuard = true ∧
    Generated.C10.replaceLoopBoundedByLen = true ∧
    Generated.C10.recoverQueryWithBindings = [] ∧
    Generated.C10.recoverQuery = [] ∧
    Generated.C10.recoverParse = ["parseErr"] ∧
    Generated.C10.recoverBindOnly = ["parseErr"] ∧
    Generated.C10.recoverReplanJoin = ["memo.MemoErr"] ∧
    Generated.C10.nativePasswordEarlyReturns =
      ["len(authResponse) == 0 || len(mysqlNativePassword) == 0", "err != nil", "len(authResponse) != len(scramble)"] ∧
    Generated.C10.nativePasswordLoop = "range scramble: { scramble[i] ^= authResponse[i] }" ∧
    Generated.C10.unquoteUnicodeGuard = "i+4 > len(s)" := by decide

/-- `Encode`'s search loop has `Decode`'s length guard (the repair of F-C10-a / C30
`encode_unrepresentable_tail`). If the guard disappears this obligation breaks, and the driver —
which instantiates `encodeG` with the regenerated flag — predicts the panics. -/
theorem encode_guard_present : Generated.C10.encodeHasLengthGuard = true := by decide

/-! ### character-set conversion -/

/-- **`Decode` never panics**, for any table and any bytes. -/
theorem decode_total_safe (rm : RangeMap) (s : List Nat) : decode rm s ≠ .crash :=
  convLoop_guard_no_crash _ _ _ _

/-- **`Encode` with the length guard never panics**, for any table and any bytes. -/
theorem encode_total_safe (rm : RangeMap) (s : List Nat) : encodeG true rm s ≠ .crash :=
  convLoop_guard_no_crash _ _ _ _

/-- `Encode` as compiled (guard flag from the source) never panics. -/
theorem encode_as_compiled_safe (rm : RangeMap) (s : List Nat) :
    encodeG Generated.C10.encodeHasLengthGuard rm s ≠ .crash := by
  rw [encode_guard_present]; exact encode_total_safe rm s

/-- **`EncodeReplaceUnknown` always returns a string.** -/
theorem replace_total_safe (rm : RangeMap) (s : List Nat) : ∃ b, replace rm s = .ok b :=
  replLoop_total _ _ _ _ _ (Nat.lt_succ_self _)

/-- Without the guard `Encode` either panics or does what the guarded loop does … -/
theorem encode_unguarded_cases (rm : RangeMap) (s : List Nat) :
    encodeG false rm s = .crash ∨ encodeG false rm s = encodeG true rm s :=
  convLoop_unguarded_cases _ _ _ _

/-- … and it panics exactly when the search reaches a rest of the string that is shorter than the
longest unit of the table and has no convertible prefix (region `rangemap_encode_unguarded_tail`). -/
theorem encode_unguarded_crash_iff (rm : RangeMap) (s : List Nat) :
    encodeG false rm s = .crash ↔ TailAt (encodeRune rm) rm.inE.length s :=
  convLoop_crash_iff _ _ _ _ (Nat.lt_succ_self _)

/-- The repaired defect F-C10-a on the regenerated latin1 table: `é` given as the latin1 byte E9
(not UTF-8) made the unguarded loop slice `str[:2]` of a one-byte string. -/
theorem fixed_rangemap_encode_unguarded_tail :
    encodeG false Generated.C10.latin1 [0xE9] = .crash ∧ encodeG true Generated.C10.latin1 [0xE9] = .fail ∧
    encodeG false Generated.C10.latin1 [97, 0xC4, 0x80] = .crash := by decide +kernel

/-- Non-vacuity: conversions that succeed, on the regenerated tables. -/
example : encodeG true Generated.C10.latin1 [104, 0xC3, 0xA9] = .ok [104, 0xE9] ∧
    decode Generated.C10.utf16 [0, 0x41] = .ok [0x41] ∧ replace Generated.C10.latin1 [0xC4, 0x80, 97, 98, 99, 100] = .ok [63, 97, 98, 99, 100] := by
  decide +kernel


/-! ### LOCATE: offsets in a case-mapped copy -/

/-- The shape of `Locate.Eval` as read from the source on every run: the three guards of the edge-case
switch, the ONLY slice expression of the function (`str[position-1:]`, in bounds by the guards:
`locate_total_safe`) and the value returned after `strings.Index` (`res + position`: the offset found
in the lower-cased copy is never used to index the original string). -/
theorem facts_locate :
    Generated.C10.locateGuards =
      ["position <= 0 || (len(str) > 0 && position > len(str))", "len(substr) == 0 && len(str) == 0", "position > len(str)"] ∧
    Generated.C10.locateSlices = ["str[position-1:]"] ∧
    Generated.C10.locateResult = "int32(res + position)" := by decide

/-- **`Locate.Eval` never panics**, whatever the case mapping does to the lengths of the strings. -/
theorem locate_total_safe (lower : Utf8.Bytes → Utf8.Bytes) (sub str : Utf8.Bytes) (position : Int) :
    locateG lower sub str position ≠ none := by
  unfold locateG
  simp only
  split
  · simp
  · split
    · split <;> simp
    · split
      · simp
      · rename_i h1 _ h3
        have hs : sliceFrom str (position - 1) = some (str.drop (position - 1).toNat) := by
          unfold sliceFrom
          rw [if_pos]
          constructor <;> omega
        rw [hs]
        simp only
        split <;> simp

/-- The model of this file is C34's model of the same function (`ScalarFn.locateImpl`, validated
there against the real code on ASCII-case strings) when the mapping is the ASCII one. -/
theorem locateG_eq_locateImpl (sub str : Utf8.Bytes) (position : Int) :
    locateG (ScalarFn.mapCase ScalarFn.lowerByte) sub str position = some (ScalarFn.locateImpl sub str position) := by
  unfold locateG ScalarFn.locateImpl
  simp only
  split
  · rfl
  · split
    · split <;> rfl
    · split
      · rfl
      · rename_i h1 _ h3
        have hs : sliceFrom str (position - 1) = some (str.drop (position - 1).toNat) := by
          unfold sliceFrom
          rw [if_pos]
          constructor <;> omega
        rw [hs]
        simp only
        split <;> simp_all

/-- The class the property excludes — slicing the ORIGINAL string with an offset found in its
case-mapped copy — is safe exactly as long as the mapping never lengthens a string … -/
theorem mapped_offset_safe_of_nonexpanding (lower : Utf8.Bytes → Utf8.Bytes)
    (hlen : ∀ t, (lower t).length ≤ t.length) (sub str : Utf8.Bytes) (position : Int) :
    locateMapped lower sub str position ≠ none := by
  unfold locateMapped
  simp only
  split
  · simp
  · split
    · split <;> simp
    · split
      · simp
      · have hle := runeOffset_le (position - 1).toNat str
        have hs : sliceFrom str ((runeOffset (position - 1).toNat str : Nat) : Int) =
            some (str.drop (runeOffset (position - 1).toNat str)) := by
          unfold sliceFrom
          rw [if_pos]
          · simp
          · constructor <;> omega
        rw [hs]
        simp only
        split
        · simp
        · rename_i res hres
          have h1 := indexOf_le _ _ _ hres
          have h2 := hlen (str.drop (runeOffset (position - 1).toNat str))
          simp only [List.length_drop] at h2
          have : slice str ((runeOffset (position - 1).toNat str : Nat) : Int) ((runeOffset (position - 1).toNat str : Nat) + (res : Nat)) ≠ none := by
            unfold slice
            rw [if_pos]
            · simp
            · refine ⟨by omega, by omega, ?_⟩
              omega
          split
          · rename_i hn; exact absurd hn this
          · simp

/-- … and Go's case mapping does lengthen strings: on the table regenerated from the compiled code
(`unicode.ToLower` of the harness alphabet) some rune has a longer lower-case encoding. -/
theorem facts_case_table_expands :
    ∃ e ∈ Generated.C10.caseTable, (Utf8.encodeRune e.1).length < (Utf8.encodeRune e.2.1).length := by decide

/-- Witness of the class on that table: `LOCATE('x', 'ȺȺx')` — two characters in front of the match
whose lower case is one byte longer. The mapped-offset variant slices `str[0:6]` of a 5-byte string;
`Locate.Eval` as written returns 7 (the byte offset in the lower-cased copy, a C34 matter, not a panic);
with ONE such character the overshoot still fits into the string (result off by one, no panic). -/
theorem mapped_offset_crash_witness :
    locateMapped (lowerWith Generated.C10.caseTable) [120] [0xC8, 0xBA, 0xC8, 0xBA, 120] 1 = none ∧
    locateG (lowerWith Generated.C10.caseTable) [120] [0xC8, 0xBA, 0xC8, 0xBA, 120] 1 = some 7 ∧
    locateMapped (lowerWith Generated.C10.caseTable) [120] [0xC8, 0xBA, 120] 1 = some 3 := by decide +kernel

/-- Non-vacuity of `mapped_offset_safe_of_nonexpanding`: the identity mapping qualifies and finds the match. -/
example : locateMapped id [120] [0xC8, 0xBA, 0xC8, 0xBA, 120] 1 = some 3 := by decide +kernel

/-! ### stored routines are re-parsed under the recorded mode -/

/-- `BuildProcedureHelper` as read from the source on every run: in front of `ParseWithOptions` the parser
options are set UNCONDITIONALLY from the mode recorded with the routine (no such statement sits in a
branch), the parse error is dropped (`stmt, _, _, _ :=`), the type assertion `stmt.(*ast.DDL)` is
unchecked (so a text that does not parse is a panic: the model's `crash`), and CREATE PROCEDURE records
`sql.LoadSqlMode(b.ctx).String()`. -/
theorem facts_reparse :
    Generated.C10.procReparseOptions = ["sql.NewSqlModeFromString(procDetails.SqlMode).ParserOptions()"] ∧
    Generated.C10.procReparseOptionsInBranches = [] ∧
    Generated.C10.procReparseLhs = ["stmt", "_", "_", "_"] ∧
    Generated.C10.procReparseAssertChecked = false ∧
    Generated.C10.procRecordedMode = "sql.LoadSqlMode(b.ctx).String()" := by decide

/-- The parser options of the modes of the `(rp …)` cases, computed by the compiled code from the
session and from the recorded string: they agree with each other and with the model's `optsOf`, and
the recorded string is empty exactly for the empty mode list. -/
theorem facts_mode_table :
    ∀ e ∈ Generated.C10.modeTable,
      e.2.2.1 = e.2.2.2 ∧ (optsOf e.1).ansiQuotes = e.2.2.1.1 ∧ (optsOf e.1).pipesAsConcat = e.2.2.1.2 ∧
      e.2.1 = e.1.isEmpty := by decide

/-- **A history of SET sql_mode / CREATE PROCEDURE / CALL / listings never panics**, for every parser
and every text: the store only ever holds texts that parse under the mode recorded with them, and
the re-parse uses that mode. -/
theorem reparse_total_safe {Text : Type} (parses : Opts → Text → Bool) (m : Mode) (h : List (Stmt Text)) :
    Obs.crash ∉ run parses recordedPolicy (St.init m) h :=
  run_recorded_no_crash parses h (St.init m) (by intro e he; simp [St.init] at he)

/-- The defect class: when an empty recorded mode makes the re-parse fall back to the CALLING session's
options, a routine stored under `sql_mode = ''` whose text has a double-quoted string panics under
ANSI_QUOTES — on CALL and on every listing. -/
theorem session_mode_leak_crashes :
    run rpParses emptyFallsBack (St.init ["STRICT_TRANS_TABLES"])
      [.setMode [], .create 1 1, .setMode ["ANSI_QUOTES"], .call 1, .list, .setMode [], .call 1] =
      [.ok, .ok, .ok, .crash, .crash, .ok, .ok] ∧
    run rpParses recordedPolicy (St.init ["STRICT_TRANS_TABLES"])
      [.setMode [], .create 1 1, .setMode ["ANSI_QUOTES"], .call 1, .list, .setMode [], .call 1] =
      [.ok, .ok, .ok, .ok, .ok, .ok, .ok] := by decide

/-- Non-vacuity: CREATE fails under ANSI_QUOTES for the same text (nothing is stored), succeeds without. -/
example : run rpParses recordedPolicy (St.init ["ANSI"]) [.create 1 1, .call 1, .setMode [], .create 1 1, .create 1 0] =
    [.err, .ok, .ok, .ok, .err] := by decide

/-! ### Unquote -/

/-- The Spec of `Unquote` never panics. -/
theorem unquoteSpec_total_safe (s : Bytes) : unquoteSpec s ≠ .crash := by
  unfold unquoteSpec unquoteWith
  have := unescape_strict_never_crashes s
  cases h : unescape true s <;> simp_all

/-- FULL STATEMENT (false on the unchanged tree): `∀ s, unquote s ≠ .crash`.
**Partial**: `Unquote` does not panic off the region `crashes` (a `\u` escape followed by exactly
three more bytes, or naming a surrogate, before any earlier error). -/
theorem unquote_safe_partial (s : Bytes) (h : crashes s = false) : unquote s ≠ .crash := by
  unfold crashes at h
  unfold unquote unquoteWith
  cases hu : unescape false s <;> simp_all

/-- Finding (C32 `unquote_bad_unicode_escape_panics`, reachable as `SELECT JSON_UNQUOTE('\\u123')`). -/
theorem finding_unquote_bad_unicode_escape :
    ∃ s, unquote s = .crash ∧ unquoteSpec s ≠ .crash :=
  ⟨[92, 117, 49, 50, 51], by decide, by decide⟩

example : unquote [92, 117, 100, 56, 48, 48] = .crash ∧ crashes [92, 117, 49, 50, 51] = true ∧
    crashes [92, 117, 48, 48, 52, 49] = false ∧ unquote [92, 117, 48, 48, 52, 49] = .ok [65] := by decide

/-! ### mysql_native_password -/

/-- **The password check never panics** (any scramble, any response, any stored hash): the byte
loop is only reached with a response exactly as long as the scramble. -/
theorem native_password_total_safe (scramble resp : List Nat) (hashOk : Bool) :
    nativePassword scramble resp hashOk ≠ .crash := by
  unfold nativePassword
  by_cases he : resp.isEmpty
  · simp [he]
  · cases hashOk
    · simp [he]
    · by_cases hl : resp.length = scramble.length
      · simp only [he, Bool.false_eq_true, if_false, Bool.not_true, hl, ne_eq, not_true_eq_false]
        cases hx : xorLoop scramble resp with
        | none => have := (xorLoop_none_iff scramble resp).mp hx; omega
        | some v => simp
      · simp [he, hl]

/-- **The code is the Spec**, for all inputs (this was `native_password_partial`, guarded by the
region 1 ≤ len(response) < 20, before the repair). -/
theorem native_password_eq_spec (scramble resp : List Nat) (hashOk : Bool) :
    nativePassword scramble resp hashOk = nativePasswordSpec scramble resp hashOk := by
  unfold nativePassword nativePasswordSpec
  by_cases he : resp.isEmpty
  · simp [he]
  · cases hashOk
    · simp [he]
    · by_cases hl : resp.length = scramble.length
      · simp only [he, Bool.false_eq_true, if_false, Bool.not_true, hl, ne_eq, not_true_eq_false]
        cases hx : xorLoop scramble resp with
        | none => have := (xorLoop_none_iff scramble resp).mp hx; omega
        | some v => rfl
      · simp [he, hl]

/-- Before the repair the byte loop panicked exactly for a non-empty response shorter than the
SHA-1, checked against a usable stored hash. -/
theorem nativePasswordPreFix_crash_iff (scramble resp : List Nat) (hashOk : Bool) :
    nativePasswordPreFix scramble resp hashOk = .crash ↔ (resp ≠ [] ∧ hashOk = true ∧ resp.length < scramble.length) := by
  unfold nativePasswordPreFix
  by_cases he : resp.isEmpty
  · have : resp = [] := List.isEmpty_iff.mp he
    simp [this]
  · have hne : resp ≠ [] := fun h => he (by simp [h])
    cases hashOk
    · simp [he]
    · simp only [he, Bool.false_eq_true, if_false, Bool.not_true]
      cases hx : xorLoop scramble resp with
      | none => have := (xorLoop_none_iff scramble resp).mp hx; simp [hne, this]
      | some v =>
        have : ¬ resp.length < scramble.length := fun h => by
          have := (xorLoop_none_iff scramble resp).mpr h; rw [hx] at this; cases this
        simp [this]

/-- F-C40-a (repaired by d3c438db7). Witness of the repaired defect: a 19-byte response against a
20-byte scramble made the pre-fix code panic; the repaired code rejects it. A 21-byte response whose
first 20 bytes are a valid token was compared (trailing bytes ignored) and is now rejected too. -/
theorem fixed_native_password_short_response :
    nativePasswordPreFix (List.replicate 20 0) (List.replicate 19 1) true = .crash ∧
    nativePassword (List.replicate 20 0) (List.replicate 19 1) true = .rejected ∧
    nativePasswordPreFix (List.replicate 20 0) (List.replicate 21 1) true = .compared ∧
    nativePassword (List.replicate 20 0) (List.replicate 21 1) true = .rejected := by decide

example : nativePassword (List.replicate 20 7) (List.replicate 20 1) true = .compared ∧
    nativePassword (List.replicate 20 7) [] true = .rejected ∧
    nativePassword (List.replicate 20 7) (List.replicate 20 1) false = .rejected ∧
    nativePassword (List.replicate 20 7) [1] true = .rejected := by decide

end Gms.C10
