/-
C45 — Trace redaction never leaks identifiers or literals (sql/sqlredact).

Helper lemmas first (namespace `Gms.Redact`), the property theorems at the end in `Gms.C45`.
-/
import Gms.Model.Redact
import Gms.Generated.C45
import Std.Data.String.ToNat

namespace Gms.Redact

/-! ## Association lists -/

theorem lookup_none_iff (l : List (Bytes × Nat)) (k : Bytes) :
    lookup l k = none ↔ k ∉ l.map Prod.fst := by
  induction l with
  | nil => simp [lookup]
  | cons p rest ih =>
    obtain ⟨k', v⟩ := p
    by_cases h : k' = k
    · simp [lookup, h]
    · have h' : ¬ k = k' := fun e => h e.symm
      simp [lookup, h, h', ih]

theorem lookup_mem (l : List (Bytes × Nat)) (k : Bytes) (v : Nat) (h : lookup l k = some v) :
    (k, v) ∈ l := by
  induction l with
  | nil => simp [lookup] at h
  | cons p rest ih =>
    obtain ⟨k', v'⟩ := p
    by_cases hk : k' = k
    · simp [lookup, hk] at h; simp [hk, h]
    · simp [lookup, hk] at h; simp [ih h]

theorem lookup_append_some (l r : List (Bytes × Nat)) (k : Bytes) (v : Nat)
    (h : lookup l k = some v) : lookup (l ++ r) k = some v := by
  induction l with
  | nil => simp [lookup] at h
  | cons p rest ih =>
    obtain ⟨k', v'⟩ := p
    by_cases hk : k' = k
    · simp [lookup, hk] at h ⊢; exact h
    · simp [lookup, hk] at h ⊢; exact ih h

theorem lookup_append_none (l : List (Bytes × Nat)) (k k' : Bytes) (v : Nat)
    (h : lookup l k = none) : lookup (l ++ [(k', v)]) k = if k' = k then some v else none := by
  induction l with
  | nil => simp [lookup]
  | cons p rest ih =>
    obtain ⟨k'', v''⟩ := p
    by_cases hk : k'' = k
    · simp [lookup, hk] at h
    · simp [lookup, hk] at h ⊢; exact ih h

theorem lookup_of_mem_nodup (l : List (Bytes × Nat)) (k : Bytes) (v : Nat)
    (hn : (l.map Prod.fst).Nodup) (h : (k, v) ∈ l) : lookup l k = some v := by
  induction l with
  | nil => simp at h
  | cons p rest ih =>
    obtain ⟨k', v'⟩ := p
    simp only [List.map_cons, List.nodup_cons] at hn
    rcases List.mem_cons.mp h with e | e
    · injection e with e1 e2; simp [lookup, e1, e2]
    · have : k' ≠ k := by
        intro e; subst e
        exact hn.1 (List.mem_map.mpr ⟨(k', v), e, rfl⟩)
      simp [lookup, this, ih hn.2 e]

/-! ## Well-formed mappings: tokens are exactly 1..count, in mint order; keys are distinct -/

structure WFns (l : List (Bytes × Nat)) (n : Nat) : Prop where
  keys : (l.map Prod.fst).Nodup
  vals : l.map Prod.snd = List.range' 1 n

def WF (m : Mapping) : Prop := WFns m.idents m.nCount ∧ WFns m.values m.vCount

theorem WFns.mint {l : List (Bytes × Nat)} {n : Nat} (h : WFns l n) (k : Bytes)
    (hk : lookup l k = none) : WFns (l ++ [(k, n + 1)]) (n + 1) := by
  constructor
  · rw [List.map_append, List.nodup_append]
    refine ⟨h.keys, by simp, ?_⟩
    intro a ha b hb
    simp at hb; subst hb
    intro e; subst e
    exact (lookup_none_iff l a).mp hk ha
  · rw [List.map_append, h.vals, List.range'_concat]
    simp [Nat.add_comm]

theorem WFns.bound {l : List (Bytes × Nat)} {n : Nat} (h : WFns l n) {k : Bytes} {v : Nat}
    (hv : lookup l k = some v) : 1 ≤ v ∧ v ≤ n := by
  have hm : v ∈ l.map Prod.snd := List.mem_map.mpr ⟨(k, v), lookup_mem l k v hv, rfl⟩
  rw [h.vals, List.mem_range'_1] at hm
  omega

theorem snd_nodup_inj (l : List (Bytes × Nat)) (hnd : (l.map Prod.snd).Nodup) {k1 k2 : Bytes}
    {v : Nat} (m1 : (k1, v) ∈ l) (m2 : (k2, v) ∈ l) : k1 = k2 := by
  induction l with
  | nil => simp at m1
  | cons p rest ih =>
    simp only [List.map_cons, List.nodup_cons] at hnd
    rcases List.mem_cons.mp m1 with e1 | e1 <;> rcases List.mem_cons.mp m2 with e2 | e2
    · rw [← e2] at e1; injection e1
    · subst e1; exact absurd (List.mem_map.mpr ⟨(k2, v), e2, rfl⟩) hnd.1
    · subst e2; exact absurd (List.mem_map.mpr ⟨(k1, v), e1, rfl⟩) hnd.1
    · exact ih hnd.2 e1 e2

theorem WFns.inj {l : List (Bytes × Nat)} {n : Nat} (h : WFns l n) {k1 k2 : Bytes} {v : Nat}
    (h1 : lookup l k1 = some v) (h2 : lookup l k2 = some v) : k1 = k2 := by
  have hnd : (l.map Prod.snd).Nodup := by rw [h.vals]; exact List.nodup_range'
  exact snd_nodup_inj l hnd (lookup_mem l k1 v h1) (lookup_mem l k2 v h2)

theorem WFns.length {l : List (Bytes × Nat)} {n : Nat} (h : WFns l n) : l.length = n := by
  have := congrArg List.length h.vals
  simpa using this

/-- Monotone growth: what a lexeme was mapped to is never changed. -/
def Ext (m m' : Mapping) : Prop :=
  (∀ k v, lookup m.idents k = some v → lookup m'.idents k = some v) ∧
  (∀ k v, lookup m.values k = some v → lookup m'.values k = some v)

theorem Ext.refl (m : Mapping) : Ext m m := ⟨fun _ _ h => h, fun _ _ h => h⟩

theorem Ext.trans {a b c : Mapping} (h1 : Ext a b) (h2 : Ext b c) : Ext a c :=
  ⟨fun k v h => h2.1 k v (h1.1 k v h), fun k v h => h2.2 k v (h1.2 k v h)⟩

def lookupOf (m : Mapping) : AOp → Option Nat
  | .readI k | .lockI k => lookup m.idents k
  | .readV k | .lockV k => lookup m.values k

theorem aStep_wf (m : Mapping) (op : AOp) (h : WF m) : WF (aStep m op).1 := by
  cases op with
  | readI k => exact h
  | readV k => exact h
  | lockI k =>
    simp only [aStep]
    cases hl : lookup m.idents k with
    | some t => exact h
    | none => exact ⟨h.1.mint k hl, h.2⟩
  | lockV k =>
    simp only [aStep]
    cases hl : lookup m.values k with
    | some t => exact h
    | none => exact ⟨h.1, h.2.mint k hl⟩

theorem aStep_ext (m : Mapping) (op : AOp) : Ext m (aStep m op).1 := by
  cases op with
  | readI k => exact Ext.refl m
  | readV k => exact Ext.refl m
  | lockI k =>
    simp only [aStep]
    cases hl : lookup m.idents k with
    | some t => exact Ext.refl m
    | none => exact ⟨fun k' v hv => lookup_append_some _ _ _ _ hv, fun _ _ hv => hv⟩
  | lockV k =>
    simp only [aStep]
    cases hl : lookup m.values k with
    | some t => exact Ext.refl m
    | none => exact ⟨fun _ _ hv => hv, fun k' v hv => lookup_append_some _ _ _ _ hv⟩

theorem aStep_ret (m : Mapping) (op : AOp) (t : Nat) (h : (aStep m op).2 = some t) :
    lookupOf (aStep m op).1 op = some t := by
  cases op with
  | readI k => exact h
  | readV k => exact h
  | lockI k =>
    simp only [aStep] at h ⊢
    cases hl : lookup m.idents k with
    | some t' => rw [hl] at h; simpa [lookupOf, hl] using h
    | none =>
      rw [hl] at h
      simp only [Option.some.injEq] at h
      simp [lookupOf, lookup_append_none _ _ _ _ hl, h]
  | lockV k =>
    simp only [aStep] at h ⊢
    cases hl : lookup m.values k with
    | some t' => rw [hl] at h; simpa [lookupOf, hl] using h
    | none =>
      rw [hl] at h
      simp only [Option.some.injEq] at h
      simp [lookupOf, lookup_append_none _ _ _ _ hl, h]

theorem lookupOf_ext {m m' : Mapping} (h : Ext m m') (op : AOp) (t : Nat)
    (hl : lookupOf m op = some t) : lookupOf m' op = some t := by
  cases op <;> simp only [lookupOf] at hl ⊢
  · exact h.1 _ _ hl
  · exact h.1 _ _ hl
  · exact h.2 _ _ hl
  · exact h.2 _ _ hl

theorem aRun_spec (m0 : Mapping) (ops : List AOp) (h : WF m0) :
    WF (aRun m0 ops).1 ∧ Ext m0 (aRun m0 ops).1 ∧
      ∀ op t, (op, some t) ∈ (aRun m0 ops).2 → lookupOf (aRun m0 ops).1 op = some t := by
  induction ops generalizing m0 with
  | nil => exact ⟨h, Ext.refl _, by simp [aRun]⟩
  | cons op ops ih =>
    have ih' := ih (aStep m0 op).1 (aStep_wf m0 op h)
    simp only [aRun]
    refine ⟨ih'.1, (aStep_ext m0 op).trans ih'.2.1, ?_⟩
    intro op' t hm
    rcases List.mem_cons.mp hm with e | e
    · injection e with e1 e2
      subst e1
      exact lookupOf_ext ih'.2.1 op' t (aStep_ret m0 op' t e2.symm)
    · exact ih'.2.2 op' t e

/-! ## The sequential functions are compositions of the atomic steps -/

theorem redactIdent_eq_steps (m : Mapping) (k : Bytes) (hk : k ≠ []) :
    redactIdent m k =
      match aStep m (.readI k) with
      | (m', some t) => (m', some t)
      | (m', none) => aStep m' (.lockI k) := by
  simp only [redactIdent, hk, if_false, aStep]
  cases hl : lookup m.idents k <;> simp [hl]

theorem redactValue_eq_steps (m : Mapping) (k : Bytes) :
    (redactValue m k).1 = (match aStep m (.readV k) with
      | (m', some _) => m'
      | (m', none) => (aStep m' (.lockV k)).1) ∧
    some (redactValue m k).2 = (match aStep m (.readV k) with
      | (_, some t) => some t
      | (m', none) => (aStep m' (.lockV k)).2) := by
  simp only [redactValue, aStep]
  cases hl : lookup m.values k <;> simp [hl]

theorem redactIdent_wf (m : Mapping) (k : Bytes) (h : WF m) : WF (redactIdent m k).1 := by
  unfold redactIdent
  by_cases hk : k = []
  · simp [hk]; exact h
  · simp only [hk, if_false]
    cases hl : lookup m.idents k with
    | some t => exact h
    | none => exact ⟨h.1.mint k hl, h.2⟩

theorem redactValue_wf (m : Mapping) (k : Bytes) (h : WF m) : WF (redactValue m k).1 := by
  unfold redactValue
  cases hl : lookup m.values k with
  | some t => exact h
  | none => exact ⟨h.1, h.2.mint k hl⟩

theorem redactIdent_ext (m : Mapping) (k : Bytes) : Ext m (redactIdent m k).1 := by
  unfold redactIdent
  by_cases hk : k = []
  · simp [hk]; exact Ext.refl m
  · simp only [hk, if_false]
    cases hl : lookup m.idents k with
    | some t => exact Ext.refl m
    | none => exact ⟨fun k' v hv => lookup_append_some _ _ _ _ hv, fun _ _ hv => hv⟩

theorem redactValue_ext (m : Mapping) (k : Bytes) : Ext m (redactValue m k).1 := by
  unfold redactValue
  cases hl : lookup m.values k with
  | some t => exact Ext.refl m
  | none => exact ⟨fun _ _ hv => hv, fun k' v hv => lookup_append_some _ _ _ _ hv⟩

theorem emitToken_wf (S : List Bytes) (m : Mapping) (typ : Nat) (val : Bytes) (h : WF m) :
    WF (emitToken S m typ val).1 := by
  unfold emitToken emitIdent
  cases classify typ <;> simp only
  · exact redactIdent_wf m val h
  · exact redactValue_wf m val h
  · exact redactValue_wf m val h
  · exact redactValue_wf m val h
  · exact redactValue_wf m val h
  · exact h
  · split
    · exact redactIdent_wf m val h
    · exact h

theorem emitToken_ext (S : List Bytes) (m : Mapping) (typ : Nat) (val : Bytes) :
    Ext m (emitToken S m typ val).1 := by
  unfold emitToken emitIdent
  cases classify typ <;> simp only
  · exact redactIdent_ext m val
  · exact redactValue_ext m val
  · exact redactValue_ext m val
  · exact redactValue_ext m val
  · exact redactValue_ext m val
  · exact Ext.refl m
  · split
    · exact redactIdent_ext m val
    · exact Ext.refl m

theorem redactLoop_wf_ext (S : List Bytes) (toks : List Tok) (m : Mapping) (h : WF m) :
    WF (redactLoop S toks m).1 ∧ Ext m (redactLoop S toks m).1 := by
  induction toks generalizing m with
  | nil => exact ⟨h, Ext.refl m⟩
  | cons t ts ih =>
    simp only [redactLoop]
    split
    · exact ⟨h, Ext.refl m⟩
    · split
      · exact ⟨h, Ext.refl m⟩
      · split
        · exact ih m h
        · have := ih _ (emitToken_wf S m t.typ t.val h)
          exact ⟨this.1, (emitToken_ext S m t.typ t.val).trans this.2⟩

/-! ## Renaming (noninterference) -/

def mapKeys (ρ : Bytes → Bytes) (l : List (Bytes × Nat)) : List (Bytes × Nat) :=
  l.map fun p => (ρ p.1, p.2)

def Mapping.rename (ρi ρv : Bytes → Bytes) (m : Mapping) : Mapping :=
  { m with idents := mapKeys ρi m.idents, values := mapKeys ρv m.values }

theorem lookup_mapKeys (ρ : Bytes → Bytes) (hρ : Function.Injective ρ) (l : List (Bytes × Nat))
    (k : Bytes) : lookup (mapKeys ρ l) (ρ k) = lookup l k := by
  induction l with
  | nil => rfl
  | cons p rest ih =>
    obtain ⟨k', v⟩ := p
    by_cases h : k' = k
    · simp [mapKeys, lookup, h]
    · have : ρ k' ≠ ρ k := fun e => h (hρ e)
      simp only [mapKeys, List.map_cons, lookup, this, h, if_false]
      exact ih

/-- Rewrite the secret lexemes of a token: identifiers (and keyword-typed lexemes that are in
the identifier set) by `ρi`, literals by `ρv`; everything else is left alone. -/
def renameTok (ρi ρv : Bytes → Bytes) (S : List Bytes) (t : Tok) : Tok :=
  match classify t.typ with
  | .ident => { t with val := ρi t.val }
  | .str | .num | .hex | .bit => { t with val := ρv t.val }
  | .arg => t
  | .other => if t.val ≠ [] ∧ t.val ∈ S then { t with val := ρi t.val } else t

theorem renameTok_typ (ρi ρv : Bytes → Bytes) (S : List Bytes) (t : Tok) :
    (renameTok ρi ρv S t).typ = t.typ := by
  unfold renameTok
  cases classify t.typ <;> simp only
  split <;> rfl

theorem redactIdent_rename (ρi ρv : Bytes → Bytes) (hi : Function.Injective ρi)
    (h0 : ∀ x, ρi x = [] ↔ x = []) (m : Mapping) (k : Bytes) :
    redactIdent (m.rename ρi ρv) (ρi k) =
      ((redactIdent m k).1.rename ρi ρv, (redactIdent m k).2) := by
  unfold redactIdent
  by_cases hk : k = []
  · subst hk
    have : ρi [] = [] := (h0 []).mpr rfl
    simp [this]
  · have : ρi k ≠ [] := fun e => hk ((h0 k).mp e)
    simp only [this, hk, if_false]
    have hl : lookup (m.rename ρi ρv).idents (ρi k) = lookup m.idents k := lookup_mapKeys ρi hi _ _
    rw [hl]
    cases lookup m.idents k with
    | some t => rfl
    | none => simp [Mapping.rename, mapKeys]

theorem redactValue_rename (ρi ρv : Bytes → Bytes) (hv : Function.Injective ρv)
    (m : Mapping) (k : Bytes) :
    redactValue (m.rename ρi ρv) (ρv k) =
      ((redactValue m k).1.rename ρi ρv, (redactValue m k).2) := by
  unfold redactValue
  have hl : lookup (m.rename ρi ρv).values (ρv k) = lookup m.values k := lookup_mapKeys ρv hv _ _
  rw [hl]
  cases lookup m.values k with
  | some t => rfl
  | none => simp [Mapping.rename, mapKeys]

/-- How the identifier set of the second run must relate to the first on one token. -/
def SetOK (ρi : Bytes → Bytes) (S S' : List Bytes) (t : Tok) : Prop :=
  classify t.typ = .other → t.val ≠ [] → (t.val ∈ S → ρi t.val ∈ S') ∧ (t.val ∉ S → t.val ∉ S')

theorem emitToken_rename (ρi ρv : Bytes → Bytes) (hi : Function.Injective ρi)
    (hv : Function.Injective ρv) (h0 : ∀ x, ρi x = [] ↔ x = []) (S S' : List Bytes) (m : Mapping)
    (t : Tok) (hS : SetOK ρi S S' t) :
    emitToken S' (m.rename ρi ρv) t.typ (renameTok ρi ρv S t).val =
      ((emitToken S m t.typ t.val).1.rename ρi ρv, (emitToken S m t.typ t.val).2) := by
  unfold emitToken renameTok emitIdent
  cases hc : classify t.typ <;> simp only
  · rw [redactIdent_rename ρi ρv hi h0]
  · rw [redactValue_rename ρi ρv hv]
  · rw [redactValue_rename ρi ρv hv]
  · rw [redactValue_rename ρi ρv hv]
  · rw [redactValue_rename ρi ρv hv]
  · by_cases hin : t.val ≠ [] ∧ t.val ∈ S
    · have h1 : ρi t.val ≠ [] := fun e => hin.1 ((h0 _).mp e)
      have h2 : ρi t.val ∈ S' := (hS hc hin.1).1 hin.2
      simp only [hin, and_self, if_true, h1, h2, ne_eq, not_false_eq_true]
      rw [redactIdent_rename ρi ρv hi h0]
    · by_cases hne : t.val = []
      · simp [hne]
      · have hnotin : t.val ∉ S := fun e => hin ⟨hne, e⟩
        have h2 : t.val ∉ S' := (hS hc hne).2 hnotin
        simp [hne, hnotin, h2]

theorem redactLoop_rename (ρi ρv : Bytes → Bytes) (hi : Function.Injective ρi)
    (hv : Function.Injective ρv) (h0 : ∀ x, ρi x = [] ↔ x = []) (S S' : List Bytes)
    (toks : List Tok) (m : Mapping) (hS : ∀ t ∈ toks, SetOK ρi S S' t) :
    redactLoop S' (toks.map (renameTok ρi ρv S)) (m.rename ρi ρv) =
      ((redactLoop S toks m).1.rename ρi ρv, (redactLoop S toks m).2) := by
  induction toks generalizing m with
  | nil => rfl
  | cons t ts ih =>
    have hS' : ∀ t ∈ ts, SetOK ρi S S' t := fun t ht => hS t (List.mem_cons_of_mem _ ht)
    simp only [List.map_cons, redactLoop, renameTok_typ]
    split
    · rfl
    · split
      · rfl
      · split
        · exact ih m hS'
        · rw [emitToken_rename ρi ρv hi hv h0 S S' m t (hS t List.mem_cons_self)]
          simp only
          rw [ih _ hS']

/-! ## Congruence in the identifier set, and the Spec -/

theorem emitToken_congr (S S' : List Bytes) (m : Mapping) (typ : Nat) (val : Bytes)
    (h : classify typ = .other → val ≠ [] → (val ∈ S ↔ val ∈ S')) :
    emitToken S m typ val = emitToken S' m typ val := by
  unfold emitToken
  cases hc : classify typ <;> simp only
  by_cases hne : val = []
  · simp [hne]
  · have := h hc hne
    simp [hne, this]

theorem redactLoop_congr (S S' : List Bytes) (toks : List Tok) (m : Mapping)
    (h : ∀ t ∈ toks, classify t.typ = .other → t.val ≠ [] → (t.val ∈ S ↔ t.val ∈ S')) :
    redactLoop S toks m = redactLoop S' toks m := by
  induction toks generalizing m with
  | nil => rfl
  | cons t ts ih =>
    have h' := fun t ht => h t (List.mem_cons_of_mem _ ht)
    simp only [redactLoop]
    rw [emitToken_congr S S' m t.typ t.val (h t List.mem_cons_self), ih _ h', ih _ h']

/-! ## Output alphabet -/

/-- What an emitted piece can be. -/
inductive PieceOK (S : List Bytes) (toks : List Tok) : Piece → Prop
  | ident (k : Option Nat) : PieceOK S toks (.ident k)
  | str (k : Nat) : PieceOK S toks (.str k)
  | num (k : Nat) : PieceOK S toks (.num k)
  | hex (k : Nat) : PieceOK S toks (.hex k)
  | bit (k : Nat) : PieceOK S toks (.bit k)
  | arg (t : Tok) (ht : t ∈ toks) (hc : classify t.typ = .arg) : PieceOK S toks (.raw t.val)
  | structural (t : Tok) (ht : t ∈ toks) (hc : classify t.typ = .other)
      (hv : t.val = [] ∨ t.val ∉ S) : PieceOK S toks (.raw (emitStructural t.typ t.val))

theorem PieceOK.mono {S : List Bytes} {ts : List Tok} {t : Tok} {p : Piece}
    (h : PieceOK S ts p) : PieceOK S (t :: ts) p := by
  cases h with
  | ident k => exact .ident k
  | str k => exact .str k
  | num k => exact .num k
  | hex k => exact .hex k
  | bit k => exact .bit k
  | arg t' ht hc => exact .arg t' (List.mem_cons_of_mem _ ht) hc
  | structural t' ht hc hv => exact .structural t' (List.mem_cons_of_mem _ ht) hc hv

theorem emitToken_piece (S : List Bytes) (m : Mapping) (t : Tok) (ts : List Tok) :
    PieceOK S (t :: ts) (emitToken S m t.typ t.val).2 := by
  unfold emitToken emitIdent
  cases hc : classify t.typ <;> simp only
  · exact .ident _
  · exact .str _
  · exact .num _
  · exact .hex _
  · exact .bit _
  · exact .arg t List.mem_cons_self hc
  · split
    · exact .ident _
    · rename_i hn
      refine .structural t List.mem_cons_self hc ?_
      by_cases hne : t.val = []
      · exact Or.inl hne
      · exact Or.inr (fun e => hn ⟨hne, e⟩)

theorem redactLoop_pieces (S : List Bytes) (toks : List Tok) (m : Mapping) (ps : List Piece)
    (h : (redactLoop S toks m).2 = some ps) : ∀ p ∈ ps, PieceOK S toks p := by
  induction toks generalizing m ps with
  | nil => simp [redactLoop] at h; subst h; simp
  | cons t ts ih =>
    simp only [redactLoop] at h
    split at h
    · simp at h; subst h; simp
    · split at h
      · simp at h
      · split at h
        · intro p hp; exact (ih m ps h p hp).mono
        · simp only [Option.map_eq_some_iff] at h
          obtain ⟨qs, hq, rfl⟩ := h
          intro p hp
          rcases List.mem_cons.mp hp with e | e
          · subst e; exact emitToken_piece S m t ts
          · exact (ih _ qs hq p e).mono

theorem redactLoop_length (S : List Bytes) (toks : List Tok) (m : Mapping) (ps : List Piece)
    (h0 : ∀ t ∈ toks, t.typ ≠ 0) (h : (redactLoop S toks m).2 = some ps) :
    ps.length = (toks.filter (fun t => decide (t.typ ≠ tCOMMENT))).length := by
  induction toks generalizing m ps with
  | nil => simp [redactLoop] at h; subst h; rfl
  | cons t ts ih =>
    have h0' := fun t ht => h0 t (List.mem_cons_of_mem _ ht)
    have ht0 := h0 t List.mem_cons_self
    simp only [redactLoop, ht0, if_false] at h
    split at h
    · simp at h
    · split at h
      · rename_i hc
        simp [hc, ih m ps h0' h]
      · rename_i hc
        simp only [Option.map_eq_some_iff] at h
        obtain ⟨qs, hq, rfl⟩ := h
        simp [hc, ih _ qs h0' hq]

theorem redactLoop_lexErr (S : List Bytes) (toks : List Tok) (m : Mapping)
    (h0 : ∀ t ∈ toks, t.typ ≠ 0) (he : ∃ t ∈ toks, t.typ = tLEX_ERROR) :
    (redactLoop S toks m).2 = none := by
  induction toks generalizing m with
  | nil => simp at he
  | cons t ts ih =>
    have h0' := fun t ht => h0 t (List.mem_cons_of_mem _ ht)
    have ht0 := h0 t List.mem_cons_self
    simp only [redactLoop, ht0, if_false]
    by_cases hl : t.typ = tLEX_ERROR
    · simp [hl]
    · have he' : ∃ t ∈ ts, t.typ = tLEX_ERROR := by
        obtain ⟨t', ht', e⟩ := he
        rcases List.mem_cons.mp ht' with r | r
        · subst r; exact absurd e hl
        · exact ⟨t', r, e⟩
      simp only [hl, if_false]
      split
      · exact ih m h0' he'
      · simp [ih _ h0' he']

theorem symLookup_mem (l : List (Nat × String)) (typ : Nat) (s : String)
    (h : symLookup l typ = some s) : s ∈ l.map Prod.snd := by
  induction l with
  | nil => simp [symLookup] at h
  | cons p rest ih =>
    obtain ⟨k, s'⟩ := p
    by_cases hk : k = typ
    · simp [symLookup, hk] at h; simp [h]
    · simp [symLookup, hk] at h; simp [ih h]

end Gms.Redact

/-! ## Property theorems -/
namespace Gms.C45
open Gms.Redact

/-- The switch of `emitToken`, the helpers, `symbolOps`, the loop and the lock protocol the model
transliterates are what the extractor read from the source on this run. -/
theorem facts_match :
    Gms.Generated.C45.emitSwitch =
      [([("ID", tID)], "I"),
       ([("STRING", tSTRING)], "b:' V b:'"),
       ([("INTEGRAL", tINTEGRAL), ("FLOAT", tFLOAT), ("HEXNUM", tHEXNUM)], "b:: V"),
       ([("HEX", tHEX)], "s:X' V b:'"),
       ([("BIT_LITERAL", tBIT_LITERAL)], "s:B' V b:'"),
       ([("VALUE_ARG", tVALUE_ARG), ("LIST_ARG", tLIST_ARG)], "RAW"),
       ([], "if(len(val) > 0){if(_, ok := identSet[string(val)]; ok){I ret }} S")]
    ∧ Gms.Generated.C45.emitIdentBody = "b:` N b:`"
    ∧ Gms.Generated.C45.emitStructuralBody =
        "if(len(val) > 0){RAW ret } if(typ < 256){TYPBYTE ret } if(s, ok := symbolOps[typ]; ok){SYM ret } b: "
    ∧ Gms.Generated.C45.symbolOps = symbolOps
    ∧ Gms.Generated.C45.preLoopGuards =
        ["if(m == nil){m = NewMapping()}", "if(parseErr != nil){ret UnparseableMarker, parseErr}"]
    ∧ Gms.Generated.C45.loopBody =
        ["typ, val := tk.Scan()", "if(typ == 0){break}",
         "if(typ == sqlparser.LEX_ERROR){ret UnparseableMarker, ErrLexFailed}",
         "if(typ == sqlparser.COMMENT){continue}", "if(!first){b: }", "first = false",
         "emitToken(&out, typ, val, m, identSet)"]
    ∧ Gms.Generated.C45.afterLoop = ["return out.String(), nil"]
    ∧ Gms.Generated.C45.parseAndScanArgs = ["sql", "sql"]
    ∧ Gms.Generated.C45.unparseableMarker = "<unparseable>"
    ∧ Gms.Generated.C45.collectIdentsCases =
        ["sqlparser.TableIdent => if !v.IsEmpty() { idents[v.String()] = struct{}{} }",
         "sqlparser.ColIdent => if !v.IsEmpty() { idents[v.String()] = struct{}{} }"] := by
  decide

/-- The two-step lock protocol of `RedactIdent` / `RedactValue` is the one `aStep` models. -/
theorem facts_match_mapping :
    Gms.Generated.C45.stepsRedactIdent =
      ["if m == nil || orig == \"\" { return orig }", "m.mu.RLock()",
       "if t, ok := m.idents[orig]; ok { m.mu.RUnlock() return t }", "m.mu.RUnlock()", "m.mu.Lock()",
       "defer m.mu.Unlock()", "if t, ok := m.idents[orig]; ok { return t }", "m.nCount++",
       "t := \"n\" + strconv.Itoa(m.nCount)", "m.idents[orig] = t", "return t"]
    ∧ Gms.Generated.C45.stepsRedactValue =
      ["if m == nil { return orig }", "m.mu.RLock()",
       "if t, ok := m.values[orig]; ok { m.mu.RUnlock() return t }", "m.mu.RUnlock()", "m.mu.Lock()",
       "defer m.mu.Unlock()", "if t, ok := m.values[orig]; ok { return t }", "m.vCount++",
       "t := \"v\" + strconv.Itoa(m.vCount)", "m.values[orig] = t", "return t"] := by
  decide

/-- The empty mapping is well formed. -/
theorem wf_empty : WF {} := ⟨⟨by simp, by simp⟩, ⟨by simp, by simp⟩⟩

/-- **Mapping is a function and injective, for every history.** After any sequence of statements'
worth of tokens (any identifier sets, any token lists), starting from any well-formed mapping:
the keys are distinct, the tokens handed out are exactly `1..count` in mint order (so distinct
lexemes have distinct tokens), and no earlier assignment was changed. -/
theorem mapping_functional_injective (S : List Bytes) (toks : List Tok) (m : Mapping) (h : WF m) :
    let m' := (redactLoop S toks m).1
    WF m' ∧ Ext m m' ∧
      (∀ k1 k2 v, lookup m'.idents k1 = some v → lookup m'.idents k2 = some v → k1 = k2) ∧
      (∀ k1 k2 v, lookup m'.values k1 = some v → lookup m'.values k2 = some v → k1 = k2) ∧
      m'.idents.length = m'.nCount ∧ m'.values.length = m'.vCount := by
  have hw := redactLoop_wf_ext S toks m h
  exact ⟨hw.1, hw.2, fun _ _ _ h1 h2 => hw.1.1.inj h1 h2, fun _ _ _ h1 h2 => hw.1.2.inj h1 h2,
    hw.1.1.length, hw.1.2.length⟩

/-- Distinct counters render to distinct token strings (`strconv.Itoa` is injective). -/
theorem identTok_injective (a b : Nat) (h : identTok a = identTok b) : a = b := by
  unfold identTok at h
  exact Nat.repr_injective ((String.append_right_inj _).mp h)

theorem valueTok_injective (a b : Nat) (h : valueTok a = valueTok b) : a = b := by
  unfold valueTok at h
  exact Nat.repr_injective ((String.append_right_inj _).mp h)

/-- **Noninterference.** Rewrite every secret lexeme of a statement — identifiers and keyword-typed
lexemes of the identifier set by any injective `ρi`, literals by any injective `ρv` — and the
redacted pieces are *identical*; the mapping afterwards is the renamed mapping. The output is a
function of the statement's shape (token types, public texts, equality pattern), not of the
secret lexemes. -/
theorem noninterference (ρi ρv : Bytes → Bytes) (hi : Function.Injective ρi)
    (hv : Function.Injective ρv) (h0 : ∀ x, ρi x = [] ↔ x = []) (S S' : List Bytes)
    (toks : List Tok) (m : Mapping) (hS : ∀ t ∈ toks, SetOK ρi S S' t) :
    (redactLoop S' (toks.map (renameTok ρi ρv S)) (m.rename ρi ρv)).2 = (redactLoop S toks m).2 ∧
    (redactLoop S' (toks.map (renameTok ρi ρv S)) (m.rename ρi ρv)).1 =
      (redactLoop S toks m).1.rename ρi ρv := by
  rw [redactLoop_rename ρi ρv hi hv h0 S S' toks m hS]
  exact ⟨rfl, rfl⟩

/-- Non-vacuity of `noninterference`: a renaming that changes every secret of
`SELECT a FROM t WHERE a = 'x'` (tokens abbreviated), with a keyword-typed `status`(=[9]) in the
identifier set. -/
example :
    let toks : List Tok := [⟨57353, [83], .kw⟩, ⟨tID, [1], .kw⟩, ⟨57567, [9], .name⟩, ⟨61, [], .kw⟩,
      ⟨tSTRING, [7], .kw⟩, ⟨tID, [1], .kw⟩]
    (redactLoop [[1], [9]] toks {}).2 =
      some [.raw [83], .ident (some 1), .ident (some 2), .raw [61], .str 1, .ident (some 1)] ∧
    (redactLoop [[101], [109]] (toks.map (renameTok (fun x => x.map (· + 100)) (fun x => 0 :: x) [[1], [9]])) {}).2 =
      some [.raw [83], .ident (some 1), .ident (some 2), .raw [61], .str 1, .ident (some 1)] := by
  decide

/-- **Output alphabet.** Every emitted piece is a placeholder, a bind placeholder's own text, or
the text of a keyword/operator token that is not in the identifier set. No identifier-typed or
literal-typed token text is ever written. -/
theorem output_alphabet (S : List Bytes) (toks : List Tok) (m : Mapping) (ps : List Piece)
    (h : (redactLoop S toks m).2 = some ps) : ∀ p ∈ ps, PieceOK S toks p :=
  redactLoop_pieces S toks m ps h

/-- A structural token without text writes an operator from a closed vocabulary. -/
theorem structural_closed (typ : Nat) :
    (typ < 256 ∧ emitStructural typ [] = [UInt8.ofNat typ]) ∨
    (∃ s ∈ symbolOps.map Prod.snd, emitStructural typ [] = strBytes s) ∨
    emitStructural typ [] = [32] := by
  unfold emitStructural
  by_cases h : typ < 256
  · left; simp [h]
  · right
    simp only [ne_eq, not_true_eq_false, if_false, h]
    cases hs : symLookup symbolOps typ with
    | none => right; rfl
    | some s => left; exact ⟨s, symLookup_mem _ _ _ hs, rfl⟩

/-- **Token structure is kept**: one piece per non-comment token. -/
theorem token_structure_preserved (S : List Bytes) (toks : List Tok) (m : Mapping)
    (ps : List Piece) (h0 : ∀ t ∈ toks, t.typ ≠ 0) (h : (redactLoop S toks m).2 = some ps) :
    ps.length = (toks.filter (fun t => decide (t.typ ≠ tCOMMENT))).length :=
  redactLoop_length S toks m ps h0 h

example : (redactLoop [] [⟨tID, [1], .kw⟩, ⟨tCOMMENT, [2], .kw⟩, ⟨44, [], .kw⟩] {}).2 =
    some [.ident (some 1), .raw [44]] := by decide

/-- **Unparseable input yields only the marker**: whenever the status is not `ok`, and a lexer
error anywhere in the stream forces that. -/
theorem unparseable_only_marker (m : Mapping) (inp : Input) :
    ((redactInto m inp).2.2 ≠ .ok → (redactInto m inp).1 = marker) ∧
    (inp = .parseFail → redactInto m inp = (marker, m, .parseErr)) ∧
    (∀ S toks, inp = .parsed S toks → (∀ t ∈ toks, t.typ ≠ 0) → (∃ t ∈ toks, t.typ = tLEX_ERROR) →
      (redactInto m inp).1 = marker ∧ (redactInto m inp).2.2 = .lexErr) := by
  refine ⟨?_, ?_, ?_⟩
  · cases inp with
    | parseFail => intro _; rfl
    | parsed S toks =>
      simp only [redactInto]
      split
      · intro h; exact absurd rfl h
      · intro _; rfl
  · intro h; subst h; rfl
  · intro S toks h h0 he
    subst h
    have := redactLoop_lexErr S toks m h0 he
    simp only [redactInto]
    split
    · rename_i m' ps heq
      rw [heq] at this; simp at this
    · exact ⟨rfl, rfl⟩

/-- **Concurrent redactions sharing a mapping stay consistent**: for *every* interleaving of the
atomic steps of any number of goroutines (read under RLock; re-check and mint under Lock), the
final mapping is well formed (a function, injective, tokens `1..count`), nothing assigned earlier
changed, and every token any step handed back is the final mapping's token for that lexeme. -/
theorem concurrent_consistent (m0 : Mapping) (ops : List AOp) (h : WF m0) :
    WF (aRun m0 ops).1 ∧ Ext m0 (aRun m0 ops).1 ∧
      ∀ op t, (op, some t) ∈ (aRun m0 ops).2 → lookupOf (aRun m0 ops).1 op = some t :=
  aRun_spec m0 ops h

/-- Two goroutines racing on the same new lexeme: both read-miss, both take the lock in turn;
one token is minted and both get it. -/
example : aRun {} [.readI [1], .readI [1], .lockI [1], .readV [5], .lockI [1], .lockV [5]] =
    ({ idents := [([1], 1)], values := [([5], 1)], nCount := 1, vCount := 1 },
     [(.readI [1], none), (.readI [1], none), (.lockI [1], some 1), (.readV [5], none),
      (.lockI [1], some 1), (.lockV [5], some 1)]) := by decide

/-- `RedactIdent` is the read step followed, on a miss, by the locked step. -/
theorem redactIdent_is_two_steps (m : Mapping) (k : Bytes) (hk : k ≠ []) :
    redactIdent m k =
      match aStep m (.readI k) with
      | (m', some t) => (m', some t)
      | (m', none) => aStep m' (.lockI k) :=
  redactIdent_eq_steps m k hk

/-! ### Spec: every user-chosen lexeme is redacted

The full statement
  `∀ S toks m, redactLoop S toks m = specLoop S toks m`
("whatever the generator marks as a user-chosen name is written as a placeholder") is FALSE for
the code as it stands: `collectIdents` only sees TableIdent/ColIdent nodes that `sqlparser.Walk`
reaches, and the grammar stores many names elsewhere. The guarded version and the witnesses: -/

/-- Guard: every keyword-typed user lexeme is in the identifier set `collectIdents` produced. -/
def NoLeak (S : List Bytes) (toks : List Tok) : Prop := ∀ t ∈ toks, leaks S t = false

theorem impl_eq_spec_partial (S : List Bytes) (toks : List Tok) (m : Mapping)
    (h : NoLeak S toks) : redactLoop S toks m = specLoop S toks m := by
  unfold specLoop
  apply redactLoop_congr
  intro t ht hc hne
  unfold specS
  constructor
  · intro hin; exact List.mem_append_left _ hin
  · intro hin
    rcases List.mem_append.mp hin with e | e
    · exact e
    · obtain ⟨t', ht', hv⟩ := List.mem_map.mp e
      have hm := List.mem_filter.mp ht'
      have hl := h t' hm.1
      have hu := hm.2
      simp only [isUserOther, Bool.and_eq_true, decide_eq_true_eq] at hu
      simp only [leaks, hu.1, hu.2, hv, hne, decide_true, Bool.true_and, Bool.and_true, ne_eq,
        not_false_eq_true, decide_eq_false_iff_not, Decidable.not_not] at hl
      exact hl

/-- Under the guard, no raw piece carries a user-chosen lexeme: a raw piece is a bind placeholder
or the text of a token the generator itself marks as template text (or an operator). -/
theorem no_user_lexeme_verbatim_partial (S : List Bytes) (toks : List Tok) (m : Mapping)
    (ps : List Piece) (hn : NoLeak S toks) (h : (redactLoop S toks m).2 = some ps) :
    ∀ bs, Piece.raw bs ∈ ps →
      (∃ t ∈ toks, classify t.typ = .arg ∧ bs = t.val) ∨
      (∃ t ∈ toks, classify t.typ = .other ∧ bs = emitStructural t.typ t.val ∧
        (t.val = [] ∨ t.role = .kw)) := by
  intro bs hb
  have := redactLoop_pieces S toks m ps h _ hb
  generalize hp : Piece.raw bs = p at this
  cases this with
  | ident k => cases hp
  | str k => cases hp
  | num k => cases hp
  | hex k => cases hp
  | bit k => cases hp
  | arg t ht hc => injection hp with e; exact Or.inl ⟨t, ht, hc, e⟩
  | structural t ht hc hv =>
    injection hp with e
    refine Or.inr ⟨t, ht, hc, e, ?_⟩
    rcases hv with hv | hv
    · exact Or.inl hv
    · by_cases hne : t.val = []
      · exact Or.inl hne
      · have hl := hn t ht
        simp only [leaks, hc, hne, hv, decide_true, Bool.true_and, ne_eq, not_false_eq_true,
          decide_eq_false_iff_not, Decidable.not_not] at hl
        exact Or.inr hl

/-- Non-vacuity: a statement with a keyword-typed column name that *is* collected. -/
example : NoLeak [[1], [9]] [⟨57353, [83], .kw⟩, ⟨57567, [9], .name⟩, ⟨tID, [1], .name⟩] := by
  unfold NoLeak; decide

/-- Finding, class 1: `CREATE TABLE t (status int)` — tokens CREATE TABLE `t` ( status int ):
the column name is keyword-typed, `collectIdents` returns only `t`, `status` is written verbatim. -/
theorem finding_kwname_in_ddl_definition :
    ∃ S toks m, region S toks = some "kwname_in_ddl_definition" ∧ redactLoop S toks m ≠ specLoop S toks m :=
  ⟨[[116]], [⟨57515, [67], .kw⟩, ⟨57524, [84], .kw⟩, ⟨tID, [116], .name⟩, ⟨40, [], .kw⟩,
      ⟨57567, [115, 116], .leaky 1⟩, ⟨57787, [105], .kw⟩, ⟨41, [], .kw⟩], {}, by decide, by decide⟩

/-- Finding, class 2: `CREATE TRIGGER status …` (trigger name). -/
theorem finding_kwname_of_stored_object :
    ∃ S toks m, region S toks = some "kwname_of_stored_object" ∧ redactLoop S toks m ≠ specLoop S toks m :=
  ⟨[], [⟨57515, [67], .kw⟩, ⟨57564, [84], .kw⟩, ⟨57567, [115, 116], .leaky 2⟩], {}, by decide, by decide⟩

/-- Finding, class 3: `CREATE USER status`. -/
theorem finding_kwname_of_account_or_grant :
    ∃ S toks m, region S toks = some "kwname_of_account_or_grant" ∧ redactLoop S toks m ≠ specLoop S toks m :=
  ⟨[], [⟨57515, [67], .kw⟩, ⟨57655, [85], .kw⟩, ⟨57567, [115, 116], .leaky 3⟩], {}, by decide, by decide⟩

/-- Finding, class 4: `EXPLAIN SELECT name FROM status` (Walk does not enter the explained statement). -/
theorem finding_kwname_in_unwalked_clause :
    ∃ S toks m, region S toks = some "kwname_in_unwalked_clause" ∧ redactLoop S toks m ≠ specLoop S toks m :=
  ⟨[], [⟨57550, [69], .kw⟩, ⟨57353, [83], .kw⟩, ⟨58001, [110], .leaky 4⟩, ⟨57358, [70], .kw⟩,
      ⟨57567, [115, 116], .leaky 4⟩], {}, by decide, by decide⟩

/-- A region is only ever reported for a case that does leak, and only when every leaking token
sits in a listed position class. -/
theorem region_sound (S : List Bytes) (toks : List Tok) (r : String) (h : region S toks = some r) :
    ¬ NoLeak S toks ∧ ∀ t ∈ toks, leaks S t = true → (tokRegion t).isSome = true := by
  unfold region at h
  generalize hls : toks.filter (leaks S) = ls at h
  cases ls with
  | nil => simp at h
  | cons t rest =>
    simp only at h
    split at h
    · rename_i hall
      constructor
      · intro hn
        have : t ∈ toks.filter (leaks S) := by rw [hls]; exact List.mem_cons_self
        have hm := List.mem_filter.mp this
        rw [hn t hm.1] at hm
        exact absurd hm.2 (by simp)
      · intro t' ht' hl'
        have : t' ∈ t :: rest := by rw [← hls]; exact List.mem_filter.mpr ⟨ht', hl'⟩
        exact List.all_eq_true.mp hall t' this
    · simp at h

end Gms.C45
