/-
C05 — A predicate partitions rows into TRUE, FALSE and NULL parts.

* `tlp` — the ternary-logic-partition law of the SQL definition, for every query, predicate,
  database and environment: `Q ~ σ_p Q ++ σ_{NOT p} Q ++ σ_{p IS NULL} Q` (as bags), and the three
  parts are pairwise disjoint row by row (`tlp_exclusive`).
* `where_keeps_true`, `on_keeps_true`, `having_keeps_true` — WHERE / inner-join ON / HAVING keep
  exactly the rows on which the predicate evaluates to TRUE (the value the select list shows).
* `pushNot_equiv` — the Impl model of `pushNotFiltersHelper` preserves the *value* (all three
  truth values) of every expression, for arbitrary leaves and arbitrary opaque sub-expressions.
* `pushdown_inner_equiv`, `pushdown_left_preserved_equiv`, `pushdown_left_null_side_unsound` —
  filter push-down below joins: sound for inner joins and for the preserved side of a left join,
  unsound (witness) for the NULL-supplying side.
* `facts_match` — the rewrite table of `pushNotFiltersHelper`, re-extracted from the source on
  every run, is the table the model implements.
* `facts_simplify` + `simplify_*` — what each BETWEEN / OR / AND / NOT case of
  `analyzer.simplifyExpression` may return (re-extracted on every run), and that each of these shapes
  has the value of the expression it replaces; `between_empty_range`, `fold_empty_range_to_false_unsound`
  — an empty literal range is FALSE on every non-NULL operand but NULL on NULL, so folding it to FALSE
  moves the NULL part of the partition into the FALSE part.
* `facts_idxIter` + `index_scan_complete`, `index_scan_tlp` — `memory.indexScanRowIter` (the iterator
  behind every secondary-index lookup; its loop shape is re-extracted on every run) delivers exactly
  the index entries satisfying the lookup's range expression, in both directions, so the three index
  lookups for `p`, `NOT p`, `p IS NULL` partition the index; `stop_after_run_sound_single_column`,
  `stop_after_run_unsound_box` — leaving the loop at the first entry past a run of matches is only
  sound for one-column ranges, not for a box over a multi-column index.
* `finding_join_on_folds_false_beside_subquery` — known finding of the unchanged engine (error 1105
  when a join condition folds to FALSE beside an unnested WHERE subquery).
-/
import Gms.Lemmas.Rel
import Gms.Lemmas.MemIdxIter
import Gms.Model.PushNot
import Gms.Model.FilterFold
import Gms.Generated.C05

namespace Gms.PushNot
open Gms.Sql

/-! ## Lemmas about the scalar layer -/

theorem isBoolValue_toValue (x : Tri) : IsBoolValue x.toValue := by
  cases x <;> simp [IsBoolValue, Tri.toValue]

theorem toValue_truth_of_bool (v : Value) (h : IsBoolValue v) : v.truth.toValue = v := by
  rcases h with rfl | rfl | rfl <;> rfl

/-- A negated order comparison is the complementary comparison, in all three truth values. -/
theorem cmpTri_negOp (op op' : Op) (h : negOp op = some op') (a b : Value) :
    cmpTri op' a b = Tri.not (cmpTri op a b) := by
  cases op <;> simp [negOp] at h <;> subst h <;>
    (simp only [cmpTri]; cases a.cmp? b with
      | none => rfl
      | some o => cases o <;> rfl)

theorem between_not (v lo hi : Value) :
    Tri.or (cmpTri .lt v lo) (cmpTri .gt v hi) = Tri.not (betweenTri v lo hi) := by
  rw [betweenTri, Tri.not_and, cmpTri_negOp .ge .lt rfl, cmpTri_negOp .le .gt rfl]

/-- Boolean-typed expressions evaluate to 0, 1 or NULL. -/
theorem eval_isBool (ρ : Nat → Value) (F : Nat → List Value → Value) :
    (e : PExpr) → WellTyped ρ F e → isBool e = true → IsBoolValue (eval ρ F e)
  | .atom _ _, h, hb => by simp only [isBool] at hb; exact h hb
  | .other _ _ _, h, hb => by simp only [isBool] at hb; exact h.1 hb
  | .not _, _, _ => isBoolValue_toValue _
  | .and _ _, _, _ => isBoolValue_toValue _
  | .or _ _, _, _ => isBoolValue_toValue _
  | .cmp _ _ _, _, _ => isBoolValue_toValue _
  | .between _ _ _, _, _ => isBoolValue_toValue _

mutual
theorem push_ok (ρ : Nat → Value) (F : Nat → List Value → Value) :
    (e : PExpr) → WellTyped ρ F e → eval ρ F (push e) = eval ρ F e
  | .atom _ _, _ => rfl
  | .not e, h => by
    simp only [push, eval]
    exact pushNeg_ok ρ F e h
  | .and a b, h => by simp only [push, eval, push_ok ρ F a h.1, push_ok ρ F b h.2]
  | .or a b, h => by simp only [push, eval, push_ok ρ F a h.1, push_ok ρ F b h.2]
  | .cmp _ a b, h => by simp only [push, eval, push_ok ρ F a h.1, push_ok ρ F b h.2]
  | .between v lo hi, h => by
    simp only [push, eval, push_ok ρ F v h.1, push_ok ρ F lo h.2.1, push_ok ρ F hi h.2.2]
  | .other _ _ cs, h => by simp only [push, eval, pushList_ok ρ F cs h.2]

theorem pushNeg_ok (ρ : Nat → Value) (F : Nat → List Value → Value) :
    (e : PExpr) → WellTyped ρ F e → eval ρ F (pushNeg e) = (Tri.not (eval ρ F e).truth).toValue
  | .atom _ _, _ => rfl
  | .not c, h => by
    by_cases hb : isBool c = true
    · simp only [pushNeg, hb, if_true, eval, truth_toValue, Tri.not_not]
      rw [push_ok ρ F c h, toValue_truth_of_bool _ (eval_isBool ρ F c h hb)]
    · have e1 : pushNeg (.not c) = .not (pushNeg c) := by simp [pushNeg, hb]
      rw [e1]
      simp only [eval, truth_toValue, pushNeg_ok ρ F c h]
  | .and l r, h => by
    simp only [pushNeg, eval, pushNeg_ok ρ F l h.1, pushNeg_ok ρ F r h.2, truth_toValue, Tri.not_and]
  | .or l r, h => by
    simp only [pushNeg, eval, pushNeg_ok ρ F l h.1, pushNeg_ok ρ F r h.2, truth_toValue, Tri.not_or]
  | .cmp op a b, h => by
    cases hop : negOp op with
    | none => simp only [pushNeg, hop, eval, push_ok ρ F a h.1, push_ok ρ F b h.2]
    | some op' =>
      simp only [pushNeg, hop, eval, push_ok ρ F a h.1, push_ok ρ F b h.2, truth_toValue]
      rw [cmpTri_negOp op op' hop]
  | .between v lo hi, h => by
    simp only [pushNeg, eval, push_ok ρ F v h.1, push_ok ρ F lo h.2.1, push_ok ρ F hi h.2.2, truth_toValue]
    rw [between_not]
  | .other _ _ cs, h => by simp only [pushNeg, eval, pushList_ok ρ F cs h.2]

theorem pushList_ok (ρ : Nat → Value) (F : Nat → List Value → Value) :
    (cs : List PExpr) → WellTypedList ρ F cs → evalList ρ F (pushList cs) = evalList ρ F cs
  | [], _ => rfl
  | e :: es, h => by simp only [pushList, evalList, push_ok ρ F e h.1, pushList_ok ρ F es h.2]
end

end Gms.PushNot

namespace Gms.Rel
open Gms.Sql

/-- Splitting a list by three predicates of which exactly one holds on each element. -/
theorem filter3_perm {α : Type} (p1 p2 p3 : α → Bool) (l : List α)
    (h : ∀ a ∈ l, (p1 a = true ∧ p2 a = false ∧ p3 a = false) ∨ (p1 a = false ∧ p2 a = true ∧ p3 a = false)
      ∨ (p1 a = false ∧ p2 a = false ∧ p3 a = true)) :
    l.Perm (l.filter p1 ++ l.filter p2 ++ l.filter p3) := by
  induction l with
  | nil => simp
  | cons a l ih =>
    have ih' := ih (fun x hx => h x (List.mem_cons_of_mem _ hx))
    rcases h a (by simp) with ⟨h1, h2, h3⟩ | ⟨h1, h2, h3⟩ | ⟨h1, h2, h3⟩
    · simp only [List.filter_cons, h1, h2, h3, if_true, List.cons_append]
      simpa using List.Perm.cons a ih'
    · simp only [List.filter_cons, h1, h2, h3, if_true, Bool.false_eq_true, if_false]
      refine (List.Perm.cons a ih').trans ?_
      rw [List.append_assoc, List.append_assoc]
      refine List.perm_middle.symm.trans ?_
      simp
    · simp only [List.filter_cons, h1, h2, h3, if_true, Bool.false_eq_true, if_false]
      refine (List.Perm.cons a ih').trans ?_
      exact List.perm_middle.symm

/-- A filter that only looks at the left part of a joined row can be applied before an inner
join. -/
theorem filter_innerJoin_left (m : Row → Row → Bool) (p : Row → Bool) (lw : Nat) (L R : List Row)
    (hL : ∀ a ∈ L, a.length = lw) :
    (innerJoin m L R).filter (fun x => p (x.take lw)) = innerJoin m (L.filter p) R := by
  induction L with
  | nil => simp [innerJoin]
  | cons a L ih =>
    have hi : ∀ L', innerJoin m (a :: L') R = (R.filter (m a)).map (a ++ ·) ++ innerJoin m L' R := by
      intro L'; simp [innerJoin]
    have hla : a.length = lw := hL a (by simp)
    have hmap : ((R.filter (m a)).map (a ++ ·)).filter (fun x => p (x.take lw)) =
        if p a then (R.filter (m a)).map (a ++ ·) else [] := by
      rw [List.filter_map]
      have : ((fun x => p (List.take lw x)) ∘ fun x => a ++ x) = fun _ => p a := by
        funext b; simp [Function.comp, ← hla]
      rw [this]
      by_cases hp : p a = true <;> simp [hp]
    rw [hi, List.filter_append, hmap, ih (fun x hx => hL x (List.mem_cons_of_mem _ hx))]
    by_cases hp : p a = true
    · simp only [hp, if_true, List.filter_cons]
      rw [hi]
    · simp only [hp, List.filter_cons]
      simp

/-- … and before a left outer join, when it looks at the *preserved* (left) side only. -/
theorem filter_leftJoin_preserved (m : Row → Row → Bool) (p : Row → Bool) (lw w : Nat) (L R : List Row)
    (hL : ∀ a ∈ L, a.length = lw) :
    (leftJoin m w L R).filter (fun x => p (x.take lw)) = leftJoin m w (L.filter p) R := by
  induction L with
  | nil => simp [leftJoin]
  | cons a L ih =>
    have hl : ∀ L', leftJoin m w (a :: L') R =
        (if (R.filter (m a)).isEmpty then [a ++ nulls w] else (R.filter (m a)).map (a ++ ·)) ++ leftJoin m w L' R := by
      intro L'; simp [leftJoin]
    have hla : a.length = lw := hL a (by simp)
    have hhead : (if (R.filter (m a)).isEmpty then [a ++ nulls w] else (R.filter (m a)).map (a ++ ·)).filter
        (fun x => p (x.take lw)) =
        if p a then (if (R.filter (m a)).isEmpty then [a ++ nulls w] else (R.filter (m a)).map (a ++ ·)) else [] := by
      by_cases he : (R.filter (m a)).isEmpty = true
      · rw [if_pos he]
        simp only [List.filter_cons, List.filter_nil]
        simp [← hla]
      · rw [if_neg he]
        rw [List.filter_map]
        have : ((fun x => p (List.take lw x)) ∘ fun x => a ++ x) = fun _ => p a := by
          funext b; simp [Function.comp, ← hla]
        rw [this]
        by_cases hp : p a = true <;> simp [hp]
    rw [hl, List.filter_append, hhead, ih (fun x hx => hL x (List.mem_cons_of_mem _ hx))]
    by_cases hp : p a = true
    · simp only [hp, if_true, List.filter_cons]
      rw [hl]
    · simp only [hp, List.filter_cons]
      simp

end Gms.Rel

/-! ## Property theorems -/
namespace Gms.C05
open Gms.Sql Gms.Rel Gms.PushNot

/-- The rewrite table extracted from the source on this run is the one the model implements:
which child kinds of a NOT are rewritten, to which constructors, with which guard. -/
theorem facts_match :
    Gms.Generated.C05.pushNotTable =
      [("Not", ["IsBoolean", "Type", "pushNotFiltersHelper"]),
       ("And", ["NewOr", "NewNot", "NewNot"]),
       ("Or", ["NewAnd", "NewNot", "NewNot"]),
       ("GreaterThan", ["NewLessThanOrEqual", "Left", "Right"]),
       ("GreaterThanOrEqual", ["NewLessThan", "Left", "Right"]),
       ("LessThan", ["NewGreaterThanOrEqual", "Left", "Right"]),
       ("LessThanOrEqual", ["NewGreaterThan", "Left", "Right"]),
       ("Between", ["NewOr", "NewLessThan", "NewGreaterThan"])]
    ∧ Gms.Generated.C05.betweenArgs = ["f.Val", "f.Lower", "f.Val", "f.Upper"]
    ∧ Gms.Generated.C05.fallThrough = "WithChildren" := by
  decide

/-- The model's comparison table is the extracted one. -/
def opOfName : String → Option CmpOp
  | "GreaterThan" => some .gt | "GreaterThanOrEqual" => some .ge
  | "LessThan" => some .lt | "LessThanOrEqual" => some .le | _ => none
def opOfCtor : String → Option CmpOp
  | "NewGreaterThan" => some .gt | "NewGreaterThanOrEqual" => some .ge
  | "NewLessThan" => some .lt | "NewLessThanOrEqual" => some .le | _ => none

theorem facts_negOp :
    Gms.Generated.C05.pushNotTable.all (fun e =>
      match opOfName e.1 with
      | some op =>
        (match e.2 with
         | [c, "Left", "Right"] => opOfCtor c == negOp op   -- complementary comparison, operands in order
         | _ => false)
      | none => true) = true := by
  decide

/-- NOT push-down preserves the value of every expression (hence all three truth values), for
every valuation of the leaves and every interpretation of the opaque sub-expressions that honours
the static boolean flags. -/
theorem pushNot_equiv (ρ : Nat → Value) (F : Nat → List Value → Value) (e : PExpr)
    (h : WellTyped ρ F e) : PushNot.eval ρ F (push e) = PushNot.eval ρ F e :=
  push_ok ρ F e h

/-- The rewritten `NOT e` is the three-valued negation of `e`. -/
theorem pushNot_not_equiv (ρ : Nat → Value) (F : Nat → List Value → Value) (e : PExpr)
    (h : WellTyped ρ F e) :
    (PushNot.eval ρ F (push (.not e))).truth = Tri.not (PushNot.eval ρ F e).truth := by
  rw [push_ok ρ F (.not e) h]
  simp [PushNot.eval, truth_toValue]

/-- Non-vacuity and sharpness: a concrete rewrite, and the boolean guard of `NOT NOT c` matters
(for the non-boolean value 2, `NOT NOT 2 = 1 ≠ 2`). -/
example : push (.not (.and (.cmp .lt (.atom 0 false) (.atom 1 false)) (.not (.between (.atom 0 false) (.atom 1 false) (.atom 2 false)))))
    = .or (.cmp .ge (.atom 0 false) (.atom 1 false)) (.between (.atom 0 false) (.atom 1 false) (.atom 2 false)) := by
  rfl

example : PushNot.eval (fun _ => .int 2) (fun _ _ => .null) (.not (.not (.atom 0 false))) = .int 1
    ∧ push (.not (.not (.atom 0 false))) = .not (.not (.atom 0 false))
    ∧ push (.not (.not (.atom 0 true))) = .atom 0 true := ⟨by decide, rfl, rfl⟩

/-- The Appendix-C mutant `NOT (a < b) ↦ a > b` is refuted by the equality case. -/
theorem mutant_lt_to_gt_refuted :
    ∃ a b, negOpWrong .lt = some .gt ∧ cmpTri .gt a b ≠ Tri.not (cmpTri .lt a b) :=
  ⟨.int 1, .int 1, rfl, by decide⟩

/-! ### Filter simplification: `analyzer.simplifyExpression` -/

/-- What the BETWEEN / OR / AND / NOT cases of `simplifyExpression` can return (first result of each
`return`, in source order), as extracted from the source on this run. Each shape is covered by one
of the `simplify_*` lemmas below; in particular no BETWEEN is ever replaced by a literal. -/
theorem facts_simplify :
    Gms.Generated.C05.simplifyReturns =
      [("Between", ["NewEquals", "NewLessThanOrEqual", "NewGreaterThanOrEqual",
                    "NewAnd NewGreaterThanOrEqual NewLessThanOrEqual"]),
       ("Or", ["NewTrue", "NewTrue", "NewFalse", "e.RightChild", "e.LeftChild", "e"]),
       ("And", ["NewFalse", "NewFalse", "NewTrue", "e.RightChild", "e.LeftChild", "e"]),
       ("Not", ["e", "NewLiteral", "e"])] := by
  decide

theorem bytesCmp_self : ∀ a : List UInt8, bytesCmp a a = .eq
  | [] => rfl
  | x :: xs => by simp [bytesCmp, bytesCmp_self xs]

theorem cmp?_self (v : Value) (h : v ≠ .null) : v.cmp? v = some .eq := by
  cases v with
  | null => exact absurd rfl h
  | int i => simp [Value.cmp?]
  | str b => simp [Value.cmp?, bytesCmp_self]

theorem and_t_left (x : Tri) : Tri.and .t x = x := by cases x <;> rfl
theorem and_t_right (x : Tri) : Tri.and x .t = x := by cases x <;> rfl
theorem and_f_left (x : Tri) : Tri.and .f x = .f := by cases x <;> rfl
theorem and_f_right (x : Tri) : Tri.and x .f = .f := by cases x <;> rfl
theorem or_t_left (x : Tri) : Tri.or .t x = .t := by cases x <;> rfl
theorem or_t_right (x : Tri) : Tri.or x .t = .t := by cases x <;> rfl
theorem or_f_left (x : Tri) : Tri.or .f x = x := by cases x <;> rfl
theorem or_f_right (x : Tri) : Tri.or x .f = x := by cases x <;> rfl

/-- `v BETWEEN f AND f` ↦ `v = f` (lower and upper bound are the same field). -/
theorem simplify_between_same_bounds (v f : Value) : betweenTri v f f = cmpTri .eq v f := by
  simp only [betweenTri, cmpTri]
  cases v.cmp? f with
  | none => rfl
  | some o => cases o <;> rfl

/-- `f BETWEEN f AND u` ↦ `f <= u` (tested value and lower bound are the same field). -/
theorem simplify_between_val_is_lower (f u : Value) : betweenTri f f u = cmpTri .le f u := by
  by_cases h : f = .null
  · subst h; simp [betweenTri, cmpTri, Value.cmp?, Tri.and]
  · have : cmpTri .ge f f = .t := by simp only [cmpTri, cmp?_self f h]; rfl
    rw [betweenTri, this, and_t_left]

/-- `f BETWEEN l AND f` ↦ `f >= l` (tested value and upper bound are the same field). -/
theorem simplify_between_val_is_upper (f l : Value) : betweenTri f l f = cmpTri .ge f l := by
  by_cases h : f = .null
  · subst h; simp [betweenTri, cmpTri, Value.cmp?, Tri.and]
  · have : cmpTri .le f f = .t := by simp only [cmpTri, cmp?_self f h]; rfl
    rw [betweenTri, this, and_t_right]

/-- Every other BETWEEN ↦ `v >= lo AND v <= hi`: the definition. -/
theorem simplify_between_unfold (v lo hi : Value) :
    betweenTri v lo hi = Tri.and (cmpTri .ge v lo) (cmpTri .le v hi) := rfl

/-- OR / AND with an operand that is a definite (non-NULL) literal: the six return shapes. Returning
the other operand itself is guarded by `types.IsBoolean` in the code: it preserves the truth value
always and the value when the operand is boolean (`toValue_truth_of_bool`). -/
theorem simplify_or_and_literal (x : Tri) :
    Tri.or .t x = .t ∧ Tri.or x .t = .t ∧ Tri.or .f .f = .f ∧ Tri.or .f x = x ∧ Tri.or x .f = x
    ∧ Tri.and .f x = .f ∧ Tri.and x .f = .f ∧ Tri.and .t .t = .t ∧ Tri.and .t x = x ∧ Tri.and x .t = x :=
  ⟨or_t_left x, or_t_right x, rfl, or_f_left x, or_f_right x, and_f_left x, and_f_right x, rfl, and_t_left x,
    and_t_right x⟩

/-- A NULL literal operand decides nothing (`getDefiniteBoolValues` returns `false, false` for it):
`NULL OR x` and `NULL AND x` still depend on `x`. -/
theorem null_literal_is_not_definite :
    Tri.or .u .t ≠ Tri.or .u .f ∧ Tri.and .u .t ≠ Tri.and .u .f := by decide

/-- `NOT <literal>` ↦ the negated literal. -/
theorem simplify_not_literal (v : Value) :
    (Tri.not v.truth).toValue.truth = Tri.not v.truth := truth_toValue _

/-- **An empty literal range**: `v BETWEEN lo AND hi` with `lo > hi` is FALSE on every non-NULL `v`
but NULL on NULL. -/
theorem between_empty_range (v : Value) (lo hi : Int) (h : hi < lo) :
    betweenTri v (.int lo) (.int hi) = if v.isNull then .u else .f := by
  cases v with
  | null => rfl
  | str b => simp only [betweenTri, cmpTri, Value.cmp?, Value.isNull]; rfl
  | int i =>
    simp only [betweenTri, cmpTri, Value.cmp?, Value.isNull]
    by_cases h1 : i < lo
    · have : compare i lo = .lt := Int.compare_eq_lt.mpr h1
      simp [this, CmpOp.holds, Tri.ofBool, and_f_left]
    · have : compare i hi = .gt := Int.compare_eq_gt.mpr (by omega)
      simp [this, CmpOp.holds, Tri.ofBool, and_f_right]

/-- The line of the TODO list above the BETWEEN case ("If e.Lower > e.Upper, simplify to false") must
not be implemented literally: on a NULL operand the folded predicate is FALSE where the original is
NULL, so `NOT p` keeps a row that belongs to the NULL part, and `p IS NULL` loses it. -/
theorem fold_empty_range_to_false_unsound :
    ∃ (v : Value) (lo hi : Int), hi < lo ∧
      Tri.not (betweenTri v (.int lo) (.int hi)) ≠ .t ∧ Tri.not Tri.f = .t ∧
      betweenTri v (.int lo) (.int hi) = .u :=
  ⟨.null, 5, 3, by decide, by decide, rfl, rfl⟩

/-- … and it is exactly the NULL operand that goes wrong (sharpness). -/
theorem fold_empty_range_to_false_sound_on_non_null (v : Value) (lo hi : Int) (h : hi < lo)
    (hv : v.isNull = false) : betweenTri v (.int lo) (.int hi) = .f := by
  rw [between_empty_range v lo hi h, hv]; rfl

/-! ### Index lookups: `memory.indexScanRowIter` -/

section IndexScan
open Gms.MemIdxIter

/-- The shape of `indexScanRowIter` the model `Gms.MemIdxIter` transliterates, as extracted on this
run: the state is a position in the index storage, the loop visits every entry (`i++` / `i--` from
the first / last one), and the only exits are the stale-location `continue`, the error `return`, and
the `break` on a match — after which the position moves on by one. -/
theorem facts_idxIter :
    Gms.Generated.C05.idxIterFields =
      ["index", "ranges", "lookup", "indexRows", "incrementFunc", "primaryRows", "columns", "virtualCols", "i",
       "numColumns"]
    ∧ Gms.Generated.C05.idxIterLoopCond = "i.i < len(i.indexRows) && i.i >= 0"
    ∧ Gms.Generated.C05.idxIterLoopPost = "i.incrementFunc()"
    ∧ Gms.Generated.C05.idxIterLoopExits =
      [("continue", "len(i.primaryRows[rowLoc.partition]) <= rowLoc.idx"), ("return", "err != nil"),
       ("break", "matches")]
    ∧ Gms.Generated.C05.idxIterLoopMoves = [("i.incrementFunc()", "matches")]
    ∧ Gms.Generated.C05.idxIterSetup =
      [("i := 0", ""), ("i = len(indexRows) - 1", "lookup.IsReverse"), ("iter.i--", "lookup.IsReverse"),
       ("iter.i++", "!(lookup.IsReverse)")] := by
  decide

/-- An index lookup delivers exactly the entries whose key satisfies the range expression — each
once, whatever the direction, whatever the range expression (one box, many boxes, any predicate). -/
theorem index_scan_complete {α : Type} (m : Key → Bool) (rev : Bool) (es : List (Entry α)) :
    (scan m rev es).Perm (Spec.scan m es) ∧ (∀ e, e ∈ scan m rev es ↔ e ∈ es ∧ m e.key = true) :=
  ⟨scan_perm m rev es, mem_scan m rev es⟩

/-- In the forward direction the entries come in index order, in the reverse direction backwards. -/
theorem index_scan_order {α : Type} (m : Key → Bool) (es : List (Entry α)) :
    scan m false es = Spec.scan m es ∧ scan m true es = (Spec.scan m es).reverse :=
  ⟨scan_forward m es, scan_reverse m es⟩

/-- TLP through the index: if on every key exactly one of the three range expressions (those of `p`,
`NOT p`, `p IS NULL`) holds, the three lookups partition the index, in any mix of directions. -/
theorem index_scan_tlp {α : Type} (mT mF mN : Key → Bool) (rT rF rN : Bool) (es : List (Entry α))
    (h : ∀ k, (mT k = true ∧ mF k = false ∧ mN k = false) ∨ (mT k = false ∧ mF k = true ∧ mN k = false)
      ∨ (mT k = false ∧ mF k = false ∧ mN k = true)) :
    es.Perm (scan mT rT es ++ scan mF rF es ++ scan mN rN es) := by
  have h3 := Gms.Rel.filter3_perm (fun e : Entry α => mT e.key) (fun e => mF e.key) (fun e => mN e.key) es
    (fun e _ => h e.key)
  refine h3.trans ?_
  exact ((scan_perm mT rT es).symm.append (scan_perm mF rF es).symm).append (scan_perm mN rN es).symm

/-- Leaving the loop at the first entry past a run of matches ("the entries of a single range are
adjacent") is sound for a one-column index and a single interval … -/
theorem stop_after_run_sound_single_column {α : Type} (r : Interval) (es : List (Entry α))
    (hs : es.Pairwise (fun a b => key1Le a.key b.key)) :
    scanStopAfterRun (Box.holds [r]) es = Spec.scan (Box.holds [r]) es :=
  scanStopAfterRun_of_sorted_convex (Box.holds [r]) key1Le (box1_convex r) es hs

/-- … and whenever the matches happen to be adjacent … -/
theorem stop_after_run_sound_contiguous {α : Type} (m : Key → Bool) (es : List (Entry α))
    (h : Contiguous m es) : scanStopAfterRun m es = Spec.scan m es :=
  scanStopAfterRun_of_contiguous m es h

/-- … but NOT for a single box over a two-column index: for `a > 1 AND b = 2` on the sorted entries
`(2,1) (2,2) (3,1) (3,2) (4,2)` the matches `(2,2) (3,2) (4,2)` are interleaved with non-matches, and
stopping after the first run loses two of them. -/
def exIdx : List (Entry Nat) :=
  [⟨[some 2, some 1], 0⟩, ⟨[some 2, some 2], 1⟩, ⟨[some 3, some 1], 2⟩, ⟨[some 3, some 2], 3⟩, ⟨[some 4, some 2], 4⟩]
def exBox : Box := [.range (some (1, false)) none, .range (some (2, true)) (some (2, true))]

theorem stop_after_run_unsound_box :
    (scan (Box.holds exBox) false exIdx).map (·.row) = [1, 3, 4]
    ∧ (scan (Box.holds exBox) true exIdx).map (·.row) = [4, 3, 1]
    ∧ (scanStopAfterRun (Box.holds exBox) exIdx).map (·.row) = [1]
    ∧ (scanStopAfterRun (Box.holds exBox) exIdx.reverse).map (·.row) = [4, 3] := by
  decide

/-- Non-vacuity of `index_scan_tlp`: `a > 1 AND b = 2`, its negation and its NULL part on an index
with NULL keys. -/
example :
    let es : List (Entry Nat) := exIdx ++ [⟨[none, some 2], 5⟩, ⟨[some 4, none], 6⟩]
    let mT : Key → Bool := Box.holds exBox
    let mN : Key → Bool := fun k => boxesHold [[.isNull, .range (some (2, true)) (some (2, true))],
      [.range (some (1, false)) none, .isNull], [.isNull, .isNull]] k
    let mF : Key → Bool := fun k => !mT k && !mN k
    (scan mT false es).map (·.row) = [1, 3, 4] ∧ (scan mN true es).map (·.row) = [6, 5]
      ∧ (scan mF false es).map (·.row) = [0, 2] := by
  decide

end IndexScan

/-! ### Known finding `join_on_folds_false_beside_subquery` (engine level, no Impl model of the planner)

When the ON of a join constant-folds to FALSE, `simplifyFilters` puts an `EmptyTable` into the join
tree; if the same statement has a WHERE / ON subquery that is unnested into a semi / anti join, the
join planner fails: error 1105 `failed to replan join: unknown type for rel output cols:
*memo.EmptyTable`. So one of `WHERE p` / `WHERE NOT p` / `WHERE p IS NULL` fails where the others
answer. The region is decided on the case by `Gms.FilterFold.Region_join_on_folds_false_beside_subquery`
(an over-approximation of "may fold to FALSE"; mirrored by harness/cmd/c05/region.go, re-decided by the
driver); inside it a case is only taken out of the correspondence when the engine shows exactly this
error, otherwise it is compared with the definition as usual. -/

section FoldRegion
open Gms.FilterFold

def exFoldDb : Db := [⟨1, [[.int 1], [.int 2]]⟩]
/-- `t0 a LEFT JOIN t0 b ON (a.c0 > b.c0 AND 1 = 0)` -/
def exFoldQ : Query :=
  .join .left (.and (.cmp .gt (.col 0 0) (.col 0 1)) (.cmp .eq (.lit (.int 1)) (.lit (.int 0)))) (.table 0) (.table 0)
/-- `EXISTS (SELECT … FROM t0 c WHERE c.c0 = 1)` -/
def exFoldP : Expr := .exists (.filter (.cmp .eq (.col 0 0) (.lit (.int 1))) (.table 0))

/-- The witness: the statement `… WHERE NOT p` is in the region; the definition answers it (no row:
`p` is TRUE on both NULL-padded rows) — the engine fails with error 1105 (replayed, see
known_findings/C05.jsonl), while `WHERE p` returns the two rows on both sides. -/
theorem finding_join_on_folds_false_beside_subquery :
    Region_join_on_folds_false_beside_subquery (.filter (.not exFoldP) exFoldQ) = true
    ∧ Rel.eval exFoldDb (.filter (.not exFoldP) exFoldQ) = []
    ∧ Rel.eval exFoldDb (.filter exFoldP exFoldQ) = [[.int 1, .null], [.int 2, .null]] := by
  decide

/-- The region needs both ingredients: a statement without a subquery in WHERE / ON, and a statement
none of whose join conditions can fold to FALSE, are outside it (and are compared with the
definition in full). -/
theorem region_needs_subquery_and_foldable_join (q : Query) :
    (predHasSub q = false → Region_join_on_folds_false_beside_subquery q = false)
    ∧ (joinMayFoldFalse q = false → Region_join_on_folds_false_beside_subquery q = false) := by
  constructor <;> intro h <;> simp [Region_join_on_folds_false_beside_subquery, h]

/-- A condition whose every conjunct compares columns cannot fold: the ordinary ON of the generators
is outside the region, the witness' ON is inside. -/
example : (foldE (.and (.cmp .eq (.col 0 0) (.col 0 1)) (.cmp .lt (.col 0 0) (.lit (.int 3))))).mayF = false
    ∧ (foldE (.and (.cmp .gt (.col 0 0) (.col 0 1)) (.cmp .eq (.lit (.int 1)) (.lit (.int 0))))).mayF = true := by
  decide

end FoldRegion

/-! ### The partition law -/

/-- Row by row, exactly one of `p`, `NOT p`, `p IS NULL` is TRUE. -/
theorem tlp_exclusive (db : Db) (env : Env) (p : Expr) :
    ((evalE db env p).truth = .t ∧ (evalE db env (.not p)).truth ≠ .t ∧ (evalE db env (.isNull p)).truth ≠ .t)
    ∨ ((evalE db env p).truth ≠ .t ∧ (evalE db env (.not p)).truth = .t ∧ (evalE db env (.isNull p)).truth ≠ .t)
    ∨ ((evalE db env p).truth ≠ .t ∧ (evalE db env (.not p)).truth ≠ .t ∧ (evalE db env (.isNull p)).truth = .t) := by
  simp only [evalE, truth_toValue]
  cases hv : evalE db env p with
  | null => simp [Value.truth, Value.isNull, Tri.not, Tri.ofBool]
  | int i =>
    by_cases hi : i = 0
    · simp [Value.truth, Value.isNull, Tri.not, Tri.ofBool, hi]
    · simp [Value.truth, Value.isNull, Tri.not, Tri.ofBool, hi]
  | str b => simp [Value.truth, Value.isNull, Tri.not, Tri.ofBool]

/-- **TLP**: the rows of any query are the disjoint union (as a bag) of its rows filtered by `p`,
by `NOT p` and by `p IS NULL` — for every query, predicate (with subqueries, correlation, any
operator of the model), database and environment. -/
theorem tlp (db : Db) (env : Env) (p : Expr) (q : Query) :
    (evalQ db env q).Perm
      (evalQ db env (.filter p q) ++ evalQ db env (.filter (.not p) q) ++ evalQ db env (.filter (.isNull p) q)) := by
  simp only [evalQ]
  apply filter3_perm
  intro r _
  have h := tlp_exclusive db (r :: env) p
  rcases h with ⟨h1, h2, h3⟩ | ⟨h1, h2, h3⟩ | ⟨h1, h2, h3⟩
  · left; simp [h1, h2, h3]
  · right; left; simp [h1, h2, h3]
  · right; right; simp [h1, h2, h3]

/-- Corollary on counts (what the engine-level oracle checks). -/
theorem tlp_count (db : Db) (env : Env) (p : Expr) (q : Query) :
    (evalQ db env q).length =
      (evalQ db env (.filter p q)).length + (evalQ db env (.filter (.not p) q)).length
        + (evalQ db env (.filter (.isNull p) q)).length := by
  have := (tlp db env p q).length_eq
  simp only [List.length_append] at this
  omega

/-- WHERE keeps exactly the rows whose select-list value of `p` is TRUE. -/
theorem where_keeps_true (db : Db) (env : Env) (p : Expr) (q : Query) :
    evalQ db env (.filter p q) =
      ((evalQ db env (.project [p] q)).zip (evalQ db env q)).filterMap
        (fun pr => if (pr.1.headD .null).truth = .t then some pr.2 else none) := by
  simp only [evalQ, evalEs]
  induction evalQ db env q with
  | nil => rfl
  | cons r rs ih =>
    simp only [List.map_cons, List.zip_cons_cons, List.filterMap_cons, List.filter_cons, List.headD_cons]
    by_cases h : (evalE db (r :: env) p).truth = .t
    · simp [h, ih]
    · simp [h, ih]

/-- An inner-join ON clause keeps exactly the pairs on which it is TRUE. -/
theorem on_keeps_true (db : Db) (env : Env) (on : Expr) (l r : Query) (x : Row) :
    x ∈ evalQ db env (.join .inner on l r) ↔
      ∃ a ∈ evalQ db env l, ∃ b ∈ evalQ db env r, (evalE db ((a ++ b) :: env) on).truth = .t ∧ x = a ++ b := by
  simp only [evalQ, mem_innerJoin, decide_eq_true_eq]

/-- HAVING is a filter over the grouped rows. -/
theorem having_keeps_true (db : Db) (env : Env) (p : Expr) (ks : List Expr) (fns : List AggFn)
    (args : List Expr) (q : Query) (x : Row) :
    x ∈ evalQ db env (.filter p (.group ks fns args q)) ↔
      x ∈ evalQ db env (.group ks fns args q) ∧ (evalE db (x :: env) p).truth = .t := by
  simp [evalQ, List.mem_filter]

/-- ON and WHERE are interchangeable for inner joins. -/
theorem on_eq_where_inner (db : Db) (env : Env) (on : Expr) (l r : Query) :
    evalQ db env (.join .inner on l r) = evalQ db env (.filter on (.join .inner (.lit (.int 1)) l r)) := by
  simp only [evalQ, innerJoin]
  have hone : ∀ a b : Row, decide ((evalE db ((a ++ b) :: env) (.lit (.int 1))).truth = .t) = true := by
    intro a b; simp [evalE, Value.truth]
  simp only [hone, List.filter_flatMap, List.filter_map]
  congr 1
  funext a
  have ht : (evalQ db env r).filter (fun _ => true) = evalQ db env r := by simp
  rw [ht]
  rfl

/-! ### Filter push-down below joins -/

theorem pushdown_inner_equiv (m : Row → Row → Bool) (p : Row → Bool) (lw : Nat) (L R : List Row)
    (hL : ∀ a ∈ L, a.length = lw) :
    (innerJoin m L R).filter (fun x => p (x.take lw)) = innerJoin m (L.filter p) R :=
  filter_innerJoin_left m p lw L R hL

theorem pushdown_left_preserved_equiv (m : Row → Row → Bool) (p : Row → Bool) (lw w : Nat)
    (L R : List Row) (hL : ∀ a ∈ L, a.length = lw) :
    (leftJoin m w L R).filter (fun x => p (x.take lw)) = leftJoin m w (L.filter p) R :=
  filter_leftJoin_preserved m p lw w L R hL

/-- Pushing a filter to the NULL-supplying side of a left join is *not* sound: with
`L = [(1)]`, `R = [(1)]`, join on equality, filter `right column IS NULL`, filtering after the
join gives nothing, filtering `R` first gives the NULL-padded row. -/
theorem pushdown_left_null_side_unsound :
    ∃ (m : Row → Row → Bool) (p : Row → Bool) (L R : List Row),
      (leftJoin m 1 L R).filter (fun x => p (x.drop 1)) ≠ leftJoin m 1 L (R.filter p) :=
  ⟨fun a b => a == b, fun b => b == [Value.null] || b == [Value.int 2], [[.int 1]], [[.int 1]], by decide⟩

/-! ### Non-vacuity of TLP on a database with NULLs -/

def exT : Table := ⟨2, [[.int 1, .int 2], [.int 1, .null], [.null, .int 3], [.int 2, .int 2]]⟩

example :
    Rel.eval [exT] (.filter (.cmp .lt (.col 0 0) (.col 0 1)) (.table 0)) = [[.int 1, .int 2]]
    ∧ Rel.eval [exT] (.filter (.not (.cmp .lt (.col 0 0) (.col 0 1))) (.table 0)) = [[.int 2, .int 2]]
    ∧ Rel.eval [exT] (.filter (.isNull (.cmp .lt (.col 0 0) (.col 0 1))) (.table 0))
        = [[.int 1, .null], [.null, .int 3]] := by decide

end Gms.C05
