/-
C46 — Index range operations preserve the set of keys they denote.

Model: Gms/Model/Range.lean (cuts, column ranges, n-column ranges, the worklist of
RemoveOverlappingRanges over an abstract tree), Gms/Model/RangeTree.lean (heap model of the
interval tree; correspondence only). Helper lemmas: Gms/Lemmas/Range{Cut,Col,N,ROR}.lean.
The property theorems are in `namespace Gms.C46` below.
-/
import Gms.Lemmas.RangeROR
import Gms.Model.RangeTree
import Gms.Generated.C46

namespace Gms.C46
open Gms.Range

/-! ## Regenerated facts -/

def mkCut (kind : Nat) (k : Int) : Cut :=
  match kind with
  | 0 => .belowNull
  | 1 => .aboveNull
  | 2 => .below k
  | 3 => .above k
  | _ => .aboveAll

set_option maxRecDepth 20000 in
/-- The real `Compare` of every pair of cut kinds (table dumped from the freshly compiled code on
this run) is the model's `Cut.compare`. -/
theorem facts_match_compare :
    Gms.Generated.C46.compareTable.length = 125 ∧
    ∀ e ∈ Gms.Generated.C46.compareTable,
      (mkCut e.1 e.2.1).compare (mkCut e.2.2.1 e.2.2.2.1) = e.2.2.2.2 := by
  decide

def selName : ColRange.Sel → String
  | .rLo => "r.LowerBound" | .rHi => "r.UpperBound" | .oLo => "other.LowerBound" | .oHi => "other.UpperBound"

def renderCase (n : Nat) : Int × List (String × String) :=
  ((n : Int), ((ColRange.subtractCase n).getD []).map (fun p => (selName p.1, selName p.2)))

/-- The nine-case switch of `Subtract` in the source is the model's `subtractCase` table, with the
same trit encoding of (lComp, uComp) and a panicking default. -/
theorem facts_match_subtract :
    Gms.Generated.C46.subtractSwitch = (List.range 9).map renderCase
    ∧ (∀ n : Nat, n < 9 → (ColRange.subtractCase n).isSome = true)
    ∧ Gms.Generated.C46.subtractSwitchTag = "(3 * (lComp + 1)) + (uComp + 1)"
    ∧ Gms.Generated.C46.subtractLComp = "r.LowerBound.Compare other.LowerBound"
    ∧ Gms.Generated.C46.subtractUComp = "r.UpperBound.Compare other.UpperBound"
    ∧ Gms.Generated.C46.subtractDefaultPanics = true := by
  decide

/-- `IntersectRanges` in the source assigns the running intersection back (`rang = newRange` in its
second loop) — the repair of finding F-C46-a. If the assignment disappears again this obligation
breaks and `fixed_intersectRanges_result_discarded` below is the replay. -/
theorem facts_match_intersectRanges : Gms.Generated.C46.intersectRangesAssignsResult = true := by
  decide

def showCut : Cut → String
  | .belowNull => "bn" | .aboveNull => "an" | .aboveAll => "aa"
  | .below k => "b" ++ toString k | .above k => "a" ++ toString k

def consRow (name : String) (c : ColRange) : String × String × String := (name, showCut c.lo, showCut c.hi)

/-- The exported constructors produce the cuts the model's constructors produce (nil keys give
the empty range). -/
theorem facts_match_constructors :
    Gms.Generated.C46.constructors =
      [consRow "open" (ColRange.opened 1 2), consRow "closed" (ColRange.closed 1 2),
       consRow "lessThan" (ColRange.lessThan 2), consRow "lessOrEqual" (ColRange.lessOrEqual 2),
       consRow "greaterThan" (ColRange.greaterThan 1), consRow "greaterOrEqual" (ColRange.greaterOrEqual 1),
       consRow "all" ColRange.all, consRow "empty" ColRange.empty, consRow "null" ColRange.null,
       consRow "notNull" ColRange.notNull, consRow "open-nil" ColRange.empty, consRow "closed-nil" ColRange.empty,
       consRow "lessThan-nil" ColRange.empty, consRow "greaterOrEqual-nil" ColRange.empty] := by
  decide

/-! ## Cuts: the Go comparison is a total order, and it is the inclusion order of up-sets -/

/-- `Compare` on cuts is a total order with values in {-1, 0, 1}: antisymmetric, transitive,
total, and `0` exactly on identical cuts. -/
theorem cut_total_order :
    (∀ a b : Cut, a.compare b = -1 ∨ a.compare b = 0 ∨ a.compare b = 1)
    ∧ (∀ a b : Cut, a.compare b = -(b.compare a))
    ∧ (∀ a b : Cut, a.compare b = 0 ↔ a = b)
    ∧ (∀ a b c : Cut, a.compare b ≤ 0 → b.compare c ≤ 0 → a.compare c ≤ 0)
    ∧ (∀ a b : Cut, a.compare b ≤ 0 ∨ b.compare a ≤ 0) :=
  ⟨Cut.compare_range, Cut.compare_antisymm, Cut.compare_eq_zero_iff,
   fun _ _ _ h1 h2 => Cut.le_trans h1 h2, Cut.le_total⟩

/-- The order of cuts is the order of the positions they denote: `a ≤ b` iff every point above
`b` is above `a`; `a < b` iff some point lies above `a` and not above `b`. -/
theorem cut_order_is_upset_inclusion (a b : Cut) :
    (a.compare b ≤ 0 ↔ ∀ v, b.isBelow v = true → a.isBelow v = true)
    ∧ (a.compare b < 0 ↔ ∃ v, a.isBelow v = true ∧ b.isBelow v = false) :=
  ⟨Cut.le_iff a b, Cut.lt_iff a b⟩

/-- NULL is its own lowest point: `BelowNull` is the least cut, the only cut below NULL, and a
column range contains NULL iff its lower bound is `BelowNull` and its upper bound is not. -/
theorem null_lowest_point (c : Cut) (r : ColRange) :
    Cut.belowNull.compare c ≤ 0 ∧ (c.isBelow none = true ↔ c = .belowNull)
    ∧ (r.mem none = true ↔ r.lo = .belowNull ∧ r.hi ≠ .belowNull) := by
  refine ⟨Cut.belowNull_le c, Cut.isBelow_none c, ?_⟩
  rw [ColRange.mem_eq]
  have h1 := Cut.isBelow_none r.lo
  have h2 := Cut.isBelow_none r.hi
  cases hl : r.lo.isBelow none <;> cases hh : r.hi.isBelow none <;> simp_all

/-- Real keys: the key `x` is above `Below k` iff `k ≤ x`, above `Above k` iff `k < x`. -/
theorem key_points (k x : Int) :
    (Cut.below k).isBelow (keyPt x) = decide (k ≤ x) ∧ (Cut.above k).isBelow (keyPt x) = decide (k < x) :=
  ⟨Cut.isBelow_keyPt_below k x, Cut.isBelow_keyPt_above k x⟩

example : (ColRange.closed 1 5).mem (keyPt 5) = true ∧ (ColRange.opened 1 5).mem (keyPt 5) = false
    ∧ (ColRange.opened 1 2).isEmpty = false ∧ ColRange.all.mem none = true ∧ ColRange.notNull.mem none = false := by
  decide

/-! ## Column ranges -/

/-- `IsEmpty` says exactly that the range has no point. -/
theorem isEmpty_iff (r : ColRange) : r.isEmpty = true ↔ ∀ v, r.mem v = false := ColRange.isEmpty_iff r

/-- `TryIntersect` always returns the intersection, and its flag says whether it is inhabited. -/
theorem mem_tryIntersect (r o : ColRange) :
    (∀ v, (r.tryIntersect o).1.mem v = (r.mem v && o.mem v))
    ∧ ((r.tryIntersect o).2 = true ↔ ∃ v, r.mem v = true ∧ o.mem v = true) :=
  ⟨ColRange.mem_tryIntersect r o, ColRange.tryIntersect_flag r o⟩

/-- `Overlaps`: with flag `true` the returned range is the intersection; with flag `false` the
ranges share no point; for non-empty operands the flag is exact. -/
theorem mem_overlaps (r o : ColRange) :
    ((r.overlaps o).2 = true → ∀ v, (r.overlaps o).1.mem v = (r.mem v && o.mem v))
    ∧ ((r.overlaps o).2 = false → ∀ v, (r.mem v && o.mem v) = false)
    ∧ (r.isEmpty = false → o.isEmpty = false →
        ((r.overlaps o).2 = true ↔ ∃ v, r.mem v = true ∧ o.mem v = true)) :=
  ⟨fun h => ColRange.overlaps_true h, fun h => ColRange.overlaps_false h, ColRange.overlaps_true_iff⟩

/-- `TryUnion` returns the union when it succeeds; it refuses only two non-empty ranges that are
not connected. -/
theorem mem_tryUnion (r o : ColRange) :
    ((r.tryUnion o).2 = true → ∀ v, (r.tryUnion o).1.mem v = (r.mem v || o.mem v))
    ∧ ((r.tryUnion o).2 = false → r.isEmpty = false ∧ o.isEmpty = false ∧ r.isConnected o = false) :=
  ⟨fun h => ColRange.tryUnion_true h, ColRange.tryUnion_false⟩

/-- `Subtract` never reaches its panicking default, and for a non-inverted subtrahend its pieces
cover exactly the difference. -/
theorem mem_subtract (r o : ColRange) :
    (r.subtract o).isSome = true
    ∧ (o.NonInv → ∀ ps, r.subtract o = some ps → ∀ v, ps.any (fun p => p.mem v) = (r.mem v && !o.mem v)) :=
  ⟨ColRange.subtract_isSome r o, fun ho _ h v => ColRange.mem_subtract ho h v⟩

/- The guard `o.NonInv` is needed: for an inverted subtrahend the two pieces of case 2 overlap. -/
example : ∃ (r o : ColRange) (ps : List ColRange) (v : Option Int),
    r.subtract o = some ps ∧ (ps.map (fun p => p.mem v)).count true = 2 :=
  ⟨⟨.belowNull, .aboveAll⟩, ⟨.below 2, .below 0⟩, [⟨.belowNull, .below 2⟩, ⟨.below 0, .aboveAll⟩], some 2,
    by decide, by decide⟩

example : (ColRange.closed 0 9).subtract (ColRange.closed 3 5) = some [⟨.below 0, .below 3⟩, ⟨.above 5, .above 9⟩] := by
  decide

/-- `IsSubsetOf` is sound for membership. -/
theorem isSubsetOf_sound (r o : ColRange) (h : r.isSubsetOf o = true) : ∀ v, r.mem v = true → o.mem v = true :=
  ColRange.isSubsetOf_sound h

/-! ## n-column ranges -/

/-- `MySQLRange.Intersect` denotes the intersection of key-tuple sets. -/
theorem mem_range_intersect (a b : Range) (hl : a.length = b.length) (hne : a ≠ []) (v : Tuple) :
    Range.mem (a.intersect b) v = (Range.mem a v && Range.mem b v) :=
  Range.mem_intersect hl hne v

/-- `TryMerge`, when it merges, returns exactly the union, and never fails with "invalid index". -/
theorem tryMerge_sound (a b : Range) :
    (∀ m, a.tryMerge b = .yes m → ∀ v, Range.mem m v = (Range.mem a v || Range.mem b v))
    ∧ a.tryMerge b ≠ .err :=
  ⟨fun _ h v => Range.tryMerge_sound h v, Range.tryMerge_ne_err a b⟩

/-- `RemoveOverlap` (any number of columns): the returned pieces cover exactly `a ∪ b`. -/
theorem removeOverlap_union (fuel : Nat) (a b : Range) (rs : List Range) (ok : Bool)
    (ha : Range.NonInv a) (hb : Range.NonInv b) (h : removeOverlap fuel a b = .res rs ok) (v : Tuple) :
    memAny rs v = (Range.mem a v || Range.mem b v) :=
  (removeOverlap_sound fuel a b rs ok ha hb h).1 v

/-- `RemoveOverlap` terminates within `len + 1` recursive calls and never panics or errors (the
measure is the number of differing columns; a change that broke it would surface here). -/
theorem removeOverlap_terminates (a b : Range) :
    ∃ rs ok, removeOverlap (removeOverlapFuel a) a b = .res rs ok :=
  removeOverlap_total _ a b (by have := diffIdx_length_le a b; unfold removeOverlapFuel; omega)

example : removeOverlap 3 [ColRange.closed 0 5, ColRange.closed 0 5] [ColRange.closed 3 9, ColRange.closed 3 9]
    = .res [[⟨.below 0, .below 3⟩, ColRange.closed 0 5], [⟨.above 5, .above 9⟩, ColRange.closed 3 9],
            [ColRange.closed 3 5, ColRange.closed 0 9]] true := by
  decide

/-- Ranges that pass `validateRangeCollection` are pairwise disjoint as sets of key tuples. -/
theorem validate_ok_disjoint (coll : List Range) (h : validate coll = true) :
    List.Pairwise (fun r s => ∀ v, (Range.mem r v && Range.mem s v) = false) coll :=
  validate_sound coll h

/-! ## `RemoveOverlappingRanges` over any tree that behaves like a set -/

/-- What `RemoveOverlappingRanges` needs from `MySQLRangeColumnExprTree`: it stores a set of
ranges (`content`), `FindConnections` only returns stored ranges — *any* of them, in any order,
possibly missing some —, `Insert` adds, `Remove` removes exactly the given range, iteration
enumerates the content. (The real tree is tied to these hypotheses by the set oracle of
harness/cmd/c46 and by exact correspondence with the heap model.) -/
structure TreeSet {T : Type} (ops : TreeOps T) (content : T → List Range) : Prop where
  new : ∀ r x, x ∈ content (ops.new r) ↔ x = r
  find : ∀ t r conns, ops.find t r = some conns → ∀ c ∈ conns, c ∈ content t
  insert : ∀ t r t', ops.insert t r = some t' → ∀ x, x ∈ content t' ↔ (x = r ∨ x ∈ content t)
  remove : ∀ t r t', ops.remove t r = some t' → ∀ x, x ∈ content t' ↔ (x ∈ content t ∧ x ≠ r)
  toList : ∀ t l, ops.toList t = some l → ∀ x, x ∈ l ↔ x ∈ content t

theorem memAny_congr {xs ys : List Range} (h : ∀ x, x ∈ xs ↔ x ∈ ys) (v : Tuple) : memAny xs v = memAny ys v := by
  apply Bool.eq_iff_iff.mpr
  rw [memAny_iff, memAny_iff]
  constructor
  · intro ⟨r, hr, hm⟩; exact ⟨r, (h r).mp hr, hm⟩
  · intro ⟨r, hr, hm⟩; exact ⟨r, (h r).mpr hr, hm⟩

/-- Worklist invariant: `⋃ tree ∪ ⋃ pending` is preserved by every iteration, whatever
`FindConnections` returns. -/
theorem rorLoop_preserves {T : Type} (ops : TreeOps T) (content : T → List Range) (hts : TreeSet ops content) :
    ∀ (fuel : Nat) (t : T) (pending : List Range) (t' : T),
      (∀ r ∈ content t, Range.NonInv r) → (∀ r ∈ pending, Range.NonInv r) →
      rorLoop ops fuel t pending = .ok t' →
      (∀ v, memAny (content t') v = (memAny (content t) v || memAny pending v))
      ∧ (∀ r ∈ content t', Range.NonInv r) := by
  intro fuel
  induction fuel with
  | zero =>
    intro t pending t' hc hp h
    cases pending with
    | nil => simp [rorLoop] at h; subst h; exact ⟨fun v => by simp [memAny], hc⟩
    | cons _ _ => simp [rorLoop] at h
  | succ fuel ih =>
    intro t pending t' hc hp h
    cases pending with
    | nil => simp [rorLoop] at h; subst h; exact ⟨fun v => by simp [memAny], hc⟩
    | cons rang rest =>
      have hrang : Range.NonInv rang := hp rang (by simp)
      have hrest : ∀ r ∈ rest, Range.NonInv r := fun r hr => hp r (by simp [hr])
      unfold rorLoop at h
      cases hf : ops.find t rang with
      | none => simp [hf] at h
      | some conns =>
        simp only [hf] at h
        cases hfo : firstOverlap rang conns with
        | crash => simp [hfo] at h
        | err => simp [hfo] at h
        | fuel => simp [hfo] at h
        | hit c newRanges =>
          simp only [hfo] at h
          obtain ⟨hcin, hro⟩ := firstOverlap_hit rang conns c newRanges hfo
          have hct : c ∈ content t := hts.find t rang conns hf c hcin
          obtain ⟨hu, hn⟩ := removeOverlap_sound _ c rang newRanges true (hc c hct) hrang hro
          cases hr : ops.remove t c with
          | none => simp [hr] at h
          | some t1 =>
            simp only [hr] at h
            have hc1 := hts.remove t c t1 hr
            obtain ⟨i1, i2⟩ := ih t1 (rest ++ newRanges) t'
              (fun r hr' => hc r ((hc1 r).mp hr').1)
              (fun r hr' => by
                rcases List.mem_append.mp hr' with h' | h'
                · exact hrest r h'
                · exact hn r h') h
            refine ⟨fun v => ?_, i2⟩
            rw [i1 v, memAny_append, hu v, memAny_cons]
            -- ⋃ t1 ∪ c = ⋃ t
            have key : (memAny (content t1) v || Range.mem c v) = memAny (content t) v := by
              apply Bool.eq_iff_iff.mpr
              simp only [Bool.or_eq_true, memAny_iff]
              constructor
              · rintro (⟨r, hr1, hm⟩ | hm)
                · exact ⟨r, ((hc1 r).mp hr1).1, hm⟩
                · exact ⟨c, hct, hm⟩
              · rintro ⟨r, hr1, hm⟩
                by_cases e : r = c
                · right; rw [← e]; exact hm
                · left; exact ⟨r, (hc1 r).mpr ⟨hr1, e⟩, hm⟩
            rw [← key]
            cases memAny (content t1) v <;> cases Range.mem c v <;> cases Range.mem rang v <;>
              cases memAny rest v <;> rfl
        | none =>
          simp only [hfo] at h
          cases hi : ops.insert t rang with
          | none => simp [hi] at h
          | some t1 =>
            simp only [hi] at h
            have hc1 := hts.insert t rang t1 hi
            obtain ⟨i1, i2⟩ := ih t1 rest t'
              (fun r hr' => by
                rcases (hc1 r).mp hr' with e | h'
                · rw [e]; exact hrang
                · exact hc r h')
              hrest h
            refine ⟨fun v => ?_, i2⟩
            rw [i1 v, memAny_cons]
            have key : memAny (content t1) v = (Range.mem rang v || memAny (content t) v) := by
              rw [← memAny_cons]
              exact memAny_congr (fun x => by rw [hc1 x]; simp) v
            rw [key]
            cases Range.mem rang v <;> cases memAny (content t) v <;> cases memAny rest v <;> rfl

/-- **Main theorem.** For every tree that behaves like a set — whatever its `FindConnections`
returns among the stored ranges — and every list of non-inverted ranges: if
`RemoveOverlappingRanges` returns a collection (no error), then a key tuple (of at least one
column) is in some output range iff it is in some input range, and the output ranges are pairwise
disjoint. No bound on the number of ranges, columns or iterations (the fuel only decides whether
the model returns at all). -/
theorem removeOverlapping_preserves {T : Type} (ops : TreeOps T) (content : T → List Range)
    (hts : TreeSet ops content) (fuel : Nat) (ranges coll : List Range)
    (hni : ∀ r ∈ ranges, Range.NonInv r)
    (h : removeOverlappingRanges ops fuel ranges = .ok coll) :
    (∀ v, v ≠ [] → memAny coll v = memAny ranges v)
    ∧ List.Pairwise (fun r s => ∀ v, (Range.mem r v && Range.mem s v) = false) coll := by
  unfold removeOverlappingRanges at h
  cases ranges with
  | nil => simp at h; subst h; exact ⟨fun v _ => rfl, List.Pairwise.nil⟩
  | cons r0 rest =>
    simp only at h
    cases hl : rorLoop ops fuel (ops.new r0) rest with
    | crash => simp [hl] at h
    | fuel => simp [hl] at h
    | err m => simp [hl] at h
    | ok t =>
      simp only [hl] at h
      cases htl : ops.toList t with
      | none => simp [htl] at h
      | some stored =>
        simp only [htl] at h
        cases hg : getRangeCollection stored with
        | none => simp [hg] at h
        | some c =>
          simp only [hg] at h
          by_cases hv : validate c = true
          · simp [hv] at h
            subst h
            have hnew : ∀ r ∈ content (ops.new r0), Range.NonInv r := fun r hr => by
              rw [(hts.new r0 r).mp hr]; exact hni r0 (by simp)
            obtain ⟨i1, i2⟩ := rorLoop_preserves ops content hts fuel (ops.new r0) rest t hnew
              (fun r hr => hni r (by simp [hr])) hl
            have hst : ∀ x, x ∈ stored ↔ x ∈ content t := hts.toList t stored htl
            refine ⟨fun v hv' => ?_, validate_sound _ hv⟩
            rw [getRangeCollection_sound stored _ (fun r hr => i2 r ((hst r).mp hr)) hg v hv',
              memAny_congr hst v, i1 v, memAny_cons]
            have : memAny (content (ops.new r0)) v = Range.mem r0 v := by
              rw [memAny_congr (ys := [r0]) (fun x => by rw [hts.new r0 x]; simp) v]; simp [memAny]
            rw [this]
          · simp [hv] at h

/-! ### The hypotheses are satisfiable: the tree as a sorted duplicate-free list -/

theorem all2_equals_iff : ∀ (a b : Range), a.length = b.length → (Range.all2 ColRange.equals a b = true ↔ a = b)
  | [], [], _ => by simp [Range.all2]
  | [], _ :: _, h => by simp at h
  | _ :: _, [], h => by simp at h
  | x :: as, y :: bs, h => by
    simp only [Range.all2, Bool.and_eq_true, ColRange.equals_iff, List.cons.injEq]
    rw [all2_equals_iff as bs (by simpa using h)]

theorem range_equals_iff (a b : Range) : Range.equals a b = true ↔ a = b := by
  unfold Range.equals
  constructor
  · intro h
    simp only [Bool.and_eq_true, beq_iff_eq] at h
    exact (all2_equals_iff a b h.1).mp h.2
  · intro h; subst h
    simp only [Bool.and_eq_true, beq_iff_eq, true_and]
    exact (all2_equals_iff a a rfl).mpr rfl

theorem mem_insertSorted {α : Type} (lt : α → α → Bool) (x y : α) (l : List α) :
    y ∈ insertSorted lt x l ↔ y = x ∨ y ∈ l := by
  induction l with
  | nil => simp [insertSorted]
  | cons z zs ih =>
    unfold insertSorted
    split
    · simp
    · simp only [List.mem_cons, ih]
      constructor
      · rintro (h | h | h) <;> simp [h]
      · rintro (h | h | h) <;> simp [h]

/-- The plain-set tree (Spec of range_tree.go) satisfies `TreeSet`. -/
theorem listTree_treeSet : TreeSet listTree (fun t => t) := by
  constructor
  · intro r x; simp [listTree]
  · intro t r conns h c hc
    simp [listTree] at h
    subst h
    exact (List.mem_filter.mp hc).1
  · intro t r t' h x
    simp [listTree] at h
    subst h
    unfold listInsert
    by_cases ha : t.any (fun y => Range.equals y r) = true
    · simp only [ha, if_true]
      constructor
      · exact fun hx => Or.inr hx
      · rintro (e | hx)
        · obtain ⟨y, hy, hye⟩ := List.any_eq_true.mp ha
          rw [e, ← (range_equals_iff y r).mp hye]; exact hy
        · exact hx
    · simp only [ha, if_false, Bool.false_eq_true]
      exact mem_insertSorted _ r x t
  · intro t r t' h x
    simp [listTree] at h
    subst h
    simp only [List.mem_filter, Bool.not_eq_true']
    constructor
    · rintro ⟨h1, h2⟩
      refine ⟨h1, fun e => ?_⟩
      rw [e, (range_equals_iff r r).mpr rfl] at h2; simp at h2
    · rintro ⟨h1, h2⟩
      refine ⟨h1, ?_⟩
      cases he : Range.equals x r with
      | false => rfl
      | true => exact absurd ((range_equals_iff x r).mp he) h2
  · intro t l h x
    simp [listTree] at h
    subst h; rfl

/-- Non-vacuity: a 2-column input with overlaps; the result is a collection (no error). -/
example : removeOverlappingRanges listTree 100
    [[ColRange.closed 0 5, ColRange.closed 0 5], [ColRange.closed 3 9, ColRange.closed 3 9],
     [ColRange.closed 7 8, ColRange.all]] =
    .ok [[⟨.below 0, .below 3⟩, ColRange.closed 0 5], [ColRange.closed 3 5, ColRange.closed 0 9],
         [⟨.above 5, .below 7⟩, ColRange.closed 3 9], [ColRange.closed 7 8, ColRange.all],
         [⟨.above 8, .above 9⟩, ColRange.closed 3 9]] := by
  decide

/-! ## Findings -/

/-- A tree that stores a set but never reports a connection. -/
def blindTree : TreeOps (List Range) := { listTree with find := fun _ _ => some [] }

theorem blindTree_treeSet : TreeSet blindTree (fun t => t) := by
  have h := listTree_treeSet
  constructor
  · exact h.new
  · intro t r conns hf c hc
    simp [blindTree] at hf
    subst hf; simp at hc
  · exact h.insert
  · exact h.remove
  · exact h.toList

/-- **Finding `ror_tree_missed_connection`.** Set-likeness of the tree does not exclude the
"overlapping ranges" failure: if `FindConnections` misses a connected stored range, two
overlapping ranges end up side by side in the tree and `validateRangeCollection` rejects a
well-formed input. The real tree does miss connections (`MaxUpperbound` is not maintained by
`rotateLeft` / `remove`); the concrete 3-column witness on the real code is corpus case 2 of
harness/cmd/c46 (`witnessRorMissed`), reproduced by the heap model in every run. The guarded
statement is `removeOverlapping_preserves` (every non-error result is correct). Not proved: that a
*complete* `FindConnections` excludes the error. -/
theorem finding_ror_tree_missed_connection :
    ∃ (ops : TreeOps (List Range)) (content : List Range → List Range) (ranges : List Range),
      TreeSet ops content ∧ (∀ r ∈ ranges, Range.NonInv r) ∧
      removeOverlappingRanges ops 10 ranges = .err "overlapping ranges"
      ∧ removeOverlappingRanges listTree 10 ranges ≠ .err "overlapping ranges" :=
  ⟨blindTree, fun t => t,
   [[ColRange.closed 0 5, ColRange.closed 0 5], [ColRange.closed 3 9, ColRange.closed 3 9]],
   blindTree_treeSet, by decide, by decide, by decide⟩

/-- The well-formed 3-column input on which the real `RemoveOverlappingRanges` fails (corpus case 2
of harness/cmd/c46). -/
def rorWitness : List Range :=
  [[⟨.below 0, .below 2⟩, ⟨.below 1, .above 2⟩, ⟨.aboveNull, .above 1⟩],
   [⟨.aboveNull, .above 0⟩, ⟨.below 0, .above 2⟩, ⟨.above 0, .aboveAll⟩],
   [⟨.below 1, .below 2⟩, ⟨.belowNull, .above 1⟩, ⟨.belowNull, .above 2⟩],
   [⟨.below 1, .above 2⟩, ⟨.below 1, .above 1⟩, ⟨.below 3, .above 3⟩],
   [⟨.below 1, .aboveAll⟩, ⟨.below 0, .above 3⟩, ⟨.below 2, .below 3⟩],
   [⟨.belowNull, .above 1⟩, ⟨.above 2, .below 3⟩, ⟨.below 0, .above 3⟩]]

/-- The witness on the Impl model: over the heap model of the real tree the worklist ends with
"overlapping ranges"; over the plain-set tree (complete `FindConnections`) the same input gives a
collection. (Kernel evaluation of the transliterated red-black tree.) -/
theorem finding_ror_heap_witness :
    (∀ r ∈ rorWitness, Range.NonInv r)
    ∧ removeOverlappingRanges Gms.RangeTree.heapTree 5000 rorWitness = .err "overlapping ranges"
    ∧ (∃ coll, removeOverlappingRanges listTree 5000 rorWitness = .ok coll) := by
  refine ⟨by decide, by decide +kernel, ?_⟩
  have : (match removeOverlappingRanges listTree 5000 rorWitness with | .ok _ => true | _ => false) = true := by
    decide +kernel
  cases h : removeOverlappingRanges listTree 5000 rorWitness with
  | ok coll => exact ⟨coll, rfl⟩
  | err m => rw [h] at this; simp at this
  | crash => rw [h] at this; simp at this
  | fuel => rw [h] at this; simp at this

theorem intersectRangesLoopPreFix_eq (n : Nat) (hn : 0 < n) : ∀ (rest : List Range) (rang : Range),
    rang.length = n → (∀ r ∈ rest, r.length = n) → intersectRangesLoopPreFix rang rest = rang
  | [], _, _, _ => rfl
  | rc :: rest, rang, h1, h2 => by
    have hrc : rc.length = n := h2 rc (by simp)
    unfold intersectRangesLoopPreFix
    rw [if_neg (by omega)]
    simp only
    rw [if_neg (by rw [Range.intersect_length (by omega)]; omega)]
    exact intersectRangesLoopPreFix_eq n hn rest rang h1 (fun r hr => h2 r (by simp [hr]))

/-- **Repaired defect `intersectRanges_result_discarded` (F-C46-a).** Before the `fix:` commit, on
ranges of one length `IntersectRanges` returned its first argument, whatever the others were. -/
theorem intersectRangesPreFix_returns_first (n : Nat) (hn : 0 < n) (rang : Range) (rest : List Range)
    (h1 : rang.length = n) (h2 : ∀ r ∈ rest, r.length = n) :
    intersectRangesPreFix (rang :: rest) = rang := by
  unfold intersectRangesPreFix
  have hne : rang ≠ [] := by intro e; rw [e] at h1; simp at h1; omega
  have : (rang :: rest).dropWhile (fun rc => decide (rc.length = 0)) = rang :: rest := by
    simp [List.dropWhile, hne]
  rw [this]
  exact intersectRangesLoopPreFix_eq n hn rest rang h1 h2

/-- Witness of the repaired defect: the pre-fix `IntersectRanges([1,5], [3,9])` contained the key 1,
which is not in `[3,9]`; the repaired function does not. -/
theorem fixed_intersectRanges_result_discarded :
    ∃ (rs : List Range) (v : Tuple),
      Range.mem (intersectRangesPreFix rs) v = true ∧ rs.all (fun r => Range.mem r v) = false
      ∧ Range.mem (intersectRanges rs) v = false :=
  ⟨[[ColRange.closed 1 5], [ColRange.closed 3 9]], [keyPt 1], by decide, by decide, by decide⟩

theorem intersectRangesSpecLoop_sound (n : Nat) (hn : 0 < n) : ∀ (rest : List Range) (rang : Range),
    rang.length = n → (∀ r ∈ rest, r.length = n) → ∀ v,
    Range.mem (intersectRangesSpecLoop rang rest) v = (Range.mem rang v && rest.all (fun r => Range.mem r v))
  | [], _, _, _, v => by simp [intersectRangesSpecLoop]
  | rc :: rest, rang, h1, h2, v => by
    have hrc : rc.length = n := h2 rc (by simp)
    unfold intersectRangesSpecLoop
    rw [if_neg (by omega)]
    simp only
    have hl : (rang.intersect rc).length = n := by rw [Range.intersect_length (by omega)]; omega
    rw [if_neg (by omega)]
    rw [intersectRangesSpecLoop_sound n hn rest _ hl (fun r hr => h2 r (by simp [hr])) v,
      Range.mem_intersect (by omega) (by intro e; rw [e] at h1; simp at h1; omega) v]
    simp [Bool.and_assoc]

/-- Spec: with the running intersection carried along (`rang = newRange`), `IntersectRanges`
denotes the intersection of all its arguments. -/
theorem intersectRangesSpec_sound (n : Nat) (hn : 0 < n) (rs : List Range) (hne : rs ≠ [])
    (h : ∀ r ∈ rs, r.length = n) (v : Tuple) :
    Range.mem (intersectRangesSpec rs) v = rs.all (fun r => Range.mem r v) := by
  cases rs with
  | nil => exact absurd rfl hne
  | cons rang rest =>
    unfold intersectRangesSpec
    have h1 : rang.length = n := h rang (by simp)
    have hne' : rang ≠ [] := by intro e; rw [e] at h1; simp at h1; omega
    have : (rang :: rest).dropWhile (fun rc => decide (rc.length = 0)) = rang :: rest := by
      simp [List.dropWhile, hne']
    rw [this]
    simp only
    rw [intersectRangesSpecLoop_sound n hn rest rang h1 (fun r hr => h r (by simp [hr])) v]
    simp

theorem intersectRangesLoop_eq_spec : ∀ (rest : List Range) (rang : Range),
    intersectRangesLoop rang rest = intersectRangesSpecLoop rang rest
  | [], _ => rfl
  | rc :: rest, rang => by
    unfold intersectRangesLoop intersectRangesSpecLoop
    simp only [intersectRangesLoop_eq_spec rest]

/-- The Impl model of the repaired `IntersectRanges` is the Spec. -/
theorem intersectRanges_eq_spec (rs : List Range) : intersectRanges rs = intersectRangesSpec rs := by
  unfold intersectRanges intersectRangesSpec
  split <;> simp [intersectRangesLoop_eq_spec]

/-- **Full statement (holds since the `fix:` commit):** `IntersectRanges` denotes the intersection of
all its (same-length, non-nil) arguments. -/
theorem intersectRanges_sound (n : Nat) (hn : 0 < n) (rs : List Range) (hne : rs ≠ [])
    (h : ∀ r ∈ rs, r.length = n) (v : Tuple) :
    Range.mem (intersectRanges rs) v = rs.all (fun r => Range.mem r v) := by
  rw [intersectRanges_eq_spec]
  exact intersectRangesSpec_sound n hn rs hne h v

example : Range.mem (intersectRanges [[ColRange.closed 1 5], [ColRange.closed 3 9]]) [keyPt 4] = true
    ∧ Range.mem (intersectRanges [[ColRange.closed 1 5], [ColRange.closed 3 9]]) [keyPt 1] = false := by
  decide

end Gms.C46
