/-
C30 — Character set conversion round-trips and never crashes.

Model: Gms/Model/RangeMap.lean (transliteration of sql/encodings/rangemap.go).
Helper lemmas: Gms/Lemmas/RangeMap.lean. Regenerated facts: Gms/Generated/C30.lean (every
`RangeMap` table of the compiled code, the list of character sets with an encoder, and the
shape of the three loops).

The property theorems are in `namespace Gms.C30` below:

* `roundtrip_encode_decode`, `roundtrip_decode_encode`, `representable_converts` – round trips
* `decode_total_safe`, `encode_total_safe`, `replace_total_safe`, `encodeSpec_total_safe` – no crash
* `encode_capacity_irrelevant`                                               – `Encode` never reads behind `len(str)`
* `results_independent_late`, `results_independent_eager`, `batch_keep_independent`, `batch_edit_independent`,
  `batch_roundtrip`                                                          – results of successive calls are independent
                                                                               (memory model Gms/Model/RangeMapMem.lean)
* `shared_not_independent`, `memo_not_independent`                           – … which fails for storage that outlives a call
* `encode_eq_spec_partial`, `replace_eq_spec_partial`                        – Impl vs. Spec
* `finding_…`                                                                – the remaining defects
* `fixed_encode_unrepresentable_tail`, `encodePreFix_crash_iff`, `encodePreFix_tail_repaired`
                                                                             – the repaired defect (pre-fix model vs. repaired model)
* `wf_all`, `facts_match`, `loose_entries`                                   – regenerated facts
-/
import Gms.Lemmas.RangeMap
import Gms.Lemmas.RangeMapMem
import Gms.Generated.C30

namespace Gms.C30
open Gms.RangeMap

/-- Well-formed table (what `wfB` decides). -/
structure WF (rm : RangeMap) : Prop where
  len : rm.inE.length = rm.outE.length
  sIn : SideOK rm.inE Entry.inR
  sOut : SideOK rm.outE Entry.outR
  sub1 : ∀ e ∈ rm.inE.flatten, e ∈ rm.outE.flatten
  sub2 : ∀ e ∈ rm.outE.flatten, e ∈ rm.inE.flatten

theorem wf_of_wfB (rm : RangeMap) (h : wfB rm = true) : WF rm := by
  simp only [wfB, Bool.and_eq_true] at h
  obtain ⟨⟨⟨⟨⟨⟨h1, h2⟩, h3⟩, h4⟩, h5⟩, h6⟩, h7⟩ := h
  exact ⟨Nat.eq_of_beq_eq_true h1, sideOK_of _ _ h2 h4, sideOK_of _ _ h3 h5, subsetB_spec _ _ h6, subsetB_spec _ _ h7⟩

/-! ### Units -/

/-- Charset bytes → UTF-8 → charset bytes, one unit. -/
theorem encodeRune_decodeRune {rm : RangeMap} (h : WF rm) (c u : List Nat)
    (hd : decodeRune rm c = some u) :
    encodeRune rm u = some c ∧ overflowUnit rm u = false := by
  have := conv_inv rm.inE rm.outE Entry.inR Entry.outR Entry.inM Entry.outM h.sIn h.sOut
    (fun e he => ⟨he.mIn, he.mOut, he.bIn, he.bOut⟩) h.sub1 c u hd
    (by
      intro e hl
      obtain ⟨hm, hc⟩ := lookup_some _ _ _ _ hl
      have he := (h.sIn.shape _ _ hm).2
      rw [he.mIn]
      exact Nat.lt_of_lt_of_le (toIdx_lt _ _ he.bIn hc) he.le)
  obtain ⟨h1, e, hl, hl', hidx⟩ := this
  refine ⟨h1, ?_⟩
  unfold overflowUnit
  rw [hl']
  obtain ⟨hm, hc⟩ := lookup_some _ _ _ _ hl
  have he := (h.sIn.shape _ _ hm).2
  have := toIdx_lt _ _ he.bIn hc
  rw [← he.mIn] at this
  simp only [decide_eq_false_iff_not]
  omega

/-- UTF-8 → charset bytes → UTF-8, one unit (outside the overflow region). -/
theorem decodeRune_encodeRune {rm : RangeMap} (h : WF rm) (u c : List Nat)
    (he : encodeRune rm u = some c) (hno : overflowUnit rm u = false) :
    decodeRune rm c = some u := by
  refine (conv_inv rm.outE rm.inE Entry.outR Entry.inR Entry.outM Entry.inM h.sOut h.sIn
    (fun e he => ⟨he.mOut, he.mIn, he.bOut, he.bIn⟩) h.sub2 u c he ?_).1
  intro e hl
  unfold overflowUnit at hno
  rw [hl] at hno
  simp only [decide_eq_false_iff_not] at hno
  omega

/-- The Spec's notion of "representable" is exactly "is the image of a charset unit". -/
theorem encodeRuneSpec_iff {rm : RangeMap} (h : WF rm) (u c : List Nat) :
    encodeRuneSpec rm u = some c ↔ decodeRune rm c = some u := by
  constructor
  · intro hs
    unfold encodeRuneSpec at hs
    split at hs
    · rename_i c' hc'
      split at hs
      · rename_i hd; simp only [Option.some.injEq] at hs; subst hs; exact hd
      · simp at hs
    · simp at hs
  · intro hd
    unfold encodeRuneSpec
    rw [(encodeRune_decodeRune h c u hd).1]
    simp [hd]

theorem encodeRuneSpec_eq {rm : RangeMap} (h : WF rm) (u : List Nat)
    (hno : overflowUnit rm u = false) : encodeRuneSpec rm u = encodeRune rm u := by
  unfold encodeRuneSpec
  cases he : encodeRune rm u with
  | none => rfl
  | some c => simp [decodeRune_encodeRune h u c he hno]

theorem decode_isUnit {rm : RangeMap} (h : WF rm) (c u : List Nat) (hd : decodeRune rm c = some u) :
    IsUnit (decodeRune rm) rm.inE.length c u := by
  obtain ⟨h1, h2, _⟩ := convRune_some _ _ _ _ _ _ _ hd
  exact ⟨hd, h1, h2, fun m hm1 hm2 => conv_prefix_free _ _ _ _ _ h.sIn c u hd m hm1 hm2⟩

theorem encode_isUnit {rm : RangeMap} (h : WF rm) (u c : List Nat) (he : encodeRune rm u = some c) :
    IsUnit (encodeRune rm) rm.inE.length u c := by
  obtain ⟨h1, h2, _⟩ := convRune_some _ _ _ _ _ _ _ he
  exact ⟨he, h1, by rw [h.len]; exact h2,
    fun m hm1 hm2 => conv_prefix_free _ _ _ _ _ h.sOut u c he m hm1 hm2⟩

theorem encodeSpec_isUnit {rm : RangeMap} (h : WF rm) (u c : List Nat)
    (he : encodeRuneSpec rm u = some c) : IsUnit (encodeRuneSpec rm) rm.inE.length u c := by
  have hd := (encodeRuneSpec_iff h u c).1 he
  have hu := encode_isUnit h u c (encodeRune_decodeRune h c u hd).1
  refine ⟨he, hu.2.1, hu.2.2.1, fun m hm1 hm2 => ?_⟩
  unfold encodeRuneSpec
  rw [hu.2.2.2 m hm1 hm2]

/-! ### Round trips -/

/-- **Round trip, UTF-8 → charset → UTF-8.** Whenever the (specified) conversion into the
character set succeeds, decoding its result yields the original string — for *every* byte
string `s` and every well-formed table. -/
theorem roundtrip_encode_decode {rm : RangeMap} (h : WF rm) (s b : List Nat)
    (he : encodeSpec rm s = .ok b) : decode rm b = .ok s := by
  obtain ⟨us, hus, hs, hb⟩ := convLoop_ok_inv _ _ _ _ _ _ _ he
  subst hs hb
  -- flip the units
  have key := convLoop_units (decodeRune rm) true rm.inE.length []
    (us.map fun p => (p.2, p.1))
    (by
      intro p hp
      simp only [List.mem_map] at hp
      obtain ⟨q, hq, rfl⟩ := hp
      exact decode_isUnit h q.2 q.1 ((encodeRuneSpec_iff h q.1 q.2).1 (hus q hq).1))
    [] ((us.map (·.2)).flatten.length + 1) (by simp [List.map_map, Function.comp_def])
  simp only [List.map_map, Function.comp_def, List.append_nil] at key
  unfold decode
  simp only [List.length_nil, Nat.zero_add] at key
  rw [key]
  simp [convLoop, Res.prepend]

/-- **Round trip, charset → UTF-8 → charset.** Whatever `Decode` accepts, `Encode` (the Go
loop, with any spare capacity behind the slice) and the Spec map back to the same bytes. -/
theorem roundtrip_decode_encode {rm : RangeMap} (h : WF rm) (b s extra : List Nat)
    (hd : decode rm b = .ok s) : encode rm s extra = .ok b ∧ encodeSpec rm s = .ok b := by
  obtain ⟨us, hus, hb, hs⟩ := convLoop_ok_inv _ _ _ _ _ _ _ hd
  subst hb hs
  have e1 := convLoop_units (encodeRune rm) true rm.inE.length extra
    (us.map fun p => (p.2, p.1))
    (by
      intro p hp
      simp only [List.mem_map] at hp
      obtain ⟨q, hq, rfl⟩ := hp
      exact encode_isUnit h q.2 q.1 (encodeRune_decodeRune h q.1 q.2 (hus q hq).1).1)
    [] ((us.map (·.2)).flatten.length + 1) (by simp [List.map_map, Function.comp_def])
  have e2 := convLoop_units (encodeRuneSpec rm) true rm.inE.length []
    (us.map fun p => (p.2, p.1))
    (by
      intro p hp
      simp only [List.mem_map] at hp
      obtain ⟨q, hq, rfl⟩ := hp
      exact encodeSpec_isUnit h q.2 q.1 ((encodeRuneSpec_iff h q.2 q.1).2 (hus q hq).1))
    [] ((us.map (·.2)).flatten.length + 1) (by simp [List.map_map, Function.comp_def])
  simp only [List.map_map, Function.comp_def, List.append_nil, List.length_nil, Nat.zero_add] at e1 e2
  unfold encode encodeSpec
  rw [e1, e2]
  simp [convLoop, Res.prepend]

/-- **Every representable string converts.** If `s` is a concatenation of representable
characters (units `u ↦ c` of the table), then `Encode` succeeds with the concatenated images
(whatever lies behind the slice), so do the Spec and `EncodeReplaceUnknown` (no `?` appears), and
`Decode` brings the original string back. -/
theorem representable_converts {rm : RangeMap} (h : WF rm) (us : List (List Nat × List Nat))
    (hus : ∀ p ∈ us, encodeRuneSpec rm p.1 = some p.2) (extra : List Nat) :
    encode rm (us.map (·.1)).flatten extra = .ok (us.map (·.2)).flatten ∧
    encodeSpec rm (us.map (·.1)).flatten = .ok (us.map (·.2)).flatten ∧
    replace rm (us.map (·.1)).flatten = .ok (us.map (·.2)).flatten ∧
    replaceSpec rm (us.map (·.1)).flatten = .ok (us.map (·.2)).flatten ∧
    decode rm (us.map (·.2)).flatten = .ok (us.map (·.1)).flatten := by
  have hdec : ∀ p ∈ us, decodeRune rm p.2 = some p.1 :=
    fun p hp => (encodeRuneSpec_iff h p.1 p.2).1 (hus p hp)
  have henc : ∀ p ∈ us, encodeRune rm p.1 = some p.2 :=
    fun p hp => (encodeRune_decodeRune h p.2 p.1 (hdec p hp)).1
  have hpos : ∀ p ∈ us, p.2 ≠ [] := by
    intro p hp hnil
    have := convRune_out_pos rm.outE rm.inE Entry.outR Entry.inR Entry.outM Entry.inM h.sOut h.sIn
      (fun e he => he.mIn) h.sub2 p.1 p.2 (henc p hp)
    rw [hnil] at this; simp at this
  have e1 := convLoop_units (encodeRune rm) true rm.inE.length extra us
    (fun p hp => encode_isUnit h p.1 p.2 (henc p hp)) [] ((us.map (·.1)).flatten.length + 1) (by simp)
  have e2 := convLoop_units (encodeRuneSpec rm) true rm.inE.length [] us
    (fun p hp => encodeSpec_isUnit h p.1 p.2 (hus p hp)) [] ((us.map (·.1)).flatten.length + 1) (by simp)
  have e3 := replLoop_units (encodeRune rm) true rm.inE.length us
    (fun p hp => ⟨encode_isUnit h p.1 p.2 (henc p hp), hpos p hp⟩) []
    ((us.map (·.1)).flatten.length + 1) (by simp)
  have e4 := replLoop_units (encodeRuneSpec rm) false rm.inE.length us
    (fun p hp => ⟨encodeSpec_isUnit h p.1 p.2 (hus p hp), hpos p hp⟩) []
    ((us.map (·.1)).flatten.length + 1) (by simp)
  simp only [List.append_nil, List.length_nil, Nat.zero_add] at e1 e2 e3 e4
  have e5 := roundtrip_encode_decode h (us.map (·.1)).flatten (us.map (·.2)).flatten
    (by unfold encodeSpec; rw [e2]; simp [convLoop, Res.prepend])
  refine ⟨?_, ?_, ?_, ?_, e5⟩
  · unfold encode; rw [e1]; simp [convLoop, Res.prepend]
  · unfold encodeSpec; rw [e2]; simp [convLoop, Res.prepend]
  · unfold replace; rw [e3]; simp [replLoop, Res.prepend]
  · unfold replaceSpec; rw [e4]; simp [replLoop, Res.prepend]

/-- Non-vacuity on a regenerated table: `héllo€` in latin1 (cp1252). -/
example : encodeSpec Generated.C30.latin1 [104, 0xC3, 0xA9, 108, 108, 111, 0xE2, 0x82, 0xAC]
      = .ok [104, 0xE9, 108, 108, 111, 0x80] ∧
    decode Generated.C30.latin1 [104, 0xE9, 108, 108, 111, 0x80]
      = .ok [104, 0xC3, 0xA9, 108, 108, 111, 0xE2, 0x82, 0xAC] := by decide +kernel

/-! ### No crash -/

/-- **`Decode` never panics**, for any table (well-formed or not) and any bytes. -/
theorem decode_total_safe (rm : RangeMap) (s : List Nat) : decode rm s ≠ .crash :=
  convLoop_guard_no_crash _ _ _ _

/-- **`Encode` never reads behind `len(str)`**: the bytes between `len` and `cap` of the argument
slice do not influence the result, for any table and any bytes (before the repair the unguarded
search sliced `str[:n]` up to the capacity, see `fixed_encode_unrepresentable_tail`). -/
theorem encode_capacity_irrelevant (rm : RangeMap) (s extra : List Nat) :
    encode rm s extra = encode rm s [] :=
  convLoop_guard_extra _ _ _ _ _

/-- **`Encode` never panics**, for any table (well-formed or not), any bytes and any spare
capacity. This is the full statement that finding `encode_unrepresentable_tail` used to refute; it
holds since the `fix:` commit that added `Decode`'s length guard to `Encode`'s search loop. -/
theorem encode_total_safe (rm : RangeMap) (s extra : List Nat) : encode rm s extra ≠ .crash := by
  rw [encode_capacity_irrelevant]
  exact convLoop_guard_no_crash _ _ _ _

/-- The Spec of `Encode` never panics. -/
theorem encodeSpec_total_safe (rm : RangeMap) (s : List Nat) : encodeSpec rm s ≠ .crash :=
  convLoop_guard_no_crash _ _ _ _

/-- **`EncodeReplaceUnknown` always returns a string**, for any table and any bytes. -/
theorem replace_total_safe (rm : RangeMap) (s : List Nat) :
    (∃ b, replace rm s = .ok b) ∧ ∃ b, replaceSpec rm s = .ok b :=
  ⟨replLoop_total _ _ _ _ _ (by omega), replLoop_total _ _ _ _ _ (by omega)⟩

/-! ### Results of successive calls are independent

The round-trip theorems above speak about values. A caller holds *slices*; they stay equal to those
values only if no later call (and no write of the caller into some other slice) reaches their
storage. `Gms/Model/RangeMapMem.lean` makes the storage explicit; the code allocates per call
(`Alloc.fresh`, pinned by `facts_match`: the returned variable of every conversion function is
written by `make(…)` and `append`/index assignment only, the file has no package-level variable and
`RangeMap` no field besides the tables). -/

/-- **Late reads.** Any batch of calls — any operations, any character sets, any order (hence any
interleaving of the calls of several goroutines), with the caller writing into buffers it owned before
the batch in between: all results, read when the batch is over, are the values of the pure functions. -/
theorem results_independent_late (st : List Step) (m : Mem) (he : editsBelow m.heap.length st = true) :
    observeLate .fresh st m = pureResults st :=
  observeLate_fresh st m m.heap.length (Nat.le_refl _) he

/-- **Eager reads, results edited by the caller** (`IsReturnSafe`): every result, read when its call
returns, is the value of the pure function although the caller overwrites every earlier result. -/
theorem results_independent_eager (junk : Nat) (st : List Step) (m : Mem) :
    observeEager .fresh junk st m = pureResults st :=
  observeEager_fresh junk st m

/-- The batch of the harness's `keep` (and `par`) mode: input `j` in buffer `j`, scribbled over
after call `j`, everything read at the end. -/
theorem batch_keep_independent (junk : Nat) (cs : List (List Nat × Res)) :
    observeLate .fresh (keepBatch junk 0 cs) { heap := cs.map (·.1) } = cs.map (·.2) := by
  rw [results_independent_late _ _ (editsBelow_keepBatch junk cs 0 _ (by simp)), pureResults_keepBatch]

/-- The batch of the harness's `edit` mode. -/
theorem batch_edit_independent (junk junk' : Nat) (cs : List (List Nat × Res)) (m : Mem) :
    observeEager .fresh junk' (keepBatch junk 0 cs) m = cs.map (·.2) := by
  rw [results_independent_eager, pureResults_keepBatch]

/-- **Round trip of a batch.** Encode any strings `ss` (each successfully, by the Spec), decode all
the encodings one after the other keeping the result slices, and only then look: every string is back
— for every well-formed table. (One string at a time this is `roundtrip_encode_decode`.) -/
theorem batch_roundtrip {rm : RangeMap} (h : WF rm) (junk : Nat) (ps : List (List Nat × List Nat))
    (he : ∀ p ∈ ps, encodeSpec rm p.1 = .ok p.2) :
    observeLate .fresh (keepBatch junk 0 (ps.map fun p => (p.2, decode rm p.2))) { heap := ps.map (·.2) } =
      ps.map fun p => .ok p.1 := by
  have := batch_keep_independent junk (ps.map fun p => (p.2, decode rm p.2))
  simp only [List.map_map, Function.comp_def] at this
  rw [this]
  apply List.map_congr_left
  intro p hp
  exact roundtrip_encode_decode h p.1 p.2 (he p hp)

/-- Non-vacuity on a regenerated table: `ééé`, `èèè` in latin1, decoded in one batch. -/
example : observeLate .fresh (keepBatch 0xAA 0
      [([0xE9, 0xE9, 0xE9], decode Generated.C30.latin1 [0xE9, 0xE9, 0xE9]),
       ([0xE8, 0xE8, 0xE8], decode Generated.C30.latin1 [0xE8, 0xE8, 0xE8])])
      { heap := [[0xE9, 0xE9, 0xE9], [0xE8, 0xE8, 0xE8]] } =
    [.ok [0xC3, 0xA9, 0xC3, 0xA9, 0xC3, 0xA9], .ok [0xC3, 0xA8, 0xC3, 0xA8, 0xC3, 0xA8]] := by decide +kernel

/-- What `fresh` rules out (1): output built in a buffer that outlives the call (package-level scratch
buffer, `sync.Pool`, field of the encoder). Each result is right when its call returns
(`observeEager`), and the earlier one has turned into the later one when the batch is over
(`observeLate`): `SELECT _latin1 X'E9E9E9', _latin1 X'E8E8E8'` would return `èèè, èèè`. -/
theorem shared_not_independent :
    ∃ st m, editsBelow m.heap.length st = true ∧
      observeEager (.shared 0) 0x55 st m = pureResults st ∧
      observeLate (.shared 0) st m ≠ pureResults st :=
  ⟨[.call [0xE9, 0xE9, 0xE9] (decode Generated.C30.latin1 [0xE9, 0xE9, 0xE9]),
    .call [0xE8, 0xE8, 0xE8] (decode Generated.C30.latin1 [0xE8, 0xE8, 0xE8])],
   { heap := [[]] }, by decide, by decide +kernel, by decide +kernel⟩

/-- The same with results of different lengths: the earlier ones become a mix of all of them
(utf16 `éé`, `日日`, `AB` read `AB\xa5\xe6`, `AB\xa5日`, `AB` — not even well-formed UTF-8). -/
example : observeLate (.shared 0)
      [.call [0, 0xE9, 0, 0xE9] (decode Generated.C30.utf16 [0, 0xE9, 0, 0xE9]),
       .call [0x65, 0xE5, 0x65, 0xE5] (decode Generated.C30.utf16 [0x65, 0xE5, 0x65, 0xE5]),
       .call [0, 0x41, 0, 0x42] (decode Generated.C30.utf16 [0, 0x41, 0, 0x42])] { heap := [[]] } =
    [.ok [0x41, 0x42, 0xA5, 0xE6], .ok [0x41, 0x42, 0xA5, 0xE6, 0x97, 0xA5], .ok [0x41, 0x42]] := by
  decide +kernel

/-- What `fresh` rules out (2): a repeated input gets a stored result slice back (memo table, a row of
a static table). Late reads do not see it; a caller that edits the first result (allowed:
`IsReturnSafe`) finds its edit in the second. -/
theorem memo_not_independent :
    ∃ st m, observeLate .memo st m = pureResults st ∧ observeEager .memo 0x55 st m ≠ pureResults st :=
  ⟨[.call [0xE9] (decode Generated.C30.latin1 [0xE9]), .call [0xE9] (decode Generated.C30.latin1 [0xE9])],
   { heap := [] }, by decide +kernel, by decide +kernel⟩

/-! ### `Encode` (Impl) vs. Spec -/

/-- Region `encode_overflow_unit`: `s` contains a UTF-8 unit that hits an entry whose UTF-8 box
is larger than its charset box, beyond the charset box. -/
def OverflowRegion (rm : RangeMap) (s : List Nat) : Prop :=
  ∃ p u t, s = p ++ u ++ t ∧ overflowUnit rm u = true

/-- Outside the overflow region the Go loop computes the Spec (whatever lies behind the slice).
(The second guard `¬ EncodeTailRegion` this theorem used to need is gone with the repair.)

Full statement (FALSE, see `finding_encode_overflow_unit`):
  theorem encode_eq_spec (h : WF rm) (s) : encode rm s extra = encodeSpec rm s -/
theorem encode_eq_spec_partial {rm : RangeMap} (h : WF rm) (s : List Nat)
    (h2 : ¬ OverflowRegion rm s) (extra : List Nat := []) :
    encode rm s extra = encodeSpec rm s := by
  rw [encode_capacity_irrelevant]
  unfold encode encodeSpec
  apply convLoop_congr
  intro p u t hs
  rw [encodeRuneSpec_eq h u]
  cases ho : overflowUnit rm u with
  | false => rfl
  | true => exact absurd ⟨p, u, t, hs, ho⟩ h2

/-- Non-vacuity: unrepresentable / ill-formed units close to the end of the string (the former
tail region) are outside the overflow region's effect and are reported. -/
example : encode Generated.C30.latin1 [0xE9] = encodeSpec Generated.C30.latin1 [0xE9] ∧
    encode Generated.C30.latin1 [97, 0xC4, 0x80, 98] = .fail ∧
    encode Generated.C30.latin1 [0xC3] [0xA9] = .fail := by decide +kernel

/-! #### The repaired defect `encode_unrepresentable_tail` (pre-fix model `encodePreFix`) -/

/-- Former region `encode_unrepresentable_tail`: the search reaches a rest of the string that is
shorter than the longest unit (`len(rm.inputEntries)`) and has no representable prefix. -/
def EncodeTailRegion (rm : RangeMap) (s : List Nat) : Prop :=
  TailAt (encodeRune rm) rm.inE.length s

/-- Before the repair `Encode` panicked exactly in the tail region (no spare capacity): the
missing length guard was the only source of panics, for any table. -/
theorem encodePreFix_crash_iff (rm : RangeMap) (s : List Nat) :
    encodePreFix rm s [] = .crash ↔ EncodeTailRegion rm s :=
  convLoop_crash_iff _ _ _ _ (by omega)

/-- **What the repair changes, for every table and every string**: in the tail region the pre-fix
loop panicked and the repaired loop reports failure; everywhere else the two agree. -/
theorem encodePreFix_tail_repaired (rm : RangeMap) (s : List Nat) :
    (EncodeTailRegion rm s → encodePreFix rm s [] = .crash ∧ encode rm s [] = .fail) ∧
    (¬ EncodeTailRegion rm s → encodePreFix rm s [] = encode rm s []) := by
  refine ⟨fun h => ⟨(encodePreFix_crash_iff rm s).2 h, convLoop_tail_fail _ _ _ h⟩, fun h => ?_⟩
  have hc : encodePreFix rm s [] ≠ .crash := fun hc => h ((encodePreFix_crash_iff rm s).1 hc)
  unfold encodePreFix at hc ⊢
  rcases convLoop_unguarded_cases (encodeRune rm) rm.inE.length (s.length + 1) s with hcase | hcase
  · exact absurd hcase hc
  · rw [hcase]; rfl

/-- F-C30-a (repaired). Witness of the repaired defect: the pre-fix `Encode` panicked on an
unrepresentable/ill-formed unit close to the end of the string — latin1, the single byte `E9`
(reached by `SELECT HEX(CONVERT('é' USING latin1))`); the repaired `Encode` reports failure, as the
Spec demands. -/
theorem fixed_encode_unrepresentable_tail :
    ∃ rm s, WF rm ∧ encodePreFix rm s [] = .crash ∧ encode rm s [] = .fail ∧ encodeSpec rm s = .fail :=
  ⟨Generated.C30.latin1, [0xE9], wf_of_wfB _ (by decide +kernel), by decide +kernel, by decide +kernel,
    by decide +kernel⟩

/-- The other witnesses of the finding (`Ā` = `C4 80` at the end / one byte before the end / far
from the end), pre-fix and repaired. -/
example : encodePreFix Generated.C30.latin1 [0xC4, 0x80] [] = .crash ∧
    encodePreFix Generated.C30.latin1 [97, 0xC4, 0x80, 98] [] = .crash ∧
    encodePreFix Generated.C30.latin1 [0xC4, 0x80, 97, 98, 99] [] = .fail ∧
    encode Generated.C30.latin1 [0xC4, 0x80] [] = .fail ∧
    encode Generated.C30.latin1 [97, 0xC4, 0x80, 98] [] = .fail ∧
    encode Generated.C30.latin1 [0xC4, 0x80, 97, 98, 99] [] = .fail := by decide +kernel

/-- With spare capacity behind the slice the pre-fix loop read bytes that are not part of the
string: `C3` followed (outside the slice) by `A9` panicked, followed by `00` it did not. The
repaired loop reports failure in both cases (`encode_capacity_irrelevant`). -/
example : encodePreFix Generated.C30.latin1 [0xC3] [0xA9] = .crash ∧
    encodePreFix Generated.C30.latin1 [0xC3] [0, 0, 0] = .fail ∧
    encode Generated.C30.latin1 [0xC3] [0xA9] = .fail ∧
    encode Generated.C30.latin1 [0xC3] [0, 0, 0] = .fail := by decide +kernel

/-! ### `EncodeReplaceUnknown` (Impl) vs. Spec -/

/-- Region `replace_tail_collapse`. -/
def ReplaceCollapseRegion (rm : RangeMap) (s : List Nat) : Prop :=
  CollapseAt (encodeRune rm) rm.inE.length s

theorem replace_eq_spec_partial {rm : RangeMap} (h : WF rm) (s : List Nat)
    (h1 : ¬ ReplaceCollapseRegion rm s) (h2 : ¬ OverflowRegion rm s) :
    replace rm s = replaceSpec rm s := by
  unfold replace replaceSpec
  rw [replLoop_collapse_eq _ _ _ _ h1]
  apply replLoop_congr
  intro p u t hs
  rw [encodeRuneSpec_eq h u]
  cases ho : overflowUnit rm u with
  | false => rfl
  | true => exact absurd ⟨p, u, t, hs, ho⟩ h2

/-! ### Regenerated facts -/

/-- **Every `RangeMap` table of the compiled code is well-formed** (shapes, place-value
multipliers, disjoint boxes, prefix-freeness, both directions list the same entries). A changed
table entry or multiplier breaks this obligation. -/
theorem wf_all : Generated.C30.tables.all (fun p => wfB p.2) = true := by decide +kernel

theorem wf_table (name : String) (rm : RangeMap) (h : (name, rm) ∈ Generated.C30.tables) : WF rm := by
  have := wf_all
  rw [List.all_eq_true] at this
  exact wf_of_wfB rm (this (name, rm) h)

/-- The entries whose UTF-8 box is larger than their charset box (the only places where
`encode_overflow_unit` can occur): UTF-8 encoded surrogates in utf16/utf32 and code points beyond
U+10FFFF in utf32 (positions follow `tables.map (·.1)`, pinned in `facts_match`: the 10th table
is utf16, the 11th utf32). Any other entry of any table is tight. -/
theorem loose_entries :
    (Generated.C30.tables.map fun p => (looseEntries p.2).map fun e => (e.inR, e.outR)) =
    [[], [], [], [], [], [], [], [], [],
     [([(16, 215), (0, 255)], [(225, 237), (128, 191), (128, 191)])],
     [([(0, 0), (0, 0), (16, 215), (0, 255)], [(225, 237), (128, 191), (128, 191)]),
      ([(0, 0), (4, 16), (0, 255), (0, 255)], [(241, 244), (128, 191), (128, 191), (128, 191)])],
     []] := by
  decide +kernel

/-- Shape of the loops, where the results live, and the list of character sets with an encoder, as
read from the source. `outputWrites_*` (every statement that writes the variable a conversion function
returns: `make` per call, then `append` / index assignment), `packageVars = []` and `structFields`
(nothing but the tables) are the allocation discipline `Alloc.fresh` of the memory model: storage that
outlives a call would have to show up in one of them (`shared_not_independent`, `memo_not_independent`
are the replays).
`encodeHasLengthGuard = true` is the repair of finding `encode_unrepresentable_tail` (the model
`encode` is the guarded loop): if the guard disappears again this obligation breaks and
`fixed_encode_unrepresentable_tail` is the replay. -/
theorem facts_match :
    Generated.C30.decodeHasLengthGuard = true ∧
    Generated.C30.encodeHasLengthGuard = true ∧
    Generated.C30.loopBounds_Decode = ["len(rm.inputEntries)"] ∧
    Generated.C30.loopBounds_Encode = ["len(rm.inputEntries)"] ∧
    Generated.C30.loopBounds_EncodeReplaceUnknown = ["len(rm.inputEntries)", "len(str)"] ∧
    Generated.C30.outputWrites_Decode =
      ["decodedStr := make([]byte, 0, len(str))", "decodedStr = append(decodedStr, decodedRune...)"] ∧
    Generated.C30.outputWrites_Encode =
      ["encodedStr := make([]byte, 0, len(str))", "encodedStr = append(encodedStr, encodedRune...)"] ∧
    Generated.C30.outputWrites_EncodeReplaceUnknown =
      ["encodedStr := make([]byte, 0, len(str))", "encodedStr = append(encodedStr, encodedRune...)"] ∧
    Generated.C30.outputWrites_DecodeRune =
      ["outputData := make([]byte, len(entry.outputRange))", "outputData[i] = entry.outputRange[i][0] + byte(diff)"] ∧
    Generated.C30.outputWrites_EncodeRune =
      ["inputData := make([]byte, len(entry.inputRange))", "inputData[i] = entry.inputRange[i][0] + byte(diff)"] ∧
    Generated.C30.packageVars = [] ∧
    Generated.C30.structFields =
      ["toUpper map[rune]rune", "toLower map[rune]rune", "inputEntries [][]rangeMapEntry",
       "outputEntries [][]rangeMapEntry"] ∧
    Generated.C30.charsets =
      [("armscii8", "rangemap"), ("ascii", "rangemap"), ("binary", "native"), ("cp1256", "rangemap"),
       ("cp1257", "rangemap"), ("dec8", "rangemap"), ("geostd8", "rangemap"), ("latin1", "rangemap"),
       ("latin7", "rangemap"), ("swe7", "rangemap"), ("utf16", "rangemap"), ("utf32", "rangemap"),
       ("utf8mb3", "rangemap"), ("utf8mb4", "native")] ∧
    Generated.C30.tables.map (·.1) =
      ["armscii8", "ascii", "cp1256", "cp1257", "dec8", "geostd8", "latin1", "latin7", "swe7",
       "utf16", "utf32", "utf8mb3"] := by
  decide

/-! ### Findings on the current tree (witnesses on the regenerated tables) -/

/-- `Encode` accepts UTF-8 encoded surrogates (utf16) / code points beyond U+10FFFF (utf32) and
produces bytes that do not decode back. -/
theorem finding_encode_overflow_unit :
    ∃ rm s b, WF rm ∧ encode rm s [] = .ok b ∧ decode rm b ≠ .ok s ∧ encodeSpec rm s = .fail :=
  ⟨Generated.C30.utf16, [0xED, 0xA0, 0x80], [0xD8, 0x00], wf_of_wfB _ (by decide +kernel),
    by decide +kernel, by decide +kernel, by decide +kernel⟩

example : encode Generated.C30.utf32 [0xF4, 0x90, 0x80, 0x80] [] = .ok [1, 4, 0, 0] ∧
    decode Generated.C30.utf32 [1, 4, 0, 0] = .fail := by decide +kernel

/-- `EncodeReplaceUnknown` replaces *two* characters (`Ā`, `b`) by a single `?`. -/
theorem finding_replace_tail_collapse :
    ∃ rm s, WF rm ∧ replace rm s = .ok [63] ∧ replaceSpec rm s = .ok [63, 98] :=
  ⟨Generated.C30.latin1, [0xC4, 0x80, 98], wf_of_wfB _ (by decide +kernel), by decide +kernel, by decide +kernel⟩

/-! #### SQL level (composition of the model functions that explains the engine's answers; the
engine itself is compared, not modelled — see the `sqlconv` / `sqlcol` cases of the harness) -/

/-- `HEX(CONVERT(s USING cs))` as the engine computes it: `ConvertUsing.Eval` returns the bytes
of `EncodeReplaceUnknown(s)` as a string typed `cs`; `HEX` of a text value calls `Encode` on it. -/
def sqlHexConvertImpl (rm : RangeMap) (s : List Nat) : Res :=
  match replace rm s with
  | .ok r => encode rm r []
  | x => x

/-- What the statement means: the hex of the converted string. -/
def sqlHexConvertSpec (rm : RangeMap) (s : List Nat) : Res := replaceSpec rm s

/-- Region `sql_convert_using_not_decoded`: `é` in latin1 is an error (`HEX` cannot re-encode the
byte `E9`; before the repair of `encode_unrepresentable_tail` it panicked), `a` in utf16 is encoded
twice. -/
theorem finding_sql_convert_using_not_decoded :
    (sqlHexConvertImpl Generated.C30.latin1 [0xC3, 0xA9] = .fail ∧
      sqlHexConvertSpec Generated.C30.latin1 [0xC3, 0xA9] = .ok [0xE9]) ∧
    (sqlHexConvertImpl Generated.C30.utf16 [97] = .ok [0, 0, 0, 97] ∧
      sqlHexConvertSpec Generated.C30.utf16 [97] = .ok [0, 97]) := by decide +kernel

/-- Outside the region: when the converted bytes are a fixed point of `Encode` (ASCII text in a
single-byte character set) the double encoding is invisible. -/
theorem sqlHexConvert_partial (rm : RangeMap) (s r : List Nat) (h1 : replace rm s = .ok r)
    (h2 : replaceSpec rm s = .ok r) (h3 : encode rm r [] = .ok r) :
    sqlHexConvertImpl rm s = sqlHexConvertSpec rm s := by
  simp [sqlHexConvertImpl, sqlHexConvertSpec, h1, h2, h3]

example : sqlHexConvertImpl Generated.C30.latin1 [97, 98] = sqlHexConvertSpec Generated.C30.latin1 [97, 98] := by
  decide +kernel

/-- Region `sql_unrepresentable_stored`: a column value is kept as given; `HEX(c)`/`LENGTH(c)` call
`Encode` on it. For `Ā` in a latin1 column the Spec says "not representable" (the INSERT must
reject or replace it) while the engine stores it unchanged (`INSERT` ok, `SELECT c` returns `Ā`) and
only `HEX(c)`/`LENGTH(c)` fail later, with the error `Encode` reports (before the repair of
`encode_unrepresentable_tail` they panicked). -/
theorem finding_sql_unrepresentable_stored :
    encodeSpec Generated.C30.latin1 [0xC4, 0x80] = .fail ∧
    encode Generated.C30.latin1 [0xC4, 0x80] [] = .fail ∧
    encodePreFix Generated.C30.latin1 [0xC4, 0x80] [] = .crash := by decide +kernel

/-- Outside the region (the value is representable): `HEX(c)` is the Spec's encoding and the
round trip through the column holds — `encode_eq_spec_partial` + `roundtrip_encode_decode`. -/
theorem sqlColumn_partial {rm : RangeMap} (h : WF rm) (s b : List Nat) (hs : encodeSpec rm s = .ok b)
    (h2 : ¬ OverflowRegion rm s) :
    encode rm s [] = .ok b ∧ decode rm b = .ok s :=
  ⟨by rw [encode_eq_spec_partial h s h2, hs], roundtrip_encode_decode h s b hs⟩

/-- Non-vacuity of the partial theorems: a string with an unrepresentable character far from
the end is outside the regions' effect (Impl = Spec = report / one `?`). -/
example : encode Generated.C30.latin1 [0xC4, 0x80, 97, 98, 99] [] =
      encodeSpec Generated.C30.latin1 [0xC4, 0x80, 97, 98, 99] ∧
    replace Generated.C30.latin1 [0xC4, 0x80, 97, 98, 99] = .ok [63, 97, 98, 99] ∧
    replaceSpec Generated.C30.latin1 [0xC4, 0x80, 97, 98, 99] = .ok [63, 97, 98, 99] := by decide +kernel

end Gms.C30
