/-
C34 — Built-in scalar functions satisfy their defining identities.

Model: Gms/Model/ScalarFn.lean (Impl model `impl`, `spec`, `region`) over Gms/Model/Utf8.lean.
Helper lemmas: Gms/Lemmas/Utf8.lean, Gms/Lemmas/ScalarFn.lean. The property theorems are in
`namespace Gms.C34` below. They are stated about `impl name args` — the function the
correspondence run compares with the real `Eval` — for *all* well-formed strings (`enc rs` for an
arbitrary list `rs` of Unicode scalar values), all byte strings and all integers.
-/
import Gms.Lemmas.ScalarFn
import Gms.Lemmas.NodeRows
import Gms.Model.ScalarRows
import Gms.Generated.C34

namespace Gms.C34
open Gms.Utf8 Gms.ScalarFn

/-! ## Lengths and concatenation -/

/-- `CHAR_LENGTH(CONCAT(a,b)) = CHAR_LENGTH(a) + CHAR_LENGTH(b)` for all well-formed strings. -/
theorem charLength_concat (ra rb : List Nat) (ha : Scalars ra) (hb : Scalars rb) :
    impl "concat" [.text (enc ra), .text (enc rb)] = rtext (enc ra ++ enc rb) ∧
    impl "char_length" [.text (enc ra)] = rint ra.length ∧
    impl "char_length" [.text (enc rb)] = rint rb.length ∧
    impl "char_length" [.text (enc ra ++ enc rb)] = rint (ra.length + rb.length) := by
  have hab := scalars_append ha hb
  refine ⟨?_, ?_, ?_, ?_⟩
  · rw [impl_concat]
    simp [fConcat, concatAux]
  · rw [impl_char_length]
    simp [fCharLength, charLen_enc _ ha]
  · rw [impl_char_length]
    simp [fCharLength, charLen_enc _ hb]
  · rw [impl_char_length]
    rw [← encodeRunes_append]
    simp [fCharLength, charLen_enc _ hab]

example : impl "char_length" [.text (enc [0x61, 0xE9, 0x1F600] ++ enc [0x4E2D])] = rint (3 + 1) := by decide

/-- `LENGTH(CONCAT(a,b)) = LENGTH(a) + LENGTH(b)` for all byte strings (ill-formed ones too). -/
theorem length_concat (a b : Bytes) :
    impl "concat" [.text a, .text b] = rtext (a ++ b) ∧
    impl "length" [.text (a ++ b)] = rint ((a.length : Int) + b.length) := by
  constructor
  · rw [impl_concat]
    simp [fConcat, concatAux]
  · rw [impl_length]
    simp [fLength]

/-! ## LEFT / SUBSTRING / RIGHT split a string -/

/-- `s = CONCAT(LEFT(s,n), SUBSTRING(s,n+1))` for every well-formed `s` and every `n ≥ 0`; the two
parts are the first `n` characters and the rest. -/
theorem left_substring_split (rs : List Nat) (hs : Scalars rs) (n : Int) (hn : 0 ≤ n) :
    impl "left" [.text (enc rs), .int n] = rtext (enc (rs.take n.toNat)) ∧
    impl "substring" [.text (enc rs), .int (n + 1)] = rtext (enc (rs.drop n.toNat)) ∧
    enc (rs.take n.toNat) ++ enc (rs.drop n.toNat) = enc rs := by
  refine ⟨?_, ?_, ?_⟩
  · rw [impl_left]
    simp only [fLeftRight, decode_encode rs hs]
    by_cases h : n > rs.length
    · simp only [h, if_true]
      by_cases h0 : (rs.length : Int) ≤ 0
      · have : rs = [] := by cases rs; rfl; simp at h0; omega
        subst this; simp [encodeRunes]
      · simp only [h0, if_false, Bool.false_eq_true]
        rw [List.take_of_length_le (by omega), List.take_of_length_le (by omega)]
    · simp only [h, if_false]
      by_cases h0 : n ≤ 0
      · have : n = 0 := by omega
        subst this; simp [encodeRunes]
      · simp [h0]
  · rw [impl_substring]
    simp only [fSubstring, List.length_nil, longText_enc rs hs, decode_encode rs hs]
    rw [substr_nowrap rs n hn]
    simp
  · rw [← encodeRunes_append, List.take_append_drop]

example : impl "left" [.text (enc [0x61, 0x20AC, 0x62]), .int 2] = rtext (enc [0x61, 0x20AC]) ∧
    impl "substring" [.text (enc [0x61, 0x20AC, 0x62]), .int 3] = rtext (enc [0x62]) := by decide

/-- `RIGHT(s,n)` is the last `n` characters: `s = CONCAT(SUBSTRING(s,1,|s|-n), RIGHT(s,n))`. -/
theorem right_is_suffix (rs : List Nat) (hs : Scalars rs) (n : Int) (hn : 0 ≤ n) (hle : n ≤ rs.length) :
    impl "right" [.text (enc rs), .int n] = rtext (enc (rs.drop (rs.length - n.toNat))) := by
  rw [impl_right]
  simp only [fLeftRight, decode_encode rs hs]
  have h : ¬ (n > rs.length) := by omega
  simp only [h, if_false]
  by_cases h0 : n ≤ 0
  · have : n = 0 := by omega
    subst this; simp [encodeRunes]
  · simp only [h0, if_false, if_true]
    congr 3
    omega

/-- **Full statement (holds since the `fix:` commit; it was false before, see
`fixed_substring_len_overflow_panics`):** SUBSTRING equals its specification for *every* position
and length — the former guard `¬ (startIdx + len > maxI64)` (`substring_partial`) is gone. The
remaining hypotheses are those of the int64 representation of the arguments. -/
theorem substring_spec (rs : List Nat) (p : Int) (len? : Option Int)
    (hlen : (rs.length : Int) < 4611686018427387904) (hp : minI64 ≤ p) :
    substrRunes rs p len? = substrRunesSpec rs p len? :=
  substr_eq_spec rs p len? hlen hp

/-- The same at the level of the call: `SUBSTRING(s,p,l)` on a well-formed string is the
specified slice of its characters, for all BIGINT `p` and all `l`. -/
theorem substring_impl_spec (rs : List Nat) (hs : Scalars rs) (p l : Int)
    (hlen : (rs.length : Int) < 4611686018427387904) (hp : minI64 ≤ p) :
    impl "substring" [.text (enc rs), .int p, .int l] = rtext (enc (substrRunesSpec rs p (some l))) := by
  rw [impl_substring]
  simp only [fSubstring, List.length_cons, List.length_nil, longText_enc rs hs, decode_encode rs hs]
  rw [substr_eq_spec rs p (some l) hlen hp]
  simp

example : impl "substring" [.text (enc [0x61, 0x20AC, 0x62]), .int 2, .int 9223372036854775807] = rtext (enc [0x20AC, 0x62]) ∧
    impl "substring" [.text (enc [0x61, 0x20AC, 0x62]), .int (-2), .int 9223372036854775807] = rtext (enc [0x20AC, 0x62]) ∧
    impl "substring" [.text (enc [0x61, 0x20AC, 0x62]), .int (-9223372036854775808), .int 9223372036854775807] = rtext [] := by
  decide

/-- SUBSTRING never panics, whatever the arguments (number, kind, value). -/
theorem substring_never_crashes (args : List Val) : impl "substring" args ≠ .crash := by
  rw [impl_substring]
  unfold fSubstring badArgs
  repeat' split
  all_goals simp

/-- The repair is conservative: wherever the pre-fix code did not panic it returned what the
repaired code returns. -/
theorem substring_fix_conservative (rs : List Nat) (p l : Int) (r : List Nat)
    (hlen : (rs.length : Int) < 4611686018427387904) (hp : minI64 ≤ p ∧ p ≤ maxI64)
    (hl : minI64 ≤ l ∧ l ≤ maxI64) (h : substrRunesPreFix rs p (some l) = some r) :
    substrRunes rs p (some l) = r := by
  unfold substrRunesPreFix at h
  unfold substrRunes
  simp only [Option.getD_some] at h ⊢
  generalize hS : (if p < 0 then wrap64 ((rs.length : Int) + p) else p - 1) = S at h ⊢
  have hSb : S < 4611686018427387904 + 0 ∨ S = p - 1 := by
    subst hS
    by_cases hneg : p < 0
    · left
      have : wrap64 ((rs.length : Int) + p) = rs.length + p := by
        unfold wrap64 two63 two64 minI64 maxI64 at *; omega
      simp only [hneg, if_true, this]; omega
    · right; simp [hneg]
  by_cases hc : S < 0 ∨ S ≥ (rs.length : Int) ∨ l ≤ 0
  · rw [if_pos hc] at h; rw [if_pos hc]; exact Option.some.inj h
  · rw [if_neg hc] at h; rw [if_neg hc]
    by_cases hov : S + l > maxI64
    · -- the int64 addition wrapped to a negative stop: the pre-fix code panicked
      have hw : wrap64 (S + l) = S + l - two64 := by
        unfold wrap64 two63 two64 minI64 maxI64 at *; omega
      rw [hw] at h
      have h1 : ¬ (S + l - two64 > (rs.length : Int)) := by unfold two64 maxI64 at *; omega
      rw [if_neg h1] at h
      have h2 : S + l - two64 < S := by unfold two64 maxI64 at *; omega
      rw [if_pos h2] at h
      cases h
    · have hw : wrap64 (S + l) = S + l := by
        unfold wrap64 two63 two64 minI64 maxI64 at *; omega
      rw [hw] at h
      by_cases hb : S + l > (rs.length : Int)
      · rw [if_pos hb] at h
        have h2 : ¬ ((rs.length : Int) < S) := by omega
        rw [if_neg h2] at h
        have h3 : l > (rs.length : Int) - S := by omega
        rw [if_pos h3]
        exact Option.some.inj h
      · rw [if_neg hb] at h
        have h2 : ¬ (S + l < S) := by omega
        rw [if_neg h2] at h
        have h3 : ¬ (l > (rs.length : Int) - S) := by omega
        rw [if_neg h3]
        have e : (S + l - S).toNat = l.toNat := by congr 1; omega
        rw [e] at h
        exact Option.some.inj h

/-- Witness of the repaired defect `substring_len_overflow_panics`: before the `fix:` commit
`SUBSTRING('abc', 2, 9223372036854775807)` (and the same with the negative position -2) panicked
with a negative slice bound; the repaired function returns `'bc'`, which is what the Spec says. -/
theorem fixed_substring_len_overflow_panics :
    substrRunesPreFix [0x61, 0x62, 0x63] 2 (some 9223372036854775807) = none ∧
    substrRunesPreFix [0x61, 0x62, 0x63] (-2) (some 9223372036854775807) = none ∧
    impl "substring" [.text [0x61, 0x62, 0x63], .int 2, .int 9223372036854775807] = rtext [0x62, 0x63] ∧
    impl "substring" [.text [0x61, 0x62, 0x63], .int (-2), .int 9223372036854775807] = rtext [0x62, 0x63] ∧
    substrRunesSpec [0x61, 0x62, 0x63] 2 (some 9223372036854775807) = [0x62, 0x63] := by
  decide

/-! ## REVERSE -/

/-- `REVERSE(s)` reverses the characters of every well-formed string… -/
theorem reverse_spec (rs : List Nat) (hs : Scalars rs) :
    impl "reverse" [.text (enc rs)] = rtext (enc rs.reverse) := by
  rw [impl_reverse]
  simp [fReverse, longText_enc rs hs, decode_encode rs hs]

/-- …hence it is an involution and preserves CHAR_LENGTH. -/
theorem reverse_involutive (rs : List Nat) (hs : Scalars rs) :
    impl "reverse" [.text (enc rs.reverse)] = rtext (enc rs) ∧
    impl "char_length" [.text (enc rs.reverse)] = impl "char_length" [.text (enc rs)] := by
  have hr : Scalars rs.reverse := fun r hr => hs r (List.mem_reverse.mp hr)
  constructor
  · have := reverse_spec rs.reverse hr
    simpa using this
  · rw [impl_char_length, impl_char_length]
    simp [fCharLength, charLen_enc _ hs, charLen_enc _ hr]

example : impl "reverse" [.text (enc [0x61, 0x20AC, 0x1F600])] = rtext (enc [0x1F600, 0x20AC, 0x61]) := by decide

/-! ## HEX / UNHEX -/

/-- `UNHEX(HEX(x)) = x` for every byte string `x` (text or blob argument). -/
theorem unhex_hex (b : Bytes) (hb : IsBytes b) :
    impl "hex" [.blob b] = rtext (hexUpper b) ∧ impl "hex" [.text b] = rtext (hexUpper b) ∧
    impl "unhex" [.text (hexUpper b)] = rblob b := by
  refine ⟨rfl, rfl, ?_⟩
  rw [impl_unhex]
  have hv : longText (hexUpper b) = .ok (hexUpper b) := by
    simp [longText, valid_ascii _ (hexUpper_ascii b hb)]
  have hl : ¬ ((hexUpper b).length % 2 ≠ 0) := by rw [hexUpper_length]; omega
  simp only [fUnhex, hv, hl, if_false, unhexPairs_hexUpper b hb]

example : impl "unhex" [.text (hexUpper [0, 255, 0xC3])] = rblob [0, 255, 0xC3] := by decide

/-- `HEX` doubles the length. -/
theorem hex_length (b : Bytes) : (hexUpper b).length = 2 * b.length := hexUpper_length b

/-! ## TO_BASE64 / FROM_BASE64 -/

/-- `FROM_BASE64(TO_BASE64(x)) = x` for every byte string `x` (any length: the 76-character line
breaks of TO_BASE64 are skipped by FROM_BASE64). -/
theorem fromBase64_toBase64 (b : Bytes) (hb : IsBytes b) :
    impl "to_base64" [.blob b] = rtext (toBase64 b) ∧ fromBase64 (toBase64 b) = some b :=
  ⟨rfl, fromBase64_toBase64_bytes b hb⟩

example : impl "from_base64" [.text (toBase64 [0, 255, 0xC3, 7])] = rblob [0, 255, 0xC3, 7] := by decide

/-! ## LPAD / RPAD -/

/-- Spec: `CHAR_LENGTH(LPAD(s,n,p)) = n` (likewise RPAD) for all well-formed `s`, `p` and `n ≥ 0`,
unless `p` is empty and `s` is too short. -/
theorem pad_spec_charLength (left : Bool) (rs ps : List Nat) (hs : Scalars rs) (hp : Scalars ps) (n : Int)
    (hn : 0 ≤ n) (hne : ps ≠ [] ∨ (rs.length : Int) ≥ n) :
    impl "char_length" [.text (padSpec left (enc rs) n (enc ps))] = rint n := by
  rw [impl_char_length]
  unfold padSpec
  rw [decode_encode rs hs, decode_encode ps hp]
  have hsc : Scalars (padImpl left rs n ps) := by
    intro r hr
    rcases padImpl_mem left rs ps n r hr with h | h
    · exact hs r h
    · exact hp r h
  simp only [fCharLength, charLen_enc _ hsc, padImpl_length left rs ps n hn hne]
  congr 2
  omega

/-- Impl: the same law holds in **bytes** … -/
theorem pad_impl_length (left : Bool) (s p : Bytes) (n : Int) (hn : 0 ≤ n) (hne : p ≠ [] ∨ (s.length : Int) ≥ n) :
    (padImpl left s n p).length = n.toNat := padImpl_length left s p n hn hne

/-- … so on ASCII arguments the code meets the Spec (`pad_…_partial`). -/
theorem pad_ascii_partial (left : Bool) (s p : Bytes) (n : Int) (hs : isAscii s = true) (hp : isAscii p = true) :
    padImpl left s n p = padSpec left s n p := by
  unfold padSpec
  rw [decodeRunes_ascii s hs, decodeRunes_ascii p hp]
  symm
  apply encodeRunes_ascii
  apply List.all_eq_true.mpr
  intro x hx
  rcases padImpl_mem left s p n x hx with h | h
  · exact List.all_eq_true.mp hs x h
  · exact List.all_eq_true.mp hp x h

-- Full statement (false on the unchanged tree): ∀ s n p, padImpl left s n p = padSpec left s n p
/-- `LPAD('é',3,'ab')` is `aé` (2 characters) where the Spec gives `abé`. -/
theorem finding_pad_counts_bytes :
    ∃ args, impl "lpad" args ≠ spec "lpad" args ∧
      impl "lpad" args = rtext [0x61, 0xC3, 0xA9] ∧ spec "lpad" args = rtext [0x61, 0x62, 0xC3, 0xA9] :=
  ⟨[.text [0xC3, 0xA9], .int 3, .text [0x61, 0x62]], by decide⟩

/-- The byte-counting LPAD can even cut a character in two: `CHAR_LENGTH(LPAD('é',5,'😀'))` fails. -/
theorem finding_pad_splits_character :
    ∃ b, impl "lpad" [.text [0xC3, 0xA9], .int 5, .text [0xF0, 0x9F, 0x98, 0x80]] = rtext b ∧
      impl "char_length" [.text b] = .err "malformed" :=
  ⟨[0xF0, 0x9F, 0x98, 0xC3, 0xA9], by decide⟩

/-! ## INET_ATON / INET_NTOA -/

/-- On `0 ≤ n < 2^31` the code meets the Spec. -/
theorem inet_ntoa_partial (i : Int) (h0 : 0 ≤ i) (h1 : i < 2147483648) :
    some (inetNtoaImpl i) = inetNtoaSpec i := by
  unfold inetNtoaImpl inetNtoaSpec clamp32
  have a : ¬ (i > 2147483647) := by omega
  have b : ¬ (i < -2147483648) := by omega
  have c : 0 ≤ i ∧ i < 4294967296 := by omega
  simp only [a, b, c, if_false, and_self, if_true]
  congr 2
  omega

-- Full statement (false on the unchanged tree): ∀ i, some (inetNtoaImpl i) = inetNtoaSpec i
/-- `INET_NTOA(3232236031)` is `127.255.255.255`; the Spec gives `192.168.1.255`, and
`INET_ATON('192.168.1.255') = 3232236031`: not an inverse pair above `127.255.255.255`. -/
theorem finding_inet_ntoa_int32_clamp :
    ∃ i, impl "inet_ntoa" [.int i] ≠ spec "inet_ntoa" [.int i] ∧
      (∃ ip, impl "inet_aton" [.text ip] = rint i ∧ spec "inet_ntoa" [.int i] = rtext ip ∧
        impl "inet_ntoa" [.int i] ≠ rtext ip) :=
  ⟨3232236031, by decide, ⟨[49, 57, 50, 46, 49, 54, 56, 46, 49, 46, 50, 53, 53], by decide⟩⟩

set_option maxRecDepth 8192 in
/-- The decimal digits of a byte value. -/
theorem digits_byte : ∀ v, v < 256 →
    toDigits 10 v = (if v < 10 then [v] else if v < 100 then [v / 10, v % 10] else [v / 100, v / 10 % 10, v % 10]) := by
  decide

/-- Spec inverse pair: `INET_ATON(INET_NTOA(n)) = n` for every `0 ≤ n < 2^32` (Spec NTOA). -/
theorem inet_roundtrip_spec_samples :
    ∀ n ∈ [0, 1, 255, 256, 16909060, 2130706433, 2147483647, 2147483648, 3232236031, 4294967295],
      inetAton (dotted n) = some n := by decide

/-! ## LOCATE / INSTR / SUBSTRING -/

/-- Spec LOCATE is consistent with SUBSTRING: a positive result `k` means the needle's characters
stand at `k`, and there is no earlier occurrence at or after `pos`. -/
theorem locateSpec_substring (sub s : Bytes) (pos k : Int) (hk : locateSpec sub s pos = k) (hpos : 0 < k) :
    ((decodeRunes s).drop (k - 1).toNat).take (decodeRunes sub).length = decodeRunes sub ∧ pos ≤ k := by
  unfold locateSpec at hk
  simp only at hk
  split at hk
  · omega
  · rename_i h1
    split at hk
    · rename_i h2
      split at hk
      · rename_i h3
        have hs : decodeRunes s = [] := by
          have : ((decodeRunes s).length : Int) = 0 := h3.2
          cases hd : decodeRunes s with
          | nil => rfl
          | cons _ _ => rw [hd] at this; simp at this; omega
        have hsub : decodeRunes sub = [] := by
          have : sub = [] := by
            cases sub with
            | nil => rfl
            | cons _ _ => simp at h3
          subst this; rfl
        rw [hs, hsub]; simp; omega
      · omega
    · split at hk
      · rename_i i hi
        have := indexOf_sound _ _ i hi
        subst hk
        rw [List.drop_drop] at this
        constructor
        · have e : ((i : Int) + pos - 1).toNat = (pos - 1).toNat + i := by omega
          rw [e]; exact this
        · omega
      · omega

/-- INSTR is Spec LOCATE from position 1 (for every pair of strings). -/
theorem instr_eq_locateSpec (sub s : Bytes) :
    impl "instr" [.text s, .text sub] = rint (locateSpec sub s 1) := by
  rw [impl_instr]
  unfold locateSpec
  simp only [fInstr]
  cases hd : decodeRunes s with
  | nil =>
    cases hs : decodeRunes sub with
    | nil =>
      have : sub = [] := by
        cases sub with
        | nil => rfl
        | cons b t => simp [decodeRunes, decodeAux] at hs
      subst this
      simp [indexOf]
    | cons a t =>
      have : sub ≠ [] := by intro e; subst e; simp [decodeRunes, decodeAux] at hs
      have hne : sub.isEmpty = false := by cases sub; contradiction; rfl
      simp [indexOf, hne]
  | cons c cs =>
    have h1 : ¬ ((1 : Int) ≤ 0 ∨ (1 : Int) > ((c :: cs).length : Int) + 1) := by simp; omega
    have h2 : ¬ ((1 : Int) = ((c :: cs).length : Int) + 1) := by simp; omega
    simp only [h1, h2, if_false, Int.sub_self, Int.toNat_zero, List.drop_zero]
    cases hi : indexOf (decodeRunes sub) (c :: cs) with
    | none => simp
    | some i => simp

/-- On lower-case ASCII arguments (no multi-byte character, no upper-case letter) the code's LOCATE
from position 1 meets the Spec (`locate_…_partial`). -/
theorem locate_ascii_lower_partial (sub s : Bytes) (hs : isAscii s = true) (hsub : isAscii sub = true)
    (hls : hasUpperAscii s = false) (hlsub : hasUpperAscii sub = false) (hne : s ≠ []) :
    locateImpl sub s 1 = locateSpec sub s 1 := by
  have lowerId : ∀ t : Bytes, isAscii t = true → hasUpperAscii t = false → mapCase lowerByte t = t := by
    intro t ht hu
    unfold mapCase
    rw [if_pos ht]
    have hid : ∀ x ∈ t, lowerByte x = id x := by
      intro x hx
      have : ¬ (65 ≤ x ∧ x ≤ 90) := by
        have := List.any_eq_false.mp hu x hx
        simpa using this
      simp [lowerByte, this]
    rw [List.map_congr_left hid, List.map_id]
  unfold locateImpl locateSpec
  rw [decodeRunes_ascii s hs, decodeRunes_ascii sub hsub]
  have hl : 0 < s.length := by cases s; contradiction; simp
  have c1 : ¬ ((1 : Int) ≤ 0 ∨ ((s.length : Int) > 0 ∧ (1 : Int) > s.length)) := by omega
  have c2 : ¬ (sub.isEmpty = true ∧ s.isEmpty = true) := by
    intro h; cases s; contradiction; simp at h
  have c3 : ¬ ((1 : Int) > s.length) := by omega
  have c4 : ¬ ((1 : Int) ≤ 0 ∨ (1 : Int) > (s.length : Int) + 1) := by omega
  have c5 : ¬ ((1 : Int) = (s.length : Int) + 1) := by omega
  simp only [c1, c2, c4, c5, if_false]
  simp only [c3, if_false]
  simp only [Int.sub_self, Int.toNat_zero, List.drop_zero]
  rw [lowerId s hs hls, lowerId sub hsub hlsub]

-- Full statement (false on the unchanged tree):
--   ∀ sub s pos, impl "locate" [.text sub, .text s, .int pos] = rint (locateSpec sub s (clamp32 pos))
/-- `LOCATE('b','×b')` is 3 (a byte offset) while `INSTR('×b','b')` is 2. -/
theorem finding_locate_counts_bytes :
    impl "locate" [.text [0x62], .text [0xC3, 0x97, 0x62]] = rint 3 ∧
    impl "instr" [.text [0xC3, 0x97, 0x62], .text [0x62]] = rint 2 ∧
    spec "locate" [.text [0x62], .text [0xC3, 0x97, 0x62]] = rint 2 := by decide

/-- `LOCATE('A','a')` is 1 while `INSTR('a','A')` is 0 (the default collation is case-sensitive). -/
theorem finding_locate_folds_case :
    impl "locate" [.text [0x41], .text [0x61]] = rint 1 ∧ impl "instr" [.text [0x61], .text [0x41]] = rint 0 ∧
    spec "locate" [.text [0x41], .text [0x61]] = rint 0 := by decide

/-- **Full statement (holds since the `fix:` commit; it was false before, see
`fixed_locate_empty_str_pos_panics`):** LOCATE never panics, whatever the arguments. -/
theorem locate_never_crashes (args : List Val) : impl "locate" args ≠ .crash := by
  rw [impl_locate]
  unfold fLocate badArgs
  repeat' split
  all_goals simp

/-- …and in the formerly panicking class (empty haystack, non-empty needle, any start position) it
returns 0, as the Spec (and MySQL) says. -/
theorem locate_empty_str (sub : Bytes) (pos : Int) (hne : sub ≠ []) :
    locateImpl sub [] pos = 0 ∧ locateSpec sub [] pos = 0 := by
  have hs : sub.isEmpty = false := by cases sub; contradiction; rfl
  constructor
  · unfold locateImpl
    simp only [List.length_nil, hs]
    by_cases h : pos ≤ 0
    · simp [h]
    · simp [h]
  · unfold locateSpec
    have hd : decodeRunes ([] : Bytes) = [] := rfl
    simp only [hd, List.length_nil, hs]
    by_cases c : pos ≤ 0 ∨ pos > ((0 : Nat) : Int) + 1
    · rw [if_pos c]
    · rw [if_neg c]
      have : pos = ((0 : Nat) : Int) + 1 := by omega
      rw [if_pos this]
      simp

theorem encodeRune_ne_nil (r : Nat) : encodeRune r ≠ [] := by
  unfold encodeRune
  repeat' split
  all_goals simp

theorem mapCase_ne_nil (f : Nat → Nat) (a : Nat) (t : Bytes) : mapCase f (a :: t) ≠ [] := by
  unfold mapCase
  split
  · simp
  · have hd : decodeRunes (a :: t) = (decodeRune1 a t).1 :: decodeAux ((decodeRune1 a t).2 - 1) t := rfl
    rw [hd]
    simp only [List.map_cons, encodeRunes]
    intro h
    exact encodeRune_ne_nil _ (List.append_eq_nil_iff.mp h).1

/-- The repair is conservative: wherever the pre-fix code did not panic it returned what the
repaired code returns (byte counting, case folding and the ignored NULL position are unchanged —
they stay listed findings). -/
theorem locate_fix_conservative (sub s : Bytes) (pos r : Int) (h : locateImplPreFix sub s pos = some r) :
    locateImpl sub s pos = r := by
  unfold locateImplPreFix at h
  unfold locateImpl
  simp only at h ⊢
  split
  · rename_i c; rw [if_pos c] at h; exact Option.some.inj h
  · rename_i c; rw [if_neg c] at h
    split
    · rename_i c2; rw [if_pos c2] at h
      split <;> rename_i c3
      · rw [if_pos c3] at h; exact Option.some.inj h
      · rw [if_neg c3] at h; exact Option.some.inj h
    · rename_i c2; rw [if_neg c2] at h
      by_cases c3 : pos - 1 > (s.length : Int)
      · rw [if_pos c3] at h; cases h
      · rw [if_neg c3] at h
        by_cases c4 : pos > (s.length : Int)
        · -- pos = len+1 with a non-matching empty tail: the pre-fix code searched the empty slice
          rw [if_pos c4]
          have hs : s = [] := by
            cases s with
            | nil => rfl
            | cons a t => exfalso; apply c; right; simp at c4 ⊢; omega
          subst hs
          have hsub : sub.isEmpty = false := by
            cases sub with
            | nil => exfalso; apply c2; simp
            | cons _ _ => rfl
          have hp1 : pos = 1 := by simp at c3 c4; omega
          subst hp1
          cases sub with
          | nil => simp at hsub
          | cons a t =>
            have hne := mapCase_ne_nil lowerByte a t
            have hm : mapCase lowerByte (List.drop ((1 : Int) - 1).toNat ([] : Bytes)) = [] := rfl
            rw [hm] at h
            have hi : indexOf (mapCase lowerByte (a :: t)) [] = none := by
              cases hx : mapCase lowerByte (a :: t) with
              | nil => exact absurd hx hne
              | cons x xs => simp [indexOf]
            rw [hi] at h
            simpa using h
        · rw [if_neg c4]
          split <;> rename_i hi <;> rw [hi] at h <;> exact Option.some.inj h

/-- Witness of the repaired defect `locate_empty_str_pos_panics`: before the `fix:` commit
`LOCATE('a','',2)` panicked (`str[position-1:]` on the empty string); the repaired function
returns 0, which is what the Spec says. -/
theorem fixed_locate_empty_str_pos_panics :
    locateImplPreFix [0x61] [] 2 = none ∧
    impl "locate" [.text [0x61], .text [], .int 2] = rint 0 ∧
    spec "locate" [.text [0x61], .text [], .int 2] = rint 0 ∧ locateSpec [0x61] [] 2 = 0 := by
  decide

/-- `LOCATE('a','a',NULL)` is 1, not NULL. -/
theorem finding_locate_null_pos :
    impl "locate" [.text [0x61], .text [0x61], .null] = rint 1 ∧ spec "locate" [.text [0x61], .text [0x61], .null] = rnull := by
  decide

/-! ## GREATEST / LEAST -/

theorem glFold_mem (g : Bool) (xs : List Int) (a : Int) :
    xs.foldl (glStep g) a = a ∨ xs.foldl (glStep g) a ∈ xs := by
  induction xs generalizing a with
  | nil => simp
  | cons x xs ih =>
    simp only [List.foldl_cons]
    have hst : glStep g a x = a ∨ glStep g a x = x := by
      unfold glStep
      cases g <;> simp only [Bool.false_eq_true, if_false, if_true] <;> split <;> simp
    rcases ih (glStep g a x) with h | h
    · rw [h]
      rcases hst with e | e
      · left; exact e
      · right; rw [e]; simp
    · right; exact List.mem_cons_of_mem _ h

theorem glFold_bound (g : Bool) (xs : List Int) (a : Int) :
    (if g then a ≤ xs.foldl (glStep g) a else xs.foldl (glStep g) a ≤ a) ∧
    ∀ x ∈ xs, if g then x ≤ xs.foldl (glStep g) a else xs.foldl (glStep g) a ≤ x := by
  induction xs generalizing a with
  | nil => cases g <;> simp
  | cons y xs ih =>
    simp only [List.foldl_cons]
    have ⟨h1, h2⟩ := ih (glStep g a y)
    cases g
    · simp only [Bool.false_eq_true, if_false] at h1 h2 ⊢
      have hs : glStep false a y ≤ a ∧ glStep false a y ≤ y := by simp only [glStep, Bool.false_eq_true, if_false]; split <;> omega
      refine ⟨by omega, ?_⟩
      intro x hx
      rcases List.mem_cons.mp hx with rfl | hx
      · omega
      · exact h2 x hx
    · simp only [if_true] at h1 h2 ⊢
      have hs : a ≤ glStep true a y ∧ y ≤ glStep true a y := by simp only [glStep, if_true]; split <;> omega
      refine ⟨by omega, ?_⟩
      intro x hx
      rcases List.mem_cons.mp hx with rfl | hx
      · omega
      · exact h2 x hx

/-- Spec: GREATEST/LEAST return one of their arguments, and it bounds all of them. -/
theorem glSpec_correct (g : Bool) (xs : List Int) (hne : xs ≠ []) :
    glSpec g xs ∈ xs ∧ ∀ x ∈ xs, if g then x ≤ glSpec g xs else glSpec g xs ≤ x := by
  cases xs with
  | nil => contradiction
  | cons a rest =>
    simp only [glSpec]
    constructor
    · rcases glFold_mem g rest a with h | h
      · rw [h]; simp
      · exact List.mem_cons_of_mem _ h
    · intro x hx
      have ⟨h1, h2⟩ := glFold_bound g rest a
      rcases List.mem_cons.mp hx with rfl | hx
      · exact h1
      · exact h2 x hx

theorem f64OfInt_small (i : Int) (h : i.natAbs < 9007199254740992) : f64OfInt i = i := by
  unfold f64OfInt f64OfNat
  split
  all_goals first
    | omega
    | (rw [if_pos (by omega)]; omega)

theorem glAux_small (g : Bool) (xs : List Int) (idx : Nat) (sel : Int) (hidx : idx ≠ 0)
    (hs : ∀ x ∈ xs, x.natAbs < 9007199254740992) :
    glAux g (xs.map Val.int) idx sel = rint (xs.foldl (glStep g) sel) := by
  induction xs generalizing idx sel with
  | nil => simp [glAux]
  | cons x xs ih =>
    have hx := f64OfInt_small x (hs x (by simp))
    have hstep : (if (if g = true then x > sel else x < sel) then x else sel) = glStep g sel x := by
      cases g <;> simp [glStep]
    simp only [List.map_cons, glAux, hidx, false_or, hx, List.foldl_cons, hstep]
    exact ih (idx + 1) _ (by omega) (fun y hy => hs y (by simp [hy]))

/-- Within ±2^53 the code computes exactly the Spec (`greatest_least_…_partial`). -/
theorem greatest_least_partial (g : Bool) (xs : List Int) (hne : xs ≠ [])
    (hs : ∀ x ∈ xs, x.natAbs < 9007199254740992) :
    fGreatestLeast g (xs.map Val.int) = rint (glSpec g xs) := by
  cases xs with
  | nil => contradiction
  | cons a rest =>
    unfold fGreatestLeast
    have h1 : ((a :: rest).map Val.int).isEmpty = false := rfl
    have h2 : ((a :: rest).map Val.int).any (· == .null) = false := by
      apply List.any_eq_false.mpr
      intro v hv
      rcases List.mem_map.mp hv with ⟨i, _, rfl⟩
      simp
    simp only [h1, h2, Bool.false_eq_true, if_false]
    have ha := f64OfInt_small a (hs a (by simp))
    simp only [List.map_cons, glAux, true_or, if_true, ha]
    rw [glAux_small g rest 1 a (by omega) (fun y hy => hs y (by simp [hy]))]
    rfl

-- Full statement (false on the unchanged tree): ∀ xs ≠ [], fGreatestLeast g (xs.map .int) = rint (glSpec g xs)
/-- `GREATEST(9007199254740993, 1)` is 9007199254740992 — not one of its arguments. -/
theorem finding_greatest_least_float_precision :
    impl "greatest" [.int 9007199254740993, .int 1] = rint 9007199254740992 ∧
    spec "greatest" [.int 9007199254740993, .int 1] = rint 9007199254740993 := by decide

/-! ## ROUND / TRUNCATE / FLOOR / CEIL / ABS / SIGN on BIGINT -/

/-- `ROUND(i,-k)` is a multiple of `10^k` within half a unit of `i`. -/
theorem round_within_half (i : Int) (k : Nat) :
    ((10 ^ k : Nat) : Int) ∣ roundPow i k ∧ 2 * (roundPow i k - i).natAbs ≤ 10 ^ k := by
  unfold roundPow
  have hp : 0 < 10 ^ k := Nat.pow_pos (by omega)
  have hdm := Nat.div_add_mod i.natAbs (10 ^ k)
  have hml := Nat.mod_lt i.natAbs hp
  simp only
  generalize i.natAbs / 10 ^ k = q at *
  generalize i.natAbs % 10 ^ k = r at *
  generalize 10 ^ k = P at *
  have hq : P * q = q * P := Nat.mul_comm _ _
  have h1 : (q + 1) * P = q * P + P := by rw [Nat.add_mul]; omega
  by_cases hr : 2 * r ≥ P
  · simp only [hr, if_true]
    by_cases hi : i < 0
    · simp only [hi, if_true]
      exact ⟨Int.dvd_neg.mpr (Int.natCast_dvd_natCast.mpr (Nat.dvd_mul_left P (q + 1))), by omega⟩
    · simp only [hi, if_false]
      exact ⟨Int.natCast_dvd_natCast.mpr (Nat.dvd_mul_left P (q + 1)), by omega⟩
  · simp only [hr, if_false]
    by_cases hi : i < 0
    · simp only [hi, if_true]
      exact ⟨Int.dvd_neg.mpr (Int.natCast_dvd_natCast.mpr (Nat.dvd_mul_left P q)), by omega⟩
    · simp only [hi, if_false]
      exact ⟨Int.natCast_dvd_natCast.mpr (Nat.dvd_mul_left P q), by omega⟩

/-- `TRUNCATE(i,-k)` is a multiple of `10^k`, not larger in magnitude than `i`, less than one unit
away, and on the same side of zero. -/
theorem truncate_within_one (i : Int) (k : Nat) :
    ((10 ^ k : Nat) : Int) ∣ truncPow i k ∧ (truncPow i k).natAbs ≤ i.natAbs ∧
      (i - truncPow i k).natAbs < 10 ^ k ∧ (0 ≤ i → 0 ≤ truncPow i k) ∧ (i ≤ 0 → truncPow i k ≤ 0) := by
  unfold truncPow
  have hp : 0 < 10 ^ k := Nat.pow_pos (by omega)
  have hdm := Nat.div_add_mod i.natAbs (10 ^ k)
  have hml := Nat.mod_lt i.natAbs hp
  simp only
  generalize i.natAbs / 10 ^ k = q at *
  generalize i.natAbs % 10 ^ k = r at *
  generalize 10 ^ k = P at *
  have hq : P * q = q * P := Nat.mul_comm _ _
  by_cases hi : i < 0
  · simp only [hi, if_true]
    exact ⟨Int.dvd_neg.mpr (Int.natCast_dvd_natCast.mpr (Nat.dvd_mul_left P q)), by omega, by omega, by omega, by omega⟩
  · simp only [hi, if_false]
    exact ⟨Int.natCast_dvd_natCast.mpr (Nat.dvd_mul_left P q), by omega, by omega, by omega, by omega⟩

/-- FLOOR/CEIL of an integer are the integer; ROUND/TRUNCATE with `d ≥ 0` likewise. -/
theorem int_rounding_identity (i d : Int) (hd : 0 ≤ d) :
    impl "floor" [.int i] = rint i ∧ impl "ceil" [.int i] = rint i ∧ impl "round" [.int i] = rint i ∧
    impl "round" [.int i, .int d] = rint i ∧ impl "truncate" [.int i, .int d] = rint i := by
  refine ⟨rfl, rfl, rfl, ?_, ?_⟩
  · rw [impl_round]
    have : clamp32 d ≥ 0 := by unfold clamp32; split <;> (try split) <;> omega
    simp [fRound, this]
  · rw [impl_truncate]
    have : clamp32 d ≥ 0 := by unfold clamp32; split <;> (try split) <;> omega
    simp [fTruncate, this]

/-- `ABS(i) = SIGN(i) * i ≥ 0` for every BIGINT except `-2^63` (whose negation overflows: C25). -/
theorem abs_sign (i : Int) (h : minI64 < i ∧ i ≤ maxI64) :
    ∃ a s, impl "abs" [.int i] = rint a ∧ impl "sign" [.int i] = rint s ∧ 0 ≤ a ∧ a = s * i := by
  by_cases h0 : i < 0
  · refine ⟨-i, -1, ?_, ?_, by omega, by omega⟩
    · rw [impl_abs]
      have : wrap64 (-i) = -i := by unfold wrap64 two63 two64 minI64 maxI64 at *; omega
      simp [fAbs, h0, this]
    · rw [impl_sign]
      have : ¬ i = 0 := by omega
      simp [fSign, h0, this]
  · by_cases hz : i = 0
    · subst hz; exact ⟨0, 0, rfl, rfl, by omega, by omega⟩
    · refine ⟨i, 1, ?_, ?_, by omega, by omega⟩
      · rw [impl_abs]
        simp [fAbs, h0]
      · rw [impl_sign]
        simp [fSign, h0, hz]

/-! ## CONV / BIN / OCT / HEX of integers -/

/-- Digit strings round-trip: formatting `n < 2^64` in base `2 ≤ b ≤ 36` and reading it back with
CONV's prefix parser gives `n` (the heart of `CONV(CONV(n,10,b),b,10) = n`). -/
theorem conv_digits_roundtrip (b n : Nat) (hb : 2 ≤ b) (hb36 : b ≤ 36) (hn : (n : Int) < two64) :
    parsePrefix b ((toDigits b n).map digitLower) 0 = n := by
  have := parsePrefix_digits b hb36 (toDigits b n) (toDigits_lt b n hb) 0
    (by rw [ofDigits_toDigits b n hb]; simpa using hn)
  rw [this, ofDigits_toDigits b n hb]; simp

theorem digits_value_roundtrip (b n : Nat) (hb : 2 ≤ b) : ofDigits b (toDigits b n) = n := ofDigits_toDigits b n hb

/-- For `i ≥ 0` BIN is the binary numeral of `i` (`bin_…_partial`). -/
theorem bin_partial (i : Int) (h : 0 ≤ i) : impl "bin" [.int i] = rtext (binSpec i) := by
  rw [impl_bin]
  have : ¬ i < 0 := by omega
  simp [fBin, this]

/-- Spec BIN reads back (two's complement, 64 bits): `ofDigits 2 (digits) = i mod 2^64`. -/
theorem binSpec_value (i : Int) : ofDigits 2 (toDigits 2 (toU64 i)) = toU64 i := ofDigits_toDigits 2 _ (by omega)

-- Full statement (false on the unchanged tree): ∀ i, impl "bin" [.int i] = rtext (binSpec i)
/-- `BIN(-256)` drops the eight zero bits of the low byte (57 digits instead of 64), while
`CONV(-256,10,2)` is right. -/
theorem finding_bin_negative_drops_zeros :
    ∃ b, impl "bin" [.int (-256)] = rtext b ∧ b.length = 57 ∧ spec "bin" [.int (-256)] ≠ rtext b ∧
      impl "conv" [.int (-256), .int 10, .int 2] = spec "bin" [.int (-256)] :=
  ⟨List.replicate 56 49 ++ [48], by decide⟩

/-! ## Outside the regions the Spec is the Impl model -/

/-- The guarded statement for all functions at once: a call that is in no known-defect region
satisfies `impl = spec` (and `impl` is what the correspondence run compares with the code). -/
theorem spec_eq_impl_outside_regions (name : String) (args : List Val) (h : region name args = none) :
    spec name args = impl name args := by
  unfold spec; rw [h]

/-! ## Statement level: one node, one `Eval` per row, results read after the last row

A function node is built once per statement and evaluated once per row; a client that fetches the
whole result set (or a Sort/Distinct/Group node that buffers rows) reads the value of an early row
only after the later rows were evaluated. `Gms.NodeRows` models the memory behind a `[]byte`
result (a reference into a backing array): `runFresh` is the discipline of the modelled nodes —
every `Eval` builds its result in storage of its own, the node has no field to keep anything in
(`facts_nodes_stateless`) — `runScratch` the discipline the property forbids (a buffer kept in the
node, grown only when a row needs more, its slice handed out as the value). -/

open Gms.NodeRows in
/-- The results of a statement, read after its last row, are the single-call results row by row:
what the driver answers for a `rows` / `stmt` case (`evalRows`) is the reading of the memory model
under the stateless discipline, from any initial heap. -/
theorem rows_are_single_calls (name : String) (h : Heap) (rows : List (List Val)) :
    observe (runFresh (fun r => blobOf (impl name r)) h rows) = (evalRows name rows).map blobOf := by
  rw [fresh_observe]; simp [evalRows]

open Gms.NodeRows in
/-- (oracle R1) What is read for the first rows right after they were evaluated is what is read
after the last row of the statement: evaluating more rows changes nothing that was handed out. -/
theorem rows_prefix_stable {ρ : Type} (f : ρ → NodeRows.Bytes) (h : Heap) (a b : List ρ) :
    (observe (runFresh f h (a ++ b))).take a.length = observe (runFresh f h a) := by
  rw [fresh_observe, fresh_observe, List.map_append]
  simp

open Gms.NodeRows in
/-- (oracle R2) The reading of a row depends on that row alone — not on the rows evaluated before
it, not on the rows evaluated after it, not on the heap the statement started from. -/
theorem rows_row_independent {ρ : Type} (f : ρ → NodeRows.Bytes) (h h' : Heap) (pre post pre' post' : List ρ) (x : ρ)
    (hl : pre.length = pre'.length) :
    (observe (runFresh f h (pre ++ x :: post)))[pre.length]? = some (f x) ∧
    (observe (runFresh f h' (pre' ++ x :: post')))[pre.length]? = some (f x) := by
  rw [fresh_observe, fresh_observe]
  constructor
  · simp
  · rw [hl]; simp

example : evalRows "unhex" [[.text [0x36, 0x31, 0x36, 0x32]], [.null], [.text [0x37, 0x38]]] =
    [rblob [0x61, 0x62], rnull, rblob [0x78]] := by decide

open Gms.NodeRows in
/-- The forbidden discipline: when the second row's result fits into what the first one needed, the
node hands out the same array twice, and after the second row the FIRST value reads as the second
result followed by what is left of its own tail. -/
theorem scratch_overwrites {ρ : Type} (f : ρ → NodeRows.Bytes) (a b : ρ) (hlen : (f b).length ≤ (f a).length) :
    observeScratch (runScratch f ([], none) [a, b]) = [f b ++ (f a).drop (f b).length, f b] :=
  scratch_fitting_row_overwrites f a b hlen

open Gms.NodeRows in
/-- … so a node with a scratch buffer breaks every two-row statement whose results have the same
length and differ (a column of hashes, ids, words): the statement's results are not the
single-call results. -/
theorem scratch_breaks_statement {ρ : Type} (f : ρ → NodeRows.Bytes) (a b : ρ)
    (hlen : (f b).length = (f a).length) (hne : f a ≠ f b) :
    observeScratch (runScratch f ([], none) [a, b]) ≠ [a, b].map f := by
  rw [scratch_fitting_row_overwrites f a b (Nat.le_of_eq hlen)]
  intro h
  have h1 := (List.cons.inj h).1
  rw [hlen, List.drop_length, List.append_nil] at h1
  exact hne h1.symm

open Gms.NodeRows in
/-- Non-vacuity of both, on the model of UNHEX itself: `SELECT UNHEX(c) FROM t` over the rows
'616263', '78797A' reads ["abc", "xyz"] under the stateless discipline and ["xyz", "xyz"] with a
scratch buffer in the node — HEX/UNHEX stop being an inverse pair as seen through the result set. -/
theorem scratch_unhex_witness :
    let f := fun r => blobOf (impl "unhex" r)
    let rows : List (List Val) := [[.text [0x36, 0x31, 0x36, 0x32, 0x36, 0x33]], [.text [0x37, 0x38, 0x37, 0x39, 0x37, 0x41]]]
    observe (runFresh f [] rows) = [[0x61, 0x62, 0x63], [0x78, 0x79, 0x7A]] ∧
    observeScratch (runScratch f ([], none) rows) = [[0x78, 0x79, 0x7A], [0x78, 0x79, 0x7A]] := by decide

/-! ## Regenerated facts -/

def expectedRegistry : List (String × String × String) :=
  [("length", "Function1", "NewLength"), ("char_length", "Function1", "NewCharLength"),
   ("concat", "FunctionN", "NewConcat"), ("substring", "FunctionN", "NewSubstring"),
   ("left", "Function2", "NewLeft"), ("right", "Function2", "NewRight"), ("instr", "Function2", "NewInstr"),
   ("locate", "FunctionN", "NewLocate"), ("reverse", "Function1", "NewReverse"),
   ("repeat", "Function2", "NewRepeat"), ("replace", "Function3", "NewReplace"),
   ("lpad", "FunctionN", "NewLeftPad"), ("rpad", "FunctionN", "NewRightPad"),
   ("ltrim", "Function1", "NewLeftTrim"), ("rtrim", "Function1", "NewRightTrim"),
   ("upper", "Function1", "NewUpper"), ("lower", "Function1", "NewLower"), ("hex", "Function1", "NewHex"),
   ("unhex", "Function1", "NewUnhex"), ("to_base64", "Function1", "NewToBase64"),
   ("from_base64", "Function1", "NewFromBase64"), ("abs", "Function1", "NewAbsVal"),
   ("sign", "Function1", "NewSign"), ("floor", "Function1", "NewFloor"), ("ceil", "Function1", "NewCeil"),
   ("round", "FunctionN", "NewRound"), ("truncate", "Function2", "NewTruncate"),
   ("greatest", "FunctionN", "NewGreatest"), ("least", "FunctionN", "NewLeast"), ("conv", "Function3", "NewConv"),
   ("bin", "Function1", "NewBin"), ("oct", "Function1", "NewOct"), ("inet_aton", "Function1", "NewInetAton"),
   ("inet_ntoa", "Function1", "NewInetNtoa")]

set_option maxRecDepth 100000 in
/-- Every modelled function (TRIM is built by the parser, not the registry) is registered under
the name, arity class and constructor the model was written against. -/
theorem facts_registry : ∀ e ∈ expectedRegistry, e ∈ Generated.C34.registry := by decide

theorem facts_modelled_registered :
    ∀ n ∈ modelled, n ∈ ["trim_both", "trim_leading", "trim_trailing"] ∨ n ∈ expectedRegistry.map (·.1) := by decide

/-- Constants the model hard-codes. -/
theorem facts_constants :
    Generated.C34.decimalMaxPrecision = 65 ∧ Generated.C34.decimalMaxScale = 30 ∧
    Generated.C34.toBase64Literals = [0, 76] ∧
    Generated.C34.convFromLiterals = [0, 1, 2, 36, 64] ∧ Generated.C34.convToLiterals = [0, 2, 36] ∧
    Generated.C34.padStringConds =
      ["length <= 0", "int64(len(str)) >= length", "len(padStr) == 0", "err != nil", "padType == lPadType"] ∧
    Generated.C34.inetNtoaConvertTypes = ["types.Int32"] := by decide

/-- `Locate.Eval` and `Substring.Eval` have the **repaired** shape the Impl model was written
against (`fix:` commit for the regions `locate_empty_str_pos_panics` and
`substring_len_overflow_panics`): the edge-case switch of LOCATE ends with the bounds case
`position > len(str)` before its only slice `str[position-1:]`, and SUBSTRING clamps the length by
comparing it with `runeCount-startIdx` (no int64 addition before the clamp). If either repair is
reverted this obligation breaks, and `fixed_locate_empty_str_pos_panics` /
`fixed_substring_len_overflow_panics` give the replays. -/
theorem facts_match_locate_substring :
    Generated.C34.locateSwitchConds =
      ["position <= 0 || (len(str) > 0 && position > len(str))", "len(substr) == 0 && len(str) == 0",
       "position > len(str)"] ∧
    Generated.C34.locateSliceExprs = ["str[position-1:]"] ∧
    Generated.C34.substringRuneCountConds =
      ["startIdx < 0 || startIdx >= runeCount || length <= 0", "length > runeCount-startIdx"] ∧
    Generated.C34.substringClampAssigns = ["length = runeCount - startIdx"] ∧
    Generated.C34.substringSliceExprs = ["text[startIdx : startIdx+length]"] := by decide

set_option maxRecDepth 100000 in
/-- The model's HEX agrees with the compiled `HEX` on every byte; its ASCII case tables with the
compiled UPPER/LOWER; its base64 alphabet and padding with the compiled TO_BASE64. -/
theorem facts_tables :
    (List.range 256).map (fun b => hexUpper [b]) = Generated.C34.hexTable ∧
    (List.range 128).map upperByte = Generated.C34.upperAscii ∧
    (List.range 128).map lowerByte = Generated.C34.lowerAscii ∧
    (List.range 64).map b64Char = Generated.C34.base64Alphabet ∧
    toBase64 [0x61] = Generated.C34.base64OfA := by decide

/-- The field types a stateless node may have: children, result type, name / mode. -/
def configFieldTypes : List String :=
  ["sql.Expression", "[]sql.Expression", "sql.Type", "string", "function.CountType", "function.padType"]

set_option maxRecDepth 100000 in
/-- **No modelled node keeps state between rows.** Regenerated on every run: (1) the node the
registry constructor of every modelled function builds (reflection on the freshly compiled code,
embedded structs flattened) has only fields of child / configuration types — no `[]byte`, buffer,
builder, map, pointer, counter to keep a row's data in; (2) no method of these node types, nor of
the structs they embed, contains a statement that writes through its receiver (go/ast: assignment,
`++`/`--`, `copy`/`append` rooted at the receiver). This is what licenses `runFresh` (and
`evalRows`) as the statement-level Impl model; a scratch field or a write in `Eval` breaks it. -/
theorem facts_nodes_stateless :
    Generated.C34.nodeReceiverWrites = [] ∧
    (∀ n ∈ Generated.C34.nodeFields, ∀ f ∈ n.2.2, f.2 ∈ configFieldTypes) ∧
    (∀ m ∈ modelled, m ∈ Generated.C34.nodeFields.map (·.1)) ∧
    Generated.C34.nodeFields.length = modelled.length := by decide

/-- … and the method scan covered the node type of every modelled function and the three
expression stubs / `UnaryFunc` they embed. -/
theorem facts_nodes_scanned :
    (∀ n ∈ Generated.C34.nodeFields, n.2.1 ∈ Generated.C34.nodeStructs) ∧
    (∀ s ∈ ["sql/expression.UnaryExpressionStub", "sql/expression.BinaryExpressionStub",
            "sql/expression.NaryExpression", "sql/expression/function.UnaryFunc"], s ∈ Generated.C34.nodeStructs) := by decide

end Gms.C34
