/-
C20 — AUTO_INCREMENT values are unique, increasing and reported correctly.

Model: Gms/Model/AutoInc.lean (Impl model of the counter code of the in-memory backend, the
INSERT row loop, LAST_INSERT_ID / InsertID bookkeeping; ghost log of inserted values).
Helper lemmas first (namespace Gms.AutoInc), the property theorems in `namespace Gms.C20`.
-/
import Gms.Model.AutoInc
import Gms.Generated.C20

namespace Gms.AutoInc

/-! ## Lemmas about the Spec predicates -/

theorem goodFrom_append (pre l1 l2 : List Ev) :
    goodFrom pre (l1 ++ l2) = (goodFrom pre l1 && goodFrom (pre ++ l1) l2) := by
  induction l1 generalizing pre with
  | nil => simp [goodFrom]
  | cons e es ih =>
    simp only [List.cons_append, goodFrom, ih, List.append_assoc, List.singleton_append, List.nil_append, Bool.and_assoc]

theorem reuses_append (hi : Int) (l x y : List Ev) :
    reuses hi l (x ++ y) = (reuses hi l x || reuses hi (l ++ x) y) := by
  induction x generalizing l with
  | nil => simp [reuses]
  | cons e es ih =>
    simp only [List.cons_append, reuses, ih, List.append_assoc, List.singleton_append, List.nil_append, Bool.or_assoc]

/-- The readable form of `goodFrom`: every generated entry exceeds everything before it. -/
theorem goodFrom_spec (pre l : List Ev) (h : goodFrom pre l = true) :
    ∀ a e b, l = a ++ e :: b → e.gen = true → ∀ w ∈ pre ++ a, w.v < e.v := by
  induction l generalizing pre with
  | nil => intro a e b hl; cases a <;> simp at hl
  | cons x xs ih =>
    intro a e b hl hg w hw
    simp only [goodFrom, Bool.and_eq_true, Bool.or_eq_true, Bool.not_eq_true'] at h
    cases a with
    | nil =>
      simp only [List.nil_append, List.cons.injEq] at hl
      obtain ⟨rfl, _⟩ := hl
      rcases h.1 with hf | hall
      · rw [hg] at hf; cases hf
      · simp only [List.append_nil] at hw
        have := List.all_eq_true.mp hall w hw
        simpa using this
    | cons y ys =>
      simp only [List.cons_append, List.cons.injEq] at hl
      obtain ⟨rfl, hl⟩ := hl
      have := ih (pre ++ [x]) h.2 ys e b hl hg w
      apply this
      simp only [List.append_assoc, List.singleton_append]
      simpa using hw

/-! ## The counter invariant -/

/-- Every logged value is below the counter, or the counter is stuck at the type maximum. -/
def CtrInv (c : Cfg) (ctr : Nat) (l : List Ev) : Prop :=
  ∀ w ∈ l, w.v < (ctr : Int) ∨ ((ctr : Int) = c.hi ∧ w.v ≤ c.hi)

theorem bump_cases (c : Cfg) (ctr : Nat) :
    (((ctr : Int) + 1 ≤ c.hi) ∧ bump c ctr = ctr + 1) ∨ (¬ ((ctr : Int) + 1 ≤ c.hi) ∧ bump c ctr = ctr) := by
  unfold bump
  by_cases h : (ctr : Int) + 1 ≤ c.hi
  · left; simp [h]
  · right; simp [h]

/-- The counter after `tableEditor.Insert`, as linear facts. -/
theorem afterInsert_spec (c : Cfg) (ctr : Nat) (v : Int) :
    ((ctr : Int) < v ∧ ((v + 1 ≤ c.hi ∧ (afterInsert c ctr v : Int) = v + 1) ∨
                        (¬ (v + 1 ≤ c.hi) ∧ (afterInsert c ctr v : Int) = v))) ∨
    (v = (ctr : Int) ∧ (((ctr : Int) + 1 ≤ c.hi ∧ (afterInsert c ctr v : Int) = ctr + 1) ∨
                        (¬ ((ctr : Int) + 1 ≤ c.hi) ∧ (afterInsert c ctr v : Int) = ctr))) ∨
    (v < (ctr : Int) ∧ (afterInsert c ctr v : Int) = ctr) := by
  unfold afterInsert
  by_cases h1 : (ctr : Int) < v
  · left
    refine ⟨h1, ?_⟩
    simp only [h1, if_true]
    have hcast : ((v.toNat : Nat) : Int) = v := by omega
    rcases bump_cases c v.toNat with ⟨hb, he⟩ | ⟨hb, he⟩
    · left; rw [he]; constructor <;> omega
    · right; rw [he]; constructor <;> omega
  · simp only [h1, if_false]
    by_cases h2 : v = (ctr : Int)
    · right; left
      refine ⟨h2, ?_⟩
      simp only [h2, if_true]
      rcases bump_cases c ctr with ⟨hb, he⟩ | ⟨hb, he⟩
      · left; rw [he]; constructor <;> omega
      · right; rw [he]; constructor <;> omega
    · right; right
      rw [if_neg h2]
      exact ⟨by omega, rfl⟩

/-- What `evalAuto` returns, as linear facts. -/
theorem evalAuto_spec (c : Cfg) (ctr : Nat) (g : Option Int) (v : Int) (ctr' : Nat) (gen : Bool)
    (he : evalAuto c ctr g = .ok v ctr' gen) :
    (v < 0 ∧ (ctr' : Int) = ctr) ∨ (v = (ctr : Int) ∧ (ctr' : Int) = ctr ∧ (ctr : Int) ≤ c.hi) ∨
      (0 < v ∧ v ≤ c.hi ∧ (((ctr : Int) < v ∧ (ctr' : Int) = v) ∨ (¬ ((ctr : Int) < v) ∧ (ctr' : Int) = ctr))) := by
  unfold evalAuto at he
  cases g with
  | none =>
    simp only at he
    split at he
    · next h => injection he with h1 h2 h3; right; left; subst h1 h2; exact ⟨rfl, rfl, h.2⟩
    · cases he
  | some x =>
    simp only at he
    split at he
    · next hneg =>
      split at he
      · injection he with h1 h2 h3; left; subst h1 h2; exact ⟨hneg, rfl⟩
      · cases he
    · next hnn =>
      split at he
      · next hz =>
        split at he
        · next h => injection he with h1 h2 h3; right; left; subst h1 h2; exact ⟨rfl, rfl, h.2⟩
        · cases he
      · next hnz =>
        split at he
        · next hle =>
          injection he with h1 h2 h3
          right; right
          subst h1
          refine ⟨by omega, hle, ?_⟩
          by_cases hc : (ctr : Int) < x
          · left; simp only [hc, if_true] at h2; subst h2; exact ⟨hc, by omega⟩
          · right; simp only [hc, if_false] at h2; subst h2; exact ⟨hc, rfl⟩
        · cases he

/-- One successful row keeps the counter invariant, for every kind of given value. -/
theorem row_keeps_inv (c : Cfg) (ctr : Nat) (l : List Ev) (g : Option Int) (v : Int) (ctr' : Nat) (gen : Bool)
    (hinv : CtrInv c ctr l) (he : evalAuto c ctr g = .ok v ctr' gen) :
    CtrInv c (afterInsert c ctr' v) (l ++ [⟨v, gen⟩]) := by
  have key := evalAuto_spec c ctr g v ctr' gen he
  have hs := afterInsert_spec c ctr' v
  generalize afterInsert c ctr' v = N at hs ⊢
  intro w hw
  rcases List.mem_append.mp hw with hw | hw
  · have hold := hinv w hw
    omega
  · simp only [List.mem_singleton] at hw
    subst hw
    simp only
    omega

/-- A generated value is the counter, and it is within the column range. -/
theorem evalAuto_gen (c : Cfg) (ctr : Nat) (g : Option Int) (v : Int) (ctr' : Nat)
    (he : evalAuto c ctr g = .ok v ctr' true) : v = (ctr : Int) ∧ c.lo ≤ v ∧ v ≤ c.hi := by
  unfold evalAuto at he
  cases g with
  | none =>
    simp only at he
    split at he
    · next h => injection he with h1 h2 h3; subst h1; exact ⟨rfl, h.1, h.2⟩
    · cases he
  | some x =>
    simp only at he
    split at he
    · split at he
      · injection he with h1 h2 h3; cases h3
      · cases he
    · split at he
      · split at he
        · next h => injection he with h1 h2 h3; subst h1; exact ⟨rfl, h.1, h.2⟩
        · cases he
      · split at he
        · injection he with h1 h2 h3; cases h3
        · cases he

/-- The `gen` flag computed by `evalAuto` is exactly "the given value was NULL/DEFAULT/0". -/
theorem evalAuto_gen_flag (c : Cfg) (ctr : Nat) (g : Option Int) (v : Int) (ctr' : Nat) (gen : Bool)
    (he : evalAuto c ctr g = .ok v ctr' gen) : gen = isGenGiven g := by
  unfold evalAuto at he
  cases g with
  | none =>
    simp only at he
    split at he
    · injection he with h1 h2 h3; simp [isGenGiven, ← h3]
    · cases he
  | some x =>
    simp only at he
    split at he
    · next hneg =>
      split at he
      · injection he with h1 h2 h3
        have : (x == 0) = false := by simp; omega
        simp [isGenGiven, ← h3, this]
      · cases he
    · split at he
      · next hz =>
        split at he
        · injection he with h1 h2 h3; simp [isGenGiven, ← h3, hz]
        · cases he
      · next hnz =>
        split at he
        · injection he with h1 h2 h3
          have : (x == 0) = false := by simp; exact hnz
          simp [isGenGiven, ← h3, this]
        · cases he

/-- If the counter invariant holds and the counter value is not in the log yet, every logged
value is strictly below the counter. -/
theorem below_of_inv (c : Cfg) (ctr : Nat) (l : List Ev) (hinv : CtrInv c ctr l)
    (hfresh : logHas l (ctr : Int) = false) : ∀ w ∈ l, w.v < (ctr : Int) := by
  intro w hw
  rcases hinv w hw with h | ⟨h1, h2⟩
  · exact h
  · have hne : w.v ≠ (ctr : Int) := by
      intro heq
      have : logHas l (ctr : Int) = true := by
        unfold logHas
        exact List.any_eq_true.mpr ⟨w, hw, by simp [heq]⟩
      rw [this] at hfresh; cases hfresh
    omega

/-! ## The row loop -/

/-- What one successful `insRow` does to the accumulator. -/
theorem insRow_ok (c : Cfg) (a a' : InsAcc) (g : Option Int) (h : insRow c a g = (a', none)) :
    ∃ v ctr' gen, evalAuto c a.tbl.ctr g = .ok v ctr' gen ∧
      a'.tbl.ctr = afterInsert c ctr' v ∧ a'.evs = a.evs ++ [⟨v, gen⟩] ∧
      a'.fgi = (tickLast a.fgi a.last v).1 ∧ a'.last = (tickLast a.fgi a.last v).2 ∧
      a'.first = (match a.first with | none => some v | some f => some f) := by
  unfold insRow at h
  split at h
  · simp at h
  · next v ctr' gen he =>
    split at h
    · simp at h
    · simp only [Prod.mk.injEq, and_true] at h
      subst h
      exact ⟨v, ctr', gen, he, rfl, rfl, rfl, rfl, rfl⟩

theorem insRow_err (c : Cfg) (a a' : InsAcc) (g : Option Int) (e : Err) (h : insRow c a g = (a', some e)) :
    a' = a := by
  unfold insRow at h
  split at h
  · simp only [Prod.mk.injEq] at h; exact h.1.symm
  · split at h
    · simp only [Prod.mk.injEq] at h; exact h.1.symm
    · simp at h

/-- The events of the loop extend the accumulator's. -/
theorem insLoop_evs (c : Cfg) (gs : List (Option Int)) (a af : InsAcc) (e : Option Err)
    (h : insLoop c gs a = (af, e)) : ∃ r, af.evs = a.evs ++ r := by
  induction gs generalizing a with
  | nil => simp only [insLoop, Prod.mk.injEq] at h; exact ⟨[], by rw [← h.1]; simp⟩
  | cons g gs ih =>
    simp only [insLoop] at h
    split at h
    · next a' e' hr =>
      simp only [Prod.mk.injEq] at h
      have := insRow_err c a a' g e' hr
      exact ⟨[], by rw [← h.1, this]; simp⟩
    · next a' hr =>
      obtain ⟨v, ctr', gen, _, _, hev, _⟩ := insRow_ok c a a' g hr
      obtain ⟨r, hr'⟩ := ih a' h
      exact ⟨⟨v, gen⟩ :: r, by rw [hr', hev]; simp⟩

/-- Main loop lemma: a successful loop keeps the counter invariant, and keeps the log good
unless it re-generates a value that was handed out before. -/
theorem insLoop_good (c : Cfg) (L : List Ev) (gs : List (Option Int)) (a af : InsAcc)
    (h : insLoop c gs a = (af, none))
    (hinv : CtrInv c a.tbl.ctr (L ++ a.evs)) :
    CtrInv c af.tbl.ctr (L ++ af.evs) ∧
    (goodFrom [] (L ++ a.evs) = true → reuses c.hi L af.evs = false → goodFrom [] (L ++ af.evs) = true) := by
  induction gs generalizing a with
  | nil =>
    simp only [insLoop, Prod.mk.injEq, and_true] at h
    subst h
    exact ⟨hinv, fun hg _ => hg⟩
  | cons g gs ih =>
    simp only [insLoop] at h
    split at h
    · simp at h
    · next a' hr =>
      obtain ⟨v, ctr', gen, he, hctr, hev, _⟩ := insRow_ok c a a' g hr
      have hinv' : CtrInv c a'.tbl.ctr (L ++ a'.evs) := by
        rw [hctr, hev, ← List.append_assoc]
        exact row_keeps_inv c a.tbl.ctr (L ++ a.evs) g v ctr' gen hinv he
      obtain ⟨hI, hG⟩ := ih a' h hinv'
      refine ⟨hI, ?_⟩
      intro hg hre
      obtain ⟨r, hr'⟩ := insLoop_evs c gs a' af none h
      apply hG
      · -- the row keeps the log good
        rw [hev, ← List.append_assoc, goodFrom_append, hg]
        simp only [Bool.true_and, goodFrom, List.nil_append, Bool.and_true, Bool.or_eq_true,
          Bool.not_eq_true']
        cases hgen : gen with
        | false => left; rfl
        | true =>
          right
          subst hgen
          obtain ⟨hv, _, _⟩ := evalAuto_gen c a.tbl.ctr g v ctr' he
          -- not a reuse of the maximum; and below the maximum the invariant excludes a reuse
          have hnre : (logHas (L ++ a.evs) v && v == c.hi) = false := by
            rw [hr', hev, List.append_assoc, reuses_append] at hre
            simp only [Bool.or_eq_false_iff] at hre
            have h2 := hre.2
            simp only [List.singleton_append, reuses, Bool.or_eq_false_iff, Bool.true_and] at h2
            exact h2.1
          have hfresh : logHas (L ++ a.evs) v = false := by
            cases hlh : logHas (L ++ a.evs) v with
            | false => rfl
            | true =>
              exfalso
              rw [hlh] at hnre
              simp only [Bool.true_and, beq_eq_false_iff_ne, ne_eq] at hnre
              unfold logHas at hlh
              obtain ⟨w, hw, hwv⟩ := List.any_eq_true.mp hlh
              simp only [beq_iff_eq] at hwv
              rcases hinv w hw with hlt | ⟨h1, _⟩
              · omega
              · omega
          rw [hv] at hfresh
          have := below_of_inv c a.tbl.ctr (L ++ a.evs) hinv hfresh
          apply List.all_eq_true.mpr
          intro w hw
          have := this w hw
          simp only [decide_eq_true_eq]
          omega
      · exact hre

/-! ## LAST_INSERT_ID bookkeeping of the loop -/

/-- `firstGen` of a statement's events in terms of the given values. -/
def gensOf (gs : List (Option Int)) : List Bool := gs.map isGenGiven

/-- State of the countdown relative to the rows still to come: the loop invariant of
`updateLastInsertId`. `todo` are the given values not yet processed. -/
def LastInv (old : Nat) (a : InsAcc) (todo : List (Option Int)) : Prop :=
  (firstGen a.evs = none ∧ a.last = old ∧ a.fgi = firstGenIdx todo) ∨
  (∃ v, firstGen a.evs = some v ∧ a.last = toU64 v ∧ a.fgi = none)

theorem firstGen_append_single (evs : List Ev) (e : Ev) :
    firstGen (evs ++ [e]) = match firstGen evs with
      | some v => some v
      | none => if e.gen then some e.v else none := by
  unfold firstGen
  rw [List.find?_append]
  cases h : List.find? (fun x => x.gen) evs with
  | some x => simp
  | none =>
    simp only [Option.none_or, List.find?_cons, List.find?_nil, Option.map_none]
    cases e.gen <;> simp

theorem firstGenIdx_cons (g : Option Int) (gs : List (Option Int)) :
    firstGenIdx (g :: gs) = if isGenGiven g then some 0 else (firstGenIdx gs).map (· + 1) := by
  unfold firstGenIdx
  simp only [List.findIdx_cons, List.length_cons]
  cases hg : isGenGiven g with
  | true => simp
  | false =>
    simp only [cond_false, Bool.false_eq_true, if_false]
    by_cases h : List.findIdx isGenGiven gs < gs.length
    · simp [h]
    · simp [h]

theorem insLoop_last (c : Cfg) (old : Nat) (gs : List (Option Int)) (a af : InsAcc) (e : Option Err)
    (h : insLoop c gs a = (af, e)) (hinv : LastInv old a gs) :
    ∃ rest, LastInv old af rest ∧ (e = none → rest = []) := by
  induction gs generalizing a with
  | nil =>
    simp only [insLoop, Prod.mk.injEq] at h
    obtain ⟨rfl, rfl⟩ := h
    exact ⟨[], hinv, fun _ => rfl⟩
  | cons g gs ih =>
    simp only [insLoop] at h
    split at h
    · next a' e' hr =>
      simp only [Prod.mk.injEq] at h
      obtain ⟨rfl, rfl⟩ := h
      rw [insRow_err c a a' g e' hr]
      exact ⟨g :: gs, hinv, fun hc => by cases hc⟩
    · next a' hr =>
      obtain ⟨v, ctr', gen, he, _, hev, hfgi, hlast, _⟩ := insRow_ok c a a' g hr
      have hflag := evalAuto_gen_flag c a.tbl.ctr g v ctr' gen he
      apply ih a' h
      rcases hinv with ⟨h1, h2, h3⟩ | ⟨w, h1, h2, h3⟩
      · rw [firstGenIdx_cons] at h3
        cases hg : isGenGiven g with
        | true =>
          right
          rw [hg] at hflag h3
          simp only [if_true] at h3
          refine ⟨v, ?_, ?_, ?_⟩
          · rw [hev, firstGen_append_single, h1, hflag]; simp
          · rw [hlast, h3]; rfl
          · rw [hfgi, h3]; rfl
        | false =>
          left
          rw [hg] at hflag h3
          simp only [Bool.false_eq_true, if_false] at h3
          refine ⟨?_, ?_, ?_⟩
          · rw [hev, firstGen_append_single, h1, hflag]; simp
          · rw [hlast, h3]
            cases firstGenIdx gs <;> simp [tickLast, h2]
          · rw [hfgi, h3]
            cases firstGenIdx gs <;> simp [tickLast]
      · right
        refine ⟨w, ?_, ?_, ?_⟩
        · rw [hev, firstGen_append_single, h1]
        · rw [hlast, h3]; simp [tickLast, h2]
        · rw [hfgi, h3]; simp [tickLast]

/-- If the loop started with no generated event and ends with one, the static index of the
first generating tuple lies among the rows that were inserted. -/
theorem insLoop_gen_idx (c : Cfg) (gs : List (Option Int)) (a af : InsAcc) (e : Option Err)
    (h : insLoop c gs a = (af, e)) (h0 : firstGen a.evs = none) (v : Int) (h1 : firstGen af.evs = some v) :
    ∃ i, firstGenIdx gs = some i ∧ a.evs.length + i < af.evs.length := by
  induction gs generalizing a with
  | nil =>
    simp only [insLoop, Prod.mk.injEq] at h
    rw [← h.1, h0] at h1; cases h1
  | cons g gs ih =>
    simp only [insLoop] at h
    split at h
    · next a' e' hr =>
      simp only [Prod.mk.injEq] at h
      rw [← h.1, insRow_err c a a' g e' hr, h0] at h1; cases h1
    · next a' hr =>
      obtain ⟨w, ctr', gen, he, _, hev, _⟩ := insRow_ok c a a' g hr
      have hflag := evalAuto_gen_flag c a.tbl.ctr g w ctr' gen he
      obtain ⟨r, hr'⟩ := insLoop_evs c gs a' af e h
      rw [firstGenIdx_cons]
      cases hg : isGenGiven g with
      | true =>
        refine ⟨0, by simp, ?_⟩
        rw [hr', hev]; simp
      | false =>
        rw [hg] at hflag
        have h0' : firstGen a'.evs = none := by
          rw [hev, firstGen_append_single, h0, hflag]; simp
        obtain ⟨i, hi1, hi2⟩ := ih a' h h0'
        refine ⟨i + 1, by simp [hi1], ?_⟩
        rw [hev] at hi2
        simp only [List.length_append, List.length_singleton] at hi2
        omega

/-- `first` is the value of the first event. -/
theorem insLoop_first (c : Cfg) (gs : List (Option Int)) (a af : InsAcc) (e : Option Err)
    (h : insLoop c gs a = (af, e)) (hinv : a.first = a.evs.head?.map (·.v)) :
    af.first = af.evs.head?.map (·.v) := by
  induction gs generalizing a with
  | nil => simp only [insLoop, Prod.mk.injEq] at h; rw [← h.1]; exact hinv
  | cons g gs ih =>
    simp only [insLoop] at h
    split at h
    · next a' e' hr =>
      simp only [Prod.mk.injEq] at h
      rw [← h.1, insRow_err c a a' g e' hr]; exact hinv
    · next a' hr =>
      obtain ⟨v, ctr', gen, _, _, hev, _, _, hfirst⟩ := insRow_ok c a a' g hr
      apply ih a' h
      rw [hfirst, hev, hinv]
      cases a.evs <;> simp

/-! ## Rows that reach the editor without `AutoIncrement.Eval` (table rewrites) -/

theorem afterInsert_ge (c : Cfg) (k : Nat) (v : Int) : k ≤ afterInsert c k v := by
  have := afterInsert_spec c k v; omega

theorem afterInsert_le_hi (c : Cfg) (k : Nat) (v : Int) (hk : (k : Int) ≤ c.hi) (hv : v ≤ c.hi) :
    (afterInsert c k v : Int) ≤ c.hi := by
  have := afterInsert_spec c k v; omega

theorem reinsertCtr_ge (c : Cfg) (rows : List Row) (k : Nat) : k ≤ reinsertCtr c k rows := by
  induction rows generalizing k with
  | nil => exact Nat.le_refl _
  | cons r rs ih =>
    have h1 := afterInsert_ge c k r.id
    have h2 := ih (afterInsert c k r.id)
    simp only [reinsertCtr, List.foldl_cons] at h2 ⊢
    omega

theorem reinsertCtr_le_hi (c : Cfg) (rows : List Row) (k : Nat) (hk : (k : Int) ≤ c.hi)
    (hr : ∀ r ∈ rows, r.id ≤ c.hi) : (reinsertCtr c k rows : Int) ≤ c.hi := by
  induction rows generalizing k with
  | nil => exact hk
  | cons r rs ih =>
    have h1 := afterInsert_le_hi c k r.id hk (hr r (by simp))
    have h2 := ih (afterInsert c k r.id) h1 (fun x hx => hr x (by simp [hx]))
    simpa only [reinsertCtr, List.foldl_cons] using h2

/-- **The editor alone keeps the counter above the rows it stores.** After any list of rows went
through `tableEditor.Insert` directly (a table rewrite re-inserting the old rows after the
truncation, a loader writing through `sql.RowInserter`), every one of them is below the counter,
or the counter is stuck at the type maximum — whatever the order and whatever gaps the ids have.
(This is what the `cmp > 0 ⇒ set, bump` branch of the editor is for: `AutoIncrement.Eval` never
saw these rows.) -/
theorem reinsert_covers_rows (c : Cfg) (rows : List Row) (k : Nat) (hk : (k : Int) ≤ c.hi)
    (hr : ∀ r ∈ rows, r.id ≤ c.hi) :
    ∀ r ∈ rows, r.id < (reinsertCtr c k rows : Int) ∨ ((reinsertCtr c k rows : Int) = c.hi ∧ r.id ≤ c.hi) := by
  induction rows generalizing k with
  | nil => intro r hr; cases hr
  | cons x xs ih =>
    intro r hmem
    have hx := hr x (by simp)
    have h1 := afterInsert_le_hi c k x.id hk hx
    have hge := reinsertCtr_ge c xs (afterInsert c k x.id)
    have hle := reinsertCtr_le_hi c xs (afterInsert c k x.id) h1 (fun y hy => hr y (by simp [hy]))
    have hs := afterInsert_spec c k x.id
    rcases List.mem_cons.mp hmem with heq | hin
    · subst heq
      simp only [reinsertCtr, List.foldl_cons] at hge hle ⊢
      omega
    · have := ih (afterInsert c k x.id) h1 (fun y hy => hr y (by simp [hy])) r hin
      simpa only [reinsertCtr, List.foldl_cons] using this

/-- A rewrite of a table whose rows are all in the log keeps the counter invariant's *row* part:
the next generated id exceeds every stored id (or the counter is saturated). -/
theorem rewrite_counter_above_rows (c : Cfg) (s : St) (h1 : (1 : Int) ≤ c.hi)
    (hr : ∀ r ∈ s.tbl.rows, r.id ≤ c.hi) :
    ∀ r ∈ (step c s .rewrite).1.tbl.rows,
      r.id < ((step c s .rewrite).1.tbl.ctr : Int) ∨
      (((step c s .rewrite).1.tbl.ctr : Int) = c.hi ∧ r.id ≤ c.hi) := by
  simp only [step]
  exact reinsert_covers_rows c s.tbl.rows 1 (by simpa using h1) hr

/-! ## Histories -/

/-- A lowering ALTER or a re-generation (the three "values" regions). -/
def valueRegion : Region → Bool
  | .alter_below_existing | .alter_below_counter | .saturated_reuse | .rewrite_lowers_counter => true
  | _ => false

theorem step_good (c : Cfg) (s : St) (o : Op)
    (hinv : CtrInv c s.tbl.ctr s.log) (hg : goodLog s.log = true)
    (hfl : ∀ r ∈ (step c s o).2.2, valueRegion r = false) :
    CtrInv c (step c s o).1.tbl.ctr (step c s o).1.log ∧ goodLog (step c s o).1.log = true := by
  cases o with
  | ins sess gs =>
    simp only [step] at hfl ⊢
    split
    · next a hl =>
      rw [hl] at hfl
      simp only at hfl ⊢
      have h0 : CtrInv c s.tbl.ctr (s.log ++ ([] : List Ev)) := by simpa using hinv
      obtain ⟨hI, hG⟩ := insLoop_good c s.log gs _ a hl h0
      refine ⟨hI, ?_⟩
      unfold goodLog at hg ⊢
      apply hG (by simpa using hg)
      cases hre : reuses c.hi s.log a.evs with
      | false => rfl
      | true =>
        have := hfl Region.saturated_reuse (by simp [hre])
        simp [valueRegion] at this
    · next a e hl =>
      simp only
      exact ⟨hinv, hg⟩
  | del lo hi => simp only [step]; exact ⟨hinv, hg⟩
  | upd a b =>
    simp only [step]
    split
    · exact ⟨hinv, hg⟩
    · split
      · exact ⟨hinv, hg⟩
      · split
        · exact ⟨hinv, hg⟩
        · exact ⟨hinv, hg⟩
  | alter n =>
    simp only [step] at hfl ⊢
    refine ⟨?_, hg⟩
    have hge : ¬ (n < s.tbl.ctr) := by
      intro hlt
      simp only [hlt, if_true] at hfl
      split at hfl
      · have := hfl Region.alter_below_existing (by simp); simp [valueRegion] at this
      · have := hfl Region.alter_below_counter (by simp); simp [valueRegion] at this
    intro w hw
    rcases hinv w hw with h | ⟨h1, h2⟩
    · left; omega
    · by_cases heq : n = s.tbl.ctr
      · right; rw [heq]; exact ⟨h1, h2⟩
      · left; omega
  | trunc =>
    simp only [step]
    exact ⟨(by intro w hw; cases hw), rfl⟩
  | rewrite =>
    simp only [step] at hfl ⊢
    refine ⟨?_, hg⟩
    have hge : ¬ (reinsertCtr c 1 s.tbl.rows < s.tbl.ctr) := by
      intro hlt
      simp only [hlt, if_true] at hfl
      have := hfl Region.rewrite_lowers_counter (by simp); simp [valueRegion] at this
    generalize reinsertCtr c 1 s.tbl.rows = n at hge
    intro w hw
    rcases hinv w hw with h | ⟨h1, h2⟩
    · left; omega
    · by_cases heq : n = s.tbl.ctr
      · right; rw [heq]; exact ⟨h1, h2⟩
      · left; omega

theorem run_good (c : Cfg) (s : St) (h : List Op)
    (hinv : CtrInv c s.tbl.ctr s.log) (hg : goodLog s.log = true)
    (hfl : ∀ r ∈ (run c s h).2, valueRegion r = false) :
    CtrInv c (run c s h).1.tbl.ctr (run c s h).1.log ∧ goodLog (run c s h).1.log = true := by
  induction h generalizing s with
  | nil => exact ⟨hinv, hg⟩
  | cons o os ih =>
    simp only [run] at hfl ⊢
    have h1 := step_good c s o hinv hg (fun r hr => hfl r (List.mem_append_left _ hr))
    exact ih (step c s o).1 h1.1 h1.2 (fun r hr => hfl r (List.mem_append_right _ hr))

end Gms.AutoInc

/-! ## Property theorems -/
namespace Gms.C20
open Gms.AutoInc

/-- The branch structure and the counter arithmetic the model transliterates are the ones the
extractor read from the source / dumped from the compiled code on this run. -/
theorem facts_match :
    Gms.Generated.C20.insertCounterChain = ["cmp > 0 => set,bump", "cmp == 0 => bump"] ∧
    Gms.Generated.C20.setAutoIncrementBody = ["t.editedTable.data.autoIncVal = val", "return nil"] ∧
    Gms.Generated.C20.getNextGuards = ["cmp > 0 && insertVal != nil => set"] ∧
    Gms.Generated.C20.truncateCounterValues = ["0", "1"] ∧
    Gms.Generated.C20.truncateSetsCounterTo = ["uint64(1)"] ∧
    Gms.Generated.C20.evalBranchConds = ["cmp < 0", "cmp == 0", "given == nil", "err == nil && inRange != sql.InRange"] ∧
    Gms.Generated.C20.updateLastInsertIdShape =
      ["if i.firstGeneratedAutoIncRowIdx < 0 return", "if i.firstGeneratedAutoIncRowIdx == 0 store",
       "i.firstGeneratedAutoIncRowIdx--"] ∧
    Gms.Generated.C20.insertIdGuards = ["!i.updatedAutoIncrementValue", "i.lastInsertIdGetter != nil"] := by
  decide

/-- `bump` is `updateAutoIncrementSafe`: on every dumped (type, counter) pair. -/
theorem bump_matches_code :
    Gms.Generated.C20.bumpTable.all (fun e => bump ⟨e.1, e.2.1, true⟩ e.2.2.1 == e.2.2.2) = true := by
  decide

/-- **Main theorem (unique, strictly increasing, above earlier explicit values, no reuse after
delete).** For every column range, key kind, start state satisfying the invariant and every
history of INSERT / DELETE / UPDATE / ALTER / TRUNCATE statements: if no step of the run falls
into one of the three value regions (lowering ALTER, re-generation at the type maximum), then in
the final log every generated value is greater than every value inserted before it (generated or
explicit, deleted since or not). -/
theorem gen_exceeds_all_earlier_partial (c : Cfg) (h : List Op)
    (hfl : ∀ r ∈ (run c St.init h).2, valueRegion r = false) :
    ∀ a e b, (run c St.init h).1.log = a ++ e :: b → e.gen = true → ∀ w ∈ a, w.v < e.v := by
  have := (run_good c St.init h (by intro w hw; cases hw) rfl hfl).2
  intro a e b hl hg w hw
  exact goodFrom_spec [] _ this a e b hl hg w (by simpa using hw)

/-- Corollary: generated values are strictly increasing in generation order (hence unique). -/
theorem gen_strict_mono_partial (c : Cfg) (h : List Op)
    (hfl : ∀ r ∈ (run c St.init h).2, valueRegion r = false)
    (a b d : List Ev) (e1 e2 : Ev) (hl : (run c St.init h).1.log = a ++ e1 :: b ++ e2 :: d)
    (_h1 : e1.gen = true) (h2 : e2.gen = true) : e1.v < e2.v := by
  have := gen_exceeds_all_earlier_partial c h hfl (a ++ e1 :: b) e2 d (by simpa using hl) h2 e1
  exact this (by simp)

/-- The same from any reachable state: the invariant pair is preserved by every region-free step. -/
theorem invariant_step (c : Cfg) (s : St) (o : Op)
    (hinv : CtrInv c s.tbl.ctr s.log) (hg : goodLog s.log = true)
    (hfl : ∀ r ∈ (step c s o).2.2, valueRegion r = false) :
    CtrInv c (step c s o).1.tbl.ctr (step c s o).1.log ∧ goodLog (step c s o).1.log = true :=
  step_good c s o hinv hg hfl

/-
Full statement (FALSE on the unchanged code; kept visible):
  theorem gen_exceeds_all_earlier (c h) : ∀ a e b, (run c St.init h).1.log = a ++ e :: b → e.gen → ∀ w ∈ a, w.v < e.v
Witnesses: `finding_alter_below_existing`, `finding_alter_below_counter`, `finding_saturated_reuse`,
`finding_rewrite_lowers_counter`.
-/

def t8 : Cfg := ⟨-128, 127, true⟩
def t8key : Cfg := ⟨-128, 127, false⟩

/-- DESIGN §8 F-C20-a: ids up to 127, `ALTER TABLE … AUTO_INCREMENT = 60`, next id is 60. -/
theorem finding_alter_below_existing :
    ∃ c h, goodLog (run c St.init h).1.log = false ∧ (run c St.init h).2 = [Region.alter_below_existing] :=
  ⟨t8, [.ins 0 [none, none], .ins 0 [some 127], .alter 60, .ins 0 [none]], by decide⟩

/-- ids 1..3 generated, all rows deleted, `ALTER … AUTO_INCREMENT = 2`: id 2 is handed out again. -/
theorem finding_alter_below_counter :
    ∃ c h, goodLog (run c St.init h).1.log = false ∧ (run c St.init h).2 = [Region.alter_below_counter] :=
  ⟨t8, [.ins 0 [none, none, none], .del (-128) 127, .alter 2, .ins 0 [none]], by decide⟩

/-- TINYINT with a plain KEY: 126 explicit, then NULL, NULL → 127 is generated twice. -/
theorem finding_saturated_reuse :
    ∃ c h, goodLog (run c St.init h).1.log = false ∧ (run c St.init h).2 = [Region.saturated_reuse] :=
  ⟨t8key, [.ins 0 [some 126], .ins 0 [none], .ins 0 [none]], by decide⟩

/-- ids 1..3 generated, 10 explicit and deleted again, then a table rewrite (ALTER TABLE … DROP
COLUMN): the counter 11 is re-derived as 4 and the next generated id is 4 < 10. -/
theorem finding_rewrite_lowers_counter :
    ∃ c h, goodLog (run c St.init h).1.log = false ∧ (run c St.init h).2 = [Region.rewrite_lowers_counter] :=
  ⟨t8, [.ins 0 [none, none, none], .ins 0 [some 10], .del 10 10, .rewrite, .ins 0 [none]], by decide⟩

/-- A rewrite of a table with gaps in its ids (1,2,3,10 stored) keeps the counter at 11: the next
generated id is 11 (non-vacuity of `rewrite_counter_above_rows`; no region is raised). -/
example : (run t8 St.init [.ins 0 [none, none, none], .ins 0 [some 10], .rewrite, .ins 0 [none]]).1.tbl.ctr = 12 ∧
    (run t8 St.init [.ins 0 [none, none, none], .ins 0 [some 10], .rewrite, .ins 0 [none]]).2 = [] := by decide

/-- With a PRIMARY KEY / UNIQUE column the saturated counter makes the insert fail (duplicate key)
as long as the maximum is still stored … -/
theorem saturation_errors (c : Cfg) (s : St) (sess : Nat) (gs : List (Option Int))
    (hu : c.uniq = true) (hsat : (s.tbl.ctr : Int) = c.hi) (hlo : c.lo ≤ c.hi)
    (hhas : s.tbl.has c.hi = true) :
    (step c s (.ins sess (none :: gs))).2.1 = .err .dup ∧
    (step c s (.ins sess (none :: gs))).1.tbl = s.tbl ∧ (step c s (.ins sess (none :: gs))).1.log = s.log := by
  have he : evalAuto c s.tbl.ctr none = .ok (s.tbl.ctr : Int) s.tbl.ctr true := by
    unfold evalAuto
    have : c.lo ≤ (s.tbl.ctr : Int) ∧ (s.tbl.ctr : Int) ≤ c.hi := by omega
    simp [this]
  have hrow : ∀ a : InsAcc, a.tbl = s.tbl → insRow c a none = (a, some .dup) := by
    intro a ha
    unfold insRow
    rw [ha, he]
    simp only [hu, Bool.true_and]
    rw [hsat, hhas]
    simp
  simp only [step, insLoop]
  rw [hrow _ rfl]
  simp

/-- … but after deleting the maximum it is handed out again (finding, same region). -/
theorem finding_saturated_reuse_after_delete :
    ∃ c h, goodLog (run c St.init h).1.log = false ∧ (run c St.init h).2 = [Region.saturated_reuse] :=
  ⟨t8, [.ins 0 [some 126], .ins 0 [none], .del 127 127, .ins 0 [none]], by decide⟩

/-- DELETE and UPDATE never touch the counter or the log ("not reused after deletes" is then
part of the main theorem, whose log keeps deleted values). -/
theorem delete_update_keep_counter (c : Cfg) (s : St) (lo hi a b : Int) :
    (step c s (.del lo hi)).1.tbl.ctr = s.tbl.ctr ∧ (step c s (.del lo hi)).1.log = s.log ∧
    (step c s (.upd a b)).1.tbl.ctr = s.tbl.ctr ∧ (step c s (.upd a b)).1.log = s.log := by
  refine ⟨rfl, rfl, ?_, ?_⟩ <;>
  · simp only [step]
    split
    · rfl
    · split
      · rfl
      · split <;> rfl

/-- A failed INSERT leaves the table (rows and counter) and the log exactly as they were. -/
theorem failed_insert_restores (c : Cfg) (s : St) (sess : Nat) (gs : List (Option Int)) (e : Err)
    (h : (step c s (.ins sess gs)).2.1 = .err e) :
    (step c s (.ins sess gs)).1.tbl = s.tbl ∧ (step c s (.ins sess gs)).1.log = s.log := by
  simp only [step] at h ⊢
  split
  · next a hl => rw [hl] at h; simp at h
  · exact ⟨rfl, rfl⟩

/-- ALTER … AUTO_INCREMENT = n sets the counter to n; a value generated next is n itself. -/
theorem alter_sets_counter (c : Cfg) (s : St) (n : Nat) (v : Int) (ctr' : Nat)
    (he : evalAuto c (step c s (.alter n)).1.tbl.ctr none = .ok v ctr' true) : v = n :=
  (evalAuto_gen c _ none v ctr' he).1

/-- **LAST_INSERT_ID().** After a *successful* INSERT the session value is the first value the
statement generated, or unchanged if it generated none; other sessions are never touched. -/
theorem last_insert_id_correct (c : Cfg) (s : St) (sess : Nat) (gs : List (Option Int)) (n i : Nat)
    (h : (step c s (.ins sess gs)).2.1 = .ok n i) :
    (step c s (.ins sess gs)).1.last sess =
      specLast (s.last sess) true ((step c s (.ins sess gs)).1.log.drop s.log.length) ∧
    ∀ other, other ≠ sess → (step c s (.ins sess gs)).1.last other = s.last other := by
  simp only [step] at h ⊢
  split
  · next a hl =>
    simp only [setLast, if_true, List.drop_left]
    constructor
    · obtain ⟨rest, hli, hrest⟩ := insLoop_last c (s.last sess) gs _ a none hl
        (Or.inl ⟨rfl, rfl, rfl⟩)
      have hrest := hrest rfl
      unfold specLast
      simp only [if_true]
      rcases hli with ⟨h1, h2, _⟩ | ⟨v, h1, h2, _⟩
      · rw [h1]; exact h2
      · rw [h1]; exact h2
    · intro other ho; simp [ho]
  · next a e hl => rw [hl] at h; simp at h

/-- A failed INSERT changes LAST_INSERT_ID() only in the listed region (a value had already
been generated and inserted when a later row failed). -/
theorem last_insert_id_failed_partial (c : Cfg) (s : St) (sess : Nat) (gs : List (Option Int)) (e : Err)
    (h : (step c s (.ins sess gs)).2.1 = .err e)
    (hfl : Region.failed_insert_sets_last_insert_id ∉ (step c s (.ins sess gs)).2.2) :
    (step c s (.ins sess gs)).1.last sess = s.last sess := by
  simp only [step] at h hfl ⊢
  split
  · next a hl => rw [hl] at h; simp at h
  · next a e' hl =>
    rw [hl] at hfl
    simp only [setLast, if_true]
    obtain ⟨rest, hli, _⟩ := insLoop_last c (s.last sess) gs _ a (some e') hl (Or.inl ⟨rfl, rfl, rfl⟩)
    rcases hli with ⟨_, h2, _⟩ | ⟨v, h1, h2, h3⟩
    · exact h2
    · -- a value was generated: then the flag is raised — contradiction
      exfalso
      apply hfl
      obtain ⟨i, hi1, hi2⟩ := insLoop_gen_idx c gs _ a (some e') hl rfl v h1
      rw [hi1]
      simp only [List.length_nil, Nat.zero_add] at hi2
      simp [hi2]

/-- **OK packet.** InsertID of a successful INSERT is the first generated value whenever the
statement's first row is a generating one (NULL / DEFAULT / 0 / column omitted). -/
theorem insert_id_partial (c : Cfg) (s : St) (sess : Nat) (g : Option Int) (gs : List (Option Int)) (n i : Nat)
    (hg : isGenGiven g = true)
    (h : (step c s (.ins sess (g :: gs))).2.1 = .ok n i) :
    specInsertId ((step c s (.ins sess (g :: gs))).1.log.drop s.log.length) = some i := by
  simp only [step] at h ⊢
  split
  · next a hl =>
    rw [hl] at h
    simp only [Res.ok.injEq] at h
    simp only [List.drop_left]
    have hf := insLoop_first c (g :: gs) _ a none hl rfl
    simp only [insLoop] at hl
    split at hl
    · simp at hl
    · next a' hr =>
      obtain ⟨v, ctr', gen, he, _, hev, _⟩ := insRow_ok c _ a' g hr
      have hflag := evalAuto_gen_flag c _ g v ctr' gen he
      obtain ⟨r, hr'⟩ := insLoop_evs c gs a' a none hl
      rw [hev] at hr'
      simp only [List.nil_append, List.singleton_append] at hr'
      rw [hflag, hg] at hr'
      rw [hr'] at hf ⊢
      simp only [List.head?_cons, Option.map_some] at hf
      rw [hf] at h
      simp only [Option.getD_some] at h
      simp [specInsertId, firstGen, h.2]
  · next a e hl => rw [hl] at h; simp at h

/-
Full statement (FALSE on the unchanged code): InsertID = first generated value for *every*
successful INSERT that generated a value. `insertRowHandler` takes the auto column of the first
row, generated or not.
-/
theorem finding_okpacket_first_row_explicit :
    (step t8 St.init (.ins 0 [some 20, none])).2.1 = .ok 2 20 ∧
    specInsertId ((step t8 St.init (.ins 0 [some 20, none])).1.log) = some 21 ∧
    (step t8 St.init (.ins 0 [some 20, none])).2.2 = [Region.okpacket_first_row_explicit] := by
  decide

/-
Full statement (FALSE on the unchanged code): a failed INSERT leaves LAST_INSERT_ID() alone.
`updateLastInsertId` stores the value as soon as the generating row is inserted; DiscardChanges
restores the table, not the session value.
-/
theorem finding_failed_insert_sets_last_insert_id :
    let s1 := (step t8 St.init (.ins 0 [some 5])).1
    s1.last 0 = 0 ∧ (step t8 s1 (.ins 0 [none, some 5])).2.1 = .err .dup ∧
    (step t8 s1 (.ins 0 [none, some 5])).1.last 0 = 6 ∧
    (step t8 s1 (.ins 0 [none, some 5])).2.2 = [Region.failed_insert_sets_last_insert_id] := by
  decide

/-- TRUNCATE starts a new lifetime: counter 1, empty log. -/
theorem truncate_resets (c : Cfg) (s : St) :
    (step c s .trunc).1.tbl.ctr = 1 ∧ (step c s .trunc).1.log = [] ∧ (step c s .trunc).1.tbl.rows = [] :=
  ⟨rfl, rfl, rfl⟩

/-! ### Non-vacuity -/

/-- A region-free history with explicit, generated, negative, zero, failed and deleted rows,
two sessions and a raising ALTER: no flag, and the log is what MySQL would produce. -/
example :
    (run t8 St.init [.ins 0 [none, some 5, none, some 3], .ins 1 [some 5], .del 1 100,
                     .ins 1 [some 0, some (-2)], .alter 40, .ins 0 [none, none], .upd 40 90]).2 = [] ∧
    (run t8 St.init [.ins 0 [none, some 5, none, some 3], .ins 1 [some 5], .del 1 100,
                     .ins 1 [some 0, some (-2)], .alter 40, .ins 0 [none, none], .upd 40 90]).1.log
      = [⟨1, true⟩, ⟨5, false⟩, ⟨6, true⟩, ⟨3, false⟩, ⟨7, true⟩, ⟨-2, false⟩, ⟨40, true⟩, ⟨41, true⟩] := by
  decide

/-- `saturation_errors` is not vacuous: TINYINT PK holding 127 with the counter at 127. -/
example : (step t8 ⟨⟨127, [⟨127, 0⟩]⟩, fun _ => 0, [⟨127, false⟩], 1⟩ (.ins 0 [none])).2.1 = .err .dup := by
  decide

/-- `last_insert_id_correct`: first generated value of a mixed statement, other session untouched. -/
example : (step t8 St.init (.ins 1 [some 9, none, none])).1.last 1 = 10 ∧
    (step t8 St.init (.ins 1 [some 9, none, none])).1.last 0 = 0 := by decide

end Gms.C20
