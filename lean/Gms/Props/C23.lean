/-
C23 — Triggers fire exactly once per affected row, inside the statement.

Model: `Gms/Model/Triggers.lean` (`specOrder` = MySQL's trigger order; `orderImpl cap` = `plan.OrderTriggers`
with Go's slice aliasing; `execDml` = per-row firing of one DML statement with audit-table triggers).

Full statement (false on the unchanged tree, see `finding_…`):
  ∀ cap ts, wellFormed ts → orderImpl cap ts = specOrder ts        and a failed statement leaves no audit row
What is proved:
  * `specOrder_perm`, `specOrder_respects` — the Spec order is a permutation of the triggers and puts every
    FOLLOWS trigger after / PRECEDES trigger before a trigger with the referenced name, for all trigger lists;
  * `orderTriggers_correct_partial` — for every capacity and every well-formed trigger list on which
    `OrderTriggers` does not overwrite a visible slot of its input slice (`¬ aliasVisible`, the Region
    predicate of the finding), the Impl model returns exactly the Spec order;
  * `fires_once_per_row_*` — for INSERT / UPDATE / DELETE, any ordered trigger list and any table, the audit
    trail consists, per affected row in statement order, of the BEFORE triggers in order followed by the
    AFTER triggers in order — each trigger exactly once per affected row, none for other rows.
-/
import Gms.Model.Triggers
import Gms.Generated.C23
set_option linter.unusedSimpArgs false
set_option linter.unusedVariables false

namespace Gms.Triggers

/-! ## Spec: permutation and FOLLOWS/PRECEDES -/

theorem specInsert_perm {ord o : List Trig} {t : Trig} (h : specInsert ord t = some o) : o.Perm (t :: ord) := by
  unfold specInsert at h
  split at h
  · cases h
    exact List.perm_append_comm
  · rename_i k ref _
    split at h
    · cases h
    · rename_i j _
      cases h
      have := @List.perm_middle _ t (ord.take (insPos k j)) (ord.drop (insPos k j))
      rw [List.take_append_drop] at this
      exact this

theorem specFold_perm : ∀ (ts acc o : List Trig), specFold acc ts = some o → o.Perm (acc ++ ts) := by
  intro ts
  induction ts with
  | nil => intro acc o h; simp only [specFold, Option.some.injEq] at h; subst h; simp
  | cons t ts ih =>
    intro acc o h
    simp only [specFold] at h
    split at h
    · cases h
    · rename_i acc' h1
      have p1 := ih acc' o h
      have p2 := specInsert_perm h1
      exact p1.trans ((p2.append_right ts).trans (List.perm_middle.symm))

theorem findName_some {r : TName} : ∀ {l : List Trig} {j : Nat}, findName r l = some j →
    ∃ x, l[j]? = some x ∧ x.name = r := by
  intro l
  induction l with
  | nil => intro j h; simp [findName] at h
  | cons t l ih =>
    intro j h
    simp only [findName] at h
    split at h
    · rename_i hn; cases h; exact ⟨t, rfl, hn⟩
    · cases hf : findName r l with
      | none => simp [hf] at h
      | some j' =>
        simp only [hf, Option.map_some, Option.some.injEq] at h
        subst h
        obtain ⟨x, hx, hn⟩ := ih hf
        exact ⟨x, by simpa using hx, hn⟩

theorem specInsert_sublist {ord o : List Trig} {t : Trig} (h : specInsert ord t = some o) : ord.Sublist o := by
  unfold specInsert at h
  split at h
  · cases h; exact List.sublist_append_left _ _
  · rename_i k ref _
    split at h
    · cases h
    · rename_i j _
      cases h
      have : (ord.take (insPos k j) ++ ord.drop (insPos k j)).Sublist (ord.take (insPos k j) ++ t :: ord.drop (insPos k j)) :=
        List.Sublist.append (List.Sublist.refl _) (List.sublist_cons_self _ _)
      rwa [List.take_append_drop] at this

theorem sublist_take_succ {l : List Trig} {j : Nat} {x : Trig} (h : l[j]? = some x) : [x].Sublist (l.take (j + 1)) := by
  induction l generalizing j with
  | nil => simp at h
  | cons a l ih =>
    cases j with
    | zero => simp at h; subst h; simp
    | succ j =>
      simp only [List.getElem?_cons_succ] at h
      simp only [List.take_succ_cons]
      exact (ih h).cons a

theorem drop_eq_cons {l : List Trig} {j : Nat} {x : Trig} (h : l[j]? = some x) : l.drop j = x :: l.drop (j + 1) := by
  induction l generalizing j with
  | nil => simp at h
  | cons a l ih =>
    cases j with
    | zero => simp at h; subst h; simp
    | succ j => simp only [List.getElem?_cons_succ] at h; simp [ih h]

/-- Placement at creation time: the new trigger stands right after (FOLLOWS) / before (PRECEDES)
a trigger with the referenced name. -/
theorem specInsert_respects {ord o : List Trig} {t : Trig} {k : OrdKind} {r : TName}
    (h : specInsert ord t = some o) (ho : t.order = some (k, r)) :
    ∃ x, x.name = r ∧ (k = .follows → [x, t].Sublist o) ∧ (k = .precedes → [t, x].Sublist o) := by
  unfold specInsert at h
  rw [ho] at h
  simp only at h
  split at h
  · cases h
  · rename_i j hj
    cases h
    obtain ⟨x, hx, hn⟩ := findName_some hj
    refine ⟨x, hn, ?_, ?_⟩
    · intro hk; subst hk
      simp only [insPos]
      have h2 : [t].Sublist (t :: ord.drop (j + 1)) := List.Sublist.cons_cons t (List.nil_sublist _)
      exact List.Sublist.append (sublist_take_succ hx) h2
    · intro hk; subst hk
      simp only [insPos]
      rw [drop_eq_cons hx]
      exact (List.Sublist.cons_cons t (List.Sublist.cons_cons x (List.nil_sublist _))).trans (List.sublist_append_right _ _)


/-- In the order `o`, trigger `t` stands after (FOLLOWS) / before (PRECEDES) a trigger carrying the
referenced name. -/
def Respects (o : List Trig) (t : Trig) : Prop :=
  ∀ k r, t.order = some (k, r) →
    ∃ x, x.name = r ∧ (k = .follows → [x, t].Sublist o) ∧ (k = .precedes → [t, x].Sublist o)

theorem specFold_respects : ∀ (ts acc o : List Trig), specFold acc ts = some o →
    acc.Sublist o ∧ ∀ t ∈ ts, Respects o t := by
  intro ts
  induction ts with
  | nil => intro acc o h; simp only [specFold, Option.some.injEq] at h; subst h; simp
  | cons t ts ih =>
    intro acc o h
    simp only [specFold] at h
    split at h
    · cases h
    · rename_i acc' h1
      obtain ⟨hs, hr⟩ := ih acc' o h
      refine ⟨(specInsert_sublist h1).trans hs, ?_⟩
      intro t' ht'
      rcases List.mem_cons.mp ht' with rfl | hm
      · intro k r ho
        obtain ⟨x, hn, hf, hp⟩ := specInsert_respects h1 ho
        exact ⟨x, hn, fun hk => (hf hk).trans hs, fun hk => (hp hk).trans hs⟩
      · exact hr t' hm

/-! ## `OrderTriggers` equals the Spec when it does not overwrite its input -/

/-- Every FOLLOWS/PRECEDES names a trigger created earlier (what MySQL accepts at CREATE time). -/
def wfFrom : List TName → List Trig → Bool
  | _, [] => true
  | seen, t :: ts =>
    (match t.order with
     | none => true
     | some (_, r) => seen.contains r) && wfFrom (seen ++ [t.name]) ts

def wellFormed (ts : List Trig) : Bool := wfFrom [] ts

theorem mutated_mono (cap : Nat) : ∀ rem i st, (orderLoop cap rem i st).mutated = false → st.mutated = false := by
  intro rem
  induction rem with
  | zero => intro i st h; exact h
  | succ rem ih =>
    intro i st h
    unfold orderLoop at h
    split at h
    · exact h
    · split at h
      · exact ih _ _ h
      · dsimp only at h
        split at h
        · exact h
        · have := ih _ _ h
          simp only [Bool.or_eq_false_iff] at this
          exact this.1

theorem findName_append_left {r : TName} : ∀ {S R : List Trig}, (∃ x ∈ S, x.name = r) →
    ∃ j, findName r (S ++ R) = some j ∧ j < S.length := by
  intro S
  induction S with
  | nil => intro R h; obtain ⟨x, hx, _⟩ := h; cases hx
  | cons a S ih =>
    intro R h
    simp only [List.cons_append, findName]
    by_cases ha : a.name = r
    · simp only [ha, if_true]; exact ⟨0, rfl, by simp⟩
    · simp only [ha, if_false]
      obtain ⟨x, hx, hn⟩ := h
      rcases List.mem_cons.mp hx with rfl | hm
      · exact absurd hn ha
      · obtain ⟨j, hj, hlt⟩ := ih (R := R) ⟨x, hm, hn⟩
        exact ⟨j + 1, by simp [hj], by simp; omega⟩

theorem findName_append_eq {r : TName} {S R : List Trig} {j : Nat} (h : findName r (S ++ R) = some j)
    (hj : j < S.length) : findName r S = some j := by
  induction S generalizing j with
  | nil => simp at hj
  | cons a S ih =>
    simp only [List.cons_append, findName] at h ⊢
    by_cases ha : a.name = r
    · simp only [ha, if_true] at h ⊢; exact h
    · simp only [ha, if_false] at h ⊢
      cases hf : findName r (S ++ R) with
      | none => simp [hf] at h
      | some j' =>
        simp only [hf, Option.map_some, Option.some.injEq] at h
        subst h
        simp only [List.length_cons] at hj
        rw [ih hf (by omega)]
        rfl

theorem eraseIdx_mid (S R : List Trig) (t : Trig) : (S ++ t :: R).eraseIdx S.length = S ++ R := by
  induction S with
  | nil => rfl
  | cons a S ih => simp only [List.cons_append, List.length_cons, List.eraseIdx_cons_succ, ih]

theorem insPos_le {k : OrdKind} {j n : Nat} (h : j < n) : insPos k j ≤ n := by
  cases k <;> simp [insPos] <;> omega

/-- Loop invariant of `OrderTriggers` for runs that never overwrite a visible input slot: after
the first `done.length` iterations the ordered slice is the Spec order of `done` followed by the
untouched rest. -/
theorem loop_spec (cap : Nat) : ∀ (rest done S : List Trig), S.Perm done →
    wfFrom (done.map (·.name)) rest = true →
    (orderLoop cap rest.length done.length
        { trig := done ++ rest, ord := S ++ rest, mutated := false, panicked := false }).mutated = false →
    (orderLoop cap rest.length done.length
        { trig := done ++ rest, ord := S ++ rest, mutated := false, panicked := false }).panicked = false ∧
    specFold S rest = some (orderLoop cap rest.length done.length
        { trig := done ++ rest, ord := S ++ rest, mutated := false, panicked := false }).ord := by
  intro rest
  induction rest with
  | nil => intro done S hp hw hm; simp [orderLoop, specFold]
  | cons t rest ih =>
    intro done S hp hw hm
    have hlen : S.length = done.length := hp.length_eq
    have hget : (done ++ t :: rest)[done.length]? = some t := by simp
    simp only [wfFrom, Bool.and_eq_true] at hw
    have hd1 : (done ++ [t]) ++ rest = done ++ t :: rest := by simp
    have hl1 : (done ++ [t]).length = done.length + 1 := by simp
    have hmap : (done ++ [t]).map (·.name) = done.map (·.name) ++ [t.name] := by simp
    simp only [List.length_cons] at hm ⊢
    unfold orderLoop at hm ⊢
    simp only [hget] at hm ⊢
    cases ho : t.order with
    | none =>
      simp only [ho] at hm ⊢
      have hS1 : (S ++ [t]) ++ rest = S ++ t :: rest := by simp
      have hp1 : (S ++ [t]).Perm (done ++ [t]) := hp.append_right [t]
      have := ih (done ++ [t]) (S ++ [t]) hp1 (by rw [hmap]; exact hw.2)
      rw [hd1, hS1, hl1] at this
      obtain ⟨h1, h2⟩ := this hm
      refine ⟨h1, ?_⟩
      simp only [specFold, specInsert, ho]
      exact h2
    | some kr =>
      obtain ⟨k, r⟩ := kr
      simp only [ho] at hm hw ⊢
      have hmem : ∃ x ∈ S, x.name = r := by
        have := hw.1
        simp only [List.contains_iff_mem, List.mem_map] at this
        obtain ⟨x, hx, hn⟩ := this
        exact ⟨x, hp.mem_iff.mpr hx, hn⟩
      have herase : (S ++ t :: rest).eraseIdx done.length = S ++ rest := by rw [← hlen]; exact eraseIdx_mid S rest t
      obtain ⟨j, hj, hjl⟩ := findName_append_left (R := rest) hmem
      have hjS := findName_append_eq hj hjl
      have hple : insPos k j ≤ S.length := insPos_le hjl
      simp only [herase, hj] at hm ⊢
      have htake : (S ++ rest).take (insPos k j) = S.take (insPos k j) := List.take_append_of_le_length hple
      have hdrop : (S ++ rest).drop (insPos k j) = S.drop (insPos k j) ++ rest := List.drop_append_of_le_length hple
      simp only [htake, hdrop] at hm ⊢
      -- the input slot write must have been invisible
      have hmono := mutated_mono cap _ _ _ hm
      simp only [Bool.false_or, bne_eq_false_iff_eq] at hmono
      simp only [hmono, bne_self_eq_false, Bool.or_false] at hm ⊢
      have hS1 : (S.take (insPos k j) ++ t :: S.drop (insPos k j)) ++ rest
          = S.take (insPos k j) ++ t :: (S.drop (insPos k j) ++ rest) := by simp
      have hins : specInsert S t = some (S.take (insPos k j) ++ t :: S.drop (insPos k j)) := by
        simp only [specInsert, ho, hjS]
      have hp1 : (S.take (insPos k j) ++ t :: S.drop (insPos k j)).Perm (done ++ [t]) :=
        (specInsert_perm hins).trans ((List.Perm.cons t hp).trans (List.perm_append_comm (l₁ := [t]) (l₂ := done)))
      have := ih (done ++ [t]) _ hp1 (by rw [hmap]; exact hw.2)
      rw [hd1, hS1, hl1] at this
      obtain ⟨h1, h2⟩ := this hm
      refine ⟨h1, ?_⟩
      simp only [specFold, hins]
      exact h2


/-! ## Statement level: every trigger of the ordered list runs once per affected row -/

theorem runBefore_names : ∀ (bf : List Trig) (old new : Option Row) (acc : List Audit),
    ((runBefore bf old new acc).2).map (·.n) = acc.map (·.n) ++ bf.map (·.name) := by
  intro bf
  induction bf with
  | nil => intro old new acc; simp [runBefore]
  | cons t ts ih =>
    intro old new acc
    simp only [runBefore, ih, List.map_append, List.map_cons, List.map_nil, auditOf, List.append_assoc,
      List.singleton_append]

theorem runBefore_some : ∀ (bf : List Trig) (old : Option Row) (r : Row) (acc : List Audit),
    ∃ r', (runBefore bf old (some r) acc).1 = some r' ∧ r'.a = r.a := by
  intro bf
  induction bf with
  | nil => intro old r acc; exact ⟨r, rfl, rfl⟩
  | cons t ts ih =>
    intro old r acc
    simp only [runBefore]
    cases t.setB with
    | none => exact ih old r _
    | some k =>
      obtain ⟨r', h1, h2⟩ := ih old { r with b := r.b + k } (acc ++ [auditOf t old (some { r with b := r.b + k })])
      exact ⟨r', h1, h2⟩

/-- The names fired for one affected row: the BEFORE triggers in order, then the AFTER triggers. -/
def rowNames (bf af : List Trig) : List TName := bf.map (·.name) ++ af.map (·.name)

theorem insertRows_names (bf af : List Trig) : ∀ (rows : List Row) (au : List Audit) (tbl : List Row) (au' : List Audit) (tbl' : List Row),
    insertRows bf af rows au tbl = (au', tbl', false) →
    au'.map (·.n) = au.map (·.n) ++ rows.flatMap (fun _ => rowNames bf af) := by
  intro rows
  induction rows with
  | nil => intro au tbl au' tbl' h; simp only [insertRows, Prod.mk.injEq] at h; simp [← h.1]
  | cons r rows ih =>
    intro au tbl au' tbl' h
    simp only [insertRows] at h
    obtain ⟨r', hr', _⟩ := runBefore_some bf none r au
    have hn := runBefore_names bf none (some r) au
    generalize hrb : runBefore bf none (some r) au = rb at h hr' hn
    obtain ⟨new, au1⟩ := rb
    simp only at hr' hn h
    subst hr'
    simp only at h
    split at h
    · simp at h
    · have := ih _ _ _ _ h
      rw [this]
      simp only [runAfter, List.map_append, List.map_map, hn, List.flatMap_cons, rowNames, List.append_assoc]
      congr 2

theorem deleteRows_names (bf af : List Trig) (lo : Int) : ∀ (tbl : List Row) (au : List Audit),
    ((deleteRows bf af lo tbl au).1).map (·.n) =
      au.map (·.n) ++ (tbl.filter (fun r => decide (lo ≤ r.a))).flatMap (fun _ => rowNames bf af) := by
  intro tbl
  induction tbl with
  | nil => intro au; simp [deleteRows]
  | cons r tbl ih =>
    intro au
    simp only [deleteRows]
    by_cases hlo : lo ≤ r.a
    · simp only [hlo, if_true, List.filter_cons, decide_true, List.flatMap_cons]
      rw [ih]
      have hn := runBefore_names bf (some r) none au
      simp only [runAfter, List.map_append, List.map_map, hn, rowNames, List.append_assoc]
      congr 2
    · simp only [hlo, if_false, List.filter_cons, decide_false]
      have := ih au
      generalize deleteRows bf af lo tbl au = res at this ⊢
      obtain ⟨a1, a2⟩ := res
      exact this

theorem updateRows_names (bf af : List Trig) (k lo : Int) : ∀ (tbl : List Row) (au : List Audit),
    ((updateRows bf af k lo tbl au).1).map (·.n) =
      au.map (·.n) ++ (tbl.filter (fun r => decide (lo ≤ r.a))).flatMap (fun _ => rowNames bf af) := by
  intro tbl
  induction tbl with
  | nil => intro au; simp [updateRows]
  | cons r tbl ih =>
    intro au
    simp only [updateRows]
    by_cases hlo : lo ≤ r.a
    · simp only [hlo, if_true, List.filter_cons, decide_true, List.flatMap_cons]
      have hn := runBefore_names bf (some r) (some { r with b := r.b + k }) au
      generalize hrb : runBefore bf (some r) (some { r with b := r.b + k }) au = rb at hn ⊢
      obtain ⟨new, au1⟩ := rb
      simp only at hn ⊢
      have := ih (runAfter af (some r) (some (new.getD r)) au1)
      generalize updateRows bf af k lo tbl (runAfter af (some r) (some (new.getD r)) au1) = res at this ⊢
      obtain ⟨a1, a2⟩ := res
      simp only at this ⊢
      rw [this]
      simp only [runAfter, List.map_append, List.map_map, hn, rowNames, List.append_assoc]
      congr 2
    · simp only [hlo, if_false, List.filter_cons, decide_false]
      have := ih au
      generalize updateRows bf af k lo tbl au = res at this ⊢
      obtain ⟨a1, a2⟩ := res
      exact this

end Gms.Triggers

/-! ## Property theorems -/
namespace Gms.C23
open Gms.Triggers

/-- The list surgery of `OrderTriggers`, the AFTER-reversal and wrapping of the analyzer, and the
append-growth capacities of a trigger slice are the ones the model transliterates. -/
theorem facts_match :
    Gms.Generated.C23.orderAssigns = ["make([]*CreateTrigger,len(triggers))", "copy(orderedTriggers,triggers)",
      "append(orderedTriggers[:i],orderedTriggers[i+1:]...)",
      "append(orderedTriggers[:j],append(triggers[i:i+1],orderedTriggers[j:]...)...)",
      "append(orderedTriggers,triggers[i])",
      "append(orderedTriggers[:j+1],append(triggers[i:i+1],orderedTriggers[j+1:]...)...)"]
    ∧ Gms.Generated.C23.orderRanges = ["i,trigger:=rangetriggers", "j,t:=rangeorderedTriggers", "_,trigger:=rangeorderedTriggers"]
    ∧ Gms.Generated.C23.orderTests = ["trigger.TriggerOrder!=nil", "t.TriggerName==ref",
      "trigger.TriggerOrder.PrecedesOrFollows==sqlparser.PrecedesStr", "trigger.TriggerOrder.PrecedesOrFollows==sqlparser.FollowsStr",
      "len(orderedTriggers)==j-1", "trigger.TriggerTime==sqlparser.BeforeStr"]
    ∧ Gms.Generated.C23.reverseAfter = ["for:left,right:=0,len(afterTriggers)-1;left<right;left,right=left+1,right-1",
      "body:afterTriggers[left],afterTriggers[right]=afterTriggers[right],afterTriggers[left]",
      "return:append(beforeTriggers,afterTriggers...)"]
    ∧ Gms.Generated.C23.wraps = ["*plan.InsertInto:before=n.Source:after=n", "*plan.Update:before=n.Child:after=n",
      "*plan.DeleteFrom:before=n.Child:after=n"]
    ∧ Gms.Generated.C23.appendCaps = [0, 1, 2, 4, 4, 8, 8, 8, 8, 16, 16, 16, 16, 16, 16, 16, 16] := by
  decide

/-- The Spec order is a permutation of the triggers: every trigger appears exactly once. -/
theorem specOrder_perm (ts o : List Trig) (h : specOrder ts = some o) : o.Perm ts := by
  have := specFold_perm ts [] o h
  simpa using this

/-- In the Spec order every FOLLOWS trigger stands after, and every PRECEDES trigger before, a
trigger with the referenced name. -/
theorem specOrder_respects (ts o : List Trig) (h : specOrder ts = some o) : ∀ t ∈ ts, Respects o t :=
  (specFold_respects ts [] o h).2

/-- **`OrderTriggers` is correct whenever it does not overwrite its input.** For every capacity of
the input slice and every well-formed trigger list: if the run never changes a visible element of
`triggers` (Region `order_input_aliasing` does not apply), the result is the Spec order (and it
does not panic). -/
theorem orderTriggers_correct_partial (cap : Nat) (ts : List Trig) (hw : wellFormed ts = true)
    (hr : aliasVisible cap ts = false) : orderImpl cap ts = specOrder ts := by
  have h := loop_spec cap ts [] [] (List.Perm.refl _) (by simpa [wellFormed] using hw)
  simp only [List.nil_append, List.length_nil] at h
  unfold aliasVisible orderRun at hr
  obtain ⟨h1, h2⟩ := h hr
  unfold orderImpl orderRun specOrder
  simp only [h1, Bool.false_eq_true, if_false]
  exact h2.symm

/-- … and in that case it inherits the Spec's guarantees. -/
theorem orderTriggers_perm_partial (cap : Nat) (ts o : List Trig) (hw : wellFormed ts = true)
    (hr : aliasVisible cap ts = false) (h : orderImpl cap ts = some o) : o.Perm ts ∧ ∀ t ∈ ts, Respects o t := by
  rw [orderTriggers_correct_partial cap ts hw hr] at h
  exact ⟨specOrder_perm ts o h, specOrder_respects ts o h⟩

/-- INSERT: per inserted row, the BEFORE triggers in order then the AFTER triggers in order — each
trigger of the event exactly once per row. -/
theorem fires_once_per_row_insert (atomic : Bool) (ordered : List Trig) (tbl rows : List Row)
    (hok : (execDml atomic ordered tbl (.insert rows)).outcome = .ok) :
    (execDml atomic ordered tbl (.insert rows)).audit.map (·.n) =
      rows.flatMap (fun _ => rowNames (befores ordered) (afters ordered)) := by
  simp only [execDml, firingOrder, List.reverse_reverse] at hok ⊢
  generalize hres : insertRows (befores ordered) (afters ordered) rows [] tbl = res at hok ⊢
  obtain ⟨au, tbl', failed⟩ := res
  cases failed with
  | true => simp at hok
  | false =>
    simp only [Bool.false_eq_true, if_false]
    have := insertRows_names _ _ rows [] tbl au tbl' hres
    simpa using this

theorem fires_once_per_row_update (atomic : Bool) (ordered : List Trig) (tbl : List Row) (k lo : Int) :
    (execDml atomic ordered tbl (.update k lo)).audit.map (·.n) =
      (tbl.filter (fun r => decide (lo ≤ r.a))).flatMap (fun _ => rowNames (befores ordered) (afters ordered)) := by
  simp only [execDml, firingOrder, List.reverse_reverse]
  have := updateRows_names (befores ordered) (afters ordered) k lo tbl []
  generalize updateRows (befores ordered) (afters ordered) k lo tbl [] = res at this ⊢
  obtain ⟨a1, a2⟩ := res
  simpa using this

theorem fires_once_per_row_delete (atomic : Bool) (ordered : List Trig) (tbl : List Row) (lo : Int) :
    (execDml atomic ordered tbl (.delete lo)).audit.map (·.n) =
      (tbl.filter (fun r => decide (lo ≤ r.a))).flatMap (fun _ => rowNames (befores ordered) (afters ordered)) := by
  simp only [execDml, firingOrder, List.reverse_reverse]
  have := deleteRows_names (befores ordered) (afters ordered) lo tbl []
  generalize deleteRows (befores ordered) (afters ordered) lo tbl [] = res at this ⊢
  obtain ⟨a1, a2⟩ := res
  simpa using this

/-- The row a BEFORE INSERT chain hands to the storage layer is the inserted row with every
`SET NEW.b = NEW.b + k` applied, and it keeps its key. -/
theorem before_new_keeps_key (bf : List Trig) (old : Option Row) (r : Row) (acc : List Audit) :
    ∃ r', (runBefore bf old (some r) acc).1 = some r' ∧ r'.a = r.a := runBefore_some bf old r acc

/-! ### Non-vacuity -/

def bt (n : TName) (o : Option (OrdKind × TName) := none) : Trig := { name := n, time := .before, order := o }
def atr (n : TName) (o : Option (OrdKind × TName) := none) : Trig := { name := n, time := .after, order := o }

/-- DESIGN's example: t1, t2, t3 PRECEDES t1, t4 FOLLOWS t1, t5 PRECEDES t2 ↦ t3,t1,t4,t5,t2; with a slice
of capacity 5 `OrderTriggers` does not alias and agrees. -/
example : let ts := [bt 1, bt 2, bt 3 (some (.precedes, 1)), bt 4 (some (.follows, 1)), bt 5 (some (.precedes, 2))]
    wellFormed ts = true ∧ aliasVisible 5 ts = false ∧
    (specOrder ts).map (·.map (·.name)) = some [3, 1, 4, 5, 2] ∧ (orderImpl 5 ts).map (·.map (·.name)) = some [3, 1, 4, 5, 2] := by
  decide

example : (execDml true [bt 1, atr 2] [⟨1, 10⟩, ⟨2, 20⟩] (.delete 2)).audit.map (·.n) = [1, 2] := by decide

/-! ### Findings on the unchanged tree -/

/-- Three triggers (slice capacity 4, as `applyTriggers` builds it): t1, t2 PRECEDES t1, t3 PRECEDES t2
fire as t2,t1,t3 instead of t3,t2,t1. -/
theorem finding_order_input_aliasing :
    let ts := [bt 1, bt 2 (some (.precedes, 1)), bt 3 (some (.precedes, 2))]
    wellFormed ts = true ∧ aliasVisible 4 ts = true ∧
    (orderImpl 4 ts).map (·.map (·.name)) = some [2, 1, 3] ∧ (specOrder ts).map (·.map (·.name)) = some [3, 2, 1] := by
  decide

/-- Five triggers (capacity 8): t3 fires three times, t4 and t5 never — the result is not even a
permutation of the triggers. -/
theorem finding_trigger_fires_thrice :
    let ts := [bt 1, bt 2 (some (.precedes, 1)), bt 3 (some (.follows, 1)), bt 4, bt 5]
    wellFormed ts = true ∧ aliasVisible 8 ts = true ∧
    (orderImpl 8 ts).map (·.map (·.name)) = some [2, 1, 3, 3, 3] ∧ (specOrder ts).map (·.map (·.name)) = some [2, 1, 3, 4, 5] := by
  decide

/-- Seven well-formed triggers (capacity 8): `OrderTriggers` panics ("Referenced trigger … not found"). -/
theorem finding_order_panics :
    let ts := [bt 1, bt 2 (some (.precedes, 1)), bt 3 (some (.follows, 2)), bt 4, bt 5 (some (.precedes, 4)), bt 6, bt 7]
    wellFormed ts = true ∧ aliasVisible 8 ts = true ∧ orderImpl 8 ts = none ∧
    (specOrder ts).map (·.map (·.name)) = some [2, 3, 1, 5, 4, 6, 7] := by
  decide

/-- A statement that fails on its second row keeps the audit rows its triggers wrote (memory
backend: no savepoints), while the table itself is unchanged. -/
theorem finding_failed_statement_keeps_trigger_effects :
    let ts := [{ bt 1 with setB := some 1 }, atr 2]
    (stmtImpl 2 ts [⟨1, 10⟩] (.insert [⟨5, 50⟩, ⟨1, 1⟩, ⟨6, 60⟩])).outcome = .dupKey ∧
    (stmtImpl 2 ts [⟨1, 10⟩] (.insert [⟨5, 50⟩, ⟨1, 1⟩, ⟨6, 60⟩])).audit.map (·.n) = [1, 2, 1] ∧
    (stmtSpec ts [⟨1, 10⟩] (.insert [⟨5, 50⟩, ⟨1, 1⟩, ⟨6, 60⟩])).map (·.audit) = some [] := by
  decide

end Gms.C23
